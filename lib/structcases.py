"""Shared case generation for the struct properties C05 / C08 / C09 (and C06)."""
import itertools

import structgen
from common import coq_string

ALL_OPTS = [{"bm_vertex": a, "bm_host": b, "encase": c, "serde": d, "mv": mv}
            for a in (False, True) for b in (False, True) for c in (False, True) for d in (False, True)
            for mv in ("Rust", "Glam", "Nalgebra")]


def expected_derives(o, host, rts):
    d = ["Debug"] + ([] if rts else ["Copy"]) + ["Clone", "PartialEq"]
    if (o["bm_host"] and host) or (o["bm_vertex"] and not host):
        d += ["bytemuck::Pod", "bytemuck::Zeroable"]
    if o["encase"] and host:
        d += ["encase::ShaderType"]
    if o["serde"]:
        d += ["serde::Serialize", "serde::Deserialize"]
    return d


def truth_term(truth, o):
    items = []
    for t in truth:
        asserts = o["bm_host"] and t["host"]
        items.append("(%s, [%s], %s, %s, [%s])" % (
            coq_string(t["name"]), "; ".join(coq_string(x) for x in expected_derives(o, t["host"], t["rts"])),
            "false" if t["rts"] else "true",
            "(Some %d%%N)" % t["size"] if asserts else "None",
            "; ".join("(%s, %d%%N)" % (coq_string(n), off) for n, off in t["offsets"]) if asserts else ""))
    return "[" + "; ".join(items) + "]"


def cases(rng, tier, nbase=None, **kw):
    n = nbase or {"quick": 170, "search": 400, "thorough": 1200}[tier]
    out = []
    for i in range(n):
        p = structgen.program(rng, **kw)
        if tier == "thorough":
            opts = ALL_OPTS
        else:
            opts = rng.sample(ALL_OPTS, 3)
            # make sure the interesting switches are hit regularly
            opts[0] = dict(opts[0], bm_host=True)
            opts[1] = dict(opts[1], encase=True, bm_host=False, bm_vertex=False)
            if i % 2 == 0:
                opts[2] = dict(opts[2], mv=opts[0]["mv"])      # two option sets with one representation: same field lists
        for o in opts:
            out.append({"wgsl": p["wgsl"], "family": "structs", "opts": dict(o), "truth": p["truth"],
                        "needs_encase": p["needs_encase"]})
    return out


def panic_expected(c):
    """the generator documents a panic for a struct ending in a runtime-sized array (always host-shareable in these
    programs) unless encase is on and the bytemuck host-shareable derive is off"""
    o = c["opts"]
    return bool(c.get("needs_encase")) and (not o.get("encase") or bool(o.get("bm_host")))


def nontrivial(c, r):
    return len(c["truth"]) >= 2 and r.get("result") == "ok"
