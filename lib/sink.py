"""Kitchen-sink shader generator: every section of the output at once, with WGSL-level ground truth."""
import struct as _struct

IDENT_POOL = ["alpha", "beta", "gamma", "delta", "eps", "zeta", "eta", "theta", "iota", "kappa", "lambda_", "mu",
              "Nu", "XI", "omicron", "Pi", "rho_1", "sigma2", "tau", "upsilon", "phi", "chi", "psi", "omega",
              "camelCase", "PascalCase", "snake_case", "SCREAMING", "x", "y1", "a_b_c", "Δt", "größe", "été", "名前"]


def f32_bits(x):
    return _struct.unpack("<I", _struct.pack("<f", x))[0]


def f64_bits(x):
    return _struct.unpack("<Q", _struct.pack("<d", x))[0]


class Names:
    def __init__(self, rng, unicode_ok=True):
        pool = [n for n in IDENT_POOL if unicode_ok or n.isascii()]
        self.unicode_ok = unicode_ok
        self.rng = rng
        rng.shuffle(pool)
        self.pool = pool
        self.k = 0
        self.used = set()

    def fresh_entry(self, prefix):
        """entry point names: every fourth carries letters whose Unicode upper case differs from the ASCII one"""
        n = self.fresh(prefix)
        if self.rng.random() < 0.06:
            # long names (labels, constants and function names derived from them must carry them whole)
            n += "_" + "_".join(self.rng.choice(["accumulate", "prefix", "sum", "histogram", "radix", "pass", "downsample", "bilateral", "upscale"])
                                for _ in range(self.rng.randint(5, 9)))
        if self.unicode_ok and self.rng.random() < 0.25:
            n += self.rng.choice(["_gr\u00f6\u00dfe", "_\u00e9t\u00e9", "\u00df", "_\u01c6"])
        elif self.rng.random() < 0.08:
            # names as naga_oil writes them for imported items: the entry point's NAME is the whole string
            n += self.rng.choice(["X_naga_oil_mod_XONUGCZDFOJZQX", "X_naga_oil_mod_XMNXW23LPNYX", "X_naga_oil_mod_XOBRHEX"])
        return n

    def fresh(self, prefix=""):
        while True:
            if self.k < len(self.pool):
                n = prefix + self.pool[self.k]
            else:
                n = "%sn%d" % (prefix, self.k)
            self.k += 1
            # Rust keywords WGSL does not reserve and template names are known findings of C01: avoid here
            if n.lower() in self.used or n in ("in", "dyn", "box", "x") and prefix == "":
                continue
            self.used.add(n.lower())
            return n


# ---------------------------------------------------------------------------------------
# constants
# ---------------------------------------------------------------------------------------

def gen_consts(rng, names, n):
    """returns (lines, truth) truth = list of (name, rust type, literal term for Coq)"""
    lines, truth = [], []
    ints = {}   # name -> (type, value) for references
    for _ in range(n):
        name = names.fresh("K_")
        if rng.random() < 0.12:
            # (all-lower-case `source` / `entries` / `device` .. would be captured as constant patterns by the template's
            # own bindings - known finding KF-C01-const-captures-binding - and are exercised by C01 only)
            special = [w for w in ("LEVEL_2_", "BIAS0_", "K9__", "Source", "Push_Constant_Stages", "Entry_Main", "entry_Main", "Entry_Vs_Main", "push_constant_stages",
                                   "layout_descriptor0", "vertex_attributes", "Wg") if w.lower() not in names.used]
            if special:
                name = rng.choice(special)
                names.used.add(name.lower())
        kind = rng.choice(["i32", "u32", "f32", "bool", "i32_inferred", "f32_inferred", "u32_expr", "i32_expr",
                           "ref", "f64", "i64", "u64", "vec", "array", "f32_extreme", "i32_extreme", "neg_zero",
                           "f32_expr", "bool_expr", "zero_scalar", "zero_vec", "neg_zero_expr", "splat",
                           "alias_typed", "alias_zero", "int_round", "alias_vec", "near_math_const", "near_math_const", "hex_expr"])
        if kind == "i32":
            v = rng.choice([0, 1, -1, 7, -12345, 2147483647, rng.randint(-10 ** 6, 10 ** 6)])
            lines.append("const %s: i32 = %d;" % (name, v))
            truth.append((name, "PI32", "(LI32 (%d)%%Z)" % v))
            ints[name] = ("i32", v)
        elif kind == "alias_typed":
            # declared through a WGSL alias: still a scalar constant of the aliased type
            al, ty, prim_, lit, txt = rng.choice([("Index", "u32", "PU32", "(LU32 255%N)", "255u"), ("Real", "f32", "PF32", "(LF32 %d%%N)" % f32_bits(0.75), "0.75"),
                                                  ("Count", "i32", "PI32", "(LI32 (-9)%Z)", "-9"), ("Flag", "bool", "PBool", "(LBool true)", "true")])
            if ("alias %s = %s;" % (al, ty)) not in lines:
                lines.insert(0, "alias %s = %s;" % (al, ty))
            lines.append("const %s: %s = %s;" % (name, al, txt))
            truth.append((name, prim_, lit))
        elif kind == "alias_zero":
            al, ty, prim_, lit = rng.choice([("Index", "u32", "PU32", "(LU32 0%N)"), ("Real", "f32", "PF32", "(LF32 0%N)"), ("Count", "i32", "PI32", "(LI32 0%Z)")])
            if ("alias %s = %s;" % (al, ty)) not in lines:
                lines.insert(0, "alias %s = %s;" % (al, ty))
            lines.append("const %s = %s();" % (name, al))
            truth.append((name, prim_, lit))
        elif kind == "alias_vec":
            if "alias Dir = vec3<f32>;" not in lines:
                lines.insert(0, "alias Dir = vec3<f32>;")
            lines.append(rng.choice(["const %s: Dir = Dir(0.0, 1.0, 0.0);", "const %s = Dir();", "const %s = vec4<f32>(Dir(), 1.0);"]) % name)
        elif kind == "int_round":
            # values whose decimal digit groups contain leading zeros
            v = rng.choice([100000, 1000000, 1048576, 1000000000, 1000001, 10000, 16000, 131072, 2000000007 % (2 ** 31), 100100100, 1002003])
            if rng.random() < 0.5:
                lines.append("const %s: u32 = %du;" % (name, v))
                truth.append((name, "PU32", "(LU32 %d%%N)" % v))
            else:
                sgn = rng.choice([1, -1])
                lines.append("const %s: i32 = %d;" % (name, sgn * v))
                truth.append((name, "PI32", "(LI32 (%d)%%Z)" % (sgn * v)))
        elif kind == "i32_inferred":
            v = rng.randint(0, 1000)
            lines.append("const %s = %d;" % (name, v))
            truth.append((name, "PI32", "(LI32 (%d)%%Z)" % v))
            ints[name] = ("i32", v)
        elif kind == "i32_extreme":
            lines.append("const %s: i32 = -2147483648;" % name)
            truth.append((name, "PI32", "(LI32 (-2147483648)%Z)"))
        elif kind == "u32":
            v = rng.choice([0, 1, 34, 4294967295, rng.randint(0, 2 ** 32 - 1)])
            lines.append("const %s: u32 = %du;" % (name, v))
            truth.append((name, "PU32", "(LU32 %d%%N)" % v))
            ints[name] = ("u32", v)
        elif kind == "u32_expr":
            a, b = rng.randint(0, 1000), rng.randint(1, 1000)
            lines.append("const %s = (%du * %du + %du) %% 65536u;" % (name, a, b, a))
            truth.append((name, "PU32", "(LU32 %d%%N)" % ((a * b + a) % 65536)))
        elif kind == "i32_expr":
            a, b = rng.randint(-100, 100), rng.randint(1, 100)
            lines.append("const %s: i32 = %d * %d - (%d);" % (name, a, b, b))
            truth.append((name, "PI32", "(LI32 (%d)%%Z)" % (a * b - b)))
            ints[name] = ("i32", a * b - b)
        elif kind == "ref" and ints:
            src = rng.choice(sorted(ints))
            t, v = ints[src]
            if t == "i32" and -2 ** 30 < v < 2 ** 30:
                lines.append("const %s = %s + 1;" % (name, src))
                truth.append((name, "PI32", "(LI32 (%d)%%Z)" % (v + 1)))
            else:
                lines.append("const %s = %s;" % (name, src))
                truth.append((name, "PU32" if t == "u32" else "PI32",
                              "(LU32 %d%%N)" % v if t == "u32" else "(LI32 (%d)%%Z)" % v))
        elif kind == "f32":
            v = rng.choice([0.5, 1.5, -2.25, 1024.0, 0.1, 3.14159, 1e-3, -7e8])
            lines.append("const %s: f32 = %r;" % (name, v))
            truth.append((name, "PF32", "(LF32 %d%%N)" % f32_bits(v)))
        elif kind == "f32_inferred":
            v = rng.choice([0.25, 2.5, 100.0, 0.3])
            lines.append("const %s = %r;" % (name, v))
            truth.append((name, "PF32", "(LF32 %d%%N)" % f32_bits(v)))
        elif kind == "hex_expr":
            # integer constants written in hexadecimal, alone and as the FIRST operand of a constant expression: the exported
            # value is the value of the whole expression
            a, b_ = rng.choice([(0x0F, 0xF0), (0x10, 0x01), (0xFF, 0x100), (0x7F, 0x80), (0x1, 0xFFFE)])
            form = rng.randrange(4)
            if form == 0:
                lines.append("const %s = 0x%Xu | 0x%Xu;" % (name, a, b_)); truth.append((name, "PU32", "(LU32 %d%%N)" % (a | b_)))
            elif form == 1:
                lines.append("const %s: u32 = 0x%Xu + %du;" % (name, a, b_)); truth.append((name, "PU32", "(LU32 %d%%N)" % (a + b_)))
            elif form == 2:
                lines.append("const %s: i32 = 0x%X * 3 - 1;" % (name, a)); truth.append((name, "PI32", "(LI32 (%d)%%Z)" % (a * 3 - 1)))
            else:
                lines.append("const %s: u32 = 0x%Xu;" % (name, b_)); truth.append((name, "PU32", "(LU32 %d%%N)" % b_))
        elif kind == "near_math_const":
            # values within a few ulps of the well-known math constants (and the constants themselves): the exported value
            # is the value written in the shader, whatever it is close to
            if rng.random() < 0.75:
                txt = rng.choice(["3.1415925", "3.1415927", "3.141593", "3.1415930", "0.3183099", "0.31830987", "0.69314724", "0.6931472",
                                  "2.7182817", "2.718282", "1.4142137", "1.4142135", "6.2831855", "6.283185", "1.5707964", "1.5707962",
                                  "0.70710677", "0.7071068", "1.442695", "0.43429446", "2.3025851", "1.1283792", "0.63661975"])
                lines.append(rng.choice(["const %s: f32 = %s;", "const %s = %s;"]) % (name, txt))
                truth.append((name, "PF32", "(LF32 %d%%N)" % f32_bits(float(txt))))
            else:
                txt = rng.choice(["3.14159265", "3.141592653589793", "2.718281828", "0.6931471805599453", "0.693147180559945", "1.41421356237", "6.283185307179586"])
                lines.append("const %s: f64 = %slf;" % (name, txt))
                truth.append((name, "PF64", "(LF64 %d%%N)" % f64_bits(float(txt))))
        elif kind == "f32_expr":
            lines.append("const %s: f32 = 1.5 * 2.0 + 0.25;" % name)
            truth.append((name, "PF32", "(LF32 %d%%N)" % f32_bits(3.25)))
        elif kind == "f32_extreme":
            txt, v = rng.choice([("3.4028234e38", 3.4028234663852886e38), ("1.1754944e-38", 1.1754943508222875e-38),
                                 ("1e-45", 1.401298464324817e-45), ("-3.4028234e38", -3.4028234663852886e38)])
            lines.append("const %s: f32 = %s;" % (name, txt))
            truth.append((name, "PF32", "(LF32 %d%%N)" % f32_bits(v)))
        elif kind == "neg_zero":
            lines.append("const %s: f32 = -0.0;" % name)
            truth.append((name, "PF32", "(LF32 %d%%N)" % f32_bits(-0.0)))
        elif kind == "bool":
            v = rng.random() < 0.5
            lines.append("const %s: bool = %s;" % (name, "true" if v else "false"))
            truth.append((name, "PBool", "(LBool %s)" % ("true" if v else "false")))
        elif kind == "bool_expr":
            lines.append("const %s = 3 > 2 && !(1 == 2);" % name)
            truth.append((name, "PBool", "(LBool true)"))
        elif kind == "f64":
            v = rng.choice([1.5, 0.1, 1e300, 4.9e-324])
            lines.append("const %s: f64 = %rlf;" % (name, v))
            truth.append((name, "PF64", "(LF64 %d%%N)" % f64_bits(v)))
        elif kind == "i64":
            v = rng.choice([5, 9223372036854775807, 1 << 40, 1000000000000, -4000000000, 10 ** 18 + 1])
            lines.append("const %s: i64 = %dli;" % (name, v))
            truth.append((name, "PI64", "(LI64 (%d)%%Z)" % v))
        elif kind == "u64":
            v = rng.choice([5, 18446744073709551615, 1 << 50, 5000000000, 10 ** 19])
            lines.append("const %s: u64 = %dlu;" % (name, v))
            truth.append((name, "PU64", "(LU64 %d%%N)" % v))
        elif kind == "zero_scalar":
            ty, prim_, lit = rng.choice([("f32", "PF32", "(LF32 0%N)"), ("u32", "PU32", "(LU32 0%N)"), ("i32", "PI32", "(LI32 0%Z)"),
                                         ("bool", "PBool", "(LBool false)")])
            lines.append(rng.choice(["const %s = %s();", "const %s: %s = %s();"]).replace("%s: %s", "%s: " + ty) % ((name, ty) if True else ()))
            truth.append((name, prim_, lit))
        elif kind == "zero_vec":
            lines.append("const %s = %s();" % (name, rng.choice(["vec3<f32>", "mat2x2<f32>", "vec4<u32>", "array<f32, 2>"])))
        elif kind == "splat":
            lines.append("const %s = vec2<i32>(7);" % name)
        elif kind == "neg_zero_expr":
            lines.append("const %s: f32 = -1.0 * 0.0;" % name)
            truth.append((name, "PF32", "(LF32 %d%%N)" % f32_bits(-0.0)))
        elif kind == "vec":
            lines.append("const %s = vec3<f32>(1.0, 2.0, 3.0);" % name)
        elif kind == "array":
            lines.append("const %s = array<i32, 3>(1, 2, 3);" % name)
    return lines, truth


def coq_consts_truth(truth):
    return "[" + "; ".join('(mkOutConst %s %s %s)' % (_cs(n), t, l) for n, t, l in truth) + "]"


def _cs(s):
    return '"' + s.replace('"', '""') + '"%string'


# ---------------------------------------------------------------------------------------
# overrides
# ---------------------------------------------------------------------------------------

def gen_overrides(rng, names, n):
    lines, truth = [], []
    used_ids = set()
    prev = []
    for _ in range(n):
        name = names.fresh("ov_")
        if rng.random() < 0.12:
            # weak / future Rust keywords and prelude-ish words: ordinary identifiers for WGSL and for edition 2021
            special = [w for w in ("gen", "raw", "safe", "r", "try_", "Some_", "value", "entries", "self_")
                       if w not in names.used]
            if special:
                name = rng.choice(special)
                names.used.add(name)
        ty = rng.choice(["bool", "i32", "u32", "f32"])
        has_id = rng.random() < 0.4
        oid = None
        if has_id:
            oid = rng.choice([0, 1, 7, 35, 1000, 65535, rng.randint(0, 65535)])
            while oid in used_ids:
                oid = rng.randint(0, 65535)
            used_ids.add(oid)
        has_default = rng.random() < 0.5
        default = ""
        dflt = None
        if has_default:
            same = [p for p, t in prev if t == ty and ty != "bool"]
            if same and rng.random() < 0.4:
                ref = rng.choice(same)
                default = " = %s * 2%s" % (ref, {"i32": "", "u32": "u", "f32": ".0"}[ty])
                dflt = {"mul2": ref}
            else:
                default = " = " + {"bool": "true", "i32": "-3", "u32": "4u", "f32": "0.5"}[ty]
                dflt = {"lit": {"bool": True, "i32": -3, "u32": 4, "f32": 0.5}[ty]}
        spelled = ty
        if rng.random() < 0.15:
            # the type spelled through a WGSL alias that nothing else in the module uses
            spelled = {"bool": "OvFlag", "i32": "OvCount", "u32": "OvIndex", "f32": "OvReal"}[ty]
            if ("alias %s = %s;" % (spelled, ty)) not in lines:
                lines.insert(0, "alias %s = %s;" % (spelled, ty))
        lines.append("%soverride %s: %s%s;" % ("@id(%d) " % oid if has_id else "", name, spelled, default))
        truth.append({"name": name, "ty": ty, "id": oid, "default": has_default, "dflt": dflt})
        prev.append((name, ty))
    return lines, truth


def override_assignments(rng, truth, n=3):
    """n assignments of values to the OverrideConstants fields (None = leave an optional field unset); the values stay
    small enough that a `* 2` default cannot overflow"""
    pools = {"bool": [True, False], "i32": [0, 1, -1, -7, 12345, -1000000, 1073741823, -1073741824],
             "u32": [0, 1, 9, 65536, 2147483647, 16777217], "f32": [0.0, 1.0, -2.5, 0.1, 3.4e37, -1.0e-40, 16777216.0]}
    out = []
    for k in range(n):
        a = {}
        for t in truth:
            if t["default"] and (k == 1 or (k > 1 and rng.random() < 0.5)):
                a[t["name"]] = None
            else:
                a[t["name"]] = rng.choice(pools[t["ty"]])
        out.append(a)
    return out


def coq_overrides_truth(truth):
    if not truth:
        return "None"
    prim = {"bool": "PBool", "i32": "PI32", "u32": "PU32", "f32": "PF32"}
    fields = "; ".join("(%s, %s)" % (_cs(t["name"]), ("(ROption (RPrim %s))" if t["default"] else "(RPrim %s)") % prim[t["ty"]])
                       for t in truth)

    def ent(t):
        key = str(t["id"]) if t["id"] is not None else t["name"]
        return "(mkOvEntry %s %s %s)" % (_cs(key), _cs(t["name"]), "true" if t["ty"] == "bool" else "false")
    req = "; ".join(ent(t) for t in truth if not t["default"])
    opt = "; ".join(ent(t) for t in truth if t["default"])
    return "(Some (mkOutOverrides [%s] [%s] [%s]))" % (fields, req, opt)


# ---------------------------------------------------------------------------------------
# entry points
# ---------------------------------------------------------------------------------------

VTYPES = [("f32", 4), ("vec2<f32>", 8), ("vec3<f32>", 12), ("vec4<f32>", 16), ("i32", 4), ("vec2<i32>", 8),
          ("vec4<u32>", 16), ("u32", 4), ("vec3<u32>", 12), ("vec3<i32>", 12)]


class _Sometimes:
    """formats as its text in ~60 % of its uses, as nothing otherwise"""

    def __init__(self, rng, text):
        self.rng, self.text = rng, text

    def __str__(self):
        return self.text if self.rng.random() < 0.6 else ""


def gen_entries(rng, names, ov_names, wg_overrides=False):
    """returns (struct/decl lines, entry lines, truth)"""
    decl, ents, truth = [], [], []
    nv, nf, nc = rng.choice([(1, 1, 0), (0, 0, 1), (1, 1, 1), (2, 1, 0), (0, 2, 2), (1, 0, 0), (0, 1, 0), (2, 2, 2), (0, 0, 0),
                             (3, 1, 0), (3, 0, 1), (2, 0, 0)])
    # an override is used by SOME entry points only (directly, or not at all): the helpers must pass the map regardless
    use_ov = _Sometimes(rng, ("_ = %s;" % ov_names[0]) if ov_names else "")
    vstructs = []
    first_chosen = None
    for i in range(rng.randint(0, 3) if nv < 2 else rng.randint(2, 3)):
        sn = names.fresh("VIn")
        sn = sn[0].upper() + sn[1:]
        fields, locs, has_bi = [], set(), False
        loc = rng.randint(0, 3)
        for j in range(rng.randint(1, 4)):
            if rng.random() < 0.2 and not has_bi:
                fields.append("@builtin(vertex_index) b%d: u32" % j)
                has_bi = True
                continue
            t, _ = rng.choice(VTYPES)
            fields.append("@location(%d) f%d: %s" % (loc, j, t))
            locs.add(loc)
            loc += rng.randint(1, 2)
        if not locs and rng.random() < 0.5:
            fields.append("@location(%d) only: f32" % loc)
            locs.add(loc)
        if rng.random() < 0.12:
            # a vertex input struct made of builtins only (still a struct parameter: one buffer)
            fields, locs, has_bi = ["@builtin(vertex_index) vidx: u32"], set(), True
        decl.append("struct %s { %s }" % (sn, ", ".join(fields)))
        vstructs.append((sn, locs, has_bi))
    for k in range(nv):
        name = names.fresh_entry("vs_")
        chosen, usedloc, used_bi = [], set(), False
        pool = list(vstructs)
        rng.shuffle(pool)
        for sn, locs, has_bi in pool[: rng.randint(0, 3) if not (nv >= 2 and k == 0) else rng.randint(2, 3)]:
            if locs & usedloc or (has_bi and used_bi):
                continue
            usedloc |= locs
            used_bi = used_bi or has_bi
            chosen.append(sn)
        if k >= 1 and first_chosen and len(first_chosen) >= 2 and rng.random() < 0.7:
            # share a struct with the first vertex entry NON-adjacently in the flattened parameter list: [A, B, .., A]
            chosen = [first_chosen[0]] + ([c for c in chosen if c not in first_chosen][:1] if rng.random() < 0.3 else [])
            if len(chosen) == 2:
                # keep locations / builtins disjoint
                info = {sn: (locs, bi) for sn, locs, bi in vstructs}
                if info[chosen[0]][0] & info[chosen[1]][0] or (info[chosen[0]][1] and info[chosen[1]][1]):
                    chosen = chosen[:1]
        if k == 0:
            first_chosen = list(chosen)
        params = ["p%d: %s" % (i, sn) for i, sn in enumerate(chosen)]
        if rng.random() < 0.3:
            params.insert(rng.randrange(len(params) + 1), "@builtin(instance_index) ii: u32")
        ents.append("@vertex fn %s(%s) -> @builtin(position) vec4<f32> { %s return vec4<f32>(0.0); }"
                    % (name, ", ".join(params), use_ov))
        truth.append({"name": name, "stage": "vertex", "structs": chosen})
    for k in range(nf):
        name = names.fresh_entry("fs_")
        form = rng.choice(["none", "builtin", "scalar0", "vec_k", "struct_dense", "struct_sparse", "struct_builtin", "struct_dual"])
        if form == "none":
            ents.append("@fragment fn %s() { %s }" % (name, use_ov))
            need = 0
        elif form == "builtin":
            ents.append("@fragment fn %s() -> @builtin(frag_depth) f32 { %s return 0.5; }" % (name, use_ov))
            need = 0
        elif form == "scalar0":
            ents.append("@fragment fn %s() -> @location(0) f32 { %s return 0.5; }" % (name, use_ov))
            need = 1
        elif form == "vec_k":
            loc = rng.choice([0, 1, 2, 5])
            ents.append("@fragment fn %s() -> @location(%d) vec4<f32> { %s return vec4<f32>(0.0); }" % (name, loc, use_ov))
            need = loc + 1
        elif form == "struct_dual":
            # dual-source blending: two members at @location(0), the second marked as the second blend source -> ONE target
            sn = names.fresh("FOut")
            sn = sn[0].upper() + sn[1:]
            decl.append("struct %s { @location(0) c0: vec4<f32>, @location(0) @second_blend_source c1: vec4<f32> }" % sn)
            ents.append("@fragment fn %s() -> %s { %s var o: %s; return o; }" % (name, sn, use_ov, sn))
            need = 1
        else:
            sn = names.fresh("FOut")
            sn = sn[0].upper() + sn[1:]
            if form == "struct_dense":
                locs = list(range(rng.randint(1, 4)))
            else:
                locs = sorted(rng.sample(range(0, 7), rng.randint(1, 3)))
            fields = ["@location(%d) o%d: vec4<f32>" % (l, l) for l in locs]
            if form == "struct_builtin":
                fields.insert(rng.randrange(len(fields) + 1), "@builtin(frag_depth) depth: f32")
            if rng.random() < 0.5:
                rng.shuffle(fields)
            decl.append("struct %s { %s }" % (sn, ", ".join(fields)))
            ents.append("@fragment fn %s() -> %s { %s var o: %s; return o; }" % (name, sn, use_ov, sn))
            need = max(locs) + 1
        truth.append({"name": name, "stage": "fragment", "targets": need})
    for k in range(nc):
        name = names.fresh_entry("cs_")
        dims = rng.choice([[1], [64], [8, 8], [4, 2, 3], [256, 1, 1], [1, 1, 64], [16, 16], ["WG"], [2, "WG"]])
        if wg_overrides and rng.random() < 0.35:
            # dimensions given by overrides (of either integer type, with and without default, or an expression over one):
            # outside C14's quantifier (naga reports 1 for them) - the module still has to compile
            ovn = "wgo_%d" % len(ents)
            decl.append(rng.choice(["override %s = 64;", "override %s: i32 = 2;", "override %s: u32 = 16u;", "override %s: u32;", "@id(77) override %s: i32 = 8;"]) % ovn)
            dims = rng.choice([[ovn], [ovn, 2], [4, ovn], [ovn, ovn, 1], ["%s * 2" % ovn]])
        wg = [d if isinstance(d, int) else (4 if d == "WG" else 1) for d in dims] + [1] * (3 - len(dims))
        ents.append("@compute @workgroup_size(%s) fn %s() { %s }" % (", ".join(str(d) for d in dims), name, use_ov))
        truth.append({"name": name, "stage": "compute", "wg": wg})
    if any("WG" in e for e in ents):
        decl.append("const WG: u32 = 4u;")
    if rng.random() < 0.5:
        # entry points declared in any order (a fragment / compute entry before the first vertex entry ...)
        pairs = list(zip(ents, truth))
        rng.shuffle(pairs)
        ents, truth = [p_[0] for p_ in pairs], [p_[1] for p_ in pairs]
    return decl, ents, truth


def coq_entries_truth(truth):
    comp = "; ".join("(%s, (%d%%N, %d%%N, %d%%N))" % (_cs(t["name"]), t["wg"][0], t["wg"][1], t["wg"][2])
                     for t in truth if t["stage"] == "compute")
    frag = "; ".join("(%s, %d%%N)" % (_cs(t["name"] + "_entry"), t["targets"]) for t in truth if t["stage"] == "fragment")
    vert = "; ".join("(%s, [%s])" % (_cs(t["name"] + "_entry"), "; ".join(_cs(s) for s in t["structs"]))
                     for t in truth if t["stage"] == "vertex")
    names = "; ".join(_cs(t["name"]) for t in truth)
    return "[%s]" % names, "[%s]" % comp, "[%s]" % frag, "[%s]" % vert


def sink(rng, n_consts=None, n_overrides=None, unicode_ok=True, wg_overrides=False):
    names = Names(rng, unicode_ok)
    cl, ct = gen_consts(rng, names, n_consts if n_consts is not None else rng.randint(0, 8))
    ol, ot = gen_overrides(rng, names, n_overrides if n_overrides is not None else rng.choice([0, 0, 1, 2, 4, 6]))
    dl, el, et = gen_entries(rng, names, [t["name"] for t in ot], wg_overrides)
    wgsl = "\n".join(cl + ol + dl + el) + "\n"
    if "const WG: u32 = 4u;" in dl:
        ct = ct + [("WG", "PU32", "(LU32 4%N)")]
    # an entry named WG-const clash guard
    return {"wgsl": wgsl, "consts": ct, "overrides": ot, "entries": et}
