"""Random struct / type DAG generator with WGSL-level ground truth:
which structs must be emitted (C08), their roles (C09), WGSL layout numbers (C05), member shapes (C06)."""

SCALARS = {"f32": 4, "i32": 4, "u32": 4}


def round_up(a, n):
    return (n + a - 1) // a * a


class Ty:
    """kind: scalar | vec | mat | atomic | array | rtarray | struct"""

    def __init__(self, kind, **kw):
        self.kind = kind
        self.__dict__.update(kw)

    # ---- WGSL text
    def wgsl(self):
        if getattr(self, "alias", None):
            return self.alias          # spelled through a WGSL `alias` declaration (same type, same layout, same shape)
        k = self.kind
        if k == "scalar":
            return self.s
        if k == "vec":
            return "vec%d<%s>" % (self.n, self.s)
        if k == "mat":
            return "mat%dx%d<%s>" % (self.c, self.r, self.s)
        if k == "atomic":
            return "atomic<%s>" % self.s
        if k == "array":
            return "array<%s, %d>" % (self.elem.wgsl(), self.n)
        if k == "rtarray":
            return "array<%s>" % self.elem.wgsl()
        if k == "struct":
            return self.name
        raise ValueError(k)

    # ---- WGSL layout (spec section 13.4)
    def align(self):
        k = self.kind
        w = 8 if getattr(self, "s", "") == "f64" else (1 if getattr(self, "s", "") == "bool" else 4)
        if k in ("scalar", "atomic"):
            return w
        if k == "vec":
            return w * (2 if self.n == 2 else 4)
        if k == "mat":
            return w * (2 if self.r == 2 else 4)
        if k in ("array", "rtarray"):
            return self.elem.align()
        if k == "struct":
            return max(m[1].align() for m in self.members)

    def size(self):
        k = self.kind
        w = 8 if getattr(self, "s", "") == "f64" else (1 if getattr(self, "s", "") == "bool" else 4)
        if k in ("scalar", "atomic"):
            return w
        if k == "vec":
            return w * self.n
        if k == "mat":
            return self.c * w * (2 if self.r == 2 else 4)
        if k == "array":
            return self.n * round_up(self.elem.align(), self.elem.size())
        if k == "rtarray":
            return round_up(self.elem.align(), self.elem.size())
        if k == "struct":
            off = 0
            for _, t in self.members:
                off = round_up(t.align(), off) + t.size()
            return round_up(self.align(), off)

    def offsets(self):
        off, res = 0, []
        for n, t in self.members:
            off = round_up(t.align(), off)
            res.append((n, off))
            off += t.size()
        return res

    # ---- shape (kind, width, dims) in WGSL memory order, for C06
    def shape(self):
        k = self.kind
        if k in ("scalar", "atomic"):
            return "(SScalar %s)" % prim(self.s)
        if k == "vec":
            return "(SArr %d%%N (SScalar %s))" % (self.n, prim(self.s))
        if k == "mat":
            return "(SArr %d%%N (SArr %d%%N (SScalar %s)))" % (self.c, self.r, prim(self.s))
        if k == "array":
            return "(SArr %d%%N %s)" % (self.n, self.elem.shape())
        if k == "rtarray":
            return "(SVecOf %s)" % self.elem.shape()
        if k == "struct":
            return '(SNamed "%s"%%string)' % self.name

    def structs_below(self, acc):
        if self.kind in ("array", "rtarray"):
            self.elem.structs_below(acc)
        elif self.kind == "struct":
            if self.name not in acc:
                acc[self.name] = self
                for _, t in self.members:
                    t.structs_below(acc)
        return acc


def prim(s):
    return {"f32": "PF32", "i32": "PI32", "u32": "PU32", "f64": "PF64", "bool": "PBool"}[s]


FIELD_NAMES = ["position", "normal", "uv", "color", "weights", "indices", "m", "a", "b", "c", "d", "scale", "bias",
               "data", "count", "flags", "inner", "items", "pad0", "tint", "v", "w", "mvp", "bones", "k", "t0", "t1",
               "_pad0", "_padding", "_pad", "padding", "_unused", "reserved", "x_", "self_", "len", "size", "align",
               "baseColor", "uvScale", "X", "gr\u00f6\u00dfe", "tex2D", "Normal"]


class Gen:
    def __init__(self, rng, allow_f64=False, allow_rts=True, allow_atomic=True, square_mats_only=False, scalar_kinds=None,
                 compat16=False, big_arrays=False, huge_arrays=False):
        self.rng = rng
        self.big_arrays = big_arrays
        self.huge_arrays = huge_arrays
        self.aliases = None            # dict wgsl type text -> alias name, when alias declarations are generated
        self.compat16 = compat16      # only 16-byte-multiple leafs: the Rust layout equals the WGSL layout
        self.structs = []
        self.allow_f64 = allow_f64
        self.allow_rts = allow_rts
        self.allow_atomic = allow_atomic
        self.square = square_mats_only
        self.scalars = scalar_kinds or ["f32", "i32", "u32"]

    def leaf(self):
        t = self._leaf()
        if self.aliases is not None and t.kind in ("scalar", "vec", "mat") and self.rng.random() < 0.25:
            key = t.wgsl()
            if key not in self.aliases:
                self.aliases[key] = "%s%d" % (self.rng.choice(["Alias", "Color", "Position", "real_t", "Mat"]), len(self.aliases))
            t.alias = self.aliases[key]
        return t

    def _leaf(self):
        r = self.rng
        k = r.random()
        if self.compat16:
            if k < 0.75:
                return Ty("vec", n=4, s=r.choice(self.scalars))
            return Ty("mat", c=4, r=4, s="f32")
        if k < 0.3:
            return Ty("scalar", s=r.choice(self.scalars + (["f64"] if self.allow_f64 else [])))
        if k < 0.65:
            return Ty("vec", n=r.choice([2, 3, 4]), s=r.choice(self.scalars + (["f64"] if self.allow_f64 and r.random() < 0.3 else [])))
        if k < 0.9:
            c = r.choice([2, 3, 4])
            rr = c if self.square else r.choice([2, 3, 4])
            return Ty("mat", c=c, r=rr, s="f64" if self.allow_f64 and r.random() < 0.2 else "f32")
        if self.allow_atomic:
            return Ty("atomic", s=r.choice(["u32", "i32"]))
        return Ty("scalar", s="u32")

    def member_type(self, depth, host):
        r = self.rng
        k = r.random()
        if depth > 0 and self.structs and k < 0.2:
            return r.choice(self.structs)
        if k < 0.35:
            base = self.member_type(depth - 1, host) if depth > 0 and r.random() < 0.5 else self.leaf()
            if base.kind == "atomic" and r.random() < 0.5:
                base = Ty("scalar", s="u32")
            n = r.choice([1, 2, 3, 4, 5, 8])
            if self.big_arrays and r.random() < 0.2:
                n = r.choice([32, 33, 40, 64])      # serde / bytemuck stop at 32 elements: the derive lists must not depend on it
            elif self.huge_arrays and base.kind in ("scalar", "vec", "mat") and r.random() < 0.15:
                # sizes / offsets of five and more digits; lengths with zero digit groups (10000, 131072, 100003)
                n = r.choice([752, 1000, 4096, 65536, 62600, 10000, 131072, 100003, 20480])
            return Ty("array", elem=base, n=n)
        return self.leaf()

    def new_struct(self, name, depth=2, host=True, rts=False, nmembers=None):
        r = self.rng
        n = nmembers or r.randint(1, 5)
        names = r.sample(FIELD_NAMES, n)
        members = [(names[i], self.member_type(depth, host)) for i in range(n)]
        if rts:
            elem = self.leaf() if r.random() < 0.6 or not self.structs else r.choice(self.structs)
            if elem.kind == "atomic":
                elem = Ty("scalar", s="u32")
            members.append(("tail", Ty("rtarray", elem=elem)))
        s = Ty("struct", name=name, members=members, has_rts=rts)
        self.structs.append(s)
        return s

    def render_struct(self, s, locations=None, builtin_at=None):
        parts = []
        for i, (n, t) in enumerate(s.members):
            attr = ""
            if locations is not None:
                attr = "@location(%d) " % locations[i]
            parts.append("  %s%s: %s," % (attr, n, t.wgsl()))
        if builtin_at is not None:
            parts.insert(builtin_at[0], "  @builtin(%s) %s: %s," % (builtin_at[1], builtin_at[2], builtin_at[3]))
        return "struct %s {\n%s\n}" % (s.name, "\n".join(parts))


IO_TYPES = [("f32", Ty("scalar", s="f32")), ("vec2<f32>", Ty("vec", n=2, s="f32")), ("vec3<f32>", Ty("vec", n=3, s="f32")),
            ("vec4<f32>", Ty("vec", n=4, s="f32")), ("u32", Ty("scalar", s="u32")), ("vec4<u32>", Ty("vec", n=4, s="u32")),
            ("vec2<i32>", Ty("vec", n=2, s="i32")), ("i32", Ty("scalar", s="i32")), ("vec3<u32>", Ty("vec", n=3, s="u32"))]


def program(rng, **kw):
    """A module with host structs (used by globals of several address spaces), unused structs, function-local
    structs, vertex input structs, inter-stage structs, fragment outputs. Returns dict with wgsl + truth."""
    bias = kw.pop("roles_bias", False)      # make multi-role structs (result + host, vertex + host, ...) likely
    allow_bool = kw.pop("allow_bool", False)  # structs with bool / vecN<bool> members (private / workgroup variables only)
    use_alias = kw.pop("aliases", True)
    result_as_vin = kw.pop("result_as_vertex_input", False)   # a struct that is a vertex parameter AND an entry point result (C08 only:
    #                                                            the generated module does not compile - listed finding of C01 / C07)
    g = Gen(rng, **kw)
    if use_alias and rng.random() < 0.35:
        g.aliases = {}
    lines, decls = [], []
    roles = {}   # struct name -> set of roles
    # host-side structs
    nhost = rng.randint(0, 5)
    for i in range(nhost):
        style = rng.choice(["H%d", "H%dData", "H%d_s", "H%dBlock", "H%d", "_H%d", "h%d_data", "Gr\u00f6\u00dfe%d", "UBO%d", "Light2D%d", "_globals%d"])
        s = g.new_struct(style % i, depth=rng.randint(0, 3))
    host_structs = list(g.structs)
    rts_struct = None
    if g.allow_rts and rng.random() < 0.35:
        rts_struct = g.new_struct("Tail%d" % rng.randint(0, 9), depth=1, rts=True)
        g.structs.remove(rts_struct)      # never nested
    # globals
    globals_ = []
    spaces = ["uniform", "storage_ro", "storage_rw", "private", "workgroup"]
    b = 0
    used_by_global = []
    for s in host_structs:
        if rng.random() < 0.6:
            sp = rng.choice(spaces)
            has_atomic = any(x.kind == "atomic" for x in all_leafs(s))
            if has_atomic and sp not in ("storage_rw", "workgroup"):
                sp = "storage_rw"
            t = s if rng.random() < 0.7 else Ty("array", elem=s, n=rng.choice([2, 3]))
            globals_.append((sp, "g%d" % b, t, b))
            used_by_global.append(t)
            b += 1
    if rts_struct is not None:
        globals_.append(("storage_rw" if any(x.kind == "atomic" for x in all_leafs(rts_struct)) else "storage_ro", "g%d" % b, rts_struct, b))
        used_by_global.append(rts_struct)
        b += 1
    if rng.random() < 0.3:
        t = g.leaf()
        if t.kind != "atomic":
            globals_.append(("uniform", "g%d" % b, t, b))
            b += 1
    # a struct reachable ONLY through an array of arrays (directly from a variable, or as a member of a wrapper struct)
    grid_structs = []
    if rng.random() < (0.5 if bias else 0.25):
        cell = g.new_struct("Cell%d" % rng.randint(0, 9), depth=0, nmembers=rng.randint(2, 3))
        g.structs.remove(cell)
        grid_structs.append(cell)
        outer = Ty("array", elem=Ty("array", elem=cell, n=rng.choice([2, 3])), n=rng.choice([2, 4]))
        sp = "storage_rw" if any(x.kind == "atomic" for x in all_leafs(cell)) else rng.choice(["storage_ro", "storage_rw"])
        if rng.random() < 0.5:
            globals_.append((sp, "g%d" % b, outer, b))
            used_by_global.append(outer)
        else:
            grid = Ty("struct", name="Grid", members=[("n", Ty("scalar", s="u32")), ("cells", outer)], has_rts=False)
            grid_structs.append(grid)
            globals_.append((sp, "g%d" % b, grid, b))
            used_by_global.append(grid)
        b += 1
    # two structurally identical structs under different names, both nested in one host struct (or as the element of
    # a trailing runtime-sized array): a field must name ITS struct
    twins_rts = False
    if rng.random() < (0.35 if not g.compat16 else 0.0):
        nm = rng.randint(1, 3)
        names = rng.sample(FIELD_NAMES, nm)
        ms = [(names[k], g.leaf()) for k in range(nm)]
        ms = [(n_, (Ty("scalar", s="u32") if t_.kind == "atomic" else t_)) for n_, t_ in ms]
        ta = Ty("struct", name="TwinA", members=list(ms), has_rts=False)
        tb = Ty("struct", name="TwinB", members=list(ms), has_rts=False)
        wrap_ms = [("first", ta), ("second", tb), ("more", Ty("array", elem=tb, n=2))]
        if rng.random() < 0.5:
            wrap_ms.reverse()
        use_rts = g.allow_rts and rng.random() < 0.4
        if use_rts:
            wrap_ms.append(("tail", Ty("rtarray", elem=rng.choice([ta, tb]))))
        tw = Ty("struct", name="Twins", members=wrap_ms, has_rts=use_rts)
        twins_rts = use_rts
        grid_structs += [ta, tb, tw]
        globals_.append(("storage_ro" if use_rts else rng.choice(["uniform", "storage_ro"]), "g%d" % b, tw, b))
        used_by_global.append(tw)
        b += 1
    # a chain of nested structs up to the WGSL limit on composite nesting depth, bound once directly and once through a
    # runtime-sized / fixed array; sometimes a later variable enters the chain in the middle first
    if rng.random() < (0.12 if not g.compat16 else 0.0):
        depth = rng.choice([13, 14, 15])
        chain = [Ty("struct", name="Deep1", members=[("v", Ty("vec", n=4, s="f32"))], has_rts=False)]
        for i in range(2, depth + 1):
            chain.append(Ty("struct", name="Deep%d" % i, members=[("inner", chain[-1]), ("k%d" % i, Ty("scalar", s="f32"))], has_rts=False))
        grid_structs += chain
        mid = chain[rng.randrange(1, depth - 1)]
        order_ = [(chain[-1], "deep_top"), (mid, "deep_mid")]
        if rng.random() < 0.5:
            order_.reverse()
        for t_, nm in order_:
            globals_.append(("storage_ro", nm, t_, b))
            used_by_global.append(t_)
            b += 1
    # bool members: only possible in private / workgroup variables
    if allow_bool and rng.random() < 0.5:
        ms = [("enabled", Ty("scalar", s="bool")), ("level", Ty("scalar", s="u32"))]
        if rng.random() < 0.6:
            ms.insert(rng.randrange(3), ("mask", Ty("vec", n=rng.choice([2, 3, 4]), s="bool")))
        if rng.random() < 0.4:
            ms.append(("history", Ty("array", elem=Ty("scalar", s="bool"), n=3)))
        fl = Ty("struct", name="Flags", members=ms, has_rts=False)
        grid_structs.append(fl)
        globals_.append((rng.choice(["private", "workgroup"]), "g%d" % b, fl, b))
        used_by_global.append(fl)
        b += 1
    # a struct reachable ONLY through a workgroup array whose length is an override (naga: ArraySize::Pending)
    ov_tile = False
    if rng.random() < 0.12:
        ov_tile = True
        tin = Ty("struct", name="TileCell", members=[("w", Ty("scalar", s="f32")), ("id", Ty("vec", n=2, s="u32"))], has_rts=False)
        tile = Ty("struct", name="Tile", members=[("sum", Ty("vec", n=4, s="f32")), ("cells", Ty("array", elem=tin, n=2)), ("n", Ty("scalar", s="u32"))], has_rts=False)
        grid_structs += [tin, tile]
        used_by_global.append(tile)
    # vertex inputs / interstage / fragment outputs
    vin, inter, fout = [], None, None
    io_lines = []
    nentry = rng.choice([0, 1, 1, 2]) if not bias else rng.choice([1, 2, 2, 2, 2])
    for i in range(rng.choice([0, 1, 1, 2]) if nentry else 0):
        n = rng.randint(1, 4)
        names = rng.sample(FIELD_NAMES, n)
        ms = [(names[k], rng.choice(IO_TYPES)[1]) for k in range(n)]
        if g.aliases is not None:
            # the same IO types spelled through an alias that NO module-scope variable uses
            ms2 = []
            for nm_, t_ in ms:
                if rng.random() < 0.5 and t_.kind in ("scalar", "vec"):
                    t2 = Ty(t_.kind, **{k_: v_ for k_, v_ in t_.__dict__.items() if k_ not in ("kind", "alias")})
                    key = "io:" + t2.wgsl()
                    if key not in g.aliases:
                        g.aliases[key] = "IoAlias%d" % len(g.aliases)
                    t2.alias = g.aliases[key]
                    t_ = t2
                ms2.append((nm_, t_))
            ms = ms2
        s = Ty("struct", name="VIn%d" % i, members=ms, has_rts=False)
        vin.append(s)
        locs = [k + 4 * i for k in range(n)]
        if rng.random() < 0.5:
            rng.shuffle(locs)          # declaration order unrelated to location order
        io_lines.append(g.render_struct(s, locations=locs))
    if nentry and rng.random() < 0.6:
        ms = [("clip", Ty("vec", n=4, s="f32")), ("uv", Ty("vec", n=2, s="f32"))]
        inter = Ty("struct", name="Inter", members=ms, has_rts=False, builtins={"clip"})
        io_lines.append("struct Inter {\n  @builtin(position) clip: vec4<f32>,\n  @location(0) uv: vec2<f32>,\n}")
    ids_struct = None
    if nentry and rng.random() < 0.3:
        # a struct parameter made of builtins only: it must be emitted (with no fields)
        ids_struct = Ty("struct", name="DrawIds", members=[("vi", Ty("scalar", s="u32")), ("ii", Ty("scalar", s="u32"))],
                        has_rts=False, builtins={"vi", "ii"})
        io_lines.append("struct DrawIds {\n  @builtin(vertex_index) vi: u32,\n  @builtin(instance_index) ii: u32,\n}")
    shared_host_vertex = None
    if nentry and host_structs and rng.random() < (0.5 if bias else 0.3):
        # a host struct that is ALSO a vertex input is only possible when its members are valid io types: make a fresh one
        variant = rng.randrange(3)
        if variant == 0:
            ms = [("p", Ty("vec", n=4, s="f32")), ("q", Ty("vec", n=4, s="f32"))]
            shared_host_vertex = Ty("struct", name="Both", members=ms, has_rts=False)
            io_lines.append("struct Both {\n  @location(10) p: vec4<f32>,\n  @location(11) q: vec4<f32>,\n}")
        elif variant == 1:     # a builtin member in the middle: skipped in Rust, but it occupies WGSL space
            ms = [("p", Ty("vec", n=4, s="f32")), ("idx", Ty("scalar", s="u32")), ("q", Ty("scalar", s="f32"))]
            shared_host_vertex = Ty("struct", name="Both", members=ms, has_rts=False, builtins={"idx"})
            io_lines.append("struct Both {\n  @location(10) p: vec4<f32>,\n  @builtin(instance_index) idx: u32,\n  @location(11) q: f32,\n}")
        else:                  # a builtin member first
            ms = [("idx", Ty("scalar", s="u32")), ("p", Ty("vec", n=2, s="f32")), ("q", Ty("vec", n=4, s="f32"))]
            shared_host_vertex = Ty("struct", name="Both", members=ms, has_rts=False, builtins={"idx"})
            io_lines.append("struct Both {\n  @builtin(vertex_index) idx: u32,\n  @location(10) p: vec2<f32>,\n  @location(11) q: vec4<f32>,\n}")
        globals_.append(("storage_ro", "g%d" % b, Ty("array", elem=shared_host_vertex, n=2), b))
        used_by_global.append(shared_host_vertex)
        b += 1
    fout_host = False
    if nentry and rng.random() < (0.85 if bias else 0.4):
        fout = Ty("struct", name="FOut", members=[("c0", Ty("vec", n=4, s="f32")), ("c1", Ty("vec", n=4, s="f32"))], has_rts=False)
        io_lines.append("struct FOut {\n  @location(0) c0: vec4<f32>,\n  @location(1) c1: vec4<f32>,\n}")
        if rng.random() < (0.7 if bias else 0.35):
            # an entry point result that is ALSO host-shareable (element of a storage array / member of a host struct)
            fout_host = True
            if rng.random() < 0.5:
                globals_.append(("storage_rw", "g%d" % b, Ty("array", elem=fout, n=3), b))
                used_by_global.append(fout)
            else:
                wrap = Ty("struct", name="WrapsOut", members=[("defaults", fout), ("k", Ty("scalar", s="f32"))], has_rts=False)
                io_lines.append("struct WrapsOut {\n  defaults: FOut,\n  k: f32,\n}")
                globals_.append(("uniform", "g%d" % b, wrap, b))
                used_by_global.append(wrap)
            b += 1
    # a vertex input struct with exactly the members of the fragment OUTPUT struct (same names, types, locations):
    # identity is by name, not by shape
    vlike = None
    if fout is not None and nentry >= 1 and rng.random() < 0.5:
        vlike = Ty("struct", name="LikeFOut", members=[("c0", Ty("vec", n=4, s="f32")), ("c1", Ty("vec", n=4, s="f32"))], has_rts=False)
        io_lines.append("struct LikeFOut {\n  @location(0) c0: vec4<f32>,\n  @location(1) c1: vec4<f32>,\n}")
    # a buffer-only struct (never an entry point parameter) that has a @builtin member: builtins are skipped in Rust
    bonly = None
    if rng.random() < 0.2:
        bonly = Ty("struct", name="BufOnly", members=[("index", Ty("scalar", s="u32")), ("pos", Ty("vec", n=4, s="f32")), ("w", Ty("scalar", s="f32"))],
                   has_rts=False, builtins={"index"})
        io_lines.append("struct BufOnly {\n  @builtin(vertex_index) index: u32,\n  pos: vec4<f32>,\n  w: f32,\n}")
        globals_.append(("storage_ro", "g%d" % b, Ty("array", elem=bonly, n=2), b))
        used_by_global.append(bonly)
        b += 1
    # two host structs whose names are equal up to the case style (light_data / LightData), with different members
    styled = []
    if rng.random() < 0.15:
        sa = Ty("struct", name="light_data", members=[("color", Ty("vec", n=4, s="f32")), ("range", Ty("scalar", s="f32"))], has_rts=False)
        sb = Ty("struct", name="LightData", members=[("m", Ty("mat", c=4, r=4, s="f32")), ("flags", Ty("scalar", s="u32")), ("dir", Ty("vec", n=4, s="f32"))], has_rts=False)
        styled = [sa, sb]
        io_lines.append("struct light_data {\n  color: vec4<f32>,\n  range: f32,\n}")
        io_lines.append("struct LightData {\n  m: mat4x4<f32>,\n  flags: u32,\n  dir: vec4<f32>,\n}")
        for t_ in styled:
            globals_.append(("uniform", "g%d" % b, t_, b))
            used_by_global.append(t_)
            b += 1
    # struct names as naga_oil writes them for imported items, nested as a member / array element of a host struct: the
    # Rust struct carries the whole name and every field that mentions it names THAT struct
    deco = []
    if rng.random() < 0.15:
        inner_n = "Material" + rng.choice(["X_naga_oil_mod_XMFRGGX", "X_naga_oil_mod_XNVQXIZLSNFQWYX"])
        di = Ty("struct", name=inner_n, members=[("albedo", Ty("vec", n=4, s="f32")), ("rough", Ty("scalar", s="f32"))], has_rts=False)
        do_ = Ty("struct", name="SceneMaterials", members=[("count", Ty("scalar", s="u32")), ("items", Ty("array", elem=di, n=3)), ("fallback", di)], has_rts=False)
        deco = [di, do_]
        io_lines.append(g.render_struct(di))
        io_lines.append(g.render_struct(do_))
        globals_.append(("storage_ro", "g%d" % b, do_, b))
        used_by_global.append(do_)
        b += 1
    # a push constant of struct type (host-visible like any other module-scope variable)
    pc_struct = None
    if rng.random() < 0.15:
        pc_struct = Ty("struct", name="PushData", members=[("model", Ty("mat", c=4, r=4, s="f32")), ("tint", Ty("vec", n=4, s="f32")), ("frame", Ty("scalar", s="u32"))], has_rts=False)
        io_lines.append(g.render_struct(pc_struct))
        used_by_global.append(pc_struct)
    # unused + function-local structs
    extra = []
    if rng.random() < 0.4:
        extra.append("struct Unused { x: f32, y: vec3<f32> }")
    local = rng.random() < 0.4
    if local:
        extra.append("struct Local { t: f32, u: u32 }")

    if rng.random() < 0.3:
        extra.append("override struct_scale: f32 = 1.0;\n@id(7) override struct_count: u32;")
    # render
    alias_lines_at = len(lines)
    for s in host_structs + ([rts_struct] if rts_struct else []) + grid_structs:
        lines.append(g.render_struct(s))
    lines += io_lines + extra
    if g.aliases:
        for txt, nm in g.aliases.items():
            lines.insert(alias_lines_at, "alias %s = %s;" % (nm, txt[3:] if txt.startswith("io:") else txt))
    if ov_tile:
        lines.append("override tile_count: u32 = 4u;\nvar<workgroup> tiles: array<Tile, tile_count>;")
    if pc_struct is not None:
        lines.append("var<push_constant> push_data: PushData;")
    for sp, n, t, bi in globals_:
        q = {"uniform": "@group(0) @binding(%d) var<uniform> " % bi, "storage_ro": "@group(0) @binding(%d) var<storage, read> " % bi,
             "storage_rw": "@group(0) @binding(%d) var<storage, read_write> " % bi, "private": "var<private> ", "workgroup": "var<workgroup> "}[sp]
        lines.append("%s%s: %s;" % (q, n, t.wgsl()))
    body_local = "var l: Local; l.t = 1.0;" if local else ""
    if vin and rng.random() < 0.4:
        lines.append("fn pass_through(v: %s) -> %s { return v; }" % (vin[0].name, vin[0].name))
    entries = []
    if nentry >= 1:
        params = ["in%d: %s" % (i, s.name) for i, s in enumerate(vin)]
        if shared_host_vertex is not None:
            params.append("both: Both")
        if ids_struct is not None:
            params.insert(rng.randrange(len(params) + 1), "ids: DrawIds")
        if vlike is not None and shared_host_vertex is None and not vin:
            params.append("like: LikeFOut")
        else:
            vlike_unused = vlike
            vlike = None
        # the struct with the position builtin is sometimes only CONSUMED in this module (the producing vertex stage lives
        # in another file): no entry point returns it, so it is an ordinary entry point parameter struct
        inter_consumed_only = bool(inter) and nentry >= 2 and rng.random() < 0.3
        ret = "Inter" if inter and not inter_consumed_only else "@builtin(position) vec4<f32>"
        retv = "var o: Inter; return o;" if inter and not inter_consumed_only else "return vec4<f32>(0.0);"
        lines.append("@vertex fn vs_main(%s) -> %s { %s %s }" % (", ".join(params), ret, body_local, retv))
        entries.append("vs_main")
    if nentry >= 2:
        p = "i: Inter" if inter else ""
        if fout:
            fs = "@fragment fn fs_main(%s) -> FOut { var o: FOut; return o; }" % p
        else:
            fs = "@fragment fn fs_main(%s) -> @location(0) vec4<f32> { return vec4<f32>(0.0); }" % p
        if rng.random() < 0.4:
            lines.insert(len(lines) - 1, fs)      # the consuming entry point declared BEFORE the producing one
        else:
            lines.append(fs)
        entries.append("fs_main")
    library = nentry == 0 and rng.random() < 0.3
    if library:
        # a module WITHOUT any entry point (a file of shared declarations): the same rule decides which structs are emitted -
        # function-local, helper-only and unused structs are not
        lines.append("struct HelperArg { dir: vec3<f32>, t: f32 }\nstruct HelperRet { hit: vec3<f32>, ok: u32 }")
        lines.append("fn trace(r: HelperArg) -> HelperRet { %s var o: HelperRet; o.hit = r.dir * r.t; return o; }" % body_local)
    elif nentry == 0 or rng.random() < 0.3:
        lines.append("@compute @workgroup_size(1) fn cs_main() { %s }" % body_local)
        entries.append("cs_main")

    if result_as_vin and rng.random() < 0.3:
        # Tint is the result of a fragment entry point AND a vertex parameter (not reachable from any variable): an entry
        # point result is not emitted, whichever stage also takes it as a parameter
        lines.append("struct Tint {\n  @location(7) rgba: vec4<f32>,\n}")
        lines.append("@fragment fn fs_tint() -> Tint { var o: Tint; return o; }")
        lines.append("@vertex fn vs_tinted(tint: Tint) -> @builtin(position) vec4<f32> { return tint.rgba; }")
    # ---- ground truth
    host = {}
    for t in used_by_global:
        t.structs_below(host)
    all_structs = {s.name: s for s in host_structs}
    if rts_struct:
        all_structs[rts_struct.name] = rts_struct
    for s in vin:
        all_structs[s.name] = s
    if shared_host_vertex:
        all_structs["Both"] = shared_host_vertex
    if ids_struct:
        all_structs["DrawIds"] = ids_struct
    if bonly:
        all_structs["BufOnly"] = bonly
    for t_ in styled + deco + ([pc_struct] if pc_struct is not None else []):
        all_structs[t_.name] = t_
    emitted = set(host)
    if nentry >= 1:
        emitted |= {s.name for s in vin}
        if shared_host_vertex:
            emitted.add("Both")
        if ids_struct:
            emitted.add("DrawIds")
        if vlike is not None:
            all_structs["LikeFOut"] = vlike
            emitted.add("LikeFOut")
    if nentry >= 2 and inter and inter_consumed_only:
        all_structs["Inter"] = inter
        emitted.add("Inter")
    # Inter: entry argument of fs_main but also the result of vs_main -> not emitted; FOut: result only
    for s in grid_structs:
        all_structs[s.name] = s
    order = [s.name for s in host_structs] + ([rts_struct.name] if rts_struct else []) + [s.name for s in grid_structs] \
        + [s.name for s in vin] \
        + (["Inter"] if inter else []) + (["DrawIds"] if ids_struct else []) + (["Both"] if shared_host_vertex else []) + (["FOut"] if fout else []) \
        + (["WrapsOut"] if "WrapsOut" in host else []) \
        + (["LikeFOut"] if vlike is not None else []) + (["BufOnly"] if bonly else []) + [t_.name for t_ in styled] \
        + [t_.name for t_ in deco] + (["PushData"] if pc_struct is not None else [])
    if fout:
        all_structs["FOut"] = fout
    if "WrapsOut" in host:
        all_structs["WrapsOut"] = host["WrapsOut"]
    truth = []
    for n in order:
        if n in emitted and n in all_structs:
            s = all_structs[n]
            bi = getattr(s, "builtins", set())
            truth.append({"name": n, "host": n in host, "rts": bool(getattr(s, "has_rts", False)),
                          "size": s.size(), "offsets": [(mn, off) for mn, off in s.offsets() if mn not in bi],
                          "members": [(mn, mt.shape()) for mn, mt in s.members if mn not in bi],
                          "kinds": [mt.kind for mn, mt in s.members if mn not in bi]})
    if rng.random() < 0.12:
        # many more types than a machine word has bits, declared first (every struct then has a large type handle)
        npad = rng.choice([40, 61, 70, 100, 130, 200, 260])
        lines.insert(0, "\n".join("var<private> pad_%d: array<f32, %d>;" % (k, k + 2) for k in range(npad)))
    return {"wgsl": "\n".join(lines) + "\n", "truth": truth, "needs_encase": rts_struct is not None or twins_rts}


def all_leafs(t):
    if t.kind in ("array", "rtarray"):
        return all_leafs(t.elem)
    if t.kind == "struct":
        r = []
        for _, m in t.members:
            r += all_leafs(m)
        return r
    return [t]
