import argparse
import os
import sys

sys.path.insert(0, os.path.dirname(os.path.abspath(__file__)))
import runner  # noqa


def main():
    ap = argparse.ArgumentParser()
    ap.add_argument("prop")
    ap.add_argument("--tier", default=os.environ.get("VERIF_TIER", "quick"))
    ap.add_argument("--replay", default=None)
    a = ap.parse_args()
    seed = int(os.environ.get("VERIF_SEED", "1"))
    tier = a.tier if a.tier in ("quick", "thorough") else "quick"
    sys.exit(runner.main(a.prop, tier, seed, a.replay))


main()
