import argparse
import os
import sys

sys.path.insert(0, os.path.dirname(os.path.abspath(__file__)))
import runner  # noqa


def main():
    ap = argparse.ArgumentParser()
    ap.add_argument("prop")
    ap.add_argument("--tier", default=os.environ.get("VERIF_TIER", "quick"))
    ap.add_argument("--replay", default=None)
    a = ap.parse_args()
    seed = int(os.environ.get("VERIF_SEED", "1"))
    tier = a.tier if a.tier in ("quick", "thorough") else "quick"
    try:
        rc = runner.main(a.prop, tier, seed, a.replay)
    except SystemExit:
        raise
    except BaseException as ex:      # noqa: the machinery itself failed on what the implementation returned
        import json
        import traceback
        tb = traceback.format_exc()
        sys.stderr.write(tb)
        os.makedirs(os.path.join(runner.ROOT, "replays"), exist_ok=True)
        path = os.path.join(runner.ROOT, "replays", "%s-harness-error.json" % a.prop)
        with open(path, "w") as f:
            json.dump({"property": a.prop, "what": "the correspondence check could not be completed: the harness failed while "
                       "interpreting what the implementation returned (model / implementation correspondence no longer checks)",
                       "exception": repr(ex), "traceback": tb[-4000:]}, f, indent=1)
        print("VIOLATION property=%s replay=%s no-failing-input-found" % (a.prop, path))
        rc = 1
    sys.exit(rc)


main()
