"""Resource-binding programs for C02: every WGSL resource type, used from chosen stages with every access form,
all valid under naga validation (the wgpu-core oracle needs a validated module)."""

FORMATS = ["r8unorm", "r8snorm", "r8uint", "r8sint", "r16uint", "r16sint", "r16float", "rg8unorm", "rg8snorm", "rg8uint",
           "rg8sint", "r32uint", "r32sint", "r32float", "rg16uint", "rg16sint", "rg16float", "rgba8unorm", "rgba8snorm",
           "rgba8uint", "rgba8sint", "bgra8unorm", "rgb10a2uint", "rgb10a2unorm", "rg11b10float", "r64uint", "rg32uint", "rg32sint",
           "rg32float", "rgba16uint", "rgba16sint", "rgba16float", "rgba32uint", "rgba32sint", "rgba32float", "r16unorm",
           "r16snorm", "rg16unorm", "rg16snorm", "rgba16unorm", "rgba16snorm"]


def texel(fmt):
    if fmt.endswith("uint"):
        return "u32"
    if fmt.endswith("sint"):
        return "i32"
    return "f32"


COORD = {"1d": "0", "2d": "vec2<i32>(0, 0)", "2d_array": "vec2<i32>(0, 0)", "3d": "vec3<i32>(0, 0, 0)"}
FCOORD = {"1d": "0.5", "2d": "vec2<f32>(0.5)", "2d_array": "vec2<f32>(0.5)", "3d": "vec3<f32>(0.5)", "cube": "vec3<f32>(0.5)",
          "cube_array": "vec3<f32>(0.5)"}


class Res:
    def __init__(self, name, decl, uses, needs=None, tag=None):
        self.name, self.decl, self.uses, self.needs, self.tag = name, decl, uses, needs, tag


def make(rng, i, samplers, cmp_samplers, allow_int_gather):
    """a random resource named r<i>; uses: list of statements; needs: sampler name it is paired with"""
    n = rng.choice(["r%d", "r%d", "resBuf%d", "R%d", "colorTexture%d", "_r%d", "SHADOW%d", "r_%d_map"]) % i
    k = rng.randrange(9)
    if k == 0:
        t = rng.choice(["vec4<f32>", "f32", "mat4x4<f32>", "UB", "array<vec4<f32>, 4>", "vec3<u32>", "mat2x2<f32>",
                        # types whose WGSL size is not the sum of their components (padded columns / elements)
                        "mat3x3<f32>", "mat4x3<f32>", "mat2x3<f32>", "array<vec3<f32>, 3>", "vec3<f32>"])
        return Res(n, "var<uniform> %s: %s;" % (n, t), ["let u_%d = %s;" % (i, n)], tag="uniform")
    if k == 1:
        t = rng.choice(["array<f32>", "array<vec4<u32>>", "SB", "array<UB, 3>", "u32"])
        return Res(n, "var<storage, read> %s: %s;" % (n, t), ["let s_%d = &%s;" % (i, n)] if False else ["_ = %s;" % acc(n, t)], tag="storage_ro")
    if k == 2:
        t = rng.choice(["array<f32>", "array<vec4<u32>>", "SB", "u32", "AT"])
        return Res(n, "var<storage, read_write> %s: %s;" % (n, t), [store(n, t)], tag="storage_rw")
    if k == 3:
        dim = rng.choice(["1d", "2d", "2d_array", "3d", "cube", "cube_array"])
        st = rng.choice(["f32", "i32", "u32"])
        uses = ["_ = textureDimensions(%s);" % n]
        needs = None
        if dim not in ("cube", "cube_array"):
            lod = "" if dim == "1d" and False else ", 0"
            arr = ", 0" if dim == "2d_array" else ""
            uses.append("_ = textureLoad(%s, %s%s%s);" % (n, COORD[dim], arr, lod))
        if st == "f32" and samplers and dim != "1d":
            needs = rng.choice(samplers)
            arr = ", 0" if dim in ("2d_array", "cube_array") else ""
            uses.append("_ = textureSampleLevel(%s, %s, %s%s, 0.0);" % (n, needs, FCOORD[dim], arr))
        if dim in ("2d", "cube") and samplers and (st == "f32" or allow_int_gather) and rng.random() < 0.5:
            needs = needs or rng.choice(samplers)
            uses.append("_ = textureGather(1, %s, %s, %s);" % (n, needs, FCOORD[dim]))
        return Res(n, "var %s: texture_%s<%s>;" % (n, dim, st), uses, needs, tag="tex_%s_%s" % (dim, st))
    if k == 4:
        dim = rng.choice(["2d", "2d_array", "cube", "cube_array", "multisampled_2d"])
        uses = ["_ = textureDimensions(%s);" % n]
        needs = None
        if dim == "2d":
            uses.append("_ = textureLoad(%s, vec2<i32>(0, 0), 0);" % n)
        if dim == "multisampled_2d":
            uses.append("_ = textureLoad(%s, vec2<i32>(0, 0), 1);" % n)
        elif cmp_samplers:
            needs = rng.choice(cmp_samplers)
            arr = ", 0" if dim in ("2d_array", "cube_array") else ""
            uses.append("_ = textureSampleCompareLevel(%s, %s, %s%s, 0.5);" % (n, needs, FCOORD[dim], arr))
        return Res(n, "var %s: texture_depth_%s;" % (n, dim), uses, needs, tag="depth_" + dim)
    if k == 5:
        st = rng.choice(["i32", "u32", "f32"])
        return Res(n, "var %s: texture_multisampled_2d<%s>;" % (n, st),
                   ["_ = textureLoad(%s, vec2<i32>(0, 0), 2);" % n, "_ = textureDimensions(%s);" % n], tag="ms_" + st)
    if k in (6, 7):
        dim = rng.choice(["1d", "2d", "2d_array", "3d"])
        acc_ = rng.choice(["read", "write", "read_write", "atomic"])
        fmt = rng.choice(["r32uint", "r32sint"]) if acc_ == "atomic" else rng.choice(FORMATS)
        if acc_ == "atomic" and rng.random() < 0.2:
            fmt = "r64uint"
        tx = texel(fmt)
        arr = ", 0" if dim == "2d_array" else ""
        uses = ["_ = textureDimensions(%s);" % n]
        if fmt == "r64uint":
            return Res(n, "var %s: texture_storage_%s<%s, %s>;" % (n, dim, fmt, acc_), uses, tag="stex_%s_%s" % (acc_, dim))
        if acc_ in ("read", "read_write"):
            uses.append("_ = textureLoad(%s, %s%s);" % (n, COORD[dim], arr))
        if acc_ in ("write", "read_write"):
            uses.append("textureStore(%s, %s%s, vec4<%s>(%s));" % (n, COORD[dim], arr, tx, "0.0" if tx == "f32" else "0"))
        if acc_ == "atomic":
            if fmt == "r64uint":
                uses = ["textureAtomicMax(%s, %s%s, vec4<u64>(1lu));" % (n, COORD[dim], arr)] if False else ["_ = textureDimensions(%s);" % n]
            else:
                uses.append("textureAtomicAdd(%s, %s%s, %s);" % (n, COORD[dim], arr, "1u" if tx == "u32" else "1i"))
        return Res(n, "var %s: texture_storage_%s<%s, %s>;" % (n, dim, fmt, acc_), uses, tag="stex_%s_%s" % (acc_, dim))
    # a sampler of its own (kept unused or used by textures above)
    if rng.random() < 0.5:
        return Res(n, "var %s: sampler;" % n, [], tag="sampler")
    return Res(n, "var %s: sampler_comparison;" % n, [], tag="sampler_cmp")


def acc(n, t):
    if t.startswith("array<") and t.endswith(">") and "," not in t:
        return "%s[0]" % n
    if t == "SB":
        return "%s.a" % n
    if t.startswith("array<UB"):
        return "%s[0].a" % n
    return n


def store(n, t):
    if t == "array<f32>":
        return "%s[0] = 1.0;" % n
    if t == "array<vec4<u32>>":
        return "%s[0] = vec4<u32>(1u);" % n
    if t == "SB":
        return "%s.a = 1.0;" % n
    if t == "AT":
        return "_ = atomicAdd(&%s.c, 1u);" % n
    return "%s = 1u;" % n


PRELUDE = "struct UB { a: vec4<f32>, b: vec4<f32> }\nstruct SB { a: f32, b: array<vec4<f32>> }\nstruct AT { c: atomic<u32> }\n"


def program(rng, allow_int_gather=False):
    nres = rng.randint(1, 8)
    ngroups = rng.randint(1, 3)
    ns = rng.randint(0, 2)
    nc = rng.randint(0, 1)
    samplers = [rng.choice(["smp%d", "linearSampler%d", "Smp%d"]) % i for i in range(ns)]
    cmps = [rng.choice(["cmp%d", "shadowSampler%d"]) % i for i in range(nc)]
    res = [Res(s, "var %s: sampler;" % s, [], tag="sampler") for s in samplers] + \
          [Res(s, "var %s: sampler_comparison;" % s, [], tag="sampler_cmp") for s in cmps]
    for i in range(nres):
        res.append(make(rng, i, samplers, cmps, allow_int_gather))
    rng.shuffle(res)
    lines = [PRELUDE]
    nextb = {}
    for r in res:
        g = rng.randrange(ngroups)
        b = nextb.get(g, 0) + rng.choice([0, 0, 0, 2, 7])
        nextb[g] = b + 1
        r.group, r.binding = g, b
    used_groups = sorted({r.group for r in res})
    remap = {g: i for i, g in enumerate(used_groups)}      # groups must be dense
    for r in res:
        r.group = remap[r.group]
        lines.append("@group(%d) @binding(%d) %s" % (r.group, r.binding, r.decl))
    stages = rng.choice([["compute"], ["fragment"], ["vertex"], ["vertex", "fragment"], ["vertex", "fragment", "compute"],
                         ["fragment", "compute"], ["compute", "compute"]])
    helpers = []
    bodies = {}
    tags = set()
    for si, st in enumerate(stages):
        stmts = []
        for r in res:
            if r.uses and rng.random() < 0.6:
                u = [x for x in r.uses if not (st == "vertex" and ("textureStore" in x or "= 1" in x or "atomic" in x.lower()) and False)]
                if rng.random() < 0.4:
                    h = "h%d_%d" % (si, len(helpers))
                    helpers.append("fn %s() { %s }" % (h, " ".join(u)))
                    call = "%s();" % h
                    k = rng.randrange(6)      # where the call sits
                    if k == 0:
                        call = "loop { if (true) { break; } continuing { %s } }" % call
                    elif k == 1:
                        call = "for (var i_%d = 0; i_%d < 1; %s) { i_%d += 1; }" % (len(helpers), len(helpers), call[:-1], len(helpers))
                    elif k == 2:
                        call = "if (false) { } else { %s }" % call
                    elif k == 3:
                        call = "switch (1) { case 2: { } default: { %s } }" % call
                    stmts.append(call)
                else:
                    stmts += u
                tags.add(r.tag)
                if r.needs:
                    tags.add("sampled")
        bodies[si] = " ".join(stmts)
    lines += helpers
    for si, st in enumerate(stages):
        if st == "vertex":
            lines.append("@vertex fn e%d() -> @builtin(position) vec4<f32> { %s return vec4<f32>(0.0); }" % (si, bodies[si]))
        elif st == "fragment":
            lines.append("@fragment fn e%d() { %s }" % (si, bodies[si]))
        else:
            lines.append("@compute @workgroup_size(1) fn e%d() { %s }" % (si, bodies[si]))
    return {"wgsl": "\n".join(lines) + "\n", "tags": sorted(tags | {r.tag for r in res})}
