"""Generators of WGSL programs from abstract descriptions, with ground truth."""

# resource kinds: (declaration template, list of access statement templates {n} = variable name)
RES = {
    "uniform": ("var<uniform> {n}: vec4<f32>;", ["_ = {n}.x;", "let t_{u} = {n};"]),
    "uniform_struct": ("var<uniform> {n}: US;", ["_ = {n}.a;", "let t_{u} = {n}.b.x;"]),
    "storage_ro": ("var<storage, read> {n}: array<f32>;", ["_ = {n}[0];", "_ = arrayLength(&{n});"]),
    "storage_rw": ("var<storage, read_write> {n}: array<u32>;", ["{n}[0] = 1u;", "_ = {n}[1];", "_ = arrayLength(&{n});"]),
    "storage_atomic": ("var<storage, read_write> {n}: AS;", ["_ = atomicAdd(&{n}.c, 1u);", "atomicStore(&{n}.c, 2u);"]),
    "texture": ("var {n}: texture_2d<f32>;", ["_ = textureLoad({n}, vec2<i32>(0, 0), 0);", "_ = textureDimensions({n});"]),
    "texture_u": ("var {n}: texture_2d<u32>;", ["_ = textureLoad({n}, vec2<i32>(0, 0), 0).x;", "_ = textureDimensions({n});"]),
    "storage_tex": ("var {n}: texture_storage_2d<rgba8unorm, write>;",
                    ["textureStore({n}, vec2<i32>(0, 0), vec4<f32>(0.0));", "_ = textureDimensions({n});"]),
    "depth": ("var {n}: texture_depth_2d;", ["_ = textureLoad({n}, vec2<i32>(0, 0), 0);", "_ = textureDimensions({n});"]),
}
PRELUDE = "struct US { a: f32, b: vec3<f32> }\nstruct AS { c: atomic<u32> }\nconst DEBUG_FLAG = false;\nconst DEBUG_LEVEL = 1;\n"
STAGES = {
    "vertex": ("@vertex fn {n}() -> @builtin(position) vec4<f32> {{\n{b}  return vec4<f32>(0.0);\n}}\n"),
    "fragment": ("@fragment fn {n}() {{\n{b}}}\n"),
    "compute": ("@compute @workgroup_size(1) fn {n}() {{\n{b}}}\n"),
}

PLACEMENTS = ["top", "block", "if_accept", "if_reject", "switch_case", "switch_default", "loop_body",
              "continuing", "nested", "nested_loop_if", "if_false", "if_const_flag", "else_of_true",
              # after constructs whose inner `break` only leaves THEM: the statement is reachable and part of the function
              "after_break_switch", "after_break_loop", "for_update", "after_if_else_breaks", "switch_fallthrough_list"]
CALL_FORMS = ["stmt", "let", "cond", "arg", "discard", "fwd", "ptr"]


def place(stmt, where, uid):
    """Wrap a statement (text) at a control-flow position."""
    if where == "top":
        return stmt
    if where == "block":
        return "{ %s }" % stmt
    if where == "if_accept":
        return "if (c_%d > 0) { %s }" % (uid, stmt)
    if where == "if_reject":
        return "if (c_%d > 0) { } else { %s }" % (uid, stmt)
    if where == "switch_case":
        return "switch (c_%d) { case 1: { %s } default: { } }" % (uid, stmt)
    if where == "switch_default":
        return "switch (c_%d) { case 1: { } default: { %s } }" % (uid, stmt)
    if where == "loop_body":
        return "loop { %s if (c_%d > 0) { break; } }" % (stmt, uid)
    if where == "continuing":
        return "loop { if (c_%d > 0) { break; } continuing { %s } }" % (uid, stmt)
    if where == "nested":
        return "if (c_%d > 0) { { if (c_%d > 1) { } else { %s } } }" % (uid, uid, stmt)
    # branches that a constant condition disables are still part of the function: static access is syntactic
    if where == "if_false":
        return "if (false) { %s }" % stmt
    if where == "if_const_flag":
        return "if (DEBUG_FLAG) { %s }" % stmt
    if where == "else_of_true":
        return "if (DEBUG_LEVEL < 2) { } else { %s }" % stmt
    if where == "after_break_switch":
        return "switch (c_%d) { case 1: { break; } case 2: { break; } default: { break; } } %s" % (uid, stmt)
    if where == "after_break_loop":
        return "loop { break; } %s" % stmt
    if where == "after_if_else_breaks":
        return "loop { if (c_%d > 0) { break; } else { break; } } %s" % (uid, stmt)
    if where == "switch_fallthrough_list":
        return "switch (c_%d) { case 1, 2, 5: { %s } default: { break; } }" % (uid, stmt)
    if where == "for_update":
        st = stmt.strip()
        if st.endswith("();") and st.count(";") == 1 and st.startswith("hv"):     # only a call statement can be an update clause
            return "for (var i_%d = 0; i_%d < 2; %s) { }" % (uid, uid, st[:-1])
        return "for (var i_%d = 0; i_%d < 2; i_%d++) { %s }" % (uid, uid, uid, stmt)
    if where == "nested_loop_if":
        return "loop { if (c_%d > 0) { break; } continuing { if (c_%d > 2) { switch (c_%d) { default: { %s } } } } }" % (uid, uid, uid, stmt)
    raise ValueError(where)


def call_text(j, form, uid):
    """Call helper j. Every helper returns f32 (value-returning) and has a void twin hv<j>."""
    if form == "stmt":
        return "hv%d();" % j
    if form == "let":
        return "let r_%d = 1.0 + h%d(1.0);" % (uid, j)
    if form == "cond":
        return "if (h%d(0.0) > 0.5) { }" % j
    if form == "arg":
        return "_ = h%d(h%d(2.0));" % (j, j)
    if form == "discard":
        return "_ = h%d(3.0);" % j
    if form == "fwd":
        return "fw%d();" % j      # fw<j>() { hv<j>(); } : a helper whose expression arena is empty
    if form == "ptr":
        return "var pv_%d: f32 = 0.5; hp%d(&pv_%d);" % (uid, j, uid)      # helper taking a pointer parameter
    raise ValueError(form)


class Program:
    """globals: list of (name, kind, group, binding) ; helpers: list of item lists ;
    entries: list of (name, stage, items). item = ("acc", gidx, form, where) | ("call", j, form, where)"""

    def __init__(self):
        self.globals = []
        self.helpers = []
        self.entries = []
        self.push_constant = None   # (name, type text)
        self.extras = []            # module-scope variables WITHOUT a binding: (name, declaration text, access statements, position)
                                    # position = number of resource declarations that precede it
        self.pc_first = False       # declare the push constant before the resources
        self.tail_decls = []        # module-scope declarations after everything else (a second, unused push constant ...)
        self.uid = 0

    def body(self, items):
        lines = []
        for it in items:
            self.uid += 1
            u = self.uid
            lines.append("  var c_%d: i32 = %d;" % (u, u % 3))
            if it[0] == "acc":
                g = it[1]
                if isinstance(g, tuple):      # ("x", k): a module-scope variable without a binding (private / workgroup)
                    forms = self.extras[g[1]][2]
                    st = forms[it[2] % len(forms)].replace("{u}", str(u))
                elif g == "pc":
                    st = ["_ = %s;", "_ = %s;", "let pp_{u} = &%s;"][it[2] % 3].replace("{u}", str(u)) % self.push_constant[0]
                else:
                    name, kind = self.globals[g][0], self.globals[g][1]
                    forms = RES[kind][1]
                    st = forms[it[2] % len(forms)].format(n=name, u=u)
            else:
                st = call_text(it[1], it[2], u)
            lines.append("  " + place(st, it[3], u))
        return "\n".join(lines) + ("\n" if lines else "")

    def render(self):
        out = [PRELUDE]
        if self.push_constant and self.pc_first:
            out.append("var<push_constant> %s: %s;" % self.push_constant)
        for gi, (name, kind, grp, b) in enumerate(self.globals):
            out.extend(x[1] for x in self.extras if x[3] == gi)
            out.append("@group(%d) @binding(%d) %s" % (grp, b, RES[kind][0].format(n=name)))
        out.extend(x[1] for x in self.extras if x[3] >= len(self.globals))
        if self.push_constant and not self.pc_first:
            out.append("var<push_constant> %s: %s;" % self.push_constant)
        out.extend(self.tail_decls)
        for j, items in enumerate(self.helpers):
            b = self.body(items)
            out.append("fn h%d(x: f32) -> f32 {\n%s  return x;\n}" % (j, b))
            out.append("fn hv%d() {\n  _ = h%d(0.0);\n}" % (j, j))
            out.append("fn fw%d() {\n  hv%d();\n}" % (j, j))
            out.append("fn hp%d(q: ptr<function, f32>) {\n  *q = h%d(*q);\n}" % (j, j))
        for name, stage, items in self.entries:
            out.append(STAGES[stage].format(n=name, b=self.body(items)))
        return "\n".join(out) + "\n"

    def truth(self):
        """per global index (and 'pc'): set of stages that statically access it."""
        direct, calls = [], []
        for items in self.helpers:
            direct.append({it[1] for it in items if it[0] == "acc" and not isinstance(it[1], tuple)})
            calls.append({it[1] for it in items if it[0] == "call"})
        clos = []
        for j in range(len(self.helpers)):   # helpers only call smaller indices
            s = set(direct[j])
            for c in calls[j]:
                s |= clos[c]
            clos.append(s)
        res = {}
        for name, stage, items in self.entries:
            s = {it[1] for it in items if it[0] == "acc" and not isinstance(it[1], tuple)}
            for it in items:
                if it[0] == "call":
                    s |= clos[it[1]]
            for g in s:
                res.setdefault(g, set()).add(stage)
        return res


GLOBAL_NAME_STYLES = ["g%d", "g%d", "gBuf%d", "G%d", "baseColor%d", "Tex%dData", "g_%d_x", "gr\u00fcn%d", "_g%d", "LIGHTS%d", "tex2D%d"]
PC_NAMES = ["pc", "pc", "pushConsts", "PC", "push_data", "_pc"]


def gname(rng, i):
    """names of module-scope variables in varied styles (camelCase, PascalCase, upper case, digits, underscores,
    non-ASCII): the generator must treat a name as an opaque key"""
    return rng.choice(GLOBAL_NAME_STYLES) % i


def random_program(rng, n_globals=None, n_helpers=None, depth_bias=False, stages=None, pc=False, extras=True):
    p = Program()
    kinds = list(RES)
    ng = n_globals if n_globals is not None else rng.randint(1, 6)
    ngroups = rng.randint(1, 3)
    nextb = {}
    for i in range(ng):
        grp = rng.randrange(ngroups) if i >= ngroups else i
        b = nextb.get(grp, 0) + rng.choice([0, 0, 1, 3])
        nextb[grp] = b + 1
        p.globals.append((gname(rng, i), rng.choice(kinds), grp, b))
    if ng >= 2 and rng.random() < 0.1:
        # names that are equal up to a module-path decoration (as naga_oil writes them): still different variables
        a_, b_ = 0, ng - 1
        if p.globals[a_][2] != p.globals[b_][2]:
            p.globals[a_] = ("paramsX_naga_oil_mod_XNRUWO2DUNFXGOX",) + p.globals[a_][1:]
            p.globals[b_] = ("paramsX_naga_oil_mod_XMNQW2ZLSMEX",) + p.globals[b_][1:]
    if pc:
        p.push_constant = (rng.choice(PC_NAMES), rng.choice(["f32", "vec4<f32>", "mat4x4<f32>", "US", "vec3<f32>", "vec3<u32>", "vec2<i32>", "array<vec3<f32>, 2>", "mat3x3<f32>"]))
    nh = n_helpers if n_helpers is not None else rng.randint(0, 6)
    # module-scope variables that are NOT resources (no @group / @binding), declared before / between / after the resources:
    # they take part in the stage walk like any global but get no layout entry and must not disturb those of the others
    nx = rng.choice([0, 0, 1, 2]) if extras else 0
    for k in range(nx):
        nm = "%s%d" % (rng.choice(["scratch", "privState", "_tmp", "Counter"]), k)
        p.extras.append((nm, "var<private> %s: f32;" % nm, ["_ = %s;" % nm, "%s = 2.0;" % nm, "let xp_{u} = &%s;" % nm],
                         rng.choice([0, 0, rng.randint(0, ng)])))
    p.pc_first = bool(pc) and rng.random() < 0.4
    if pc and rng.random() < 0.2:
        # a second push constant variable, declared after the first and never used: the range is that of the FIRST one
        p.tail_decls.append("var<push_constant> spare_constants: %s;" % rng.choice(["f32", "vec4<f32>", "mat4x4<f32>"]))

    def items(maxcall, n):
        its = []
        for _ in range(n):
            if maxcall > 0 and rng.random() < 0.5:
                j = maxcall - 1 if depth_bias and rng.random() < 0.7 else rng.randrange(maxcall)
                its.append(("call", j, rng.choice(CALL_FORMS), rng.choice(PLACEMENTS)))
            else:
                targets = list(range(ng)) + (["pc"] if pc else []) + [("x", k) for k in range(len(p.extras))]
                if not targets:
                    continue
                its.append(("acc", rng.choice(targets), rng.randrange(3), rng.choice(PLACEMENTS)))
        return its

    for j in range(nh):
        p.helpers.append(items(j, rng.randint(0, 3)))
    stages = stages or rng.choice([["vertex"], ["fragment"], ["compute"], ["vertex", "fragment"],
                                   ["vertex", "fragment", "compute"], ["fragment", "fragment"],
                                   ["compute", "compute", "vertex"], ["vertex", "vertex", "fragment", "compute"]])
    for k, st in enumerate(stages):
        p.entries.append(("e%d_%s" % (k, st[:2]), st, items(nh, rng.randint(0, 3))))
    return p


def diamond_program(rng, target="global"):
    """entry 1 (stage A) calls helpers a then b, both call c, which touches the target; entry 2 (stage B) reaches the
    target only through b (or only through a). Exposes stale caches shared between entry points."""
    p = Program()
    p.globals = [(gname(rng, 0), rng.choice(list(RES)), 0, 0), (gname(rng, 1), "uniform", 0, 1)]
    if target == "pc":
        p.push_constant = (rng.choice(PC_NAMES), rng.choice(["f32", "vec4<f32>", "US", "vec3<f32>", "vec3<i32>"]))
    tgt = "pc" if target == "pc" else 0
    forms = CALL_FORMS
    # h0 = c (touches), h1 = a, h2 = b
    p.helpers = [[("acc", tgt, rng.randrange(3), rng.choice(PLACEMENTS))],
                 [("call", 0, rng.choice(forms), rng.choice(PLACEMENTS))],
                 [("call", 0, rng.choice(forms), rng.choice(PLACEMENTS))]]
    st = rng.sample(["vertex", "fragment", "compute"], 2)
    first = [("call", 1, rng.choice(forms), "top"), ("call", 2, rng.choice(forms), rng.choice(PLACEMENTS))]
    if rng.random() < 0.5:
        first.reverse()
    second = [("call", rng.choice([1, 2]), rng.choice(forms), rng.choice(PLACEMENTS))]
    ents = [("e0_" + st[0][:2], st[0], first), ("e1_" + st[1][:2], st[1], second)]
    if rng.random() < 0.3:
        ents.append(("e2_" + st[0][:2], st[0], []))
    p.entries = ents
    return p


def many_functions_program(nh):
    """more than 64 / 256 helper functions; binding g0 is reached only through a helper with a large arena index, and the
    entry point first calls helpers whose indices are congruent to it modulo 64 / 256"""
    p = Program()
    p.globals = [("g0", "storage_rw", 0, 0), ("g1", "uniform", 0, 1)]
    for j in range(nh):
        p.helpers.append([("acc", 0, 0, "top")] if j == nh - 2 else [])
    tgt = nh - 2
    p.entries = [("e0", "compute", [("call", tgt % 64, "stmt", "top"), ("call", tgt % 256 if tgt >= 256 else tgt % 64, "let", "top"),
                                    ("call", tgt, "stmt", "top")]),
                 ("e1", "fragment", [("acc", 1, 0, "top")])]
    return p


def deep_chain_program(depth, form="let", target=0):
    """helper 0 touches the target, helper j calls helper j-1 (form let / cond: one call level each; stmt / fwd: several),
    a compute entry calls the top of the chain; a vertex and a fragment entry touch other bindings only - the target is
    used by the compute stage alone, however deep the chain is"""
    p = Program()
    p.globals = [("g0", "storage_rw", 0, 0), ("g1", "uniform", 0, 1), ("g2", "uniform", 1, 0)]
    if target == "pc":
        p.push_constant = ("pc", "vec4<f32>")
    p.helpers.append([("acc", target, 0, "top")])
    for j in range(1, depth):
        p.helpers.append([("call", j - 1, form, "top")])
    p.entries = [("deep", "compute", [("call", depth - 1, form, "top")]),
                 ("vs_other", "vertex", [("acc", 1, 0, "top")]),
                 ("fs_other", "fragment", [("acc", 2, 0, "top")])]
    return p


def single_stage_late_user_program(rng, stage="compute"):
    """every entry point has the same stage; a variable without a binding (workgroup / private) is used by the first
    entry point together with all resources but one; the last resource is first used by a LATER entry point. The
    visibility of that resource is the stage, like everybody else's."""
    p = Program()
    nres = rng.randint(2, 4)
    kinds = ["uniform", "storage_ro", "storage_rw", "uniform_struct"]
    for i in range(nres):
        p.globals.append((gname(rng, i), rng.choice(kinds), 0, i))
    if stage == "compute":
        p.extras.append(("tile", "var<workgroup> tile: array<u32, 4>;", ["_ = tile[0];", "tile[1] = 3u;"], rng.choice([0, nres])))
    p.extras.append(("acc0", "var<private> acc0: f32;", ["_ = acc0;", "acc0 = 1.0;"], rng.choice([0, 1, nres])))
    first = [("acc", g, 0, "top") for g in range(nres - 1)] + [("acc", ("x", k), 0, "top") for k in range(len(p.extras))]
    rng.shuffle(first)
    p.entries = [("k0_first", stage, first), ("k1_mid", stage, [("acc", 0, 1, "top")]),
                 ("k2_late", stage, [("acc", nres - 1, 0, rng.choice(PLACEMENTS))])]
    return p


def pc_only_program(rng):
    """a module WITHOUT any resource binding whose push constant is used by a strict subset of the stages that have an
    entry point (directly or through a helper)"""
    p = Program()
    p.push_constant = (rng.choice(PC_NAMES), rng.choice(["f32", "vec4<f32>", "mat4x4<f32>", "US"]))
    p.helpers = [[("acc", "pc", rng.randrange(3), rng.choice(PLACEMENTS))]]
    stages = rng.choice([["vertex", "fragment"], ["vertex", "fragment", "compute"], ["fragment", "compute"], ["vertex", "compute"]])
    users = rng.sample(stages, rng.randint(1, len(stages) - 1))
    for k, st in enumerate(stages):
        its = []
        if st in users:
            its = [("call", 0, rng.choice(CALL_FORMS), rng.choice(PLACEMENTS))] if rng.random() < 0.5 else [("acc", "pc", 0, rng.choice(PLACEMENTS))]
        p.entries.append(("e%d_%s" % (k, st[:2]), st, its))
    return p


def late_pc_user_program(rng):
    """entry points of all three stages that touch only bindings shared by all of them come first; the push constant (or
    one more binding) is first used by an entry point declared AFTER them: it has that stage, nothing more"""
    p = Program()
    p.globals = [(gname(rng, 0), "uniform", 0, 0), (gname(rng, 1), "uniform_struct", 0, 1), (gname(rng, 2), rng.choice(["uniform", "storage_ro"]), 1, 0)]
    p.push_constant = (rng.choice(PC_NAMES), rng.choice(["f32", "vec4<f32>", "US"]))
    shared = [("acc", 0, 0, "top"), ("acc", 1, 0, "top")]
    order = ["vertex", "fragment", "compute"]
    rng.shuffle(order)
    p.entries = [("e%d_%s" % (k, st[:2]), st, list(shared)) for k, st in enumerate(order)]
    late = rng.choice(["fragment", "vertex", "compute"])
    p.entries.append(("late_" + late[:2], late, [("acc", "pc", rng.randrange(3), rng.choice(PLACEMENTS)), ("acc", 2, 0, "top")]))
    return p
