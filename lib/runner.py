"""Generic per-property check: theorem side + correspondence side + verdict."""
import importlib
import json
import os
import random
import subprocess
import sys
import time

from common import *  # noqa


def theorem_side(prop, tier="quick"):
    """Build the development, run hygiene + Print Assumptions (+ coqchk in the thorough tier). Returns (ok, info, msg)."""
    info = {}
    ok, out = build_coq()
    if not ok:
        return False, info, "Coq build failed:\n" + out[-2000:]
    probs = hygiene()
    if probs:
        return False, info, "forbidden vernacular: " + "; ".join(probs[:10])
    pa, out = print_assumptions(prop.THEOREMS, prop.THEOREM_REQUIRES)
    if pa is None:
        return False, info, "Print Assumptions failed:\n" + out[-2000:]
    bad = {t: a for t, a in pa.items() if "Closed under the global context" not in a}
    missing = [t for t in prop.THEOREMS if t not in pa]
    info["print_assumptions"] = pa
    if bad or missing:
        return False, info, "assumptions not closed: %s missing: %s" % (bad, missing)
    okp, msg = pinned_statements_ok(prop.THEOREMS)
    if not okp:
        return False, info, msg
    info["obligations"] = count_qed(prop.PROOF_FILES)
    info["theorems"] = prop.THEOREMS
    if tier == "thorough":
        okc, summary = coqchk(prop.THEOREM_REQUIRES)
        info["coqchk"] = summary
        if not okc:
            return False, info, "coqchk does not accept the compiled development / reports axioms: " + summary[-600:]
    return True, info, ""


def check_tables(names, workdir):
    """Runs `driver tables` and evaluates coq/Check/Tables.v's checks for the named tables. The hooks must be compiled in
    (otherwise the comparison is skipped and recorded as skipped)."""
    os.makedirs(workdir, exist_ok=True)
    if not HOOKS.get("on"):
        return {"skipped": "verification hooks not compiled in: " + HOOKS.get("note", "")[:200]}
    tv = os.path.join(workdir, "real_tables.v")
    rc, out = sh([DRIVER, "tables", tv], timeout=600)
    if rc != 0:
        return {"failed": list(names), "detail": "driver tables failed: " + out[-500:]}
    checks = {"scalar": "scalar_table_ok tbl_scalar", "rust_type": "rust_type_table_ok tbl_rust_type",
              "vertex_format": "vertex_format_table_ok tbl_vertex_format", "buffer_binding": "buffer_binding_table_ok tbl_buffer_binding",
              "storage_access": "storage_access_table_ok tbl_storage_access", "stages": "stages_table_ok tbl_stages"}
    cv = os.path.join(workdir, "tables_check.v")
    with open(cv, "w") as f:
        f.write("From W2W Require Import Tables.\nOpen Scope string_scope. Open Scope list_scope.\n")
        f.write(open(tv).read())
        f.write("Eval vm_compute in (0%%N, [%s]).\n" % "; ".join(checks[n] for n in names))
    rc, out = sh(["coqc", "-noglob", "-Q", COQ, "W2W", cv], timeout=900)
    flat = " ".join(out.split())
    mm = VERDICT_RE.search(flat)
    if rc != 0 or not mm:
        return {"failed": list(names), "detail": "table evaluation failed: " + out[-600:]}
    toks = [t.strip() for t in mm.group(2).split(";") if t.strip()]
    failed = [n for n, t in zip(names, toks) if t != "true"]
    return {"tables": list(names), "exhaustive": True, "failed": failed,
            "domain": "scalars 6 kinds x widths {1,2,4,8}; leaf types scalar/vector/matrix/atomic x 3 representations; 14 address spaces; 8 access sets; 8 stage sets"}


def build_script_env(workdir):
    """what cargo exports to a build script of a crate with the usual optional features (PATH, HOME etc. stay inherited)"""
    e = {"OUT_DIR": workdir, "CARGO_MANIFEST_DIR": workdir, "CARGO_PKG_NAME": "app", "CARGO_PKG_VERSION": "0.1.0",
         "PROFILE": "release", "DEBUG": "false", "OPT_LEVEL": "3", "NUM_JOBS": "1", "TARGET": "wasm32-unknown-unknown",
         "HOST": "x86_64-unknown-linux-gnu", "CARGO_CFG_TARGET_OS": "windows", "CARGO_CFG_TARGET_ARCH": "wasm32",
         "CARGO_CFG_TARGET_POINTER_WIDTH": "32", "CARGO_CFG_TARGET_ENDIAN": "big", "CARGO_CFG_WINDOWS": "", "DOCS_RS": "1",
         "CI": "true", "RUST_LOG": "trace", "NO_COLOR": "1", "SOURCE_DATE_EPOCH": "0", "CARGO_ENCODED_RUSTFLAGS": "--cfg\x1ffoo"}
    for f in ("SERDE", "BYTEMUCK", "ENCASE", "GLAM", "NALGEBRA", "DEFAULT", "VALIDATE", "RUSTFMT", "STD", "DEBUG"):
        e["CARGO_FEATURE_" + f] = "1"
    return e


def with_build_env(prop, cases):
    """ENV_RERUN = n: n of the cases (spread over the list) are repeated as cases made from a build-script environment"""
    n = getattr(prop, "ENV_RERUN", 0)
    if not n or not cases:
        return cases
    import copy
    # blocks of three CONSECUTIVE cases (for the struct properties: one shader under several option sets), spread over the list
    nb = max(1, n // 3)
    step = max(3, len(cases) // nb)
    picked = []
    for st in range(0, len(cases), step):
        picked.extend(cases[st:st + 3])
    extra = []
    for c in picked[:n]:
        d = copy.deepcopy(c)
        d["env"] = "build_script"       # (the family name stays: verdicts may depend on it; the evidence histogram adds the suffix)
        d.pop("id", None)
        extra.append(d)
    return cases + extra


def evaluate(prop, cases, workdir, tag):
    """Run cases through the real generator and Coq. Returns list of per-case records."""
    for i, c in enumerate(cases):
        c["id"] = i
        c.setdefault("include", None)
        c.setdefault("want_text", False)
        if getattr(prop, "VALIDATE_MIX", False) and i % 3 == 1 and "validate" not in c["opts"]:
            c["opts"]["validate"] = True      # every third case goes through naga's validator as well (it must only gate)
    # extractor validation: for a sample of the cases the token stream of the returned text is dumped as well and Coq
    # requires canon(render(EXTRACTED out)) = canon(tokens): the driver's extractor is then not trusted on these cases -
    # Model/Render.v alone defines how an `out` value reads as text (C01 compares every case's text with the model anyway)
    k_ext = getattr(prop, "EXTRACT_CHECK", 24)
    if k_ext and "Agree" in prop.REQUIRES and not getattr(prop, "WANT_TOKS", False) and "search" not in tag:
        for c in cases[:: max(1, len(cases) // k_ext)][:k_ext]:
            c["want_toks"] = True
            c["extract_check"] = True
    try:
        plain = [{k: c[k] for k in ("id", "wgsl", "include", "opts", "want_text", "want_toks", "want_rest", "want_lit") if k in c} for c in cases]
        envi = [i for i, c in enumerate(cases) if c.get("env") == "build_script"]
        keep = [i for i, c in enumerate(cases) if c.get("env") != "build_script"]
        if hasattr(prop, "run_cases"):
            res0 = prop.run_cases([plain[i] for i in keep], [cases[i] for i in keep], workdir, tag)
        else:
            res0 = run_driver([plain[i] for i in keep], workdir, tag, timeout=getattr(prop, "DRIVER_TIMEOUT", 3000))
        results = [None] * len(cases)
        for i, r in zip(keep, res0):
            results[i] = r
        if envi:
            # the same calls made from a process whose environment is that of a cargo build script (the documented way to
            # run the generator): the output is a function of source and options only, so model and property must still hold
            res1 = run_driver([plain[i] for i in envi], workdir, tag + "_benv", timeout=getattr(prop, "DRIVER_TIMEOUT", 3000),
                              env=build_script_env(workdir))
            for i, r in zip(envi, res1):
                results[i] = r
    except subprocess.TimeoutExpired:
        # the generator did not finish: every case of this batch is reported as failing its property
        recs = [{"case": c, "res": {"parse_ok": True, "result": "timeout", "features": []},
                 "verdict": ["true", "true", "false"], "skip": None} for c in cases]
        return recs, []
    items, recs = [], []
    for c, r in zip(cases, results):
        rec = {"case": c, "res": r, "verdict": None, "skip": None}
        recs.append(rec)
        if not r.get("parse_ok"):
            if hasattr(prop, "verdict_expr_parse_error"):
                items.append((c["id"], "", prop.verdict_expr_parse_error(c, r)))
                continue
            rec["skip"] = "parse_error"
            continue
        if c.get("light") and hasattr(prop, "verdict_expr_light"):
            # cases whose point is the call history / concurrency, with very large texts: decided by the observations alone,
            # no IR / output terms are handed to Coq for them
            items.append((c["id"], "", prop.verdict_expr_light(c, r)))
            continue
        real = coq_real(r)
        if real is None:
            if hasattr(prop, "verdict_expr_noout"):
                defs = "Definition ir_%d : module := %s." % (c["id"], r["ir"])
                if c.get("want_toks"):
                    defs += "\nDefinition toks_%d : option (list tok) := %s." % (
                        c["id"], ("(Some %s)" % r["toks"]) if r.get("toks") else "None")
                try:
                    expr = prop.verdict_expr_noout(c, r, "ir_%d" % c["id"])
                except Exception as ex:      # an observation of an unexpected shape must not stop the check: correspondence broken
                    rec["skip"] = "extract_error: %s; and the behavioural fallback failed on the observations: %r" % (r.get("extract_err"), ex)
                    continue
                if expr is not None:        # None: this case has no other observation to decide (b) with
                    items.append((c["id"], defs, expr))
                    rec["noout"] = True
                    continue
            rec["skip"] = "extract_error: %s" % r.get("extract_err")
            continue
        defs = "Definition ir_%d : module := %s.\nDefinition real_%d : result out := %s." % (
            c["id"], r["ir"], c["id"], real)
        if c.get("want_toks"):
            defs += "\nDefinition toks_%d : option (list tok) := %s." % (
                c["id"], ("(Some %s)" % r["toks"]) if r.get("toks") else "None")
        try:
            expr = prop.verdict_expr(c, r, "ir_%d" % c["id"], "real_%d" % c["id"])
        except Exception as ex:          # observations of an unexpected shape: report as a broken correspondence, do not crash
            rec["skip"] = "extract_error: harness could not interpret the observations of this case: %r" % (ex,)
            continue
        if c.get("extract_check"):
            expr = ("match (%s) with w_ :: a_ :: rest_ => w_ :: (a_ && tokens_agree real_%d toks_%d) :: rest_ | l_ => l_ end"
                    % (expr, c["id"], c["id"]))
            rec["extract_checked"] = True
        if c["opts"].get("validate") and getattr(prop, "VALIDATE_MIX", False):
            # validation only gates: the model behind a validated call is the same generator behind the validator's verdict
            expr = expr.replace("(gen ir_%d " % c["id"], "(genv true %s ir_%d " % ("false" if r.get("valid") is False else "true", c["id"]))
        items.append((c["id"], defs, expr))
    verdicts, errors = run_coq_cases(items, prop.REQUIRES, os.path.join(workdir, tag + "_coq"))
    for rec in recs:
        if rec["skip"] is None:
            rec["verdict"] = verdicts.get(rec["case"]["id"])
    return recs, errors


def replay_payload(prop, rec, what, tier, seed):
    c, r = rec["case"], rec["res"]
    return {
        "property": prop.ID, "what": what, "tier": tier, "seed": seed,
        "family": c.get("family"), "wgsl": c["wgsl"], "include": c.get("include"), "opts": c["opts"],
        "real_result": r.get("result"), "real_err": r.get("err"), "panic_msg": r.get("panic_msg"),
        "real_out": r.get("out"), "ir": r.get("ir"), "verdict": rec.get("verdict"),
        "verdict_fields": getattr(prop, "VERDICT_FIELDS", ["wf", "a_model_agrees", "b_property_holds"]),
        "extract_err": r.get("extract_err"), "text": r.get("text"),
        "note": c.get("note"),
        **({"env": c["env"], "env_vars": build_script_env("<workdir>")} if c.get("env") else {}),
    }


def classify(prop, recs):
    """Split evaluated records into violations (b false), disagreements (a false), wf failures, ok."""
    viol, disag, wfbad, broken, ok = [], [], [], [], []
    for rec in recs:
        if rec["skip"]:
            if rec["skip"].startswith("extract_error"):
                broken.append(rec)
            continue
        v = rec["verdict"]
        if v is None or len(v) < 3:
            broken.append(rec)
            continue
        wf, a, b = v[0] == "true", v[1] == "true", v[2] == "true"
        rec["kf"] = 0
        for i, tok in enumerate(v[3:]):
            if tok == "true":
                rec["kf"] = i + 1      # index of the known-finding class whose predicate holds
                break
        if not b:
            viol.append(rec)
        elif not wf:
            wfbad.append(rec)
        elif not a:
            disag.append(rec)
        else:
            ok.append(rec)
    return viol, disag, wfbad, broken, ok


def main_custom(prop, tier, seed, replay, t0):
    """Properties whose correspondence is not 'WGSL -> IR -> out' (processes, faults, timing): the module
    provides run(tier, seed, replay) -> {"violations": [payload], "broken": [payload], "coverage": {...}}."""
    th_ok, th_info, th_msg = theorem_side(prop, tier)
    okb, bout = build_driver()
    if not okb:
        log(bout[-3000:])
        print("ERROR: driver build failed against the current /repo tree")
        return 2
    res = prop.run(tier, seed, replay)
    lines, violations = [], 0
    known = [k for k in load_known_findings() if k.get("property") == prop.ID and k.get("status") == "open"]
    reported = set()
    for v in res["violations"]:
        hit = next((k for k in known if k.get("match") and k["match"] == v.get("kf")), None)
        if hit:
            if hit["id"] not in reported:
                reported.add(hit["id"])
                lines.append("KNOWN-FINDING: property=%s %s" % (prop.ID, hit["what"]))
            continue
        violations += 1
        if violations <= 5:
            v["property"] = prop.ID
            lines.append("VIOLATION property=%s replay=%s" % (prop.ID, write_replay(prop.ID, v)))
    if violations == 0:
        why = None
        if not th_ok:
            why = {"what": "theorem side does not check", "detail": th_msg}
        elif res.get("broken"):
            why = res["broken"][0]
        if why is not None:
            why["property"] = prop.ID
            why["theorems"] = prop.THEOREMS
            violations += 1
            lines.append("VIOLATION property=%s replay=%s no-failing-input-found" % (prop.ID, write_replay(prop.ID, why)))
    cov = {
        "obligations": th_info.get("obligations", 0),
        "discharged": th_info.get("obligations", 0) if th_ok else 0,
        "checker_cmd": "cd /verif/coq && make -j16 (coqc 8.16.1, full .vo build) + coqc Print Assumptions for %s" % ", ".join(prop.THEOREMS),
        "trusted_base": TRUSTED_BASE + getattr(prop, "TRUSTED_EXTRA", []),
        "theorems": prop.THEOREMS,
        "print_assumptions": th_info.get("print_assumptions", {}),
        "coqchk": th_info.get("coqchk", "not run in this tier (thorough only)"),
        "rule": prop.RULE,
        "repo_src_hash": repo_src_hash(),
        "known_findings_reported": sorted(reported),
    }
    cov.update(res["coverage"])
    write_evidence(prop.ID, "thorough" if tier == "thorough" else "quick", seed, cov, time.time() - t0, violations,
                   assumptions=getattr(prop, "ASSUMPTIONS", []))
    for l in lines:
        print(l)
    print("%s: %d evaluations, %d violations, %.1fs" % (prop.ID, cov.get("evaluations", 0), violations, time.time() - t0))
    return 1 if violations else 0


def main(prop_name, tier, seed, replay=None):
    t0 = time.time()
    sys.path.insert(0, os.path.join(ROOT, "props"))
    prop = importlib.import_module(prop_name.lower())
    if hasattr(prop, "run"):
        return main_custom(prop, tier, seed, replay, t0)
    workdir = os.path.join(WORK, prop.ID)
    os.makedirs(workdir, exist_ok=True)
    violations = 0
    lines = []

    th_ok, th_info, th_msg = theorem_side(prop, tier)
    okb, bout = build_driver()
    if not okb:
        # the tree does not build with hooks on: nothing can be concluded; this is not a property verdict
        log(bout[-3000:])
        print("ERROR: driver build failed against the current /repo tree")
        return 2

    rng = random.Random(seed)
    if replay:
        rp = json.load(open(replay))
        stage_lists = [[{"wgsl": rp["wgsl"], "include": rp.get("include"), "opts": rp["opts"], "family": "replay",
                         **({"env": rp["env"]} if rp.get("env") else {})}]]
    elif hasattr(prop, "stages"):
        stage_lists = prop.stages(rng, tier)
    else:
        stage_lists = [prop.cases(rng, tier)]
    if not replay and stage_lists:
        # the witnesses of the listed known findings run first, as a corpus
        wit = [{"wgsl": k["witness"]["wgsl"], "include": k["witness"].get("include"),
                "opts": dict(k["witness"].get("opts", {})), "family": "known_finding_witness",
                **({"want_toks": True} if getattr(prop, "WANT_TOKS", False) else {}),
                **(prop.witness_case(k) if hasattr(prop, "witness_case") else {})}
               for k in load_known_findings()
               if k.get("property") == prop.ID and k.get("status") == "open" and k.get("witness")]
        stage_lists[0] = wit + list(stage_lists[0])
    recs, errors = [], []
    for si, cases in enumerate(stage_lists):
        r, e = evaluate(prop, cases if replay else with_build_env(prop, cases), workdir, "main%d" % si)
        recs.extend(r)
        errors.extend(e)
        if classify(prop, r)[0]:
            break   # a later stage only makes sense when the earlier one holds (e.g. deeper call chains)
    if getattr(prop, "ENV_COMPARE", 0) and not replay and recs:
        # properties whose cases need more than the generator's text (oracles, compiled batches): a sample of the cases is
        # generated once more from a cargo build-script environment and must give the very same result
        n = prop.ENV_COMPARE
        pool = [rec for rec in recs if rec["res"].get("result") in ("ok", "err") and rec["case"].get("env") is None]
        sample = pool[:: max(1, len(pool) // n)][:n]
        if sample:
            plain = [{k: rec["case"][k] for k in ("wgsl", "include", "opts", "want_text") if k in rec["case"]} for rec in sample]
            for i, pl in enumerate(plain):
                pl["id"] = i
            eres = run_driver(plain, workdir, "envcmp", timeout=getattr(prop, "DRIVER_TIMEOUT", 3000), env=build_script_env(workdir))
            for rec, er in zip(sample, eres):
                a, b = rec["res"], er
                if (a.get("result"), a.get("out"), a.get("err"), a.get("extract_err")) != (b.get("result"), b.get("out"), b.get("err"), b.get("extract_err")):
                    c2 = dict(rec["case"], env="build_script", family=str(rec["case"].get("family")) + "+build_script_env",
                              note="the same call made from a cargo build-script environment returned a different result "
                                   "(plain: %s / %s; build script: %s / %s)" % (a.get("result"), str(a.get("out"))[:300], b.get("result"), str(b.get("out"))[:300]))
                    recs.append({"case": c2, "res": er, "verdict": ["true", "true", "false"] + ["false"] * (len(rec.get("verdict") or []) - 3), "skip": None})
                else:
                    recs.append({"case": dict(rec["case"], env="build_script", family=str(rec["case"].get("family")) + "+build_script_env"),
                                 "res": er, "verdict": rec.get("verdict"), "skip": rec.get("skip"), **({"noout": True} if rec.get("noout") else {})})
    viol, disag, wfbad, broken, ok = classify(prop, recs)

    # exhaustive comparison of the leaf tables this property reads (driver tables, through the verification hooks)
    tables_info = None
    if getattr(prop, "TABLES", None) and not replay:
        tables_info = check_tables(prop.TABLES, workdir)
        if tables_info.get("failed"):
            errors.append(("leaf tables", "the real crate's leaf table(s) %s differ from the model's on the exhaustively "
                           "enumerated domain (coq/Check/Tables.v): %s" % (tables_info["failed"], tables_info.get("detail", ""))))

    known = [k for k in load_known_findings() if k.get("property") == prop.ID and k.get("status") == "open"]
    searched = 0
    if (disag or wfbad or broken or errors or not th_ok) and not viol and not replay:
        # the theorem no longer transfers to the code: search for a concrete failing input
        extra = prop.cases(random.Random(seed + 1), "search")
        recs2, errors2 = evaluate(prop, with_build_env(prop, extra), workdir, "search")
        searched = len(recs2)
        v2, _, _, _, _ = classify(prop, recs2)
        viol.extend(v2)

    reported_known = set()
    for rec in viol:
        kf = rec.get("kf", 0)
        hit = None
        for k in known:
            if k.get("kf_code") and kf == k["kf_code"]:
                hit = k
        if hit:
            if hit["id"] not in reported_known:
                reported_known.add(hit["id"])
                lines.append("KNOWN-FINDING: property=%s %s" % (prop.ID, hit["what"]))
            continue
        violations += 1
        if violations <= 5:
            path = write_replay(prop.ID, replay_payload(prop, rec, "property fails on the real output (b)", tier, seed))
            lines.append("VIOLATION property=%s replay=%s" % (prop.ID, path))

    if violations == 0:
        why = None
        if not th_ok:
            why = {"what": "theorem side does not check", "detail": th_msg}
        elif errors:
            why = {"what": "coq case shard failed", "detail": errors[0][1]}
        elif broken:
            why = replay_payload(prop, broken[0], "real output could not be extracted / evaluated (correspondence broken)", tier, seed)
        elif wfbad:
            why = replay_payload(prop, wfbad[0], "wf premise false on a real module (model of naga's guarantees broken)", tier, seed)
        elif disag:
            why = replay_payload(prop, disag[0], "model and implementation disagree on the projection of this property (a)", tier, seed)
        if why is not None:
            why["property"] = prop.ID
            why["theorems"] = prop.THEOREMS
            why["searched_cases"] = searched
            path = write_replay(prop.ID, why)
            violations += 1
            lines.append("VIOLATION property=%s replay=%s no-failing-input-found" % (prop.ID, path))

    # evidence
    evaluated = [r for r in recs if r["verdict"] is not None]
    nontriv = set()
    feats = {}
    fams = {}
    for r in evaluated:
        fam_ = str(r["case"].get("family", "?"))
        if r["case"].get("env") == "build_script" and not fam_.endswith("+build_script_env"):
            fam_ += "+build_script_env"
        fams[fam_] = fams.get(fam_, 0) + 1
        for f in r["res"].get("features") or []:
            feats[f] = feats.get(f, 0) + 1
        if prop.nontrivial(r["case"], r["res"]):
            if hasattr(prop, "distinct_key"):
                nontriv.add(prop.distinct_key(r["case"], r["res"]))
            else:
                nontriv.add((r["res"].get("ir"), json.dumps(r["case"].get("opts"), sort_keys=True)))
    outcomes = {}
    for r in recs:
        k = r["res"].get("result") if r["res"].get("parse_ok") else "parse_error"
        if r["res"].get("err"):
            k = r["res"]["err"]["variant"]
        outcomes[k] = outcomes.get(k, 0) + 1
    samples = []
    for r in evaluated[:: max(1, len(evaluated) // 3)][:3]:
        samples.append({"family": r["case"].get("family"), "wgsl": r["case"]["wgsl"][:600], "opts": r["case"]["opts"],
                        "real": r["res"].get("result"), "err": r["res"].get("err"), "verdict": r["verdict"]})
    cov = {
        "obligations": th_info.get("obligations", 0),
        "discharged": th_info.get("obligations", 0) if th_ok else 0,
        "checker_cmd": "cd /verif/coq && make -j16 (coqc 8.16.1, full .vo build) + coqc Print Assumptions for %s" % ", ".join(prop.THEOREMS),
        "trusted_base": TRUSTED_BASE + getattr(prop, "TRUSTED_EXTRA", []),
        "theorems": prop.THEOREMS,
        "print_assumptions": th_info.get("print_assumptions", {}),
        "coqchk": th_info.get("coqchk", "not run in this tier (thorough only)"),
        "evaluations": len(recs),
        "evaluated_in_coq": len(evaluated),
        "distinct_nontrivial": len(nontriv),
        "rule": prop.RULE,
        "samples": samples or [{"note": "no case evaluated"}],
        "traces_validated_against_impl": len(ok),
        "model_disagreements": len(disag),
        "wf_false": len(wfbad),
        "not_evaluated": len(broken),
        "skipped_parse_error": sum(1 for r in recs if r["skip"] == "parse_error"),
        "search_cases": searched,
        "families": fams,
        "outcomes": outcomes,
        "feature_histogram": feats,
        "repo_src_hash": repo_src_hash(),
        "known_findings_reported": sorted(reported_known),
        "extractor_validated_in_coq": sum(1 for r in recs if r.get("extract_checked") and r["verdict"] is not None),
    }
    if tables_info is not None:
        cov["leaf_tables"] = tables_info
    if hasattr(prop, "extra_coverage"):
        cov.update(prop.extra_coverage(recs))
    write_evidence(prop.ID, "thorough" if tier == "thorough" else "quick", seed, cov, time.time() - t0, violations,
                   assumptions=getattr(prop, "ASSUMPTIONS", []))
    for l in lines:
        print(l)
    print("%s: %d cases, %d evaluated in Coq, %d agree+hold, %d disagreements, %d violations, %.1fs" % (
        prop.ID, len(recs), len(evaluated), len(ok), len(disag), violations, time.time() - t0))
    return 1 if violations else 0
