"""Behavioural level: what the compiled generated module *does* on the recording wgpu shim (driver batch --shim),
compared with ground truth. Each check returns (ok, why)."""
from common import run_batch, run_driver

KIND = {"RKBuffer": "Buffer", "RKTexture": "TextureView", "RKSampler": "Sampler"}


def attach(plain, cases, workdir, tag, eligible, limit, extra=None):
    """run all cases through `gen`, and the first `limit` eligible ones additionally through `batch --shim`"""
    res = run_driver(plain, workdir, tag)
    idx = [i for i, c in enumerate(cases) if eligible(c)][:limit]
    if idx:
        sub = [dict(plain[i]) for i in idx]
        ef = [extra(cases[i]) for i in idx] if extra else None
        bres, _ = run_batch(sub, workdir, tag + "_shim", real=False, shim=True, extra_fields=ef)
        for i, b in zip(idx, bres):
            res[i]["obs"] = b.get("obs")
    return res


def usable(r):
    o = r.get("obs")
    return isinstance(o, dict) and o.get("obs", 1) is not None and "device_log" in o


def check_c04(truth, r):
    o = r["obs"]
    dl = o["device_log"]
    groups = {g: vs for g, vs in truth}
    n = len(groups)
    bgs = {b["group"]: b["from_bindings"] for b in dl.get("bind_groups", [])}
    if sorted(bgs) != sorted(groups):
        return False, "groups built %s vs %s" % (sorted(bgs), sorted(groups))
    for g, vs in groups.items():
        fb = bgs[g]
        if fb.get("label") != "BindGroup%d" % g or fb.get("layout_desc_label") != "LayoutDescriptor%d" % g or not fb.get("layout_is_own", True):
            return False, "group %d labels / layout" % g
        by_tag = {e["tag"]: e for e in fb["entries"]}
        if len(fb["entries"]) != len(vs) or len(by_tag) != len(vs):
            return False, "group %d: %d entries for %d variables" % (g, len(fb["entries"]), len(vs))
        for k, (name, kind, binding) in enumerate(vs):
            e = by_tag.get(1000 * (g + 1) + k)
            if e is None or e["binding"] != binding or e["field"] != name or e["kind"] != KIND[kind]:
                return False, "group %d field %s (value tag %d) reached %s" % (g, name, 1000 * (g + 1) + k, e)
        if sorted(x["binding"] for x in fb["layout_entries"]) != sorted(b for _, _, b in vs):
            return False, "group %d: layout bindings differ from supplied bindings" % g
    for s in dl.get("set", []):
        calls = s["calls"]
        if s["how"].endswith("::set") and s["how"].startswith("BindGroup") and not s["how"].startswith("BindGroups"):
            g = int(s["how"][len("BindGroup"):].split(":")[0])
            if len(calls) != 1 or calls[0]["index"] != g or calls[0]["bind_group_tag_group"] != g or calls[0]["offsets"]:
                return False, "%s on %s: %s" % (s["how"], s["pass"], calls)
        else:
            if sorted((c["index"], c["bind_group_tag_group"]) for c in calls) != [(g, g) for g in range(n)] or any(c["offsets"] for c in calls):
                return False, "%s on %s: %s" % (s["how"], s["pass"], calls)
    passes = {(s["how"].split("::")[0] if "::" in s["how"] else s["how"], s["pass"]) for s in dl.get("set", [])}
    if n and len({p for _, p in passes}) < 3:
        return False, "not all three pass kinds exercised: %s" % sorted(passes)
    pl = dl.get("pipeline_layout") or {}
    if [x["label"] for x in pl.get("bind_group_layouts", [])] != ["LayoutDescriptor%d" % g for g in range(n)] or not pl.get("layouts_are_own", True):
        return False, "pipeline layout groups %s" % [x["label"] for x in pl.get("bind_group_layouts", [])]
    return True, ""


def stage_bits(ss):
    return sum({"vertex": 1, "fragment": 2, "compute": 4}[s] for s in ss)


def check_c13(truth, r):
    o = r["obs"]
    pl = (o["device_log"].get("pipeline_layout") or {})
    ranges = pl.get("push_constant_ranges", [])
    if truth is None:
        ok = o.get("push_constant_stages") is None and ranges == []
        return ok, "" if ok else "range / constant without a push constant: %s %s" % (o.get("push_constant_stages"), ranges)
    size, ss = truth
    bits = stage_bits(ss)
    if o.get("push_constant_stages") != bits:
        return False, "PUSH_CONSTANT_STAGES = %s, expected %d" % (o.get("push_constant_stages"), bits)
    if len(ranges) != 1 or ranges[0].get("stages") != bits or ranges[0].get("start") != 0 or ranges[0].get("end") != size:
        return False, "recorded ranges %s, expected one [0, %d) for stages %d" % (ranges, size, bits)
    return True, ""


def check_c14(truth, r):
    o = r["obs"]
    ec = o.get("entry_consts") or {}
    if sorted(ec.values()) != sorted(t["name"] for t in truth):
        return False, "entry constants %s" % ec
    cps = (o["device_log"].get("compute_pipelines") or {})
    wgs = o.get("workgroup_sizes") or {}
    for t in truth:
        if t["stage"] == "compute":
            cp = cps.get("create_%s_pipeline" % t["name"])
            if not cp or cp.get("entry_point") != t["name"] or cp.get("label") != "Compute Pipeline " + t["name"] \
                    or not cp.get("layout_is_own") or not cp.get("module_source_is_own"):
                return False, "compute pipeline of %s: %s" % (t["name"], cp)
            if t["wg"] not in list(wgs.values()):
                return False, "workgroup size %s not among %s" % (t["wg"], wgs)
        elif t["stage"] == "fragment":
            fe = (o.get("fragment_entries") or {}).get(t["name"] + "_entry")
            if not fe or fe.get("entry_point") != t["name"] or fe.get("n") != t["targets"]:
                return False, "fragment entry %s: %s" % (t["name"], fe)
            fs = fe.get("fragment_state") or {}
            if fs.get("entry_point") != t["name"] or fs.get("targets_len") != t["targets"] or not fs.get("targets_same", True) \
                    or not fs.get("constants_same", True) or not fs.get("module_same", True):
                return False, "fragment_state of %s does not forward its fields: %s" % (t["name"], fs)
        else:
            ve = (o.get("vertex_entries") or {}).get(t["name"] + "_entry")
            if not ve or ve.get("entry_point") != t["name"] or ve.get("n") != len(t["structs"]) or len(ve.get("buffers", [])) != len(t["structs"]):
                return False, "vertex entry %s: %s" % (t["name"], ve)
            vs = ve.get("vertex_state") or {}
            if vs.get("entry_point") != t["name"] or vs.get("buffers_len") != len(t["structs"]) or not vs.get("buffers_same", True) \
                    or not vs.get("constants_same", True) or not vs.get("module_same", True):
                return False, "vertex_state of %s does not forward its fields: %s" % (t["name"], vs)
            want = ["Vertex", "Instance"] * 4
            if [b.get("step_mode") for b in ve.get("buffers", [])] != want[: len(t["structs"])]:
                return False, "step modes of %s not passed through in parameter order: %s" % (t["name"], ve.get("buffers"))
    return True, ""


def check_c15(truth, r):
    o = r["obs"]
    cs = o.get("consts") or {}
    prim = {"PI32": "i32", "PU32": "u32", "PF32": "f32", "PF64": "f64", "PI64": "i64", "PU64": "u64", "PBool": "bool"}
    for name, ty, lit in truth:
        c = cs.get(name)
        if not c or c.get("type_name") != prim[ty]:
            return False, "const %s: %s" % (name, c)
        want = lit.strip("()").split()[1].rstrip("%NZ").strip("()")
        want = {"true": "1", "false": "0"}.get(want, want)
        if str(c.get("bits")).strip() != want and not (ty in ("PI32", "PI64") and str(c.get("bits")) == want):
            return False, "const %s has value/bits %s, expected %s" % (name, c.get("bits"), want)
    return True, ""


def check_c12(truth, assignments, r):
    o = r["obs"]
    if not truth:
        return True, ""
    ovs = o.get("overrides") or []
    if len(ovs) != len(assignments):
        return False, "override runs %d vs %d" % (len(ovs), len(assignments))
    for a, run in zip(assignments, ovs):
        consts = run.get("constants")
        if consts is None:
            return False, "constants() failed: %s" % run.get("error")
        want = {}
        for t in truth:
            v = a.get(t["name"])
            if v is None:
                if not t["default"]:
                    return False, "assignment lacks required %s" % t["name"]
                continue
            key = str(t["id"]) if t["id"] is not None else t["name"]
            want[key] = (1.0 if v else 0.0) if t["ty"] == "bool" else (_f32(v) if t["ty"] == "f32" else float(v))
        if {k: float(v) for k, v in consts.items()} != want:
            return False, "map %s, expected %s" % (consts, want)
    return True, ""


def _f32(x):
    import struct
    return struct.unpack("<f", struct.pack("<f", float(x)))[0]


def _f32_bits(x):
    import struct
    return struct.unpack("<I", struct.pack("<f", float(x)))[0]


def c12_expected(truth, a):
    """what every override must resolve to under assignment `a` (WGSL semantics, computed independently):
    the assigned value, else the default (a literal or `other * 2`)"""
    val = {}
    for t in truth:   # declaration order: a default only refers to earlier overrides
        v = a.get(t["name"])
        if v is None:
            d = t["dflt"]
            v = d["lit"] if "lit" in d else val[d["mul2"]] * 2
        val[t["name"]] = _f32(v) if t["ty"] == "f32" else v
    return val


def check_c12_resolved(truth, assignments, ovres):
    """ovres: results of `driver overrides` (naga's real process_overrides) on the maps produced by the compiled
    OverrideConstants::constants(): the pipeline must accept each map and resolve each override to the intended value"""
    if len(ovres) != len(assignments):
        return False, "override resolutions %d vs %d" % (len(ovres), len(assignments))
    for a, res in zip(assignments, ovres):
        if res.get("result") != "ok":
            return False, "process_overrides on the produced map: %s" % (res.get("error") or res)
        exp = c12_expected(truth, a)
        for t in truth:
            got = res["values"].get(t["name"])
            e = exp[t["name"]]
            want = {"ty": t["ty"], "bits": _f32_bits(e) if t["ty"] == "f32" else int(e)}
            if got != want:
                return False, "override %s resolved to %s, expected %s under %s" % (t["name"], got, want, a)
    return True, ""


def not_compiled(r):
    o = r.get("obs")
    return isinstance(o, dict) and o.get("obs", 1) is None


PERMITTED_REJECTIONS = ("does not match WGSL", "derive(Pod) was applied to a type with padding", "E0080")


def check_c05(truth, opts, r):
    """C05, end to end: the module was compiled by rustc with the assertions in it; every host-shareable struct must
    have exactly the WGSL offsets and size (rustc's offset_of / size_of, observed at run time)."""
    o = r["obs"]
    if not opts.get("bm_host"):
        return True, "assertions not requested"
    for t in truth:
        if not t["host"] or t["rts"]:
            continue
        st = (o.get("structs") or {}).get(t["name"])
        if st is None:
            return False, "host-shareable struct %s missing from the compiled module" % t["name"]
        offs = {f["name"]: f["offset"] for f in st["fields"]}
        for mn, off in t["offsets"]:
            if offs.get(mn) != off:
                return False, "module compiled although %s.%s sits at Rust offset %s, WGSL offset %d" % (t["name"], mn, offs.get(mn), off)
        if st["size"] != t["size"]:
            return False, "module compiled although size_of::<%s>() = %d, WGSL size %d" % (t["name"], st["size"], t["size"])
    return True, ""


def expected_impls(o, host, rts):
    pod = bool((o.get("bm_host") and host) or (o.get("bm_vertex") and not host))
    return {"Copy": not rts, "Clone": True, "Debug": True, "PartialEq": True, "Pod": pod, "Zeroable": pod,
            "ShaderType": bool(o.get("encase") and host), "Serialize": bool(o.get("serde")), "Deserialize": bool(o.get("serde"))}


def check_c09(truth, opts, r):
    """C09, behaviourally: which traits rustc finds implemented for every emitted struct of the compiled module"""
    o = r["obs"]
    structs = o.get("structs") or {}
    for t in truth:
        st = structs.get(t["name"])
        if st is None:
            return False, "struct %s missing from the compiled module" % t["name"]
        want = expected_impls(opts, t["host"], t["rts"])
        got = {k: bool(v) for k, v in (st.get("impls") or {}).items() if k in want}
        if got != want:
            diff = {k: (got.get(k), want[k]) for k in want if got.get(k) != want[k]}
            return False, "%s: trait impls (observed, expected) differ: %s" % (t["name"], diff)
    extra = [n for n in structs if n not in {t["name"] for t in truth}]
    if extra:
        return False, "structs emitted that the host does not fill: %s" % extra
    return True, ""


def check_c03(truth_vis, truth_pc, r):
    """C03, behaviourally: the visibility bits of every layout entry the compiled module hands to the device (and the
    stages of the push-constant range when the push constant is used) against the generator's own ground truth"""
    dl = r["obs"]["device_log"]
    ents = {}
    for lay in dl.get("layouts", []):
        for e in lay["get_bind_group_layout"]["entries"]:
            ents[(lay["group"], e["binding"])] = e["visibility"]
    for g, b, ss in truth_vis:
        if ents.get((g, b)) != stage_bits(ss):
            return False, "binding (%d, %d): visibility bits %s handed to the device, stages using it: %s" % (g, b, ents.get((g, b)), ss)
    if truth_pc:
        rs = (dl.get("pipeline_layout") or {}).get("push_constant_ranges") or []
        if len(rs) != 1 or rs[0]["stages"] != stage_bits(truth_pc):
            return False, "push constant range %s, stages using it: %s" % (rs, truth_pc)
    return True, ""


def check_c11(truth_pairs, r):
    """C11 on success, behaviourally: the (group, binding) slots the compiled module hands to the device are exactly the
    declared ones, each once, in its own group; groups are 0..n-1 in pipeline-layout order"""
    dl = r["obs"]["device_log"]
    got = []
    for lay in dl.get("layouts", []):
        for e in lay["get_bind_group_layout"]["entries"]:
            got.append((lay["group"], e["binding"]))
    if sorted(got) != sorted((g, b) for g, b in truth_pairs):
        return False, "slots handed to the device %s, declared %s" % (sorted(got), sorted(truth_pairs))
    n = len({g for g, _ in truth_pairs})
    labels = [x["label"] for x in (dl.get("pipeline_layout") or {}).get("bind_group_layouts", [])]
    if labels != ["LayoutDescriptor%d" % g for g in range(n)]:
        return False, "pipeline layout lists %s for %d groups" % (labels, n)
    return True, ""


def check_c08(truth, r):
    """C08, behaviourally: the set of struct items of the compiled module (rustc would reject a duplicate)"""
    got = sorted((r["obs"].get("structs") or {}).keys())
    want = sorted(t["name"] for t in truth)
    if got != want:
        return False, "structs in the compiled module %s, structs a host has to fill %s" % (got, want)
    return True, ""
