"""Shared machinery of the checks: build Coq + driver, run cases through the real
generator and through the Coq model/checkers, decide, write evidence and replays."""
import hashlib
import json
import os
import re
import shutil
import subprocess
import sys
import time
from concurrent.futures import ThreadPoolExecutor

ROOT = os.path.dirname(os.path.dirname(os.path.abspath(__file__)))
COQ = os.path.join(ROOT, "coq")
CACHE = os.path.join(ROOT, ".cache")
WORK = os.path.join(ROOT, "work")
TARGET = os.path.join(CACHE, "target")
DRIVER_DIR = os.path.join(ROOT, "harness", "driver")
DRIVER = os.path.join(CACHE, "driver-active")      # copy of the binary built by the last build_driver()
if os.environ.get("VERIF_REPO"):
    _tag = hashlib.sha256(os.environ["VERIF_REPO"].encode()).hexdigest()[:10]
    TARGET = os.environ.get("VERIF_TARGET", os.path.join(CACHE, "target-" + _tag))
    DRIVER = os.path.join(CACHE, "driver-active-" + _tag)
REPLAYS = os.path.join(ROOT, "replays")
EVIDENCE = os.path.join(ROOT, "evidence")
# The repository under test. Registered commands always use /repo; VERIF_REPO lets a seeded change be run from a scratch
# worktree (tools/seed_wave_par.sh) without touching /repo: the driver crate is then copied with its path dependency
# rewritten and built into a target directory of its own.
REPO = os.environ.get("VERIF_REPO", "/repo").rstrip("/")
GUARD = "--cfg wgsl_to_wgpu_verif"

ALLOWED_AXIOMS = set()   # no axiom is expected under any property theorem

TRUSTED_BASE = [
    "Coq 8.16.1 kernel (coqc), vm_compute for case evaluation and finite lemmas; no native_compute",
    "no axioms: Print Assumptions of every property theorem must say 'Closed under the global context'",
    "hand-written Gallina model of the generator (coq/Model/*.v), tied to /repo by the per-run correspondence",
    "naga 24 front end / Layouter (the IR is the model's input), BTreeMap ordered iteration",
    "harness: IR serializer and syn extractor (harness/driver), Python case generators, verdict parsing",
]


def log(*a):
    print(*a, file=sys.stderr, flush=True)


def sh(cmd, cwd=None, env=None, timeout=None, check=False):
    e = dict(os.environ)
    if env:
        e.update(env)
    p = subprocess.run(cmd, cwd=cwd, env=e, shell=isinstance(cmd, str), stdout=subprocess.PIPE,
                       stderr=subprocess.STDOUT, timeout=timeout, text=True, errors="replace")
    if check and p.returncode != 0:
        raise RuntimeError("command failed: %s\n%s" % (cmd, p.stdout[-4000:]))
    return p.returncode, p.stdout


# ---------------------------------------------------------------------------------------
# Coq side
# ---------------------------------------------------------------------------------------

FORBIDDEN = re.compile(
    r"\b(Admitted|admit|Axiom|Axioms|Parameter|Parameters|Conjecture|Hypothesis|Variable|"
    r"Unset\s+Guard|Unset\s+Positivity|Unset\s+Universe|bypass_check|Admit\s+Obligations|"
    r"type-in-type|impredicative-set)\b")


def strip_coq_comments(text):
    out, depth, i = [], 0, 0
    while i < len(text):
        if text.startswith("(*", i):
            depth += 1
            i += 2
        elif text.startswith("*)", i) and depth > 0:
            depth -= 1
            i += 2
        else:
            if depth == 0:
                out.append(text[i])
            i += 1
    return "".join(out)


def coq_files():
    fs = []
    with open(os.path.join(COQ, "_CoqProject")) as f:
        for line in f:
            line = line.strip()
            if line.endswith(".v"):
                fs.append(line)
    return fs


def hygiene():
    """No Admitted/admit/Axiom/... anywhere in the development. Section-local
    Variable/Hypothesis are allowed only between Section ... End."""
    problems = []
    for rel in coq_files():
        text = strip_coq_comments(open(os.path.join(COQ, rel)).read())
        # remove string literals
        text = re.sub(r'"(?:[^"]|"")*"', '""', text)
        depth = 0
        for lineno, line in enumerate(text.split("\n"), 1):
            if re.match(r"\s*Section\b", line):
                depth += 1
            if re.match(r"\s*End\b", line) and depth > 0:
                depth -= 1
            for mm in FORBIDDEN.finditer(line):
                w = mm.group(1)
                if w in ("Variable", "Hypothesis") and depth > 0:
                    continue
                problems.append("%s:%d: %s" % (rel, lineno, w))
    return problems


def build_coq():
    """Full .vo build (incremental). Returns (ok, log)."""
    if not os.path.exists(os.path.join(COQ, "Makefile")):
        sh("coq_makefile -f _CoqProject -o Makefile", cwd=COQ, check=True)
    rc, out = sh("timeout 3000 make -j16", cwd=COQ)
    return rc == 0, out


def count_qed(files):
    n = 0
    for rel in files:
        text = strip_coq_comments(open(os.path.join(COQ, rel)).read())
        n += len(re.findall(r"\b(Qed|Defined)\.", text))
    return n


def print_assumptions(theorems, requires):
    """Returns dict theorem -> assumptions text ('Closed under the global context' expected)."""
    os.makedirs(WORK, exist_ok=True)
    path = os.path.join(WORK, "pa_%d.v" % os.getpid())
    with open(path, "w") as f:
        f.write("From W2W Require Import %s.\n" % " ".join(requires))
        for t in theorems:
            f.write('Goal True. idtac "@@@ %s". exact I. Qed.\nPrint Assumptions %s.\n' % (t, t))
        f.write("Set Printing Width 100000.\n")
        for t in theorems:
            f.write('Goal True. idtac "### %s". exact I. Qed.\nCheck %s.\n' % (t, t))
    rc, out = sh(["coqc", "-noglob", "-Q", COQ, "W2W", path], timeout=600)
    for ext in (".v", ".vo", ".vok", ".vos", ".glob"):
        try:
            os.remove(path[:-2] + ext)
        except OSError:
            pass
    res = {}
    if rc != 0:
        return None, out
    head, _, stmts = out.partition("### ")
    parts = head.split("@@@ ")
    for part in parts[1:]:
        name, _, rest = part.partition("\n")
        res[name.strip()] = " ".join(rest.split())
    STATEMENTS.clear()
    for part in ("### " + stmts).split("### ")[1:]:
        name, _, rest = part.partition("\n")
        STATEMENTS[name.strip()] = " ".join(rest.split())
    return res, out


STATEMENTS = {}
PINS = os.path.join(COQ, "pins.json")


def pinned_statements_ok(theorems):
    """The statement of every property theorem (as printed by Check) must equal the one pinned in coq/pins.json
    (written by tools/pin_statements.py): a theorem cannot be weakened quietly."""
    try:
        pins = json.load(open(PINS))
    except (OSError, ValueError):
        return False, "coq/pins.json missing or unreadable"
    bad = [t for t in theorems if pins.get(t) != STATEMENTS.get(t)]
    if bad:
        return False, "statement differs from the pinned one: " + ", ".join(bad)
    return True, ""


def coqchk(requires):
    """Re-check the compiled property files and everything they depend on with Coq's independent checker;
    returns (ok, summary text). Used by the thorough tier (about a minute per property)."""
    mods = ["W2W.Properties." + r for r in requires]
    rc, out = sh(["coqchk", "-silent", "-o", "-Q", COQ, "W2W"] + mods, timeout=3000)
    tail = out[out.find("CONTEXT SUMMARY"):] if "CONTEXT SUMMARY" in out else out[-1500:]
    summary = " ".join(tail.split())
    want = ["Axioms: <none>", "type-in-type: <none>", "unsafe (co)fixpoints: <none>", "positivity is assumed: <none>"]
    ok = rc == 0 and all(w in summary for w in want)
    return ok, summary


def check_pins(pins_file="Pins.v"):
    return os.path.exists(os.path.join(COQ, pins_file[:-2] + ".vo"))


# ---------------------------------------------------------------------------------------
# Rust side
# ---------------------------------------------------------------------------------------

def repo_src_hash():
    h = hashlib.sha256()
    base = os.path.join(REPO, "wgsl_to_wgpu")
    for dp, dn, fn in sorted(os.walk(base)):
        dn.sort()
        if "/target" in dp:
            continue
        for n in sorted(fn):
            if n.endswith((".rs", ".toml")):
                p = os.path.join(dp, n)
                h.update(p.encode())
                h.update(open(p, "rb").read())
    return h.hexdigest()[:16]


HOOKS = {"on": True, "note": ""}


def _install(src, dst):
    """copy then rename: replacing the file atomically works while another check is still executing the old binary"""
    tmp = "%s.%d.tmp" % (dst, os.getpid())
    shutil.copy2(src, tmp)
    os.replace(tmp, dst)


def build_driver():
    """Build the driver against /repo's working tree with the hooks on. If the tree only fails to build WITH the guard
    (a change broke a guarded hook call), fall back to a build without the guard: every check that does not need the
    counters still runs; C20 then reports the missing counters as a broken correspondence."""
    global DRIVER_DIR
    if REPO != "/repo":
        alt = os.path.join(CACHE, "driver-src-" + os.path.basename(TARGET))
        sh(["rm", "-rf", alt])
        shutil.copytree(os.path.join(ROOT, "harness", "driver"), alt, ignore=shutil.ignore_patterns("target"))
        ct = open(os.path.join(alt, "Cargo.toml")).read().replace('"/repo/wgsl_to_wgpu"', '"%s/wgsl_to_wgpu"' % REPO)
        open(os.path.join(alt, "Cargo.toml"), "w").write(ct)
        DRIVER_DIR = alt
    env = {"CARGO_NET_OFFLINE": "true", "RUSTFLAGS": GUARD, "CARGO_TARGET_DIR": TARGET}
    rc, out = sh("cargo build --release --offline", cwd=DRIVER_DIR, env=env, timeout=3000)
    if rc == 0:
        HOOKS.update(on=True, note="")
        _install(os.path.join(TARGET, "release", "driver"), DRIVER)
        return True, out
    env2 = {"CARGO_NET_OFFLINE": "true", "CARGO_TARGET_DIR": TARGET + "-nohooks"}
    rc2, out2 = sh("cargo build --release --offline", cwd=DRIVER_DIR, env=env2, timeout=3000)
    if rc2 == 0:
        HOOKS.update(on=False, note="build with %s failed, hooks off: %s" % (GUARD, out[-600:]))
        _install(os.path.join(TARGET + "-nohooks", "release", "driver"), DRIVER)
        return True, out2
    return False, out


def run_driver(cases, workdir, tag="cases", sub="gen", timeout=3000, env=None):
    os.makedirs(workdir, exist_ok=True)
    cin = os.path.join(workdir, tag + ".jsonl")
    cout = os.path.join(workdir, tag + ".results.jsonl")
    with open(cin, "w") as f:
        for c in cases:
            f.write(json.dumps(c, ensure_ascii=False) + "\n")
    rc, out = sh([DRIVER, sub, cin, cout], timeout=timeout, env=env)
    if rc != 0:
        raise RuntimeError("driver failed: " + out[-3000:])
    res = []
    with open(cout) as f:
        for line in f:
            res.append(json.loads(line))
    return res


def run_batch(cases, workdir, tag, real=True, shim=False, timeout=3000, extra_fields=None, env=None):
    """driver batch: generator + compile against the real crates (check.jsonl) and/or run against the
    recording shim (obs.jsonl). Returns the gen results with 'compile'/'diagnostics'/'obs' merged in."""
    os.makedirs(workdir, exist_ok=True)
    cin = os.path.join(workdir, tag + ".jsonl")
    outdir = os.path.join(CACHE, "batch", tag + "_" + os.path.basename(workdir))
    sh(["rm", "-rf", outdir])
    os.makedirs(outdir, exist_ok=True)
    with open(cin, "w") as f:
        for i, c in enumerate(cases):
            d = dict(c)
            if extra_fields:
                d.update(extra_fields[i])
            f.write(json.dumps(d, ensure_ascii=False) + "\n")
    cmd = [DRIVER, "batch", cin, outdir] + (["--real"] if real else []) + (["--shim"] if shim else [])
    e = {"CARGO_NET_OFFLINE": "true"}
    if env:
        e.update(env)
    rc, out = sh(cmd, timeout=timeout, env=e)
    if rc != 0:
        raise RuntimeError("driver batch failed: " + out[-3000:])
    res = [json.loads(l) for l in open(os.path.join(outdir, "gen.jsonl"))]
    if real:
        for r, l in zip(res, open(os.path.join(outdir, "check.jsonl"))):
            c = json.loads(l)
            r["compile"] = c.get("compile")
            r["diagnostics"] = c.get("diagnostics")
    if shim:
        for r, l in zip(res, open(os.path.join(outdir, "obs.jsonl"))):
            r["obs"] = json.loads(l)
    summary = json.load(open(os.path.join(outdir, "batch_summary.json")))
    for r in res:
        r["batch_summary_ref"] = outdir
    return res, summary


# ---------------------------------------------------------------------------------------
# Coq case evaluation
# ---------------------------------------------------------------------------------------

def coq_string(s):
    return '"' + s.replace('"', '""') + '"%string'


def coq_opt_string(s):
    return "None" if s is None else "(Some %s)" % coq_string(s)


def coq_bool(b):
    return "true" if b else "false"


def coq_options(o):
    mv = {"Rust": "MVRust", "Glam": "MVGlam", "Nalgebra": "MVNalgebra"}[o.get("mv", "Rust")]
    return "(mkOptions %s %s %s %s %s)" % (coq_bool(o.get("bm_vertex", False)), coq_bool(o.get("bm_host", False)),
                                          coq_bool(o.get("encase", False)), coq_bool(o.get("serde", False)), mv)


def coq_real(res):
    """The real outcome as a Coq term of type [result out]."""
    if res["result"] == "ok":
        if res.get("out") is None:
            return None
        return "(Ok %s)" % res["out"]
    if res["result"] == "err":
        v = res["err"]["variant"]
        if v == "DuplicateBinding":
            return "(Err (DuplicateBinding %d%%N))" % res["err"]["binding"]
        return "(Err %s)" % {"NonConsecutiveBindGroups": "NonConsecutiveBindGroups", "ParseError": "ParseError",
                             "ValidationError": "ValidationError"}[v]
    return '(Panic ""%string)'


VERDICT_RE = re.compile(r"=\s*\(\s*(\d+)%N\s*,\s*\[([^\]]*)\]\s*\)")


def run_coq_cases(items, requires, workdir, shard_size=60, jobs=16, timeout=900):
    """items: list of (case_id:int, definitions:str, verdict_expr:str) where verdict_expr has type
    [list bool] (or list N). Returns dict id -> list of tokens, plus list of shard errors."""
    os.makedirs(workdir, exist_ok=True)
    shards = [items[i:i + shard_size] for i in range(0, len(items), shard_size)]
    paths = []
    for si, shard in enumerate(shards):
        p = os.path.join(workdir, "cases_%03d.v" % si)
        with open(p, "w") as f:
            f.write("From W2W Require Import %s.\n" % " ".join(requires))
            f.write("Open Scope string_scope.\nOpen Scope list_scope.\n")
            for cid, defs, expr in shard:
                f.write(defs + "\n")
                f.write("Eval vm_compute in (%d%%N, %s).\n" % (cid, expr))
        paths.append(p)

    def run(p):
        # large string literals (embedded sources) need a deep parser stack
        # (and a runaway evaluation must end as a failed shard, not take the machine down: 12 GB of address space, the time limit)
        try:
            rc, out = sh("ulimit -s unlimited 2>/dev/null || ulimit -s 1000000; ulimit -v 12000000; exec coqc -noglob -Q '%s' W2W '%s'" % (COQ, p), timeout=timeout)
        except subprocess.TimeoutExpired:
            rc, out = 124, "coqc did not finish %s within %d s" % (os.path.basename(p), timeout)
        return p, rc, out

    verdicts, errors = {}, []
    with ThreadPoolExecutor(max_workers=jobs) as ex:
        for p, rc, out in ex.map(run, paths):
            if rc != 0:
                errors.append((p, out[-3000:]))
            flat = " ".join(out.split())
            for mm in VERDICT_RE.finditer(flat):
                toks = [t.strip() for t in mm.group(2).split(";") if t.strip()]
                verdicts[int(mm.group(1))] = toks
            for ext in (".vo", ".vok", ".vos", ".glob"):
                try:
                    os.remove(p[:-2] + ext)
                except OSError:
                    pass
    return verdicts, errors


# ---------------------------------------------------------------------------------------
# Evidence / replay / verdict output
# ---------------------------------------------------------------------------------------

def write_replay(prop, payload):
    os.makedirs(REPLAYS, exist_ok=True)
    h = hashlib.sha256(json.dumps(payload, sort_keys=True, ensure_ascii=False).encode()).hexdigest()[:12]
    path = os.path.join(REPLAYS, "%s-%s.json" % (prop, h))
    with open(path, "w") as f:
        json.dump(payload, f, indent=1, ensure_ascii=False)
    return path


def write_evidence(prop, tier, seed, coverage, wall, violations, assumptions=None, level="proof"):
    os.makedirs(EVIDENCE, exist_ok=True)
    ev = {
        "property_id": prop, "tier": tier, "seed": seed, "level": level,
        "coverage": coverage, "wall_s": round(wall, 2), "violations": violations,
        "assumptions": assumptions or [],
    }
    with open(os.path.join(EVIDENCE, prop + ".json"), "w") as f:
        json.dump(ev, f, indent=1, ensure_ascii=False)


def load_known_findings():
    p = os.path.join(ROOT, "known_findings.json")
    if not os.path.exists(p):
        return []
    return json.load(open(p))["findings"]
