#!/bin/bash
# Build the framework from files on disk only (offline).
set -e
cd "$(dirname "$0")"
export CARGO_NET_OFFLINE=true
mkdir -p .cache work evidence replays
( cd coq && coq_makefile -f _CoqProject -o Makefile >/dev/null && timeout 3000 make -j16 )
( cd harness/driver && RUSTFLAGS="--cfg wgsl_to_wgpu_verif" CARGO_TARGET_DIR=/verif/.cache/target cargo build --release --offline )
echo setup done
