#!/bin/bash
# Build the framework from files on disk only (offline).
set -e
cd "$(dirname "$0")"
export CARGO_NET_OFFLINE=true
mkdir -p .cache work evidence replays
# always a clean, full .vo build: stale or half-written build products (dependency file, .vo) from an interrupted or
# concurrently copied build must not be trusted
( cd coq && rm -f .Makefile.d Makefile Makefile.conf .lia.cache && find . \( -name '*.vo' -o -name '*.vos' -o -name '*.vok' -o -name '*.glob' -o -name '*.aux' \) -delete \
  && coq_makefile -f _CoqProject -o Makefile >/dev/null && timeout 3000 make -j16 )
( cd harness/driver && RUSTFLAGS="--cfg wgsl_to_wgpu_verif" CARGO_TARGET_DIR="$PWD/../../.cache/target" cargo build --release --offline )
# warm the dependency builds of the scratch crates (real wgpu 24.0.5 etc. for `cargo check`, the recording shim)
head -n 6 harness/driver/testdata/smoke.jsonl > .cache/warm.jsonl
.cache/target/release/driver batch .cache/warm.jsonl .cache/batch/warm --real --shim >/dev/null 2>&1 || true
echo setup done
