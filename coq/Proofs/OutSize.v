(** C20, the non-recursive rest of the generator: the number of items the output consists of is linear in the
    size of the module - no section of the output can grow faster than the part of the shader it is made from.
    (The two recursive traversals are bounded in [C20Proof.v]; printing is proportional to what is printed.) *)
From stdpp Require Import gmap.
From W2W Require Import Wf GenInv.
From Coq Require Import Lia.

Definition sum (l : list nat) : nat := fold_right Nat.add 0 l.

(** items of one emitted struct: the struct, its fields, its offset assertions *)
Definition struct_items (s : out_struct) : nat := S (length (s_fields s) + length (s_assert_offsets s)).
(** size of one type: a struct counts with its members (twice: a field and an assertion each) *)
Definition ty_size (t : ty) : nat := match t_inner t with TStruct ms _ => S (2 * length ms) | _ => 0 end.

Lemma struct_members_from_length m o n ms : forall idx fs,
  struct_members_from m o n idx ms = Ok fs -> length fs = length ms.
Proof.
  induction ms as [|x t IH]; intros idx fs H; cbn [struct_members_from] in H.
  - inversion H. reflexivity.
  - apply rbind_ok in H as (f & _ & H). apply rbind_ok in H as (fs' & Hfs & H). inversion H; subst fs.
    cbn. rewrite (IH _ _ Hfs). reflexivity.
Qed.

Lemma filter_length_le' {A} (f : A -> bool) l : length (filter f l) <= length l.
Proof. induction l as [|x t IH]; cbn; [lia|]. destruct (f x); cbn; lia. Qed.

Lemma rust_struct_items m o gvt h t ms s :
  rust_struct m o gvt h t ms = Ok s -> struct_items s <= S (2 * length ms).
Proof.
  unfold rust_struct. destruct (t_name t) as [name|]; [|discriminate]. intros H.
  apply rbind_ok in H as (offs & Hoffs & H). apply rbind_ok in H as (fields & Hfields & H).
  apply rmapM_length in Hoffs. apply struct_members_from_length in Hfields.
  pose proof (filter_length_le' (fun mem => negb (is_builtin (m_binding mem))) ms) as Hle.
  repeat match type of H with (if ?c then _ else _) = _ => destruct c; try discriminate end.
  inversion H; subst s; clear H. unfold struct_items. cbn [s_fields s_assert_offsets].
  match goal with |- context [if ?c then offs else []] => destruct c end; cbn [length]; lia.
Qed.

Lemma structs_from_items m o gvt ts : forall h ss,
  structs_from m o gvt h ts = Ok ss -> sum (map struct_items ss) <= sum (map ty_size ts).
Proof.
  induction ts as [|t rest IH]; intros h ss H; cbn [structs_from] in H.
  - inversion H. cbn. lia.
  - cbn [map sum fold_right]. unfold ty_size at 1. destruct (t_inner t) eqn:Hi; try (specialize (IH _ _ H); unfold sum in *; lia).
    destruct (struct_wanted m gvt h).
    + apply rbind_ok in H as (s & Hs & H). apply rbind_ok in H as (ss' & Hss & H). inversion H; subst ss.
      cbn [map sum fold_right]. pose proof (rust_struct_items _ _ _ _ _ _ _ Hs). specialize (IH _ _ Hss). unfold sum in *. lia.
    + specialize (IH _ _ H). unfold sum in *. lia.
Qed.

Lemma filter_map_length {A B} (f : A -> option B) l : length (filter_map f l) <= length l.
Proof. induction l as [|x t IH]; cbn; [lia|]. destruct (f x); cbn; lia. Qed.

(** the sections of the output that are made from the arenas directly (the bind group sections have one
    entry / field per bound variable: C04's and C11's theorems) *)
Definition out_items (o : out) : nat :=
  sum (map struct_items (o_structs o)) + length (o_consts o) + length (o_entry_consts o) + length (o_compute o)
  + length (o_fentries o) + length (o_ventries o) + length (o_pc_ranges o).

Definition module_size (m : module) : nat :=
  sum (map ty_size (types m)) + length (constants m) + 4 * length (entries m) + 1.

Theorem out_items_linear m src inc o out_ :
  gen m src inc o = Ok out_ -> out_items out_ <= module_size m.
Proof.
  intros Hgen.
  destruct (gen_inv _ _ _ _ _ Hgen) as [bgd pc _ Hst Hc _ _ Hcm Hec Hv _ Hf _ _ _ _ _ Hr _].
  unfold out_items, module_size.
  assert (sum (map struct_items (o_structs out_)) <= sum (map ty_size (types m))) as H1.
  { unfold structs in Hst. destruct (negb (layouter_ok m)); [discriminate|]. exact (structs_from_items _ _ _ _ _ _ Hst). }
  assert (length (o_consts out_) <= length (constants m)) as H2 by (rewrite Hc; apply filter_map_length).
  assert (length (o_entry_consts out_) = length (entries m)) as H3 by (rewrite Hec; unfold entry_point_constants; apply map_length).
  assert (length (o_compute out_) <= length (entries m)) as H4
    by (rewrite Hcm; unfold compute_module; rewrite map_length; apply filter_length_le').
  assert (length (o_fentries out_) <= length (entries m)) as H5
    by (rewrite Hf; unfold fragment_states; rewrite map_length; apply filter_length_le').
  assert (length (o_ventries out_) <= length (entries m)) as H6
    by (unfold vertex_states in Hv; rewrite (rmapM_length _ _ _ Hv); apply filter_length_le').
  assert (length (o_pc_ranges out_) <= 1) as H7 by (rewrite Hr; destruct pc as [[? ?]|]; cbn; lia).
  lia.
Qed.
