(** C07: attribute tables and buffer lists mirror the vertex input structs; layout rules of repr(C). *)
From W2W Require Import Wf GenInv Tactics RustLayout C07Spec.
From Coq Require Import ZifyN ZifyBool.
Local Open Scope N_scope.
Ltac Zify.zify_post_hook ::= Z.div_mod_to_equations.

(** * format table: the vertex format has the component type and count of the WGSL type *)
Lemma vertex_format_components i fmt :
  vertex_format i = Ok fmt ->
  exists x, format_info fmt = Some x /\ wgsl_components i = Some x.
Proof.
  unfold vertex_format, wgsl_components, scalar_prim.
  destruct i as [s|n s| | | | | | | | | | |]; try discriminate; destruct s as [k w]; cbn [sk sw].
  - destruct k; cbn; destruct_match_vars; try discriminate; intros H; inversion H; subst fmt; eexists; split; reflexivity.
  - destruct n, k; cbn; destruct_match_vars; try discriminate; intros H; inversion H; subst fmt; eexists; split; reflexivity.
Qed.

(** * one vertex input per struct parameter, carrying its location members *)
Definition vi_rel (vi : vertex_input) (p : string * string * list member) : Prop :=
  vi_name vi = fst (fst p) /\ vi_snake vi = snd (fst p) /\ vi_fields vi = location_members (snd p).

Lemma vertex_fields_location ms fs :
  rfilter_map vertex_field ms = Ok fs -> fs = location_members ms.
Proof.
  revert fs. induction ms as [|mem t IH]; intros fs H; cbn in H; [inversion H; reflexivity|].
  apply rbind_ok in H as (y & Hy & H). apply rbind_ok in H as (ys & Hys & H). inversion H; subst fs.
  rewrite (IH ys Hys). unfold vertex_field in Hy. unfold location_members. cbn [flat_map].
  destruct (m_binding mem) as [[w|l b]|]; [| |discriminate]; inversion Hy; reflexivity.
Qed.

Lemma vertex_entry_structs_rel m e vis :
  vertex_entry_structs m e = Ok vis -> Forall2 vi_rel vis (struct_params m (e_fn e)).
Proof.
  unfold vertex_entry_structs, struct_params. generalize (f_args (e_fn e)) as args. intros args. revert vis.
  induction args as [|a t IH]; intros vis H; cbn in H; [inversion H; constructor|].
  apply rbind_ok in H as (y & Hy & H). apply rbind_ok in H as (ys & Hys & H). inversion H; subst vis; clear H.
  specialize (IH ys Hys). cbn [flat_map]. unfold vertex_arg_struct in Hy.
  destruct (a_binding a) as [b|]; [inversion Hy; subst y; exact IH|].
  destruct (get_ty m (a_ty a)) as [ty|]; [|discriminate].
  destruct (t_inner ty) eqn:Ei; try (inversion Hy; subst y; exact IH).
  destruct (t_name ty) as [n|], (t_snake ty) as [sn|]; try discriminate.
  apply rbind_ok in Hy as (fs & Hfs & Hy). inversion Hy; subst y. cbn [app].
  constructor; [|exact IH]. unfold vi_rel. cbn. rewrite (vertex_fields_location _ _ Hfs). auto.
Qed.

(** sorting and de-duplication commute with the relation (same keys, same algorithm) *)
Lemma insert_rel x p l l' :
  vi_rel x p -> Forall2 vi_rel l l' -> Forall2 vi_rel (vi_insert x l) (insert_by_name p l').
Proof.
  intros Hx HF. induction HF as [|y q t t' Hy HF IH]; cbn [vi_insert insert_by_name].
  - constructor; [exact Hx|constructor].
  - assert (Hc : str_leb (vi_name y) (vi_name x) = leb_name q p).
    { unfold str_leb, leb_name. destruct Hx as (-> & _), Hy as (-> & _). reflexivity. }
    rewrite Hc. destruct (leb_name q p).
    + constructor; [exact Hy|exact IH].
    + constructor; [exact Hx|]. constructor; [exact Hy|exact HF].
Qed.

Lemma sort_rel l l' : Forall2 vi_rel l l' -> Forall2 vi_rel (vi_sort l) (sort_by_name l').
Proof.
  unfold vi_sort, sort_by_name. intros HF.
  assert (Hgen : forall acc acc', Forall2 vi_rel acc acc' ->
    Forall2 vi_rel (fold_left (fun acc x => vi_insert x acc) l acc) (fold_left (fun acc x => insert_by_name x acc) l' acc')).
  { induction HF as [|x p t t' Hx _ IH]; intros acc acc' Hacc; cbn [fold_left]; [exact Hacc|].
    apply IH. apply insert_rel; assumption. }
  apply Hgen. constructor.
Qed.

Lemma dedup_from_rel prev l l' :
  Forall2 vi_rel l l' -> Forall2 vi_rel (vi_dedup_from prev l) (dedup_from (vi_name prev) l').
Proof.
  intros HF. revert prev. induction HF as [|y q t t' Hy _ IH]; intros prev; cbn; [constructor|].
  destruct Hy as (Hn & Hy'). rewrite <- Hn. destruct (String.eqb (vi_name prev) (vi_name y)).
  - apply IH.
  - constructor; [split; assumption|]. apply IH.
Qed.

Lemma dedup_rel l l' : Forall2 vi_rel l l' -> Forall2 vi_rel (vi_dedup l) (dedup_by_name l').
Proof.
  intros HF. destruct HF as [|x p t t' Hx HF]; cbn; [constructor|].
  constructor; [exact Hx|]. destruct Hx as (Hn & _). rewrite <- Hn. apply dedup_from_rel. exact HF.
Qed.

Lemma Forall2_concat {A B} (R : A -> B -> Prop) ls ls' :
  Forall2 (Forall2 R) ls ls' -> Forall2 R (concat ls) (concat ls').
Proof.
  induction 1 as [|l l' t t' Hl _ IH]; cbn; [constructor|].
  induction Hl; cbn; [exact IH|constructor; assumption].
Qed.

Lemma vertex_inputs_rel m vis :
  get_vertex_input_structs m = Ok vis -> Forall2 vi_rel vis (vertex_input_structs m).
Proof.
  unfold get_vertex_input_structs, vertex_input_structs. intros H.
  apply rbind_ok in H as (ls & Hls & H). inversion H; subst vis.
  apply dedup_rel, sort_rel. rewrite flat_map_concat_map. apply Forall2_concat.
  apply rmapM_ok in Hls. change (vertex_entries m) with (filter is_vertex (entries m)).
  clear -Hls. induction Hls as [|e l es ls' He _ IH]; cbn; [constructor|].
  constructor; [apply vertex_entry_structs_rel; exact He|exact IH].
Qed.

Lemma forallb2_Forall2 {A B} (f : A -> B -> bool) l l' :
  Forall2 (fun x y => f x y = true) l l' -> forallb2 f l l' = true.
Proof. induction 1; cbn; [reflexivity|]. rewrite H, IHForall2. reflexivity. Qed.

Theorem C07_struct_gen m src inc o out_ :
  gen m src inc o = Ok out_ -> C07_struct_ok m out_ = true.
Proof.
  intros Hgen. destruct (gen_inv _ _ _ _ _ Hgen) as [bgd pc _ _ _ _ Hvmod _ _ Hvst _ _ _ _ _ _ _ _ _].
  unfold C07_struct_ok. apply andb_true_iff. split.
  - unfold vertex_struct_methods in Hvmod. apply rbind_ok in Hvmod as (vis & Hvis & Hvmod).
    pose proof (vertex_inputs_rel m vis Hvis) as Hrel. apply rmapM_ok in Hvmod.
    apply forallb2_Forall2. clear Hvis.
    revert Hvmod. generalize (o_vstructs out_) as vs. induction Hrel as [|vi p t t' Hvi _ IH]; intros vs Hv.
    + inversion Hv. constructor.
    + inversion Hv as [|? v ? vs' Hv1 Hv2]; subst. constructor; [|apply IH; exact Hv2].
      destruct p as [[n sn] ms]. destruct Hvi as (Hn & Hsn & Hf). cbn in Hn, Hsn, Hf.
      unfold vertex_struct_impl in Hv1. apply rbind_ok in Hv1 as (attrs & Hattrs & Hv1). inversion Hv1; subst v.
      subst n. unfold vstruct_ok. cbn. rewrite !String.eqb_refl, Hf, N.eqb_refl. cbn.
      apply rmapM_ok in Hattrs. rewrite Hf in Hattrs. apply forallb2_Forall2.
      clear -Hattrs. unfold location_members in *. set (lms := flat_map _ ms) in *. clearbody lms.
      induction Hattrs as [|[l mem] a fs as_ Ha _ IH]; [constructor|]. constructor; [|exact IH].
      unfold vertex_attr in Ha. unfold attr_ok. cbn [fst snd].
      destruct (m_name mem) as [fname|]; [|discriminate].
      destruct (get_inner m (m_ty mem)) as [i|]; [|discriminate].
      apply rbind_ok in Ha as (fmt & Hfmt & Ha). inversion Ha; subst a. cbn.
      rewrite !String.eqb_refl, N.eqb_refl. cbn.
      destruct (vertex_format_components i fmt Hfmt) as (x & Hx1 & Hx2). rewrite Hx1, Hx2.
      unfold pn_eqb. rewrite N.eqb_refl. destruct (fst x); reflexivity.
  - unfold vertex_states in Hvst. apply rmapM_ok in Hvst. apply forallb2_Forall2.
    change (vertex_entries m) with (filter is_vertex (entries m)).
    clear -Hvst. induction Hvst as [|e v es vs He _ IH]; [constructor|]. constructor; [|exact IH].
    unfold vertex_entry in He. apply rbind_ok in He as (vis & Hvis & He). inversion He; subst v.
    pose proof (vertex_entry_structs_rel m e vis Hvis) as Hrel.
    unfold ventry_ok. cbn. rewrite !andb_true_iff. repeat split.
    + apply (list_eqb_spec ss_eqb).
      { intros [a b] [c d]. unfold ss_eqb, pair_eqb. cbn. rewrite andb_true_iff, !String.eqb_eq.
        split; [intros [-> ->]; reflexivity|intros H; inversion H; auto]. }
      clear -Hrel. induction Hrel as [|vi p t t' (Hn & Hs & _) _ IH]; [reflexivity|]. cbn. rewrite Hn, Hs, IH. reflexivity.
    + apply (list_eqb_spec String.eqb String.eqb_eq).
      clear -Hrel. induction Hrel as [|vi p t t' (Hn & Hs & _) _ IH]; [reflexivity|]. cbn. rewrite Hs, IH. reflexivity.
    + apply N.eqb_eq. f_equal. clear -Hrel. induction Hrel; cbn; congruence.
Qed.

(** * repr(C) satisfies wgpu's vertex buffer rules when every field has a size and an alignment that are
    multiples of 4 (all 32- and 64-bit scalar / vector types under the three representations) *)
Definition leaf4 (f : N * N) : Prop := 0 < snd f /\ snd f mod 4 = 0 /\ fst f mod 4 = 0.

Lemma place_align4 fs : forall cur a0,
  Forall leaf4 fs -> (a0 mod 4 = 0 \/ (a0 = 1 /\ fs <> [])) ->
  snd (place fs cur a0) mod 4 = 0.
Proof.
  induction fs as [|[s a] t IH]; intros cur a0 Hf Ha0; cbn [place].
  - destruct Ha0 as [H|[_ H]]; [exact H|contradiction].
  - inversion Hf as [|? ? (Hp & Ha & Hs) Ht]; subst. cbn in Hp, Ha.
    specialize (IH (round_up a cur + s) (N.max a0 a) Ht).
    destruct (place t (round_up a cur + s) (N.max a0 a)) as [[o c] al'] eqn:E. cbn [snd] in *.
    apply IH. left. destruct Ha0 as [H|[-> _]].
    + destruct (N.max_spec a0 a) as [[_ ->]|[_ ->]]; assumption.
    + replace (N.max 1 a) with a by lia. exact Ha.
Qed.

Theorem layout_rules fields :
  Forall leaf4 fields ->
  let '(offs, size, al) := repr_c fields in
  (fields <> [] -> size mod 4 = 0) /\
  (forall i s a off, nth_error fields i = Some (s, a) -> nth_error offs i = Some off ->
     off + s <= size /\ off mod 4 = 0) /\
  (forall i j s a off off', (i < j)%nat -> nth_error fields i = Some (s, a) -> nth_error offs i = Some off ->
     nth_error offs j = Some off' -> off + s <= off').
Proof.
  intros Hall. unfold repr_c.
  assert (Hpos : Forall (fun f => 0 < snd f) fields) by (eapply Forall_impl; [|exact Hall]; unfold leaf4; cbn; tauto).
  pose proof (place_spec fields 0 1 Hpos) as Hp. pose proof (place_align4 fields 0 1 Hall) as Ha4.
  destruct (place fields 0 1) as [[offs cur] al]. destruct Hp as (Hlen & Hcur & Hal & Hle & Hfield & Hmono).
  cbn [snd] in Ha4.
  assert (Hal0 : 0 < al) by lia.
  pose proof (round_up_ge al cur Hal0) as Hge.
  split; [|split].
  - intros Hne. apply round_up_mod4; [|exact Hal0]. apply Ha4. right. auto.
  - intros i s a off Hf Ho. destruct (Hfield i s a off Hf Ho) as (_ & Hmod & Hle').
    split; [lia|].
    rewrite Forall_forall in Hall. destruct (Hall (s, a) (nth_error_In _ _ Hf)) as (Hp & Ha & _). cbn in Hp, Ha.
    assert (E1 : a = 4 * (a / 4)) by (pose proof (N.div_mod a 4); lia).
    assert (E2 : off = a * (off / a)) by (pose proof (N.div_mod off a); lia).
    rewrite E2, E1. replace (4 * (a / 4) * (off / (4 * (a / 4)))) with ((a / 4 * (off / (4 * (a / 4)))) * 4) by lia.
    apply N.mod_mul. lia.
  - exact Hmono.
Qed.

(** the leaf types of 32/64-bit vertex inputs have such layouts under all three representations *)
Lemma vertex_leaf_layout m mv fuel t r e :
  rust_type fuel m t mv = Ok r ->
  (match t_inner t with
   | TScalar s | TVector _ s => (sw s =? 4) || (sw s =? 8)
   | _ => false
   end) = true ->
  match sk (match t_inner t with TScalar s | TVector _ s => s | _ => mkScalar SkBool 1 end) with SkBool => False | _ => True end ->
  exists l, ty_layout e r = Some l /\ leaf4 l.
Proof.
  destruct fuel as [|k]; [discriminate|]. cbn [rust_type].
  destruct (t_inner t) as [s|n s| | | | | | | | | | |]; try discriminate; destruct s as [kd w]; cbn [sk sw].
  - unfold rust_scalar_type. cbn [sk sw]. intros H Hw Hk. apply orb_true_iff in Hw as [Hw|Hw]; apply N.eqb_eq in Hw; subst w;
      destruct kd; cbn in H; try discriminate; try contradiction; inversion H; subst r; eexists; (split; [reflexivity|]);
      unfold leaf4; cbn; repeat split; lia.
  - intros H Hw Hk. apply orb_true_iff in Hw as [Hw|Hw]; apply N.eqb_eq in Hw; subst w;
      destruct mv; unfold glam_vector_type, rust_vector_type, nalgebra_vector_type, rust_scalar_type in H; cbn [sk sw] in H;
      destruct n, kd; cbn in H; try discriminate; try contradiction; inversion H; subst r; eexists; (split; [reflexivity|]);
      unfold leaf4; cbn; repeat split; lia.
Qed.
