(** C03: the memoised traversal computes exactly [static_access]; the emitted
    visibility of every layout entry is the set of stages that use the variable. *)
From stdpp Require Import gmap.
From Coq Require Import Sorted.
From W2W Require Import Wf GenInv Traversal StageMap C11Proof C11Link C03Spec.

(** * A. the spec's own list functions coincide with the ones used in the proofs *)
Lemma stmt_calls_l_eq s : stmt_calls_l s = stmt_calls s.
Proof. reflexivity. Qed.

Lemma callees_l_eq f : callees_l f = fn_callees f.
Proof. reflexivity. Qed.

Lemma refs_l_eq f : refs_l f = fn_globals f.
Proof. reflexivity. Qed.

(** * B. list membership = the inductive occurrence relations *)
Lemma In_blk_iff (P : stmt -> nat -> Prop) (calls : stmt -> list nat) l c :
  Forall (fun s => In c (calls s) <-> P s c) l ->
  In c ((fix blk (l : list stmt) : list nat :=
           match l with [] => [] | x :: t => calls x ++ blk t end) l) <->
  exists s, In s l /\ P s c.
Proof.
  induction 1 as [|x t Hx _ IH].
  - split; [contradiction|intros (s & [] & _)].
  - rewrite in_app_iff, Hx, IH. split.
    + intros [H|(s & Hs & Hp)]; [exists x; split; [left; reflexivity|exact H]|exists s; split; [right; exact Hs|exact Hp]].
    + intros (s & [<-|Hs] & Hp); [left; exact Hp|right; eauto].
Qed.

Lemma In_cases_iff (P : stmt -> nat -> Prop) (calls : stmt -> list nat) cs c :
  Forall (Forall (fun s => In c (calls s) <-> P s c)) cs ->
  In c ((fix cases (l : list (list stmt)) : list nat :=
           match l with
           | [] => []
           | c :: t => (fix blk (l : list stmt) : list nat :=
                          match l with [] => [] | x :: t => calls x ++ blk t end) c ++ cases t
           end) cs) <->
  exists c0 s, In c0 cs /\ In s c0 /\ P s c.
Proof.
  induction 1 as [|c0 t Hc0 _ IH].
  - split; [contradiction|intros (c0 & s & [] & _)].
  - rewrite in_app_iff, (In_blk_iff P calls c0 c Hc0), IH. split.
    + intros [(s & Hs & Hp)|(c1 & s & Hc1 & Hs & Hp)].
      * exists c0, s. split; [left; reflexivity|auto].
      * exists c1, s. split; [right; exact Hc1|auto].
    + intros (c1 & s & [<-|Hc1] & Hs & Hp); [left; eauto|right; eauto].
Qed.

Lemma In_stmt_calls s c : In c (stmt_calls s) <-> call_in s c.
Proof.
  induction s as [b IHb|a r IHa IHr|cs IHcs|b c' IHb IHc|f|] using stmt_ind'; cbn [stmt_calls].
  - rewrite (In_blk_iff call_in stmt_calls b c IHb). split.
    + intros (s & Hs & Hc). eapply ci_block; eauto.
    + inversion 1; subst. eauto.
  - rewrite in_app_iff, (In_blk_iff call_in stmt_calls a c IHa), (In_blk_iff call_in stmt_calls r c IHr). split.
    + intros [(s & Hs & Hc)|(s & Hs & Hc)]; [eapply ci_if_accept|eapply ci_if_reject]; eauto.
    + inversion 1; subst; [left|right]; eauto.
  - rewrite (In_cases_iff call_in stmt_calls cs c IHcs). split.
    + intros (c0 & s & Hc0 & Hs & Hc). eapply ci_switch; eauto.
    + inversion 1; subst. eauto.
  - rewrite in_app_iff, (In_blk_iff call_in stmt_calls b c IHb), (In_blk_iff call_in stmt_calls c' c IHc). split.
    + intros [(s & Hs & Hc)|(s & Hs & Hc)]; [eapply ci_loop_body|eapply ci_loop_continuing]; eauto.
    + inversion 1; subst; [left|right]; eauto.
  - split; [intros [<-|[]]; constructor|inversion 1; left; reflexivity].
  - split; [contradiction|inversion 1].
Qed.

Lemma In_fn_callees f c : In c (fn_callees f) <-> fn_calls f c.
Proof.
  unfold fn_callees, fn_calls, block_calls, expr_calls. rewrite in_app_iff, !in_flat_map. split.
  - intros [(s & Hs & Hc)|(e & He & Hc)].
    + left. exists s. split; [exact Hs|]. apply In_stmt_calls. exact Hc.
    + right. destruct e; cbn in Hc; try contradiction. destruct Hc as [<-|[]]. exact He.
  - intros [(s & Hs & Hc)|He].
    + left. exists s. split; [exact Hs|]. apply In_stmt_calls. exact Hc.
    + right. exists (ECallResult c). split; [exact He|left; reflexivity].
Qed.

Lemma In_fn_globals f g : In g (fn_globals f) <-> fn_refs f g.
Proof.
  unfold fn_globals, fn_refs, expr_globals. rewrite in_flat_map. split.
  - intros (e & He & Hg). destruct e; cbn in Hg; try contradiction. destruct Hg as [<-|[]]. exact He.
  - intros He. exists (EGlobal g). split; [exact He|left; reflexivity].
Qed.

(** * C. [hreach] is [reach] *)
Lemma hreach_reach m c x : hreach m c x <-> reach m c x.
Proof.
  unfold reach. split.
  - induction 1 as [c g Hg|c g d x Hg Hd _ IH].
    + eapply ra_here; [set_solver|exact Hg].
    + eapply ra_step; [set_solver| |exact IH]. exists g. split; [exact Hg|apply In_fn_callees; exact Hd].
  - induction 1 as [c g _ Hg|c d x _ (g & Hg & Hd) _ IH].
    + eapply hr_refl; exact Hg.
    + eapply hr_step; [exact Hg|apply In_fn_callees; exact Hd|exact IH].
Qed.

(** * wf, in the form the traversal theorem wants *)
Lemma wf_calls_from_spec fs : forall i,
  wf_calls_from fs i = true ->
  forall k g d, nth_error fs k = Some g -> In d (fn_callees g) -> d < i + k.
Proof.
  induction fs as [|f t IH]; intros i Hwf k g d Hk Hd; [destruct k; discriminate|].
  cbn [wf_calls_from] in Hwf. apply andb_true_iff in Hwf as [Hf Ht]. destruct k as [|k]; cbn in Hk.
  - inversion Hk; subst. rewrite forallb_forall in Hf. specialize (Hf d Hd). apply Nat.ltb_lt in Hf. lia.
  - specialize (IH (S i) Ht k g d Hk Hd). lia.
Qed.

Lemma wf_calls_wfH m : wf_calls m = true -> wfH m.
Proof.
  unfold wf_calls. intros H. apply andb_true_iff in H as [H _].
  intros i g d Hg Hd. apply (wf_calls_from_spec _ 0 H i g d Hg Hd).
Qed.

Lemma wf_calls_entries m e d :
  wf_calls m = true -> In e (entries m) -> In d (fn_callees (e_fn e)) -> d < length (functions m).
Proof.
  unfold wf_calls. intros H He Hd. apply andb_true_iff in H as [_ H].
  rewrite forallb_forall in H. specialize (H e He). rewrite forallb_forall in H.
  specialize (H d Hd). apply Nat.ltb_lt in H. exact H.
Qed.

(** * D. what an entry point marks = what it statically accesses *)
Theorem entry_marks_static_access m e g :
  wf_calls m = true -> In e (entries m) ->
  g ∈ entry_marks m e <-> static_access m e g.
Proof.
  intros Hwf He.
  destruct (entry_walk_spec m e (wf_calls_wfH m Hwf) (fun d => wf_calls_entries m e d Hwf He)) as [H _].
  rewrite H. unfold static_access. rewrite In_fn_globals. split.
  - intros [Hr|(c & x & Hc & Hr & (f & Hf & Hg))]; [left; exact Hr|right].
    exists c, x, f. rewrite <- In_fn_callees, hreach_reach, <- In_fn_globals. auto.
  - intros [Hr|(c & x & f & Hc & Hr & Hf & Hg)]; [left; exact Hr|right].
    exists c, x. rewrite In_fn_callees, <- hreach_reach. split; [exact Hc|]. split; [exact Hr|].
    exists f. rewrite In_fn_globals. auto.
Qed.

(** * E. the bottom-up table *)
Lemma reach_inv m c x g : get_func m c = Some g ->
  reach m c x <-> x = c \/ exists d, In d (fn_callees g) /\ reach m d x.
Proof. intros Hg. apply ra_inv; [exact Hg|set_solver]. Qed.

Definition table_ok (m : module) (tbl : list (list nat)) : Prop :=
  forall c, c < length tbl -> forall g, In g (nth c tbl []) <-> exists x, reach m c x /\ refsH m x g.

Lemma refs_step_spec m tbl f :
  table_ok m tbl -> (forall d, In d (fn_callees f) -> d < length tbl) ->
  forall g, In g (refs_step tbl f) <->
            In g (fn_globals f) \/ exists d x, In d (fn_callees f) /\ reach m d x /\ refsH m x g.
Proof.
  intros Htbl Hlt g. unfold refs_step. rewrite nodup_In, callees_l_eq, refs_l_eq, in_app_iff, in_flat_map. split.
  - intros [H|(d & Hd & Hg)]; [left; exact H|right].
    apply (Htbl d (Hlt d Hd)) in Hg as (x & Hr & Hx). eauto.
  - intros [H|(d & x & Hd & Hr & Hx)]; [left; exact H|right].
    exists d. split; [exact Hd|]. apply (Htbl d (Hlt d Hd)). eauto.
Qed.

Lemma refs_table_ok m : wfH m -> table_ok m (refs_table (functions m)) /\
                                 length (refs_table (functions m)) = length (functions m).
Proof.
  intros Hwf. unfold refs_table.
  assert (Hgen : forall l pre tbl, functions m = pre ++ l -> table_ok m tbl -> length tbl = length pre ->
    let tbl' := fold_left (fun tbl f => tbl ++ [refs_step tbl f]) l tbl in
    table_ok m tbl' /\ length tbl' = length (functions m)).
  { induction l as [|f t IH]; intros pre tbl Hfs Htbl Hlen; cbn [fold_left].
    - rewrite app_nil_r in Hfs. rewrite Hfs. auto.
    - apply (IH (pre ++ [f])).
      + rewrite <- app_assoc. exact Hfs.
      + (* the new row *)
        assert (Hf : get_func m (length pre) = Some f).
        { unfold get_func. rewrite Hfs, nth_error_app2 by lia. rewrite Nat.sub_diag. reflexivity. }
        assert (Hlt : forall d, In d (fn_callees f) -> d < length tbl).
        { intros d Hd. rewrite Hlen. eapply Hwf; eauto. }
        intros c Hc g. rewrite app_length in Hc. cbn in Hc.
        destruct (Nat.eq_dec c (length tbl)) as [->|Hne].
        * rewrite app_nth2 by lia. rewrite Nat.sub_diag. cbn [nth].
          rewrite (refs_step_spec m tbl f Htbl Hlt g). rewrite Hlen. split.
          -- intros [Hg|(d & x & Hd & Hr & Hx)].
             ++ exists (length pre). split; [apply (reach_inv m _ _ f Hf); left; reflexivity|].
                exists f. auto.
             ++ exists x. split; [apply (reach_inv m _ _ f Hf); right; eauto|exact Hx].
          -- intros (x & Hr & Hx). apply (reach_inv m _ _ f Hf) in Hr as [->|(d & Hd & Hr)].
             ++ left. destruct Hx as (f' & Hf' & Hg). rewrite Hf in Hf'. inversion Hf'; subst. exact Hg.
             ++ right. eauto.
        * rewrite app_nth1 by lia. apply Htbl. lia.
      + rewrite !app_length. cbn. lia. }
  apply (Hgen (functions m) [] []); [reflexivity| |reflexivity].
  intros c Hc. cbn in Hc. lia.
Qed.

(** * F. the boolean agrees with the relation *)
Lemma static_access_b_spec m e g :
  wf_calls m = true -> In e (entries m) ->
  static_access_b m e g = true <-> static_access m e g.
Proof.
  intros Hwf He. destruct (refs_table_ok m (wf_calls_wfH m Hwf)) as [Htbl Hlen].
  unfold static_access_b. rewrite existsb_exists. split.
  - intros (g' & Hin & Heq). apply Nat.eqb_eq in Heq. subst g'.
    apply (refs_step_spec m _ _ Htbl) in Hin.
    2:{ intros d Hd. rewrite Hlen. eapply wf_calls_entries; eauto. }
    apply entry_marks_static_access; [exact Hwf|exact He|].
    destruct (entry_walk_spec m e (wf_calls_wfH m Hwf) (fun d => wf_calls_entries m e d Hwf He)) as [H _].
    apply H. destruct Hin as [Hin|(d & x & Hd & Hr & Hx)]; [left; exact Hin|right; eauto].
  - intros Hs. exists g. split; [|apply Nat.eqb_refl].
    apply (refs_step_spec m _ _ Htbl).
    { intros d Hd. rewrite Hlen. eapply wf_calls_entries; eauto. }
    apply entry_marks_static_access in Hs; [|exact Hwf|exact He].
    destruct (entry_walk_spec m e (wf_calls_wfH m Hwf) (fun d => wf_calls_entries m e d Hwf He)) as [H _].
    apply H in Hs. destruct Hs as [Hin|(d & x & Hd & Hr & Hx)]; [left; exact Hin|right; eauto].
Qed.

(** * G. the stage set of the specification *)
Lemma vis_spec_has m g s :
  wf_calls m = true ->
  st_has (vis_spec m g) s = true <-> uses_stage m g s.
Proof.
  intros Hwf. unfold vis_spec, uses_stage.
  assert (Hgen : forall es acc, (forall e, In e es -> In e (entries m)) ->
    st_has (fold_left (fun acc e => if static_access_b m e g then st_union acc (st_of (e_stage e)) else acc) es acc) s = true
    <-> st_has acc s = true \/ exists e, In e es /\ e_stage e = s /\ static_access m e g).
  { induction es as [|e t IH]; intros acc Hsub; cbn [fold_left].
    - split; [auto|intros [H|(e & [] & _)]; exact H].
    - rewrite IH by (intros e' He'; apply Hsub; right; exact He').
      pose proof (static_access_b_spec m e g Hwf (Hsub e (or_introl eq_refl))) as Hb.
      destruct (static_access_b m e g).
      + rewrite st_has_union, st_has_of, orb_true_iff. split.
        * intros [[H|H]|(e' & Hin & Hs & Ha)]; [auto| |].
          -- right. exists e. split; [left; reflexivity|]. split; [destruct (e_stage e), s; try discriminate; reflexivity|apply Hb; reflexivity].
          -- right. exists e'. split; [right; exact Hin|auto].
        * intros [H|(e' & [<-|Hin] & Hs & Ha)]; [auto| |].
          -- left. right. subst s. destruct (e_stage e); reflexivity.
          -- right. eauto.
      + split.
        * intros [H|(e' & Hin & Hs & Ha)]; [auto|]. right. exists e'. split; [right; exact Hin|auto].
        * intros [H|(e' & [<-|Hin] & Hs & Ha)]; [auto| |].
          -- apply Hb in Ha. discriminate.
          -- right. eauto. }
  rewrite Hgen by auto. split; [intros [H|H]; [destruct s; discriminate|exact H]|auto].
Qed.

(** * H. the name-keyed lookup, for uniquely named globals *)
Lemma str_nodup_spec l : str_nodup l = true -> List.NoDup l.
Proof.
  induction l as [|x t IH]; cbn; intros H; constructor; apply andb_true_iff in H as [Hx Ht].
  - intros Hin. apply negb_true_iff in Hx. assert (existsb (String.eqb x) t = true); [|congruence].
    apply existsb_exists. exists x. split; [exact Hin|apply String.eqb_refl].
  - apply IH. exact Ht.
Qed.

Lemma named_nth m h n : named m h n -> exists gl, nth_error (globals m) h = Some gl /\ g_name gl = Some n.
Proof. intros (gl & H & Hn). exists gl. auto. Qed.

Lemma names_unique_from gs : forall h h' gl gl' n,
  List.NoDup (flat_map (fun g => match g_name g with Some n => [n] | None => [] end) gs) ->
  nth_error gs h = Some gl -> nth_error gs h' = Some gl' ->
  g_name gl = Some n -> g_name gl' = Some n -> h = h'.
Proof.
  induction gs as [|g t IH]; intros h h' gl gl' n Hnd Hh Hh' Hn Hn'; [destruct h; discriminate|].
  cbn [flat_map] in Hnd.
  assert (Hin : forall i x, nth_error t i = Some x -> g_name x = Some n ->
            In n (flat_map (fun g => match g_name g with Some n => [n] | None => [] end) t)).
  { intros i x Hx Hxn. apply in_flat_map. exists x. split; [eapply nth_error_In; eauto|rewrite Hxn; left; reflexivity]. }
  destruct h as [|h], h' as [|h']; cbn in Hh, Hh'.
  - reflexivity.
  - exfalso. inversion Hh; subst g. rewrite Hn in Hnd. cbn in Hnd. inversion Hnd; subst. apply H1. eapply Hin; eauto.
  - exfalso. inversion Hh'; subst g. rewrite Hn' in Hnd. cbn in Hnd. inversion Hnd; subst. apply H1. eapply Hin; eauto.
  - f_equal. apply (IH h h' gl gl' n); auto.
    destruct (g_name g); [cbn in Hnd; inversion Hnd; assumption|exact Hnd].
Qed.

Lemma names_unique m h h' n :
  wf_global_names m = true -> named m h n -> named m h' n -> h = h'.
Proof.
  unfold wf_global_names. intros Hwf (gl & Hh & Hn) (gl' & Hh' & Hn').
  apply andb_true_iff in Hwf as [_ Hnd]. apply str_nodup_spec in Hnd.
  eapply names_unique_from; eauto.
Qed.

Lemma marks_named_unique m e h gl n :
  wf_global_names m = true -> get_global m h = Some gl -> g_name gl = Some n ->
  marks_named m e n <-> h ∈ entry_marks m e.
Proof.
  intros Hwf Hgl Hn. split.
  - intros (h' & Hin & Hnamed). assert (h = h') as ->; [|exact Hin].
    eapply names_unique; eauto. exists gl. auto.
  - intros Hin. exists h. split; [exact Hin|]. exists gl. auto.
Qed.

Lemma bool_eq_iff (a b : bool) : (a = true <-> b = true) -> a = b.
Proof. destruct a, b; intros [H1 H2]; auto; try (symmetry; auto); discriminate (H1 eq_refl) || discriminate (H2 eq_refl). Qed.

Lemma lookup_has_stage n M s :
  st_has (lookup_stages (Some n) M st_none) s = has_stage (smap_get n M) s.
Proof. unfold lookup_stages. destruct (smap_get n M); [reflexivity|destruct s; reflexivity]. Qed.

Theorem lookup_vis m h gl n :
  wf_calls m = true -> wf_global_names m = true ->
  get_global m h = Some gl -> g_name gl = Some n ->
  lookup_stages (Some n) (global_shader_stages m) st_none = vis_spec m h.
Proof.
  intros Hwf Hnames Hgl Hn. apply st_ext. intros s. rewrite lookup_has_stage. apply bool_eq_iff.
  destruct (global_shader_stages_get m n) as [H1 _]. rewrite H1, (vis_spec_has m h s Hwf).
  unfold uses_stage. split; intros (e & He & Hs & Hm); exists e; (split; [exact He|split; [exact Hs|]]).
  - apply entry_marks_static_access; [exact Hwf|exact He|]. eapply marks_named_unique; eauto.
  - eapply marks_named_unique; eauto. apply entry_marks_static_access; assumption.
Qed.

(** the same with a fall-back (push constants): used only when nothing reaches the variable *)
Theorem lookup_vis_default m h gl n d :
  wf_calls m = true -> wf_global_names m = true ->
  get_global m h = Some gl -> g_name gl = Some n ->
  lookup_stages (Some n) (global_shader_stages m) d =
  if st_eqb (vis_spec m h) st_none then d else vis_spec m h.
Proof.
  intros Hwf Hnames Hgl Hn.
  pose proof (lookup_vis m h gl n Hwf Hnames Hgl Hn) as Hl.
  destruct (global_shader_stages_get m n) as [H1 H2].
  unfold lookup_stages in *. destruct (smap_get n (global_shader_stages m)) as [v|] eqn:E.
  - subst v. destruct (st_eqb (vis_spec m h) st_none) eqn:Eq; [|reflexivity].
    exfalso. apply st_eqb_spec in Eq.
    assert (Hex : exists e, In e (entries m) /\ marks_named m e n) by (apply H2; congruence).
    destruct Hex as (e & He & Hm).
    assert (Hs : has_stage (Some (vis_spec m h)) (e_stage e) = true) by (apply H1; eauto).
    rewrite Eq in Hs. destruct (e_stage e); discriminate.
  - rewrite <- Hl. reflexivity.
Qed.

(** * I. the entries of the output *)
Lemma bvars_from_spec m gs : forall h0 bv,
  In bv (bvars_from m gs h0) ->
  exists i gl ty, nth_error gs i = Some gl /\ get_ty m (g_ty gl) = Some ty /\
    g_binding gl = Some (bv_group bv, gb_index (bv_gb bv)) /\
    bv = mkBV (bv_group bv) (mkGB (g_name gl) (gb_index (bv_gb bv)) (t_inner ty) (g_space gl) (h0 + i)).
Proof.
  induction gs as [|g t IH]; intros h0 bv Hin; cbn [bvars_from] in Hin; [contradiction|].
  assert (Hrest : In bv (bvars_from m t (S h0)) ->
    exists i gl ty, nth_error (g :: t) i = Some gl /\ get_ty m (g_ty gl) = Some ty /\
      g_binding gl = Some (bv_group bv, gb_index (bv_gb bv)) /\
      bv = mkBV (bv_group bv) (mkGB (g_name gl) (gb_index (bv_gb bv)) (t_inner ty) (g_space gl) (h0 + i))).
  { intros H. destruct (IH (S h0) bv H) as (i & gl & ty & Hi & Hty & Hb & Heq).
    exists (S i), gl, ty. replace (h0 + S i) with (S h0 + i) by lia. auto. }
  destruct (g_binding g) as [[grp b]|] eqn:Hb; [|auto].
  destruct (get_ty m (g_ty g)) as [ty|] eqn:Hty; [|auto].
  destruct Hin as [<-|Hin]; [|auto].
  exists 0, g, ty. cbn. rewrite Nat.add_0_r. auto.
Qed.

Lemma bvars_from_complete m gs : forall h0 i gl ty grp b,
  nth_error gs i = Some gl -> get_ty m (g_ty gl) = Some ty -> g_binding gl = Some (grp, b) ->
  In (mkBV grp (mkGB (g_name gl) b (t_inner ty) (g_space gl) (h0 + i))) (bvars_from m gs h0).
Proof.
  induction gs as [|g t IH]; intros h0 i gl ty grp b Hi Hty Hb; [destruct i; discriminate|].
  cbn [bvars_from]. destruct i as [|i]; cbn in Hi.
  - inversion Hi; subst g. rewrite Hb, Hty, Nat.add_0_r. left. reflexivity.
  - specialize (IH (S h0) i gl ty grp b Hi Hty Hb). replace (h0 + S i) with (S h0 + i) by lia.
    destruct (g_binding g) as [[grp' b']|]; [|exact IH]. destruct (get_ty m (g_ty g)); [right|]; exact IH.
Qed.

Lemma find_global_from_spec gs grp b : forall h0,
  match find_global_from gs h0 grp b with
  | Some h => exists i gl, h = h0 + i /\ nth_error gs i = Some gl /\ g_binding gl = Some (grp, b)
  | None => forall i gl, nth_error gs i = Some gl -> g_binding gl <> Some (grp, b)
  end.
Proof.
  induction gs as [|g t IH]; intros h0; cbn [find_global_from].
  - intros i gl Hi. destruct i; discriminate.
  - assert (Hrest : match find_global_from t (S h0) grp b with
      | Some h => exists i gl, h = h0 + i /\ nth_error (g :: t) i = Some gl /\ g_binding gl = Some (grp, b)
      | None => forall i gl, nth_error t i = Some gl -> g_binding gl <> Some (grp, b)
      end).
    { specialize (IH (S h0)). destruct (find_global_from t (S h0) grp b) as [h|]; [|exact IH].
      destruct IH as (i & gl & -> & Hi & Hb). exists (S i), gl. split; [lia|auto]. }
    destruct (g_binding g) as [[grp' b']|] eqn:Hb.
    + destruct (N.eqb_spec grp' grp) as [->|Hg]; cbn [andb].
      * destruct (N.eqb_spec b' b) as [->|Hbb].
        -- exists 0, g. rewrite Nat.add_0_r. auto.
        -- destruct (find_global_from t (S h0) grp b); [exact Hrest|].
           intros [|i] gl Hi; cbn in Hi; [inversion Hi; subst; congruence|eauto].
      * destruct (find_global_from t (S h0) grp b); [exact Hrest|].
        intros [|i] gl Hi; cbn in Hi; [inversion Hi; subst; congruence|eauto].
    + destruct (find_global_from t (S h0) grp b); [exact Hrest|].
      intros [|i] gl Hi; cbn in Hi; [inversion Hi; subst; congruence|eauto].
Qed.

Lemma NoDup_map_inj {A B} (f : A -> B) l x y :
  List.NoDup (map f l) -> In x l -> In y l -> f x = f y -> x = y.
Proof.
  induction l as [|a t IH]; intros Hnd Hx Hy Heq; [contradiction|].
  cbn in Hnd. inversion Hnd; subst. destruct Hx as [<-|Hx], Hy as [<-|Hy]; auto.
  - exfalso. apply H1. rewrite Heq. apply in_map. exact Hy.
  - exfalso. apply H1. rewrite <- Heq. apply in_map. exact Hx.
Qed.

Lemma gen_group_entry M k bs og e :
  gen_group M (k, bs) = Ok og -> In e (og_entries og) ->
  og_no og = k /\ exists x, In x bs /\ oe_binding e = gb_index x /\ oe_vis e = lookup_stages (gb_name x) M st_none.
Proof.
  unfold gen_group. intros H Hin.
  apply rbind_ok in H as (fields & Hf & H).
  apply rbind_ok in H as (entries & He & H).
  apply rbind_ok in H as (bents & Hb & H). inversion H; subst og; clear H. cbn in *.
  split; [reflexivity|]. apply rmapM_ok in He. clear -He Hin.
  induction He as [|x y l l' Hxy _ IH]; [contradiction|].
  destruct Hin as [<-|Hin].
  - exists x. split; [left; reflexivity|]. unfold bind_group_layout_entry in Hxy.
    apply rbind_ok in Hxy as (ty & _ & Hxy). inversion Hxy. auto.
  - destruct (IH Hin) as (x' & Hx' & H). exists x'. split; [right; exact Hx'|exact H].
Qed.

Lemma find_pc_from_spec gs : forall h0,
  match find_pc_from gs h0, List.find is_push_constant gs with
  | Some h, Some gl => exists i, h = h0 + i /\ nth_error gs i = Some gl
  | None, None => True
  | _, _ => False
  end.
Proof.
  induction gs as [|g t IH]; intros h0; cbn [find_pc_from List.find]; [exact I|].
  change (is_pc g) with (is_push_constant g). destruct (is_push_constant g).
  - exists 0. rewrite Nat.add_0_r. auto.
  - specialize (IH (S h0)). destruct (find_pc_from t (S h0)), (List.find is_push_constant t); try contradiction; auto.
    destruct IH as (i & -> & Hi). exists (S i). split; [lia|exact Hi].
Qed.

Theorem C03_ok_gen m src inc o out_ :
  wf m = true -> gen m src inc o = Ok out_ -> C03_ok m out_ = true.
Proof.
  intros Hwf Hgen. destruct (wf_proj m Hwf) as (Htypes & Hcalls & _ & Hnames & _).
  destruct (gen_inv _ _ _ _ _ Hgen) as [bgd pc Hbgd _ _ Hbgm _ _ _ _ _ _ _ _ Hpc Hpcs _ _ _].
  unfold C03_ok. apply andb_true_iff. split.
  - (* layout entries *)
    destruct (gbd_ok_content m Htypes bgd Hbgd) as (_ & Hsorted & Hfind).
    assert (Hnd : List.NoDup (map pair_of (bvars m))).
    { apply (gbd_ok_iff m Htypes). eauto. }
    unfold bind_groups_module in Hbgm. apply rbind_ok in Hbgm as (ogs & Hogs & Hbgm).
    assert (Hgroups : groups_of out_ = ogs).
    { unfold groups_of. destruct ogs; inversion Hbgm; reflexivity. }
    rewrite Hgroups. pose proof (rmapM_ok _ _ _ Hogs) as HF.
    apply forallb_forall. intros og Hog. apply forallb_forall. intros e He.
    assert (exists k bs, In (k, bs) bgd /\ gen_group (global_shader_stages m) (k, bs) = Ok og)
      as (k & bs & Hin & Hg).
    { clear -HF Hog. induction HF as [|[k bs] y l l' Hxy HF IH]; [contradiction|].
      destruct Hog as [<-|Hog]; [exists k, bs; split; [left; reflexivity|exact Hxy]|].
      destruct (IH Hog) as (k' & bs' & Hin & Hg). exists k', bs'. split; [right; exact Hin|exact Hg]. }
    destruct (gen_group_entry _ _ _ _ _ Hg He) as (Hno & x & Hx & Hidx & Hvis).
    assert (Hbs : bs = bindings_of k (bvars m)).
    { pose proof (C11Link.find_of_In bgd k bs (C11Link.StronglySorted_lt_NoDup _ Hsorted) Hin) as Hf.
      rewrite Hfind in Hf. destruct (bindings_of k (bvars m)); inversion Hf; reflexivity. }
    subst bs. unfold bindings_of in Hx. apply in_map_iff in Hx as (bv & <- & Hbv).
    apply filter_In in Hbv as [Hbv Hk]. apply N.eqb_eq in Hk.
    destruct (bvars_from_spec m (globals m) 0 bv Hbv) as (i & gl & ty & Hi & Hty & Hb & Heq).
    cbn in Heq.
    unfold entry_vis_ok. rewrite Hno, Hidx. unfold find_global.
    pose proof (find_global_from_spec (globals m) k (gb_index (bv_gb bv)) 0) as Hfg.
    destruct (find_global_from (globals m) 0 k (gb_index (bv_gb bv))) as [h|].
    + destruct Hfg as (j & gl' & -> & Hj & Hb'). cbn.
      (* the global found is the one the entry was generated from *)
      assert (Hty' : exists ty', get_ty m (g_ty gl') = Some ty').
      { unfold wf_global_types in Htypes. rewrite forallb_forall in Htypes.
        specialize (Htypes gl' (nth_error_In _ _ Hj)). destruct (get_ty m (g_ty gl')); [eauto|discriminate]. }
      destruct Hty' as (ty' & Hty').
      pose proof (bvars_from_complete m (globals m) 0 j gl' ty' k (gb_index (bv_gb bv)) Hj Hty' Hb') as Hbv'.
      cbn in Hbv'.
      assert (Hsame : bv = mkBV k (mkGB (g_name gl') (gb_index (bv_gb bv)) (t_inner ty') (g_space gl') j)).
      { apply (NoDup_map_inj pair_of (bvars m)); [exact Hnd|exact Hbv|exact Hbv'|].
        unfold pair_of. cbn. rewrite Hk. reflexivity. }
      rewrite Heq in Hsame. inversion Hsame; subst j.
      assert (gl' = gl) by congruence. subst gl'.
      rewrite Hvis, Heq. cbn [gb_name bv_gb].
      destruct (g_name gl) as [n|] eqn:Hn.
      * rewrite (lookup_vis m i gl n Hcalls Hnames Hi Hn). apply st_eqb_spec. reflexivity.
      * exfalso. unfold wf_global_names in Hnames. apply andb_true_iff in Hnames as [Hall _].
        rewrite forallb_forall in Hall. specialize (Hall gl (nth_error_In _ _ Hi)). rewrite Hn in Hall. discriminate.
    + exfalso. apply (Hfg i gl Hi). rewrite Hb, Hk. reflexivity.
  - (* push constant *)
    unfold pc_vis_ok. pose proof (find_pc_from_spec (globals m) 0) as Hpcf.
    unfold push_constant_range_stages in Hpc.
    destruct (find_pc_from (globals m) 0) as [h|], (List.find is_push_constant (globals m)) as [gl|]; try contradiction; [|reflexivity].
    destruct Hpcf as (i & -> & Hi). cbn.
    destruct (get_ty m (g_ty gl)) as [t|]; [|discriminate]. inversion Hpc; subst pc; clear Hpc.
    cbn in Hpcs. rewrite Hpcs.
    destruct (g_name gl) as [n|] eqn:Hn.
    + rewrite (lookup_vis_default m i gl n _ Hcalls Hnames Hi Hn).
      destruct (st_eqb (vis_spec m i) st_none); [reflexivity|]. apply st_eqb_spec. reflexivity.
    + exfalso. unfold wf_global_names in Hnames. apply andb_true_iff in Hnames as [Hall _].
      rewrite forallb_forall in Hall. specialize (Hall gl (nth_error_In _ _ Hi)). rewrite Hn in Hall. discriminate.
Qed.

Lemma find_pc_from_first gs : forall h0 h gl,
  nth_error gs h = Some gl -> g_space gl = SpPushConstant ->
  (forall h' gl', h' < h -> nth_error gs h' = Some gl' -> g_space gl' <> SpPushConstant) ->
  find_pc_from gs h0 = Some (h0 + h).
Proof.
  induction gs as [|g t IH]; intros h0 h gl Hh Hsp Hfirst; [destruct h; discriminate|].
  destruct h as [|h]; cbn in Hh; cbn [find_pc_from].
  - inversion Hh; subst g. unfold is_pc. rewrite Hsp. f_equal. lia.
  - destruct (is_pc g) eqn:E.
    + exfalso. apply (Hfirst 0 g); [lia|reflexivity|]. unfold is_pc in E. destruct (g_space g); try discriminate. reflexivity.
    + replace (h0 + S h) with (S h0 + h) by lia.
      apply (IH (S h0) h gl); [exact Hh|exact Hsp|]. intros h' gl' Hlt Hh'. apply (Hfirst (S h') gl'); [lia|exact Hh'].
Qed.

(** * Reading the boolean checker relationally *)
Theorem C03_ok_sound m out_ :
  wf_calls m = true -> C03_ok m out_ = true ->
  (forall og e, In og (groups_of out_) -> In e (og_entries og) ->
     exists h gl, nth_error (globals m) h = Some gl /\
       g_binding gl = Some (og_no og, oe_binding e) /\
       forall s, st_has (oe_vis e) s = true <-> uses_stage m h s) /\
  (forall h gl, nth_error (globals m) h = Some gl -> g_space gl = SpPushConstant ->
     (forall h' gl', h' < h -> nth_error (globals m) h' = Some gl' -> g_space gl' <> SpPushConstant) ->
     (exists s, uses_stage m h s) ->
     exists v, o_pc_stages out_ = Some v /\ forall s, st_has v s = true <-> uses_stage m h s).
Proof.
  intros Hwf Hok. unfold C03_ok in Hok. apply andb_true_iff in Hok as [Hent Hpc]. split.
  - intros og e Hog He. rewrite forallb_forall in Hent. specialize (Hent og Hog).
    rewrite forallb_forall in Hent. specialize (Hent e He). unfold entry_vis_ok, find_global in Hent.
    pose proof (find_global_from_spec (globals m) (og_no og) (oe_binding e) 0) as Hfg.
    destruct (find_global_from (globals m) 0 (og_no og) (oe_binding e)) as [h|]; [|discriminate].
    destruct Hfg as (i & gl & -> & Hi & Hb). cbn in Hent. apply st_eqb_spec in Hent.
    exists i, gl. split; [exact Hi|]. split; [exact Hb|]. intros s. rewrite Hent. apply vis_spec_has. exact Hwf.
  - intros h gl Hh Hsp Hfirst (s0 & Hs0). unfold pc_vis_ok in Hpc.
    pose proof (find_pc_from_first (globals m) 0 h gl Hh Hsp Hfirst) as Hfind.
    cbn in Hfind. rewrite Hfind in Hpc.
    destruct (st_eqb (vis_spec m h) st_none) eqn:E.
    + exfalso. apply st_eqb_spec in E. apply (vis_spec_has m h s0 Hwf) in Hs0. rewrite E in Hs0. destruct s0; discriminate.
    + destruct (o_pc_stages out_) as [v|]; [|discriminate]. apply st_eqb_spec in Hpc. subst v.
      exists (vis_spec m h). split; [reflexivity|]. intros s. apply vis_spec_has. exact Hwf.
Qed.
