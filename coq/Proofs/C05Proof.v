(** C05: soundness of the emitted compile-time checks for an arbitrary Rust layout. *)
From W2W Require Import Wf GenInv StructSpec StructProof.
Local Open Scope N_scope.

Record rust_layout := { rl_size : N; rl_offset : string -> N }.

Definition asserts_pass (s : out_struct) (rl : rust_layout) : Prop :=
  (forall n, s_assert_size s = Some n -> rl_size rl = n) /\
  (forall f n, In (f, n) (s_assert_offsets s) -> rl_offset rl f = n).

Lemma check_sound : forall m o e s rl,
  struct_asserts_ok m o e s = true ->
  w_bm_host o && host_shareable_b m (fst (fst e)) = true ->
  forall t, get_ty m (fst (fst e)) = Some t ->
  (asserts_pass s rl <->
   rl_size rl = t_size t /\
   Forall (fun mem => forall n, m_name mem = Some n -> rl_offset rl n = m_offset mem)
          (filter (fun mem => existsb (fun a => match m_name mem with Some n => String.eqb (fst a) n | None => false end)
                                      (s_assert_offsets s)) (user_members (snd e))) /\
   length (s_assert_offsets s) = length (user_members (snd e))).
Proof.
  intros m o [[h n] ms] s rl Hok Hhost t Ht. cbn [fst snd] in *.
  unfold struct_asserts_ok in Hok. rewrite Hhost, Ht in Hok.
  apply andb_true_iff in Hok as [Hsz Hoffs].
  assert (Hsize : s_assert_size s = Some (t_size t)).
  { destruct (s_assert_size s) as [x|]; cbn in Hsz; [|discriminate]. apply N.eqb_eq in Hsz. congruence. }
  assert (Hrel : Forall2 (fun mem a => m_name mem = Some (fst a) /\ snd a = m_offset mem) (user_members ms) (s_assert_offsets s)).
  { clear -Hoffs. revert Hoffs. generalize (s_assert_offsets s) as offs. induction (user_members ms) as [|mem l IH]; intros [|a offs] H; cbn in H; try discriminate; [constructor|].
    apply andb_true_iff in H as [Ha Hr]. destruct (m_name mem) as [nm|] eqn:E; [|discriminate].
    apply andb_true_iff in Ha as [Hn Ho]. apply String.eqb_eq in Hn. apply N.eqb_eq in Ho. constructor; [split; congruence|apply IH; exact Hr]. }
  unfold asserts_pass. rewrite Hsize. split.
  - intros [Hs Ho]. split; [apply Hs; reflexivity|]. split.
    + apply Forall_forall. intros mem Hmem nm Hnm. apply filter_In in Hmem as [Hmem _].
      clear -Hrel Ho Hmem Hnm. induction Hrel as [|x a l l' [Hx Hoff] _ IH]; [contradiction|].
      destruct Hmem as [<-|Hmem].
      * rewrite Hnm in Hx. inversion Hx; subst nm. rewrite <- Hoff. apply Ho. left. destruct a; reflexivity.
      * apply IH; [|exact Hmem]. intros f k Hin. apply Ho. right. exact Hin.
    + symmetry. clear -Hrel. induction Hrel; cbn; congruence.
  - intros (Hs & Hall & _). split; [intros k Hk; inversion Hk; subst; exact Hs|].
    intros f k Hin. rewrite Forall_forall in Hall.
    clear Hsz Hoffs Hsize. induction Hrel as [|x a l l' [Hx Hoff] Hrel IH]; [contradiction|].
    destruct Hin as [->|Hin].
    + cbn in Hx, Hoff. subst k. apply (Hall x); [|exact Hx].
      apply filter_In. split; [left; reflexivity|]. cbn. rewrite Hx. cbn. rewrite String.eqb_refl. reflexivity.
    + apply IH; [|exact Hin]. intros mem Hmem nm Hnm. apply (Hall mem); [|exact Hnm].
      apply filter_In in Hmem as [Hmem Hex]. apply filter_In. split; [right; exact Hmem|].
      cbn. rewrite Hex. apply orb_true_r.
Qed.

Lemma C05_ok_gen m src inc o out_ :
  wf m = true -> gen m src inc o = Ok out_ -> C05_ok m o out_ = true.
Proof.
  intros Hwf Hgen. destruct (gen_inv _ _ _ _ _ Hgen) as [bgd pc _ Hss _ _ _ _ _ _ _ _ _ _ _ _ _ _ _].
  exact (C05_ok_structs m o (o_structs out_) Hwf Hss).
Qed.

(** * the headline statement: a struct that passes its checks has the WGSL numbers *)
Lemma forallb2_combine {A B} (f : A -> B -> bool) l l' :
  StructSpec.forallb2 f l l' = true -> forall x y, In (x, y) (combine l l') -> f x y = true.
Proof.
  revert l'. induction l as [|a t IH]; intros [|b t'] H x y Hin; cbn in *; try contradiction; try discriminate.
  apply andb_true_iff in H as [H1 H2]. destruct Hin as [Heq|Hin]; [inversion Heq; subst; exact H1|apply (IH t' H2 x y Hin)].
Qed.

Lemma asserts_give_layout m o e s rl t :
  struct_asserts_ok m o e s = true ->
  w_bm_host o && host_shareable_b m (fst (fst e)) = true ->
  get_ty m (fst (fst e)) = Some t ->
  asserts_pass s rl ->
  rl_size rl = t_size t /\
  Forall (fun mem => forall n, m_name mem = Some n -> rl_offset rl n = m_offset mem) (user_members (snd e)).
Proof.
  destruct e as [[h n] ms]. cbn [fst snd]. intros Hok Hhost Ht [Hs Ho].
  unfold struct_asserts_ok in Hok. rewrite Hhost, Ht in Hok. apply andb_true_iff in Hok as [Hsz Hoffs].
  split.
  - apply Hs. destruct (s_assert_size s) as [x|]; cbn in Hsz; [|discriminate]. apply N.eqb_eq in Hsz. congruence.
  - revert Hoffs Ho. generalize (s_assert_offsets s) as offs.
    induction (user_members ms) as [|mem l IH]; intros [|a offs] H Ho; cbn in H; try discriminate; [constructor|].
    apply andb_true_iff in H as [Ha Hr]. destruct (m_name mem) as [nm|] eqn:E; [|discriminate].
    apply andb_true_iff in Ha as [Hn Hoff]. apply String.eqb_eq in Hn. apply N.eqb_eq in Hoff.
    constructor.
    + intros k Hk. assert (k = nm) by congruence. subst k. rewrite <- Hoff, <- Hn. apply Ho. left. destruct a; reflexivity.
    + apply (IH offs Hr). intros f k Hin. apply Ho. right. exact Hin.
Qed.

Theorem compiling_struct_matches m src inc o out_ :
  wf m = true -> w_bm_host o = true -> gen m src inc o = Ok out_ ->
  forall e s rl t, In (e, s) (combine (emitted_structs m) (o_structs out_)) ->
    host_shareable_b m (fst (fst e)) = true -> get_ty m (fst (fst e)) = Some t ->
    asserts_pass s rl ->
    rl_size rl = t_size t /\
    Forall (fun mem => forall n, m_name mem = Some n -> rl_offset rl n = m_offset mem) (user_members (snd e)).
Proof.
  intros Hwf Hbm Hgen e s rl t Hin Hhost Ht Hpass.
  pose proof (C05_ok_gen m src inc o out_ Hwf Hgen) as Hok. unfold C05_ok in Hok.
  apply (asserts_give_layout m o e s rl t (forallb2_combine _ _ _ Hok e s Hin)); try assumption.
  rewrite Hbm, Hhost. reflexivity.
Qed.
