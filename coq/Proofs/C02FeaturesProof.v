(** the generated layouts need VERTEX_WRITABLE_STORAGE only where the shader's own vertex stage does. *)
From W2W Require Import Wf C03Spec C03Link C02Features.
Local Open Scope N_scope.

Lemma vis_spec_has m g s :
  st_has (vis_spec m g) s = existsb (fun en => stage_eqb (e_stage en) s && static_access_b m en g) (entries m).
Proof.
  unfold vis_spec.
  assert (H : forall es acc,
    st_has (fold_left (fun acc e => if static_access_b m e g then st_union acc (st_of (e_stage e)) else acc) es acc) s
    = st_has acc s || existsb (fun en => stage_eqb (e_stage en) s && static_access_b m en g) es).
  { induction es as [|e t IH]; intros acc; cbn [fold_left existsb]; [rewrite orb_false_r; reflexivity|].
    rewrite IH. destruct (static_access_b m e g).
    - rewrite st_has_union, st_has_of, andb_true_r, orb_assoc. reflexivity.
    - rewrite andb_false_r. reflexivity. }
  rewrite H. destruct s; reflexivity.
Qed.

Theorem C02_features_ok_gen m src inc o out_ :
  wf m = true -> gen m src inc o = Ok out_ -> C02_features_ok m out_ = true.
Proof.
  intros Hwf Hgen. pose proof (C03_ok_gen m src inc o out_ Hwf Hgen) as Hok.
  unfold C03_ok in Hok. apply andb_true_iff in Hok as [Hok _].
  unfold C02_features_ok. rewrite forallb_forall in *. intros og Hog. specialize (Hok og Hog).
  rewrite forallb_forall in *. intros e He. specialize (Hok e He).
  unfold entry_vis_ok in Hok. unfold vertex_writable_ok.
  destruct (st_v (oe_vis e) && writable_ty (oe_ty e)) eqn:E; [|reflexivity].
  destruct (find_global m (og_no og) (oe_binding e)) as [h|]; [|discriminate].
  apply st_eqb_spec in Hok. apply andb_true_iff in E as [Ev _].
  rewrite <- (vis_spec_has m h Vertex), <- Hok. exact Ev.
Qed.
