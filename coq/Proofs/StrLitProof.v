(** rustc reads the printed literal back as exactly the input, character by character. *)
From Coq Require Import List NArith Bool Lia Hexadecimal HexadecimalN.
From W2W Require Import Escape StrLit.
Import ListNotations.
Local Open Scope N_scope.

Lemma parse_render_hex u : forall r, parse_hex (render_hex u ++ 125 :: r) = (u, 125 :: r).
Proof.
  induction u; intros r; cbn [render_hex app]; try reflexivity;
    cbn [parse_hex]; unfold hex_val; cbn; rewrite IHu; reflexivity.
Qed.

Lemma to_hex_not_nil c : N.to_hex_uint c <> Nil.
Proof.
  destruct c as [|p]; cbn; [discriminate|]. unfold Pos.to_hex_uint.
  intros H. pose proof (HexadecimalPos.Unsigned.of_to p) as E. unfold Pos.to_hex_uint in E. rewrite H in E. cbn in E. discriminate.
Qed.

Section RoundTrip.
  Variable needs_unicode : N -> bool.

  Lemma unescape_more k : forall l r, unescape k l = Some r -> unescape (S k) l = Some r.
  Proof.
    induction k as [|k IH]; intros l r H; [discriminate|].
    cbn [unescape] in H |- *. destruct l as [|c t]; [exact H|].
    assert (Hoc : forall x y, ocons x (unescape k y) = Some r -> ocons x (unescape (S k) y) = Some r).
    { intros x y Hx. unfold ocons in *. destruct (unescape k y) as [z|] eqn:E; [|discriminate]. rewrite (IH _ _ E). exact Hx. }
    destruct (c =? 92).
    - destruct t as [|e t']; [exact H|].
      repeat match goal with |- context [if ?b then _ else _] => destruct b; [first [apply Hoc; exact H|idtac]|] end;
        try exact H.
      + destruct t' as [|h1 [|h2 t'']]; try exact H. destruct (parse_hex [h1; h2]) as [u [|? ?]]; try exact H.
        destruct (N.of_hex_uint u <=? 127); [apply Hoc; exact H|exact H].
      + destruct t' as [|b t'']; [exact H|]. destruct (b =? 123); [|exact H].
        destruct (parse_hex t'') as [u r']. destruct u; try exact H;
          (destruct r' as [|cl r'']; [exact H|]; match goal with |- context [if ?b then _ else _] => destruct b end; [apply Hoc; exact H|exact H]).
    - destruct (c =? 34); [exact H|]. destruct (c =? 13); [exact H|]. apply Hoc. exact H.
  Qed.

  Lemma unescape_ge k k' l r : (k <= k')%nat -> unescape k l = Some r -> unescape k' l = Some r.
  Proof. induction 1 as [|k' Hle IH]; [auto|]. intros Hu. apply unescape_more. auto. Qed.

  (** one source character: its token is read back as that character, and reading continues behind it *)
  Lemma step c rest k tail r :
    valid_scalar c = true ->
    unescape k tail = Some r ->
    unescape (S k) (render_tok (escape_char needs_unicode c rest) ++ tail) = Some (c :: r).
  Proof.
    intros Hv Ht. unfold escape_char.
    destruct (N.eqb_spec c 0) as [->|H0].
    { destruct rest as [|n ?]; [|destruct (is_octal n)]; cbn [render_tok app unescape]; cbn; rewrite ?Ht; reflexivity. }
    destruct (N.eqb_spec c 39) as [->|H39]; [cbn; rewrite Ht; reflexivity|].
    destruct (N.eqb_spec c 9) as [->|H9]; [cbn; rewrite Ht; reflexivity|].
    destruct (N.eqb_spec c 13) as [->|H13]; [cbn; rewrite Ht; reflexivity|].
    destruct (N.eqb_spec c 10) as [->|H10]; [cbn; rewrite Ht; reflexivity|].
    destruct (N.eqb_spec c 92) as [->|H92]; [cbn; rewrite Ht; reflexivity|].
    destruct (N.eqb_spec c 34) as [->|H34]; [cbn; rewrite Ht; reflexivity|].
    destruct (needs_unicode c); cbv iota.
    - replace (render_tok (EUni c) ++ tail) with (92 :: 117 :: 123 :: render_hex (N.to_hex_uint c) ++ 125 :: tail)
        by (cbn [render_tok]; rewrite <- !app_assoc; reflexivity).
      cbn [unescape]. change (92 =? 92) with true. cbv iota.
      change (117 =? 110) with false. change (117 =? 114) with false. change (117 =? 116) with false.
      change (117 =? 92) with false. change (117 =? 34) with false. change (117 =? 39) with false.
      change (117 =? 48) with false. change (117 =? 120) with false. change (117 =? 117) with true.
      change (123 =? 123) with true. cbv iota.
      rewrite parse_render_hex. rewrite HexadecimalN.Unsigned.of_to, Hv, N.eqb_refl. cbn [andb].
      destruct (N.to_hex_uint c) eqn:E; [exfalso; apply (to_hex_not_nil c); exact E| | | | | | | | | | | | | | | |];
        rewrite Ht; reflexivity.
    - change (render_tok (ERaw c) ++ tail) with (c :: tail). cbn [unescape].
      destruct (N.eqb_spec c 92); [contradiction|]. destruct (N.eqb_spec c 34); [contradiction|].
      destruct (N.eqb_spec c 13); [contradiction|]. cbv iota. rewrite Ht. reflexivity.
  Qed.

  Theorem lex_roundtrip s : forallb valid_scalar s = true ->
    exists k, unescape k (literal_body needs_unicode s) = Some s.
  Proof.
    unfold literal_body. induction s as [|c t IH]; intros Hv; [exists 1%nat; reflexivity|].
    cbn [forallb] in Hv. apply andb_true_iff in Hv as [Hc Ht]. destruct (IH Ht) as (k & Hk).
    exists (S k). cbn [escape flat_map]. apply step; assumption.
  Qed.

  (** with the obvious fuel: one step per character of the printed text is enough *)
  Theorem lex_roundtrip_fuel s : forallb valid_scalar s = true ->
    unescape (S (length (literal_body needs_unicode s))) (literal_body needs_unicode s) = Some s.
  Proof.
    unfold literal_body. induction s as [|c t IH]; intros Hv; [reflexivity|].
    cbn [forallb] in Hv. apply andb_true_iff in Hv as [Hc Ht]. specialize (IH Ht).
    cbn [escape flat_map].
    eapply unescape_ge; [|apply step; [exact Hc|exact IH]].
    rewrite app_length. assert (1 <= length (render_tok (escape_char needs_unicode c t)))%nat; [|lia].
    destruct (escape_char needs_unicode c t); cbn; lia.
  Qed.
End RoundTrip.
