(** C12: the override constants struct and its map entries. *)
From W2W Require Import Wf GenInv Tactics C12Spec.
Local Open Scope N_scope.

Lemma forallb2_Forall2 {A B} (f : A -> B -> bool) l l' :
  Forall2 (fun x y => f x y = true) l l' -> forallb2 f l l' = true.
Proof. induction 1; cbn; [reflexivity|]. rewrite H, IHForall2. reflexivity. Qed.

Lemma Forall2_impl_in {A B} (P Q : A -> B -> Prop) l l' :
  Forall2 P l l' -> (forall x y, In x l -> P x y -> Q x y) -> Forall2 Q l l'.
Proof.
  induction 1; intros Himp; constructor.
  - apply Himp; [left; reflexivity|assumption].
  - apply IHForall2. intros a b Ha. apply Himp. right. exact Ha.
Qed.

Lemma rprim_eqb_refl p : rprim_eqb p p = true.
Proof. destruct p; reflexivity. Qed.

Lemma override_field_ok m o f :
  wf_override m o = true -> override_field m o = Ok f -> ov_field_ok m o f = true.
Proof.
  unfold wf_override, override_field, ov_field_ok, ov_prim, get_inner.
  destruct (od_name o) as [n|]; [|discriminate].
  destruct (get_ty m (od_ty o)) as [t|]; [|discriminate]. cbn [option_map].
  unfold type_fuel. cbn [rust_type].
  destruct (t_inner t) as [s| | | | | | | | | | | |]; try discriminate.
  unfold rust_scalar_type. destruct s as [k w]. cbn [sk sw].
  destruct k; cbn; destruct_match_vars; try discriminate; intros _ H; inversion H; subst f; cbn;
    rewrite String.eqb_refl; destruct (od_has_init o); reflexivity.
Qed.

Lemma override_entry_ok m o e :
  wf_override m o = true -> override_entry m o = Ok e -> ov_entry_ok m o e = true.
Proof.
  unfold wf_override, override_entry, override_key, ov_entry_ok, ov_key, ov_prim, is_bool_scalar.
  destruct (od_name o) as [n|]; [|discriminate].
  destruct (get_inner m (od_ty o)) as [i|]; [|discriminate].
  destruct i as [s| | | | | | | | | | | |]; try discriminate.
  destruct s as [k w]. cbn [sk sw].
  destruct (od_id o) as [i|]; cbn [rbind];
    destruct k; cbn; destruct_match_vars; try discriminate; intros _ H; inversion H; subst e; cbn;
    rewrite !String.eqb_refl; reflexivity.
Qed.

Lemma override_entry_key m o e :
  override_entry m o = Ok e -> ov_key o = Some (ove_key e).
Proof.
  unfold override_entry, override_key, ov_key. destruct (od_name o) as [n|]; [|discriminate].
  destruct (od_id o) as [i|]; cbn; intros H; inversion H; reflexivity.
Qed.

Lemma nonempty_has m : nonempty' (overrides m) = has_overrides m.
Proof. unfold has_overrides. destruct (overrides m); reflexivity. Qed.

Theorem C12_ok_gen m src inc o out_ :
  wf_overrides m = true -> gen m src inc o = Ok out_ -> C12_ok m out_ = true.
Proof.
  unfold wf_overrides. intros Hwf Hgen. apply andb_true_iff in Hwf as [Hall Hkeys].
  rewrite forallb_forall in Hall.
  destruct (gen_inv _ _ _ _ _ Hgen) as [bgd pc _ _ _ _ _ _ _ Hvst _ Hfst _ _ _ _ _ _ Hov].
  unfold C12_ok. rewrite !andb_true_iff. repeat split.
  - unfold pipeline_overridable_constants in Hov.
    apply rbind_ok in Hov as (fields & Hf & Hov). apply rbind_ok in Hov as (req & Hr & Hov).
    apply rbind_ok in Hov as (opt & Ho & Hov).
    pose proof (rmapM_length _ _ _ Hf) as Hlen.
    destruct fields as [|f0 ft].
    + inversion Hov as [Hnone]. destruct (overrides m); [reflexivity|discriminate].
    + inversion Hov as [Hsome]. destruct (overrides m) as [|o0 ot] eqn:Eo; [discriminate|].
      rewrite <- Eo in *. rewrite !andb_true_iff. repeat split.
      * apply forallb2_Forall2. apply rmapM_ok in Hf.
        eapply Forall2_impl_in; [exact Hf|]. intros x y Hx Hxy. apply override_field_ok; auto.
      * apply forallb2_Forall2. apply rmapM_ok in Hr.
        eapply Forall2_impl_in; [exact Hr|]. intros x y Hx Hxy. apply override_entry_ok; [|exact Hxy].
        apply Hall. apply filter_In in Hx as [Hx _]. exact Hx.
      * apply forallb2_Forall2. apply rmapM_ok in Ho.
        eapply Forall2_impl_in; [exact Ho|]. intros x y Hx Hxy. apply override_entry_ok; [|exact Hxy].
        apply Hall. apply filter_In in Hx as [Hx _]. exact Hx.
      * (* keys of the output = keys of the overrides *)
        cbn [ov_required ov_optional].
        assert (Hk : forall l l', Forall2 (fun x y => override_entry m x = Ok y) l l' ->
                  flat_map (fun o => match ov_key o with Some k => [k] | None => [] end) l = map ove_key l').
        { induction 1 as [|x y l l' Hxy _ IH]; [reflexivity|]. cbn. rewrite (override_entry_key m x y Hxy), IH. reflexivity. }
        unfold ov_keys in Hkeys. rewrite flat_map_app in Hkeys.
        rewrite (Hk _ _ (rmapM_ok _ _ _ Hr)), (Hk _ _ (rmapM_ok _ _ _ Ho)), <- map_app in Hkeys. exact Hkeys.
  - apply forallb_forall. intros v Hv. rewrite nonempty_has.
    unfold vertex_states in Hvst. apply rmapM_ok in Hvst.
    assert (Hex : exists e, vertex_entry m e = Ok v).
    { clear -Hvst Hv. induction Hvst as [|e y l l' Hey _ IH]; [contradiction|]. destruct Hv as [<-|Hv]; eauto. }
    destruct Hex as (e & He). unfold vertex_entry in He. apply rbind_ok in He as (vis & _ & He).
    inversion He; subst v. cbn. destruct (has_overrides m); reflexivity.
  - apply forallb_forall. intros f Hf. rewrite nonempty_has, Hfst in *. unfold fragment_states in Hf.
    apply in_map_iff in Hf as (e & <- & _). cbn. destruct (has_overrides m); reflexivity.
Qed.
