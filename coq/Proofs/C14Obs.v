(** C14 over what the generated helpers do ([Spec/Obs.v]). *)
From W2W Require Import Wf GenInv Tactics C14Spec C14Proof Obs.
Local Open Scope N_scope.

Lemma str_distinct_b l : str_nodup_b l = str_distinct l.
Proof. induction l as [|x t IH]; cbn; [reflexivity|]. rewrite IH. reflexivity. Qed.

Lemma entry_prefix_inj a b : ("ENTRY_" +s+ a)%string = ("ENTRY_" +s+ b)%string -> a = b.
Proof. cbn. intros H. inversion H. reflexivity. Qed.

Lemma existsb_eqb_false x l : existsb (String.eqb x) l = false -> forall y, In y l -> x <> y.
Proof.
  intros H y Hy ->. assert (existsb (String.eqb y) l = true); [|congruence].
  apply existsb_exists. exists y. split; [exact Hy|apply String.eqb_refl].
Qed.

Lemma filter_none {A} (f : A -> bool) l : (forall x, In x l -> f x = false) -> filter f l = [].
Proof.
  induction l as [|x t IH]; intros H; cbn; [reflexivity|]. rewrite (H x (or_introl eq_refl)).
  apply IH. intros y Hy. apply H. right. exact Hy.
Qed.

Lemma const_value_entry es e :
  str_distinct (map e_upper es) = true -> In e es ->
  filter (fun p : string * string => String.eqb (fst p) (const_of e)) (map (fun e => (const_of e, e_name e)) es)
  = [(const_of e, e_name e)].
Proof.
  induction es as [|x t IH]; intros Hd Hin; [destruct Hin|].
  cbn [map str_distinct] in Hd. apply andb_true_iff in Hd as [Hx Hd]. apply negb_true_iff in Hx.
  pose proof (existsb_eqb_false _ _ Hx) as Hne. cbn [map filter fst].
  destruct Hin as [->|Hin].
  - rewrite String.eqb_refl. f_equal. apply filter_none. intros p Hp. apply in_map_iff in Hp as (y & <- & Hy). cbn [fst].
    apply String.eqb_neq. intros Heq. apply entry_prefix_inj in Heq. apply (Hne (e_upper y)); [|symmetry; exact Heq].
    apply in_map. exact Hy.
  - destruct (String.eqb (const_of x) (const_of e)) eqn:E.
    + exfalso. apply String.eqb_eq in E. apply entry_prefix_inj in E. apply (Hne (e_upper e)); [apply in_map; exact Hin|exact E].
    + apply IH; assumption.
Qed.

Lemma const_value_gen m out_ e :
  o_entry_consts out_ = entry_point_constants m -> entry_consts_distinct m = true -> In e (entries m) ->
  const_value out_ (entry_const_name e) = Some (e_name e).
Proof.
  intros Hecs Hd Hin. unfold const_value. rewrite Hecs. unfold entry_point_constants.
  change entry_const_name with const_of. rewrite (const_value_entry _ e Hd Hin). reflexivity.
Qed.

Lemma omapM_map {A B} (f : A -> option B) (g : A -> B) l :
  (forall x, In x l -> f x = Some (g x)) -> omapM f l = Some (map g l).
Proof.
  induction l as [|x t IH]; intros H; cbn; [reflexivity|]. rewrite (H x (or_introl eq_refl)), IH; [reflexivity|].
  intros y Hy. apply H. right. exact Hy.
Qed.

Lemma omapM_Forall2 {A B C} (f : B -> option C) (g : A -> C) l l' :
  Forall2 (fun x y => f y = Some (g x)) l l' -> omapM f l' = Some (map g l).
Proof. induction 1 as [|x y l l' Hxy _ IH]; cbn; [reflexivity|]. rewrite Hxy, IH. reflexivity. Qed.

(** the vertex input structs of an entry are its struct parameters, in order, under their names *)
Lemma vertex_entry_structs_names m e vis :
  vertex_entry_structs m e = Ok vis ->
  map vi_name vis = struct_param_names m (e_fn e) /\ map vi_snake vis = struct_param_snakes m (e_fn e).
Proof.
  unfold vertex_entry_structs, struct_param_names, struct_param_snakes, struct_param_tys.
  generalize (f_args (e_fn e)) as args. intros args. revert vis.
  induction args as [|a t IH]; intros vis H; cbn in H; [inversion H; split; reflexivity|].
  apply rbind_ok in H as (y & Hy & H). apply rbind_ok in H as (ys & Hys & H). inversion H; subst vis; clear H.
  specialize (IH ys Hys). destruct IH as [IH1 IH2]. cbn [flat_map]. unfold vertex_arg_struct in Hy.
  destruct (a_binding a) as [b|].
  - inversion Hy; subst y. cbn [app]. split; assumption.
  - destruct (get_ty m (a_ty a)) as [ty|]; [|discriminate].
    destruct (t_inner ty) eqn:Ei; try (inversion Hy; subst y; cbn [app]; split; assumption).
    destruct (t_name ty) as [n|] eqn:En, (t_snake ty) as [sn|] eqn:Es; try discriminate.
    apply rbind_ok in Hy as (fs & _ & Hy). inversion Hy; subst y. cbn [app map vi_name vi_snake].
    rewrite En, Es. cbn [opt_str]. split; f_equal; assumption.
Qed.

Lemma index_of_enumerate (pre l : list string) (names : list string) i :
  length names = length l -> str_distinct (pre ++ l) = true -> length pre = N.to_nat i ->
  omapM (fun b : string * string => option_map (fun k => (fst b, k)) (index_of (snd b) (pre ++ l) 0)) (combine names l)
  = Some (enumerate names i).
Proof.
  revert pre names i. induction l as [|x t IH]; intros pre names i Hlen Hd Hpre.
  - destruct names; [reflexivity|discriminate].
  - destruct names as [|n ns]; [discriminate|]. cbn [combine omapM enumerate snd fst].
    assert (Hidx : forall q j, str_distinct (q ++ x :: t) = true -> index_of x (q ++ x :: t) j = Some (j + N.of_nat (length q))).
    { induction q as [|y q IHq]; intros j Hq; cbn [app index_of length].
      - rewrite String.eqb_refl. f_equal. lia.
      - cbn [app str_distinct] in Hq. apply andb_true_iff in Hq as [Hy Hq]. apply negb_true_iff in Hy.
        destruct (String.eqb y x) eqn:E.
        + exfalso. apply String.eqb_eq in E. subst y. apply (existsb_eqb_false _ _ Hy x); [apply in_or_app; right; left; reflexivity|reflexivity].
        + rewrite (IHq (j + 1) Hq). f_equal. lia. }
    rewrite (Hidx pre 0 Hd). cbn [option_map].
    replace (pre ++ x :: t) with ((pre ++ [x]) ++ t) in * by (rewrite <- app_assoc; reflexivity).
    rewrite (IH (pre ++ [x]) ns (i + 1)); [|cbn in Hlen; lia|exact Hd|rewrite app_length; cbn; lia].
    f_equal. f_equal. f_equal. lia.
Qed.

Lemma combine_map2 {A B C} (f : A -> B) (g : A -> C) l : map (fun x => (f x, g x)) l = combine (map f l) (map g l).
Proof. induction l; cbn; [reflexivity|]. f_equal. assumption. Qed.

Lemma in_filter_stage m s e : In e (of_stage s m) -> In e (entries m).
Proof. unfold of_stage. intros H. apply filter_In in H. tauto. Qed.

Theorem C14_obs_gen m src inc o out_ :
  gen m src inc o = Ok out_ -> entry_consts_distinct m = true -> vertex_params_distinct m = true ->
  o_entry_consts out_ = map (fun e => (const_of e, e_name e)) (entries m) /\
  map obs_compute (o_compute out_)
    = map (fun e => (("create_" +s+ e_name e +s+ "_pipeline")%string, ("Compute Pipeline " +s+ e_name e)%string, e_name e)) (of_stage Compute m) /\
  map obs_workgroup (o_compute out_) = map (fun e => ((e_upper e +s+ "_WORKGROUP_SIZE")%string, e_wg e)) (of_stage Compute m) /\
  omapM (obs_fragment_entry out_) (o_fentries out_)
    = Some (map (fun e => ((e_name e +s+ "_entry")%string, e_name e, needed_targets m (e_fn e))) (of_stage Fragment m)) /\
  omapM (obs_vertex_entry out_) (o_ventries out_)
    = Some (map (fun e => ((e_name e +s+ "_entry")%string, e_name e, enumerate (struct_param_names m (e_fn e)) 0)) (of_stage Vertex m)) /\
  o_vertex_tpl out_ = nonempty (of_stage Vertex m) /\ o_fragment_tpl out_ = nonempty (of_stage Fragment m).
Proof.
  intros Hgen Hd Hv.
  destruct (gen_inv _ _ _ _ _ Hgen) as [bgd pc _ _ _ _ _ Hcomp Hecs Hvst Hvtpl Hfst Hftpl _ _ _ _ _ _].
  split; [exact Hecs|]. split; [rewrite Hcomp; unfold compute_module; rewrite map_map; reflexivity|].
  split; [rewrite Hcomp; unfold compute_module; rewrite map_map; reflexivity|].
  split.
  { rewrite Hfst. unfold fragment_states. change (filter is_fragment (entries m)) with (of_stage Fragment m).
    assert (H : forall l, (forall e, In e l -> In e (entries m)) ->
      omapM (obs_fragment_entry out_) (map (fragment_entry m) l)
      = Some (map (fun e => ((e_name e +s+ "_entry")%string, e_name e, needed_targets m (e_fn e))) l)).
    { induction l as [|e t IH]; intros Hin; cbn [map omapM]; [reflexivity|].
      rewrite IH by (intros y Hy; apply Hin; right; exact Hy).
      unfold obs_fragment_entry at 1, fragment_entry at 1 2 3 4 5. cbn [fe_targets fe_n fe_const fe_fn]. rewrite N.eqb_refl.
      rewrite (const_value_gen m out_ e Hecs Hd (Hin e (or_introl eq_refl))). cbn [option_map].
      rewrite fragment_target_count_needed. reflexivity. }
    apply H. intros e. apply in_filter_stage. }
  split.
  { unfold vertex_states in Hvst. apply rmapM_ok in Hvst. change (filter is_vertex (entries m)) with (of_stage Vertex m) in Hvst.
    apply omapM_Forall2. unfold vertex_params_distinct in Hv. rewrite forallb_forall in Hv.
    assert (Hin : forall e, In e (of_stage Vertex m) -> In e (entries m)) by (intros e; apply in_filter_stage).
    revert Hv Hin Hvst. generalize (of_stage Vertex m) as l. generalize (o_ventries out_) as l'.
    intros l' l Hv Hin Hvst.
    induction Hvst as [|e v l l' Hev _ IH]; [constructor|].
    constructor; [|apply IH; intros y Hy; [apply Hv|apply Hin]; right; exact Hy].
    unfold vertex_entry in Hev. apply rbind_ok in Hev as (vis & Hvis & Hev). inversion Hev; subst v; clear Hev.
    destruct (vertex_entry_structs_names m e vis Hvis) as [Hn Hs].
    pose proof (Hv e (or_introl eq_refl)) as Hde. rewrite <- Hs in Hde.
    unfold obs_vertex_entry. cbn [ve_params ve_buffers ve_n ve_const ve_fn].
    rewrite str_distinct_b, Hde, map_length, N.eqb_refl. cbn [andb].
    rewrite (const_value_gen m out_ e Hecs Hd (Hin e (or_introl eq_refl))).
    rewrite (combine_map2 vi_name vi_snake vis).
    pose proof (index_of_enumerate [] (map vi_snake vis) (map vi_name vis) 0) as Hi. cbn [app] in Hi.
    rewrite Hi; [rewrite Hn; reflexivity|rewrite !map_length; reflexivity|exact Hde|reflexivity]. }
  split.
  - rewrite Hvtpl. unfold vertex_states in Hvst. apply rmapM_length in Hvst.
    change (of_stage Vertex m) with (filter is_vertex (entries m)).
    destruct (o_ventries out_), (filter is_vertex (entries m)); try discriminate; reflexivity.
  - rewrite Hftpl, Hfst. unfold fragment_states. change (of_stage Fragment m) with (filter is_fragment (entries m)).
    destruct (filter is_fragment (entries m)); reflexivity.
Qed.
