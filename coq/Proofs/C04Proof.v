(** C04: the fields, bind entries and index-named items of every group. *)
From Coq Require Import Sorted.
From W2W Require Import Wf GenInv Tactics C11Proof C11Link C03Link C04Spec.
Local Open Scope N_scope.

Lemma forallb2_Forall2 {A B} (f : A -> B -> bool) l l' :
  Forall2 (fun x y => f x y = true) l l' -> forallb2 f l l' = true.
Proof. induction 1; cbn; [reflexivity|]. rewrite H, IHForall2. reflexivity. Qed.

Lemma kind_of_resource_kind i : kind_of i = resource_kind i.
Proof. destruct i; reflexivity. Qed.

(** the spec's view of a group = the model's bindings of that group *)
Lemma group_vars_from m gs g : forall h,
  global_types_ok m gs = true ->
  map (fun x => (gb_name x, resource_kind (gb_inner x), gb_index x)) (bindings_of g (bvars_from m gs h)) =
  flat_map (fun gl => match g_binding gl with
                      | Some (grp, b) =>
                          if grp =? g
                          then [(g_name gl, match get_inner m (g_ty gl) with Some i => kind_of i | None => None end, b)]
                          else []
                      | None => []
                      end) gs.
Proof.
  induction gs as [|gl t IH]; intros h Hok; cbn [bvars_from flat_map]; [reflexivity|].
  cbn [global_types_ok forallb] in Hok. apply andb_true_iff in Hok as [Hg Ht].
  destruct (g_binding gl) as [[grp b]|]; [|cbn; apply IH; exact Ht].
  unfold get_inner. destruct (get_ty m (g_ty gl)) as [ty|]; [|discriminate]. cbn [option_map].
  unfold bindings_of in *. cbn [filter bv_group]. destruct (grp =? g).
  - cbn [map app bv_gb gb_name gb_inner gb_index]. f_equal. apply IH. exact Ht.
  - cbn [app]. apply IH. exact Ht.
Qed.

Lemma group_vars_bvars m g :
  wf_global_types m = true ->
  group_vars m g = map (fun x => (gb_name x, resource_kind (gb_inner x), gb_index x)) (bindings_of g (bvars m)).
Proof. intros H. unfold group_vars, bvars. symmetry. apply group_vars_from. exact H. Qed.

Lemma str_nodup_of_NoDup l : List.NoDup l -> str_nodup l = true.
Proof.
  induction 1 as [|x t Hx _ IH]; [reflexivity|]. cbn. rewrite IH, andb_true_r. apply negb_true_iff.
  destruct (existsb (String.eqb x) t) eqn:E; [|reflexivity]. exfalso. apply Hx.
  apply existsb_exists in E as (y & Hy & He). apply String.eqb_eq in He. subst. exact Hy.
Qed.

Lemma res_kind_eqb_refl k : res_kind_eqb k k = true.
Proof. destruct k; reflexivity. Qed.

(** the names of the variables of a group are pairwise distinct (globally unique names) *)
Lemma group_names_nodup m g :
  wf_global_names m = true ->
  List.NoDup (flat_map (fun x => match gb_name x with Some n => [n] | None => [] end) (bindings_of g (bvars m))).
Proof.
  intros Hn. unfold wf_global_names in Hn. apply andb_true_iff in Hn as [_ Hn]. apply str_nodup_spec in Hn.
  unfold global_names in Hn. unfold bvars. generalize 0%nat as h. revert Hn.
  induction (globals m) as [|gl t IH]; intros Hn h; cbn [bvars_from]; [constructor|].
  cbn [flat_map] in Hn.
  assert (Ht : List.NoDup (flat_map (fun g => match g_name g with Some n => [n] | None => [] end) t)).
  { destruct (g_name gl); [cbn in Hn; inversion Hn; assumption|exact Hn]. }
  destruct (g_binding gl) as [[grp b]|]; [|apply IH; exact Ht].
  destruct (get_ty m (g_ty gl)); [|apply IH; exact Ht].
  unfold bindings_of. cbn [filter bv_group]. destruct (grp =? g); [|apply IH; exact Ht].
  cbn [map flat_map bv_gb gb_name]. destruct (g_name gl) as [n|] eqn:E; [|apply IH; exact Ht].
  cbn. constructor; [|apply IH; exact Ht].
  cbn in Hn. inversion Hn as [|? ? Hnin _]; subst. intros Hin. apply Hnin.
  (* a name among the bindings of the rest is a name among the globals of the rest *)
  clear -Hin. revert Hin. generalize (S h) as h'. induction t as [|gl' t' IH']; intros h' Hin; cbn [bvars_from] in Hin; [contradiction|].
  cbn [flat_map]. apply in_or_app.
  destruct (g_binding gl') as [[grp' b']|]; [|right; eapply IH'; exact Hin].
  destruct (get_ty m (g_ty gl')); [|right; eapply IH'; exact Hin].
  unfold bindings_of in Hin. cbn [filter bv_group] in Hin. destruct (grp' =? g); [|right; eapply IH'; exact Hin].
  cbn [map flat_map bv_gb gb_name] in Hin. apply in_app_or in Hin as [Hin|Hin]; [left; exact Hin|right; eapply IH'; exact Hin].
Qed.

Lemma gen_group_C04 M k bs og :
  gen_group M (k, bs) = Ok og ->
  og_no og = k /\
  Forall2 (fun x f => gb_name x = Some (fst f) /\ resource_kind (gb_inner x) = Some (snd f)) bs (og_layout_fields og) /\
  Forall2 (fun x e => gb_name x = Some (be_field e) /\ resource_kind (gb_inner x) = Some (be_kind e) /\ be_binding e = gb_index x)
          bs (og_bind_entries og) /\
  map oe_binding (og_entries og) = map gb_index bs /\
  og_layout_struct_no og = k /\ og_desc_no og = k /\ og_impl_no og = k /\ og_get_layout_desc_no og = k /\
  og_from_param_no og = k /\ og_from_desc_no og = k /\ og_set_index og = k /\
  og_desc_label og = "LayoutDescriptor" +s+ N_to_string k /\ og_bg_label og = "BindGroup" +s+ N_to_string k.
Proof.
  unfold gen_group. intros H.
  apply rbind_ok in H as (fields & Hf & H).
  apply rbind_ok in H as (entries & He & H).
  apply rbind_ok in H as (bents & Hb & H). inversion H; subst og; clear H. cbn.
  split; [reflexivity|]. split; [|split; [|split]].
  - apply rmapM_ok in Hf. clear -Hf. induction Hf as [|x y l l' Hxy _ IH]; [constructor|]. constructor; [|exact IH].
    unfold layout_field in Hxy. destruct (gb_name x); [|discriminate].
    destruct (resource_kind (gb_inner x)); [|discriminate]. inversion Hxy. auto.
  - apply rmapM_ok in Hb. clear -Hb. induction Hb as [|x y l l' Hxy _ IH]; [constructor|]. constructor; [|exact IH].
    unfold bind_entry in Hxy. destruct (gb_name x); [|discriminate].
    destruct (resource_kind (gb_inner x)); [|discriminate]. inversion Hxy. auto.
  - symmetry. eapply Forall2_map_eq; [apply rmapM_ok; exact He|].
    intros x y Hxy. unfold bind_group_layout_entry in Hxy.
    apply rbind_ok in Hxy as (ty & _ & Hxy). inversion Hxy. reflexivity.
  - repeat split; reflexivity.
Qed.

Lemma N_eqb_refl' n : (n =? n) = true. Proof. apply N.eqb_refl. Qed.

Theorem C04_ok_gen m src inc o out_ :
  wf m = true -> gen m src inc o = Ok out_ -> C04_ok m out_ = true.
Proof.
  intros Hwf Hgen. destruct (wf_proj m Hwf) as (Htypes & _ & _ & Hnames & _).
  destruct (gen_inv _ _ _ _ _ Hgen) as [bgd pc Hbgd _ _ Hbgm _ _ _ _ _ _ _ _ _ _ Hpl _ _].
  destruct (gbd_ok_content m Htypes bgd Hbgd) as (Hkeys & Hsorted & Hfind).
  unfold bind_groups_module in Hbgm. apply rbind_ok in Hbgm as (ogs & Hogs & Hbgm).
  pose proof (rmapM_ok _ _ _ Hogs) as HF.
  assert (Hnos : map og_no ogs = map fst bgd).
  { symmetry. eapply Forall2_map_eq; [exact HF|]. intros [k bs] og Hg.
    apply gen_group_C04 in Hg as (Hno & _). cbn. congruence. }
  assert (Hlen : length ogs = length bgd) by (eapply rmapM_length; eauto).
  (* has_bound <-> some group exists *)
  assert (Hhb : has_bound m = match bgd with [] => false | _ => true end).
  { assert (Hkeysin : forall g, In g (map fst bgd) <-> In g (map bv_group (bvars m))).
    { apply keys_of_Inv. split; assumption. }
    assert (Hb : has_bound m = match bvars m with [] => false | _ => true end).
    { unfold has_bound, bvars. generalize 0%nat as h.
      unfold wf_global_types in Htypes. revert Htypes.
      induction (globals m) as [|gl t IH]; intros Hty h; [reflexivity|].
      cbn [forallb] in Hty. apply andb_true_iff in Hty as [Hg Ht].
      cbn [existsb bvars_from]. destruct (g_binding gl) as [[grp b]|]; [|cbn; apply IH; exact Ht].
      destruct (get_ty m (g_ty gl)); [reflexivity|discriminate]. }
    rewrite Hb. destruct (bvars m) as [|bv t] eqn:Ebv, bgd as [|[k bs] t'] eqn:Ebg; try reflexivity.
    - exfalso. assert (Hin : In k (map bv_group [])) by (apply Hkeysin; left; reflexivity). contradiction.
    - exfalso. assert (Hin : In (bv_group bv) (map fst [])) by (apply Hkeysin; left; reflexivity). contradiction. }
  unfold C04_ok. destruct ogs as [|og0 ogt] eqn:Eogs.
  - inversion Hbgm as [Hnone]. destruct bgd; [|discriminate]. rewrite Hhb, Hpl. reflexivity.
  - inversion Hbgm as [Hsome]. cbn [bg_groups bg_struct_fields bg_struct_set bg_fn_params bg_fn_set].
    rewrite <- Eogs in *. clear Hsome Hbgm.
    assert (Hidx : map fst bgd = N_range 0 (length ogs)).
    { rewrite Hlen, C11Link.N_range_seq. exact Hkeys. }
    assert (Hrange : N_range 0 (length ogs) = C04Spec.N_range 0 (length ogs)) by reflexivity.
    rewrite !andb_true_iff. repeat split.
    + rewrite Hhb. destruct bgd; [subst ogs; discriminate|reflexivity].
    + apply forallb_forall. intros og Hog.
      assert (exists k bs, In (k, bs) bgd /\ gen_group (global_shader_stages m) (k, bs) = Ok og)
        as (k & bs & Hin & Hg).
      { clear -HF Hog. induction HF as [|[k bs] y l l' Hxy HF IH]; [contradiction|].
        destruct Hog as [<-|Hog]; [exists k, bs; split; [left; reflexivity|exact Hxy]|].
        destruct (IH Hog) as (k' & bs' & Hin & Hg). exists k', bs'. split; [right; exact Hin|exact Hg]. }
      destruct (gen_group_C04 _ _ _ _ Hg) as (Hno & Hfields & Hbents & Hents & H1 & H2 & H3 & H4 & H5 & H6 & H7 & H8 & H9).
      assert (Hbs : bs = bindings_of k (bvars m)).
      { pose proof (find_of_In bgd k bs (StronglySorted_lt_NoDup _ Hsorted) Hin) as Hf.
        rewrite Hfind in Hf. destruct (bindings_of k (bvars m)); inversion Hf; reflexivity. }
      unfold group_ok. rewrite Hno, (group_vars_bvars m k Htypes), <- Hbs, H1, H2, H3, H4, H5, H6, H7, H8, H9.
      rewrite !N_eqb_refl', !String.eqb_refl, !andb_true_r. rewrite !andb_true_iff. repeat split.
      * apply forallb2_Forall2. clear -Hfields. induction Hfields as [|x f l l' [Hn Hk] _ IH]; [constructor|]. constructor; [|exact IH].
        cbn. rewrite Hn, Hk. cbn. rewrite String.eqb_refl, res_kind_eqb_refl. reflexivity.
      * apply str_nodup_of_NoDup.
        assert (Hnames' : map fst (og_layout_fields og) =
                          flat_map (fun x => match gb_name x with Some n => [n] | None => [] end) bs).
        { clear -Hfields. induction Hfields as [|x f l l' [Hn Hk] _ IH]; [reflexivity|]. cbn. rewrite Hn, IH. reflexivity. }
        rewrite Hnames', Hbs. apply group_names_nodup. exact Hnames.
      * apply forallb2_Forall2. clear -Hbents. induction Hbents as [|x e l l' (Hn & Hk & Hb) _ IH]; [constructor|]. constructor; [|exact IH].
        cbn. rewrite Hn, Hk, Hb. cbn. rewrite String.eqb_refl, res_kind_eqb_refl, N.eqb_refl. reflexivity.
      * apply (list_eqb_spec N.eqb N.eqb_eq). rewrite Hents.
        clear -Hbents. induction Hbents as [|x e l l' (Hn & Hk & Hb) _ IH]; [reflexivity|]. cbn. rewrite Hb, IH. reflexivity.
    + apply (list_eqb_spec N.eqb N.eqb_eq). rewrite Hnos. exact Hidx.
    + apply (list_eqb_spec nn_eqb nn_eqb_eq). rewrite Hidx. reflexivity.
    + apply (list_eqb_spec N.eqb N.eqb_eq). exact Hidx.
    + apply (list_eqb_spec nn_eqb nn_eqb_eq). rewrite Hidx. reflexivity.
    + apply (list_eqb_spec N.eqb N.eqb_eq). exact Hidx.
    + apply (list_eqb_spec N.eqb N.eqb_eq). rewrite Hpl. exact Hidx.
Qed.
