(** C14: entry point constants, compute helpers, fragment target counts, vertex buffer counts. *)
From W2W Require Import Wf GenInv Tactics C14Spec.
Local Open Scope N_scope.

Lemma forallb2_map {A B} (f : A -> B -> bool) (g : A -> B) l :
  (forall x, In x l -> f x (g x) = true) -> forallb2 f l (map g l) = true.
Proof.
  induction l as [|x t IH]; intros H; [reflexivity|]. cbn.
  rewrite (H x (or_introl eq_refl)), IH; [reflexivity|]. intros y Hy. apply H. right. exact Hy.
Qed.

Lemma forallb2_Forall2 {A B} (f : A -> B -> bool) l l' :
  Forall2 (fun x y => f x y = true) l l' -> forallb2 f l l' = true.
Proof. induction 1; cbn; [reflexivity|]. rewrite H, IHForall2. reflexivity. Qed.

Lemma string_eqb_refl s : String.eqb s s = true.
Proof. apply String.eqb_refl. Qed.

Lemma n3_eqb_refl x : n3_eqb x x = true.
Proof. destruct x as [[a b] c]. cbn. rewrite !N.eqb_refl. reflexivity. Qed.

(** the target count of the generator is "highest location + 1" *)
Lemma fragment_target_count_needed m f : fragment_target_count m f = needed_targets m f.
Proof.
  unfold fragment_target_count, needed_targets, output_locations.
  destruct (f_result f) as [[t [b|]]|]; [| |reflexivity].
  - destruct b as [w|l bs]; [reflexivity|]. unfold location_of, loc_of. cbn [fold_right]. lia.
  - destruct (get_inner m t) as [i|]; [|reflexivity]. destruct i; try reflexivity.
    induction members as [|mem ms IH]; [reflexivity|].
    cbn [filter_map flat_map]. unfold location_of at 1, loc_of at 1.
    destruct (m_binding mem) as [[w|l bs]|]; cbn [option_map app]; try exact IH.
    cbn [fold_left]. rewrite fold_left_max_init. cbn [fold_left] in IH.
    destruct (flat_map (fun mem => loc_of (m_binding mem)) ms) as [|l' t'] eqn:E.
    + cbn [fold_right]. rewrite IH. lia.
    + cbn [fold_right]. rewrite IH. cbn [fold_right]. lia.
Qed.

(** one vertex input struct per struct parameter *)
Lemma vertex_entry_structs_length m e vis :
  vertex_entry_structs m e = Ok vis -> length vis = length (struct_params m (e_fn e)).
Proof.
  unfold vertex_entry_structs, struct_params. generalize (f_args (e_fn e)) as args. intros args. revert vis.
  induction args as [|a t IH]; intros vis H; cbn in H; [inversion H; reflexivity|].
  apply rbind_ok in H as (y & Hy & H). apply rbind_ok in H as (ys & Hys & H). inversion H; subst vis; clear H.
  specialize (IH ys Hys). cbn [filter]. unfold vertex_arg_struct in Hy.
  destruct (a_binding a) as [b|].
  - inversion Hy; subst y. exact IH.
  - unfold get_inner. destruct (get_ty m (a_ty a)) as [ty|]; [|discriminate]. cbn [option_map].
    destruct (t_inner ty); try (inversion Hy; subst y; exact IH).
    destruct (t_name ty), (t_snake ty); try discriminate.
    apply rbind_ok in Hy as (fs & _ & Hy). inversion Hy; subst y. cbn. f_equal. exact IH.
Qed.

Theorem C14_ok_gen m src inc o out_ :
  gen m src inc o = Ok out_ -> C14_ok m out_ = true.
Proof.
  intros Hgen.
  destruct (gen_inv _ _ _ _ _ Hgen) as [bgd pc _ _ _ _ _ Hcomp Hecs Hvst Hvtpl Hfst Hftpl _ _ _ _ _ _].
  unfold C14_ok. rewrite !andb_true_iff. repeat split.
  - rewrite Hecs. unfold entry_point_constants. apply (list_eqb_spec ss_eqb); [|reflexivity].
    intros [a b] [c d]. unfold ss_eqb, pair_eqb. cbn. rewrite andb_true_iff, !String.eqb_eq.
    split; [intros [-> ->]; reflexivity|intros H; inversion H; auto].
  - rewrite Hcomp. unfold compute_module. apply forallb2_map. intros e _.
    unfold compute_ok, compute_entry. cbn. rewrite !string_eqb_refl, n3_eqb_refl. reflexivity.
  - rewrite Hfst. unfold fragment_states. apply forallb2_map. intros e _.
    unfold fragment_ok, fragment_entry. cbn. rewrite !string_eqb_refl, fragment_target_count_needed, !N.eqb_refl.
    reflexivity.
  - unfold vertex_states in Hvst. apply rmapM_ok in Hvst. apply forallb2_Forall2.
    change (of_stage Vertex m) with (filter is_vertex (entries m)).
    clear -Hvst. induction Hvst as [|e v l l' Hev _ IH]; [constructor|]. constructor; [|exact IH].
    unfold vertex_entry in Hev. apply rbind_ok in Hev as (vis & Hvis & Hev). inversion Hev; subst v; clear Hev.
    unfold vertex_ok. cbn. rewrite !string_eqb_refl, !map_length.
    rewrite (vertex_entry_structs_length m e vis Hvis), N.eqb_refl, Nat.eqb_refl. reflexivity.
  - rewrite Hvtpl. unfold vertex_states in Hvst. apply rmapM_length in Hvst.
    change (of_stage Vertex m) with (filter is_vertex (entries m)).
    destruct (o_ventries out_), (filter is_vertex (entries m)); try discriminate; reflexivity.
  - rewrite Hftpl, Hfst. unfold fragment_states.
    change (of_stage Fragment m) with (filter is_fragment (entries m)).
    destruct (filter is_fragment (entries m)); reflexivity.
Qed.
