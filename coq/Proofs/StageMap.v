(** The name-keyed stage map built by [global_shader_stages]: what [get] returns. *)
From stdpp Require Import gmap.
From W2W Require Import Wf.

Definition has_stage (o : option stages) (s : stage) : bool :=
  match o with Some v => st_has v s | None => false end.
Definition is_some' {A} (o : option A) : bool := match o with Some _ => true | None => false end.

Lemma smap_or_get n s M n' :
  smap_get n' (smap_or n s M) =
  if String.eqb n n' then Some (st_union (match smap_get n M with Some v => v | None => st_none end) s)
  else smap_get n' M.
Proof.
  induction M as [|[k v] t IH]; cbn [smap_or smap_get].
  - destruct (String.eqb_spec n n') as [->|Hne]; [|reflexivity].
    destruct s as [a b c]. reflexivity.
  - destruct (String.eqb_spec k n) as [->|Hkn]; cbn [smap_get].
    + destruct (String.eqb_spec n n') as [->|Hne]; [reflexivity|reflexivity].
    + destruct (String.eqb_spec k n') as [->|Hkn'].
      * destruct (String.eqb_spec n n') as [->|_]; [congruence|reflexivity].
      * exact IH.
Qed.

Section Marks.
  Variable m : module.

  Definition named (h : nat) (n : string) : Prop :=
    exists gl, get_global m h = Some gl /\ g_name gl = Some n.

  Lemma apply_mark_get st M h n :
    smap_get n (apply_mark m st M h) =
    match get_global m h with
    | Some gl =>
        match g_name gl with
        | Some n0 => if String.eqb n0 n
                     then Some (st_union (match smap_get n0 M with Some v => v | None => st_none end) st)
                     else smap_get n M
        | None => smap_get n M
        end
    | None => smap_get n M
    end.
  Proof.
    unfold apply_mark. destruct (get_global m h) as [gl|]; [|reflexivity].
    destruct (g_name gl) as [n0|]; [|reflexivity]. apply smap_or_get.
  Qed.

  Lemma named_dec h n : named h n \/ ~ named h n.
  Proof.
    unfold named. destruct (get_global m h) as [gl|]; [|right; intros (gl & H & _); discriminate].
    destruct (g_name gl) as [n0|] eqn:E; [|right; intros (gl' & H & Hn); inversion H; subst; congruence].
    destruct (String.eqb_spec n0 n) as [->|Hne]; [left; eauto|].
    right. intros (gl' & H & Hn). inversion H; subst. congruence.
  Qed.

  (** marking a list of handles with one stage *)
  Lemma fold_marks_get st hs n : forall M,
    let M' := fold_left (apply_mark m st) hs M in
    (forall s, has_stage (smap_get n M') s = true <->
               has_stage (smap_get n M) s = true
               \/ (st_has st s = true /\ exists h, In h hs /\ named h n)) /\
    (smap_get n M' <> None <-> smap_get n M <> None \/ exists h, In h hs /\ named h n).
  Proof.
    induction hs as [|h t IH]; intros M; cbn [fold_left].
    - split; [intros s|]; split; auto; intros [H|H]; auto.
      + destruct H as (_ & h & [] & _).
      + destruct H as (h & [] & _).
    - destruct (IH (apply_mark m st M h)) as [IH1 IH2]. cbn zeta in *.
      pose proof (apply_mark_get st M h n) as Hget.
      destruct (named_dec h n) as [Hn|Hn].
      + destruct Hn as (gl & Hgl & Hname). rewrite Hgl, Hname, String.eqb_refl in Hget.
        assert (Hnamed : named h n) by (exists gl; auto).
        split.
        * intros s. rewrite IH1, Hget. cbn [has_stage]. rewrite st_has_union, orb_true_iff. split.
          -- intros [[H|H]|(Hs & h0 & Hin & Hn0)].
             ++ left. destruct (smap_get n M); [exact H|]. destruct s; discriminate.
             ++ right. split; [exact H|]. exists h. split; [left; reflexivity|exact Hnamed].
             ++ right. split; [exact Hs|]. exists h0. split; [right; exact Hin|exact Hn0].
          -- intros [H|(Hs & h0 & [<-|Hin] & Hn0)].
             ++ left. left. destruct (smap_get n M); [exact H|discriminate].
             ++ left. right. exact Hs.
             ++ right. split; [exact Hs|]. eauto.
        * rewrite IH2, Hget. split; [|intros _; left; discriminate].
          intros _. right. exists h. split; [left; reflexivity|exact Hnamed].
      + assert (Hsame : smap_get n (apply_mark m st M h) = smap_get n M).
        { rewrite Hget. destruct (get_global m h) as [gl|] eqn:Hgl; [|reflexivity].
          destruct (g_name gl) as [n0|] eqn:Hname; [|reflexivity].
          destruct (String.eqb_spec n0 n) as [->|_]; [|reflexivity].
          exfalso. apply Hn. exists gl. auto. }
        rewrite Hsame in IH1, IH2. split.
        * intros s. rewrite IH1. split.
          -- intros [H|(Hs & h0 & Hin & Hn0)]; [auto|]. right. split; [exact Hs|]. exists h0. split; [right; exact Hin|exact Hn0].
          -- intros [H|(Hs & h0 & [<-|Hin] & Hn0)]; [auto|contradiction|]. right. split; [exact Hs|]. eauto.
        * rewrite IH2. split.
          -- intros [H|(h0 & Hin & Hn0)]; [auto|]. right. exists h0. split; [right; exact Hin|exact Hn0].
          -- intros [H|(h0 & [<-|Hin] & Hn0)]; [auto|contradiction|]. right. eauto.
  Qed.

  Definition marks_named (e : entry) (n : string) : Prop :=
    exists h, h ∈ entry_marks m e /\ named h n.

  Lemma marks_named_elements e n :
    (exists h, In h (elements (entry_marks m e)) /\ named h n) <-> marks_named e n.
  Proof.
    unfold marks_named. split; intros (h & Hh & Hn); exists h; split; auto.
    - apply elem_of_elements. apply elem_of_list_In. exact Hh.
    - apply elem_of_list_In. apply elem_of_elements. exact Hh.
  Qed.

  (** the whole map *)
  Lemma fold_entries_get es n : forall M,
    let M' := fold_left (fun M e => fold_left (apply_mark m (st_of (e_stage e))) (elements (entry_marks m e)) M) es M in
    (forall s, has_stage (smap_get n M') s = true <->
               has_stage (smap_get n M) s = true
               \/ exists e, In e es /\ e_stage e = s /\ marks_named e n) /\
    (smap_get n M' <> None <-> smap_get n M <> None \/ exists e, In e es /\ marks_named e n).
  Proof.
    induction es as [|e t IH]; intros M; cbn [fold_left].
    - split; [intros s|]; split; auto; intros [H|(e & [] & _)]; auto.
    - set (M1 := fold_left (apply_mark m (st_of (e_stage e))) (elements (entry_marks m e)) M).
      destruct (IH M1) as [IH1 IH2]. cbn zeta in *.
      destruct (fold_marks_get (st_of (e_stage e)) (elements (entry_marks m e)) n M) as [F1 F2].
      cbn zeta in *. fold M1 in F1, F2.
      split.
      + intros s. rewrite IH1, F1, st_has_of, (marks_named_elements e n). split.
        * intros [[H|(Hs & Hm)]|(e0 & Hin & Hs & Hm)]; [auto| |].
          -- right. exists e. split; [left; reflexivity|]. split; [destruct (e_stage e), s; try discriminate; reflexivity|exact Hm].
          -- right. exists e0. split; [right; exact Hin|auto].
        * intros [H|(e0 & [<-|Hin] & Hs & Hm)]; [auto| |].
          -- left. right. split; [subst s; destruct (e_stage e); reflexivity|exact Hm].
          -- right. eauto.
      + rewrite IH2, F2, (marks_named_elements e n). split.
        * intros [[H|Hm]|(e0 & Hin & Hm)]; [auto| |].
          -- right. exists e. split; [left; reflexivity|exact Hm].
          -- right. exists e0. split; [right; exact Hin|exact Hm].
        * intros [H|(e0 & [<-|Hin] & Hm)]; [auto|auto|]. right. eauto.
  Qed.

  Theorem global_shader_stages_get n :
    (forall s, has_stage (smap_get n (global_shader_stages m)) s = true <->
               exists e, In e (entries m) /\ e_stage e = s /\ marks_named e n) /\
    (smap_get n (global_shader_stages m) <> None <-> exists e, In e (entries m) /\ marks_named e n).
  Proof.
    unfold global_shader_stages. destruct (fold_entries_get (entries m) n []) as [H1 H2]. cbn zeta in *.
    split.
    - intros s. rewrite H1. cbn. split; [intros [H|H]; [discriminate|exact H]|auto].
    - rewrite H2. cbn. split; [intros [H|H]; [congruence|exact H]|auto].
  Qed.
End Marks.
