(** C01 (partial): further conjuncts of [rust_wf] that follow from the structure theorems of the other properties:
    every type name used resolves (nested struct references, the struct behind every attribute table, the table
    behind every buffer of a vertex entry helper), struct names are distinct, attribute tables are distinct. *)
From stdpp Require Import gmap.
From Coq Require Import Sorting.Sorted.
From W2W Require Import Wf GenInv Tactics TypeDfs C20Proof C03Link C04Proof StructSpec StructProof C06Spec C06Proof
  C06Named RustLayout C07Spec C07Premise C07Proof C07Comp C15Spec C15Proof C01Spec C01Proof.
Local Open Scope N_scope.

(** * forward membership through sort and de-duplication (by name) *)
Definition pname (p : string * string * list member) : string := fst (fst p).

Lemma in_insert_fwd x y l : y = x \/ In y l -> In y (insert_by_name x l).
Proof.
  induction l as [|z t IH]; cbn [insert_by_name]; [intros [->|[]]; left; reflexivity|].
  destruct (leb_name z x).
  - intros [->|[->|H]]; [right; apply IH; left; reflexivity|left; reflexivity|right; apply IH; right; exact H].
  - intros [->|H]; [left; reflexivity|right; exact H].
Qed.

Lemma in_sort_fwd l : forall y, In y l -> In y (sort_by_name l).
Proof.
  unfold sort_by_name. intros y.
  assert (H : forall acc, In y acc \/ In y l -> In y (fold_left (fun acc x => insert_by_name x acc) l acc)).
  { induction l as [|x t IH]; intros acc [Hy|Hy]; cbn [fold_left]; try contradiction; [exact Hy| |].
    - apply IH. left. apply in_insert_fwd. right. exact Hy.
    - destruct Hy as [<-|Hy]; apply IH; [left; apply in_insert_fwd; left; reflexivity|right; exact Hy]. }
  intros Hy. apply H. right. exact Hy.
Qed.

Lemma dedup_from_fwd l : forall prev y, In y l -> pname y = prev \/ exists z, In z (dedup_from prev l) /\ pname z = pname y.
Proof.
  induction l as [|x t IH]; intros prev y Hy; [contradiction|]. cbn [dedup_from].
  destruct (String.eqb_spec prev (fst (fst x))) as [E|E].
  - destruct Hy as [<-|Hy]; [left; symmetry; exact E|apply IH; exact Hy].
  - destruct Hy as [<-|Hy]; [right; exists x; split; [left; reflexivity|reflexivity]|].
    destruct (IH (fst (fst x)) y Hy) as [Hp|(z & Hz & Hn)].
    + right. exists x. split; [left; reflexivity|symmetry; exact Hp].
    + right. exists z. split; [right; exact Hz|exact Hn].
Qed.

Lemma dedup_fwd l y : In y l -> exists z, In z (dedup_by_name l) /\ pname z = pname y.
Proof.
  destruct l as [|x t]; [contradiction|]. cbn [dedup_by_name]. intros [<-|Hy]; [exists x; split; [left; reflexivity|reflexivity]|].
  destruct (dedup_from_fwd t (fst (fst x)) y Hy) as [Hp|(z & Hz & Hn)].
  - exists x. split; [left; reflexivity|symmetry; exact Hp].
  - exists z. split; [right; exact Hz|exact Hn].
Qed.

Lemma forallb2_in_l {A B} (f : A -> B -> bool) l l' :
  C07Spec.forallb2 f l l' = true -> forall x, In x l -> exists y, In y l' /\ f x y = true.
Proof.
  revert l'. induction l as [|x' t IH]; intros [|y' t'] H x Hx; cbn in H; try discriminate; [contradiction|].
  apply andb_true_iff in H as [H1 H2]. destruct Hx as [<-|Hx]; [exists y'; split; [left; reflexivity|exact H1]|].
  destruct (IH t' H2 x Hx) as (y & Hy & Hf). exists y. split; [right; exact Hy|exact Hf].
Qed.

Section More.
  Variables (m : module) (src : string) (inc : option string) (o : options) (out_ : out).
  Hypothesis Hwf : wf m = true.
  Hypothesis Hgen : gen m src inc o = Ok out_.

  Let Hss : structs m o = Ok (o_structs out_).
  Proof. destruct (gen_inv _ _ _ _ _ Hgen) as [bgd pc _ Hss _ _ _ _ _ _ _ _ _ _ _ _ _ _ _]. exact Hss. Qed.

  (** struct names are pairwise distinct *)
  Lemma struct_names_distinct : str_nodup (map s_name (o_structs out_)) = true.
  Proof.
    destruct (C08_ok_structs m o (o_structs out_) Hwf Hss) as [_ H].
    (* the two [str_nodup]s (StructSpec / C01Spec) are the same function *)
    exact H.
  Qed.

  (** every name in a field type is an emitted struct *)
  Lemma named_refs_resolve : wf_io_structs m = true ->
    forallb (fun s => forallb (fun f => forallb (fun n => existsb (String.eqb n) (map s_name (o_structs out_)))
                                                (C01Spec.named_in (fd_ty f))) (s_fields s)) (o_structs out_) = true.
  Proof. intros Hio. apply (C06_named_structs m o (o_structs out_) Hwf Hio Hss). Qed.

  (** the struct behind every attribute table is emitted *)
  Lemma vstructs_emitted : wf_vertex_inputs m = true ->
    forallb (fun v => existsb (String.eqb (vs_name v)) (map s_name (o_structs out_))) (o_vstructs out_) = true.
  Proof.
    intros Hvi. apply forallb_forall. intros v Hv.
    pose proof (C07_struct_gen m src inc o out_ Hgen) as Hst. unfold C07_struct_ok in Hst.
    apply andb_true_iff in Hst as [Hst _].
    destruct (C07Comp.forallb2_in_r _ _ _ Hst v Hv) as ([[n sn] ms] & Hin & Hok).
    destruct (vis_handle m Hvi n sn ms Hin) as (h & t & span & Hvs & Ht & Hi & Hn).
    unfold vertex_struct_ok in Hvs. rewrite Ht, Hi in Hvs. apply andb_true_iff in Hvs as [Hemit _].
    pose proof (structs_rel m o (o_structs out_) Hwf Hss) as Hrel.
    pose proof (in_emitted m h t ms span Ht Hi Hemit) as Hem.
    destruct (Forall2_in_l _ _ _ Hrel _ Hem) as (s & Hs & (t' & Hrs & _ & Ht')). cbn [fst snd] in *.
    rewrite Ht in Ht'. inversion Ht'; subst t'.
    destruct (rust_struct_spec _ _ _ _ _ _ _ Hrs) as (Hname & _).
    unfold vstruct_ok in Hok. do 4 (apply andb_true_iff in Hok as [Hok _]). apply String.eqb_eq in Hok.
    apply existsb_exists. exists (s_name s). split; [apply in_map; exact Hs|].
    apply String.eqb_eq. congruence.
  Qed.

  (** every buffer of a vertex entry helper refers to an attribute table *)
  Lemma buffers_have_tables :
    forallb (fun v => forallb (fun b => existsb (fun vs => String.eqb (vs_name vs) (fst b)) (o_vstructs out_)) (ve_buffers v))
            (o_ventries out_) = true.
  Proof.
    pose proof (C07_struct_gen m src inc o out_ Hgen) as Hst. unfold C07_struct_ok in Hst.
    apply andb_true_iff in Hst as [Hvs Hve].
    apply forallb_forall. intros v Hv.
    destruct (C07Comp.forallb2_in_r _ _ _ Hve v Hv) as (e & He & Hok).
    unfold ventry_ok in Hok. do 2 (apply andb_true_iff in Hok as [Hok _]).
    assert (Hbuf : ve_buffers v = map (fun p => (fst (fst p), snd (fst p))) (struct_params m (e_fn e))).
    { revert Hok. generalize (ve_buffers v) as l1. generalize (map (fun p : string * string * list member => (fst (fst p), snd (fst p))) (struct_params m (e_fn e))) as l2.
      intros l2 l1. revert l2. induction l1 as [|[a b] t IH]; intros [|[c d] t'] H; cbn in H; try discriminate; [reflexivity|].
      apply andb_true_iff in H as [H1 H2]. unfold ss_eqb, pair_eqb in H1. cbn in H1. apply andb_true_iff in H1 as [Ha Hb].
      apply String.eqb_eq in Ha, Hb. subst. f_equal. apply IH. exact H2. }
    rewrite Hbuf. apply forallb_forall. intros b Hb. apply in_map_iff in Hb as (p & <- & Hp). cbn [fst].
    (* p is a struct parameter of a vertex entry: some vertex input struct has its name *)
    assert (Hall : In p (flat_map (fun e => struct_params m (e_fn e)) (vertex_entries m))) by (apply in_flat_map; eauto).
    apply in_sort_fwd in Hall. destruct (dedup_fwd _ _ Hall) as (z & Hz & Hn).
    fold (vertex_input_structs m) in Hz.
    destruct (forallb2_in_l _ _ _ Hvs z Hz) as (vs & Hvs' & Hvok).
    apply existsb_exists. exists vs. split; [exact Hvs'|].
    destruct z as [[n sn] ms]. unfold vstruct_ok in Hvok. do 4 (apply andb_true_iff in Hvok as [Hvok _]).
    apply String.eqb_eq in Hvok. apply String.eqb_eq. unfold pname in Hn. cbn [fst] in Hn. congruence.
  Qed.
End More.

Theorem C01_structure m src inc o out_ :
  wf m = true -> wf_consts m = true -> wf_io_structs m = true -> wf_vertex_inputs m = true ->
  gen m src inc o = Ok out_ ->
  forallb const_wt (o_consts out_) = true
  /\ str_nodup (map s_name (o_structs out_)) = true
  /\ forallb (fun s => forallb (fun f => forallb (fun n => existsb (String.eqb n) (map s_name (o_structs out_)))
                                                 (C01Spec.named_in (fd_ty f))) (s_fields s)) (o_structs out_) = true
  /\ forallb (fun v => existsb (String.eqb (vs_name v)) (map s_name (o_structs out_))) (o_vstructs out_) = true
  /\ forallb (fun v => forallb (fun b => existsb (fun vs => String.eqb (vs_name vs) (fst b)) (o_vstructs out_)) (ve_buffers v))
             (o_ventries out_) = true.
Proof.
  intros Hwf Hc Hio Hvi Hgen. split; [apply (consts_well_typed m src inc o out_ Hc Hgen)|].
  split; [apply (struct_names_distinct m src inc o out_ Hwf Hgen)|].
  split; [apply (named_refs_resolve m src inc o out_ Hwf Hgen Hio)|].
  split; [apply (vstructs_emitted m src inc o out_ Hwf Hgen Hvi)|].
  apply (buffers_have_tables m src inc o out_ Hgen).
Qed.
