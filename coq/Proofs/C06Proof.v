(** C06: field names, order and element shapes. *)
From stdpp Require Import gmap.
From W2W Require Import Wf GenInv Tactics StructSpec StructProof C06Spec.
Local Open Scope N_scope.

Lemma shape_eqb_refl s : shape_eqb s s = true.
Proof.
  induction s as [p|n s IH|n|s IH]; cbn.
  - destruct p; reflexivity.
  - rewrite N.eqb_refl, IH. reflexivity.
  - apply String.eqb_refl.
  - exact IH.
Qed.

Definition not_nalgebra (mv : mv_types) : bool := match mv with MVNalgebra => false | _ => true end.

Lemma nonsquare_shape m : forall k t s,
  is_nonsquare_matrix m k t = true -> wgsl_shape k m t = Some s -> exists a b c, s = SArr a (SArr b c).
Proof.
  induction k as [|k IH]; intros t s Hn Hs; [discriminate|].
  cbn [is_nonsquare_matrix wgsl_shape] in *. destruct (t_inner t); try discriminate.
  - destruct (prim_of _); inversion Hs. eauto.
  - destruct sz as [n| |]; try discriminate. destruct (get_ty m base) as [bt|]; [|discriminate].
    destruct (wgsl_shape k m bt) as [s'|] eqn:E; inversion Hs; subst.
    destruct (IH bt s' Hn E) as (a & b & c & ->). eauto.
Qed.

(** the type mapping preserves shapes, except for the known class (non-square matrices under plain
    arrays, where the two dimensions come out transposed) *)
Lemma rust_type_shape m mv : forall fuel t r,
  rust_type fuel m t mv = Ok r ->
  exists s, wgsl_shape fuel m t = Some s /\
    (if is_nonsquare_matrix m fuel t && not_nalgebra mv then denote r = transpose_mats s else denote r = s).
Proof.
  induction fuel as [|k IH]; intros t r H; [discriminate|].
  cbn [rust_type wgsl_shape is_nonsquare_matrix] in *.
  destruct (t_inner t) as [s|n s|cols rows s|s|base sp| |base sz stride|ms span|d a c|c| | |base sz] eqn:Hi; try discriminate.
  - (* scalar *)
    unfold rust_scalar_type, prim_of in *. destruct s as [kd w]. cbn [sk sw] in *.
    destruct kd; cbn in H |- *; destruct_match_vars; try discriminate; inversion H; subst r; eexists; split; reflexivity.
  - (* vector *)
    destruct s as [kd w].
    destruct mv; unfold rust_vector_type, glam_vector_type, nalgebra_vector_type, rust_scalar_type, prim_of in *;
      cbn [sk sw] in *; destruct n, kd; cbn in H |- *; destruct_match_vars; try discriminate; inversion H; subst r;
      eexists; split; reflexivity.
  - (* matrix *)
    destruct s as [kd w].
    destruct mv; unfold rust_matrix_type, glam_matrix_type, nalgebra_matrix_type, rust_scalar_type, prim_of in *;
      cbn [sk sw] in *; destruct cols, rows; cbn in H |- *; destruct_match_vars; try discriminate; inversion H; subst r;
      eexists; split; reflexivity.
  - (* atomic *)
    unfold rust_scalar_type, prim_of in *. destruct s as [kd w]. cbn [sk sw] in *.
    destruct kd; cbn in H |- *; destruct_match_vars; try discriminate; inversion H; subst r; eexists; split; reflexivity.
  - (* array *)
    destruct sz as [n| |]; try discriminate.
    destruct (get_ty m base) as [bt|]; [|discriminate].
    apply rbind_ok in H as (e & He & H). inversion H; subst r. destruct (IH bt e He) as (s & Hs & Hd).
    rewrite Hs. cbn [option_map]. exists (SArr n s). split; [reflexivity|].
    change ((fix go (fuel : nat) (t : ty) {struct fuel} : bool :=
               match fuel with
               | O => false
               | S k0 => match t_inner t with
                         | TMatrix cols rows _ => negb (vsize_n cols =? vsize_n rows)
                         | TArray base0 _ _ => match get_ty m base0 with Some bt0 => go k0 bt0 | None => false end
                         | _ => false
                         end
               end) k bt) with (is_nonsquare_matrix m k bt).
    cbn [denote]. destruct (is_nonsquare_matrix m k bt && not_nalgebra mv) eqn:E.
    + rewrite Hd. apply andb_true_iff in E as [E _].
      destruct (nonsquare_shape m k bt s E Hs) as (a & b & c & ->). reflexivity.
    + rewrite Hd. reflexivity.
  - (* struct *)
    destruct (t_name t) as [n|]; [|discriminate]. inversion H; subst r. eexists. split; reflexivity.
Qed.

(** * fields of an emitted struct *)
Lemma rust_struct_fields m o gvt h t ms s :
  rust_struct m o gvt h t ms = Ok s ->
  Forall2 (fun mem f => exists idx, struct_member m o (length (user_members ms)) idx mem = Ok f)
          (user_members ms) (s_fields s).
Proof.
  unfold rust_struct. destruct (t_name t) as [name|]; [|discriminate]. intros H.
  rewrite (user_members_eq ms) in H.
  apply rbind_ok in H as (offsets & _ & H). apply rbind_ok in H as (fields & Hf & H).
  assert (Hfields : Forall2 (fun mem f => exists idx, struct_member m o (length (user_members ms)) idx mem = Ok f)
                            (user_members ms) fields).
  { clear -Hf. revert Hf. generalize (length (user_members ms)) as n. generalize 0%nat as idx. revert fields.
    induction (user_members ms) as [|x l IH]; intros fields idx n Hf; cbn in Hf.
    - inversion Hf. constructor.
    - apply rbind_ok in Hf as (f & Hfx & Hf). apply rbind_ok in Hf as (fs & Hfs & Hf). inversion Hf; subst fields.
      constructor; [eauto|eapply IH; exact Hfs]. }
  repeat match type of H with (if ?c then _ else _) = _ => destruct c; [discriminate|] end.
  inversion H; subst s. exact Hfields.
Qed.

Lemma transpose_SVecOf s : transpose_mats (SVecOf s) = SVecOf (transpose_mats s).
Proof. reflexivity. Qed.

Ltac finish_shape Hd :=
  match goal with
  | |- context [?a && not_nalgebra ?mv] =>
      let E := fresh "E" in
      destruct (a && not_nalgebra mv) eqn:E;
      [ let E1 := fresh in let E2 := fresh in
        apply andb_true_iff in E as [E1 E2]; rewrite Hd, ?E1, ?E2, shape_eqb_refl; cbn [andb orb];
        rewrite ?orb_true_r; split; [reflexivity|intros Hc; discriminate]
      | rewrite Hd, shape_eqb_refl; cbn [orb]; split; [reflexivity|intros _; reflexivity] ]
  end.

Lemma struct_member_shape m o n idx mem f :
  struct_member m o n idx mem = Ok f ->
  member_shape_ok true m o mem f = true /\
  ((match get_ty m (m_ty mem) with Some t => snd (member_type_shape m t) | None => false end) && not_nalgebra (w_mv o) = false ->
   member_shape_ok false m o mem f = true).
Proof.
  unfold struct_member, member_shape_ok, member_type_shape, is_rts, get_inner.
  destruct (m_name mem) as [name|]; [|discriminate].
  destruct (get_ty m (m_ty mem)) as [t|]; [|discriminate]. cbn [option_map].
  assert (Hnn : forall mv, negb (match mv with MVNalgebra => true | _ => false end) = not_nalgebra mv) by (intros []; reflexivity).
  destruct (t_inner t) as [s|nv s|cols rows s|s|base sp| |base sz stride|ms span|d a c|c| | |base sz] eqn:Hi;
    try (intros H; apply rbind_ok in H as (e & He & H); inversion H; subst f; cbn [fd_name fd_ty fd_runtime];
         rewrite String.eqb_refl; cbn [Bool.eqb andb];
         destruct (rust_type_shape m (w_mv o) _ _ _ He) as (sh & Hs & Hd); unfold type_fuel in *; rewrite Hs;
         cbn [fst snd]; rewrite Hnn; finish_shape Hd).
  (* array *)
  destruct sz as [k| |].
  - intros H; apply rbind_ok in H as (e & He & H); inversion H; subst f; cbn [fd_name fd_ty fd_runtime].
    rewrite String.eqb_refl. cbn [Bool.eqb andb].
    destruct (rust_type_shape m (w_mv o) _ _ _ He) as (sh & Hs & Hd). unfold type_fuel in *. rewrite Hs.
    cbn [fst snd]. rewrite Hnn. finish_shape Hd.
  - destruct (negb (idx =? n - 1)%nat); [discriminate|].
    destruct (get_ty m base) as [bt|]; [|discriminate].
    intros H; apply rbind_ok in H as (e & He & H); inversion H; subst f; cbn [fd_name fd_ty fd_runtime].
    rewrite String.eqb_refl. cbn [Bool.eqb andb].
    destruct (rust_type_shape m (w_mv o) _ _ _ He) as (sh & Hs & Hd). unfold type_fuel in *. rewrite Hs.
    cbn [option_map fst snd denote]. rewrite Hnn.
    match goal with
    | |- context [?a && not_nalgebra ?mv] =>
        destruct (a && not_nalgebra mv) eqn:E;
        [ apply andb_true_iff in E as [E1 E2]; rewrite Hd, ?E1, ?E2, transpose_SVecOf; cbn [shape_eqb]; rewrite shape_eqb_refl; cbn [andb orb];
          rewrite ?orb_true_r; split; [reflexivity|intros Hc; discriminate]
        | rewrite Hd; cbn [shape_eqb]; rewrite shape_eqb_refl; cbn [orb]; split; [reflexivity|intros _; reflexivity] ]
    end.
  - intros H; apply rbind_ok in H as (e & He & H). unfold type_fuel in He. cbn [rust_type] in He. rewrite Hi in He. discriminate.
Qed.

(** * all fields of all emitted structs *)
Lemma fields_of_rel m o names es ss :
  Forall2 (srel m o) es ss ->
  forallb2 (struct_fields_ok true m o names) es ss = true /\
  (kf_nonsquare m o = false -> (forall e, In e es -> In e (emitted_structs m)) ->
   forallb2 (struct_fields_ok false m o names) es ss = true).
Proof.
  intros H. induction H as [|e s l l' (t & Hrs & Hn & Ht) _ [IH1 IH2]]; [split; reflexivity|].
  pose proof (rust_struct_fields _ _ _ _ _ _ _ Hrs) as Hf.
  split.
  - cbn [forallb2]. rewrite IH1, andb_true_r. unfold struct_fields_ok.
    clear -Hf. induction Hf as [|mem f ms fs (idx & Hm) _ IH]; [reflexivity|].
    cbn [forallb2]. rewrite IH, andb_true_r. apply (struct_member_shape _ _ _ _ _ _ Hm).
  - intros Hkf Hsub. cbn [forallb2]. rewrite IH2; [|exact Hkf|intros e' He'; apply Hsub; right; exact He'].
    rewrite andb_true_r. unfold struct_fields_ok.
    assert (Hmem : forall mem, In mem (user_members (snd e)) ->
      (match get_ty m (m_ty mem) with Some t => snd (member_type_shape m t) | None => false end) && not_nalgebra (w_mv o) = false).
    { intros mem Hmem. unfold kf_nonsquare in Hkf. apply andb_false_iff in Hkf as [Hkf|Hkf].
      - destruct (w_mv o); cbn in *; try discriminate. apply andb_false_r.
      - apply andb_false_iff. left.
        destruct (match get_ty m (m_ty mem) with Some t => snd (member_type_shape m t) | None => false end) eqn:E; [|reflexivity].
        assert (Hex : existsb (fun e => existsb (fun mem => match get_ty m (m_ty mem) with
                                           | Some t => snd (member_type_shape m t)
                                           | None => false
                                           end) (user_members (snd e))) (emitted_structs m) = true).
        { apply existsb_exists. exists e. split; [apply Hsub; left; reflexivity|].
          apply existsb_exists. exists mem. split; [exact Hmem|exact E]. }
        congruence. }
    clear -Hf Hmem. set (ums := user_members (snd e)) in *. set (n0 := length ums) in Hf. clearbody n0. clearbody ums.
    revert Hmem. induction Hf as [|mem f ms fs (idx & Hm) _ IH]; intros Hmem; [reflexivity|].
    cbn [forallb2]. rewrite IH; [|intros mem' Hm'; apply Hmem; right; exact Hm']. rewrite andb_true_r.
    apply (struct_member_shape _ _ _ _ _ _ Hm). apply Hmem. left. reflexivity.
Qed.

(** * nested struct references name emitted structs *)
Lemma reach_ty_trans m c h x : reach_ty m c h -> reach_ty m h x -> reach_ty m c x.
Proof. induction 1; intros Hx; [exact Hx|]. eapply rty_step; eauto. Qed.

Lemma named_reach m mv : forall fuel d t r,
  get_ty m d = Some t -> rust_type fuel m t mv = Ok r ->
  forall n, In n (named_in r) ->
  exists h' t' ms span, reach_ty m d h' /\ get_ty m h' = Some t' /\ t_inner t' = TStruct ms span /\ t_name t' = Some n.
Proof.
  induction fuel as [|k IH]; intros d t r Hd H n Hn; [discriminate|].
  cbn [rust_type] in H.
  assert (Hi : get_inner m d = Some (t_inner t)) by (unfold get_inner; rewrite Hd; reflexivity).
  destruct (t_inner t) as [s|nv s|cols rows s|s|base sp| |base sz stride|ms span|dd a c|c| | |base sz] eqn:Ei; try discriminate.
  - destruct (rust_scalar_type s) eqn:E; cbn in H; try discriminate; inversion H; subst r; contradiction.
  - exfalso. revert H Hn. destruct s as [kd w].
    destruct mv; unfold glam_vector_type, rust_vector_type, nalgebra_vector_type, rust_scalar_type; cbn [sk sw];
      destruct nv, kd; cbn; destruct_match_vars; intros H Hn; try discriminate; inversion H; subst; exact Hn.
  - exfalso. revert H Hn. destruct s as [kd w].
    destruct mv; unfold glam_matrix_type, rust_matrix_type, nalgebra_matrix_type, rust_scalar_type; cbn [sk sw];
      destruct cols, rows; cbn; destruct_match_vars; intros H Hn; try discriminate; inversion H; subst; exact Hn.
  - destruct (rust_scalar_type s) eqn:E; cbn in H; try discriminate; inversion H; subst r; contradiction.
  - destruct sz as [cnt| |]; try discriminate. destruct (get_ty m base) as [bt|] eqn:Hb; [|discriminate].
    apply rbind_ok in H as (e & He & H). inversion H; subst r. cbn [named_in] in Hn.
    destruct (IH base bt e Hb He n Hn) as (h' & t' & ms & span & Hr & Ht' & Hs & Hname).
    exists h', t', ms, span. split; [|auto]. eapply rty_step; [exact Hi|left; reflexivity|exact Hr].
  - destruct (t_name t) as [nm|] eqn:En; [|discriminate]. inversion H; subst r. destruct Hn as [<-|[]].
    exists d, t, ms, span. split; [eapply rty_here; exact Hi|auto].
Qed.

Theorem C06_fields_gen m src inc o out_ :
  wf m = true -> gen m src inc o = Ok out_ ->
  C06_fields_ok true m o out_ = true /\ (kf_nonsquare m o = false -> C06_fields_ok false m o out_ = true).
Proof.
  intros Hwf Hgen. destruct (gen_inv _ _ _ _ _ Hgen) as [bgd pc _ Hss _ _ _ _ _ _ _ _ _ _ _ _ _ _ _].
  pose proof (structs_rel m o (o_structs out_) Hwf Hss) as Hrel.
  destruct (fields_of_rel m o (map s_name (o_structs out_)) _ _ Hrel) as [H1 H2].
  split; [exact H1|]. intros Hkf. apply H2; [exact Hkf|auto].
Qed.
