(** C06, last clause: a nested struct member refers to an EMITTED struct of the same name. *)
From stdpp Require Import gmap.
From W2W Require Import Wf GenInv Tactics TypeDfs C20Proof StructSpec StructProof C06Spec C06Proof.
Local Open Scope N_scope.

(** * membership in [emitted_structs] *)
Lemma in_indexed {A} (l : list A) : forall h0 k x, nth_error l k = Some x -> In ((h0 + k)%nat, x) (indexed l h0).
Proof.
  induction l as [|y t IH]; intros h0 k x Hk; [destruct k; discriminate|].
  destruct k as [|k]; cbn in *.
  - inversion Hk; subst. left. f_equal. lia.
  - right. replace (h0 + S k)%nat with (S h0 + k)%nat by lia. apply IH. exact Hk.
Qed.

Lemma indexed_in {A} (l : list A) : forall h0 h x, In (h, x) (indexed l h0) ->
  exists k, h = (h0 + k)%nat /\ nth_error l k = Some x.
Proof.
  induction l as [|y t IH]; intros h0 h x Hin; [contradiction|].
  destruct Hin as [Heq|Hin].
  - inversion Heq; subst. exists 0%nat. split; [lia|reflexivity].
  - destruct (IH _ _ _ Hin) as (k & -> & Hk). exists (S k). split; [lia|exact Hk].
Qed.

Lemma in_emitted m h t ms span :
  get_ty m h = Some t -> t_inner t = TStruct ms span -> emit_b m h = true ->
  In (h, t_name t, ms) (emitted_structs m).
Proof.
  intros Ht Hi He. unfold emitted_structs. apply in_flat_map. exists (h, t). split.
  - apply (in_indexed (types m) 0%nat h t). exact Ht.
  - cbn [fst snd]. rewrite Hi, He. left. reflexivity.
Qed.

Lemma emitted_in m h n ms :
  In (h, n, ms) (emitted_structs m) ->
  exists t span, get_ty m h = Some t /\ t_inner t = TStruct ms span /\ emit_b m h = true /\ n = t_name t.
Proof.
  unfold emitted_structs. intros Hin. apply in_flat_map in Hin as ((h', t) & Hin & Hx). cbn [fst snd] in Hx.
  destruct (t_inner t) as [| | | | | | |ms' span| | | | |] eqn:Hi; try contradiction.
  destruct (emit_b m h') eqn:He; [|contradiction]. destruct Hx as [Hx|[]]. inversion Hx; subst.
  destruct (indexed_in _ _ _ _ Hin) as (k & -> & Hk). exists t, span. cbn. auto.
Qed.

Lemma Forall2_in_r {A B} (R : A -> B -> Prop) l l' : Forall2 R l l' -> forall y, In y l' -> exists x, In x l /\ R x y.
Proof.
  induction 1 as [|x y l l' Hxy _ IH]; intros z Hz; [contradiction|].
  destruct Hz as [<-|Hz]; [exists x; split; [left; reflexivity|exact Hxy]|].
  destruct (IH z Hz) as (x' & Hin & Hr). exists x'. split; [right; exact Hin|exact Hr].
Qed.

Lemma Forall2_in_l {A B} (R : A -> B -> Prop) l l' : Forall2 R l l' -> forall x, In x l -> exists y, In y l' /\ R x y.
Proof.
  induction 1 as [|x y l l' Hxy _ IH]; intros z Hz; [contradiction|].
  destruct Hz as [<-|Hz]; [exists y; split; [left; reflexivity|exact Hxy]|].
  destruct (IH z Hz) as (y' & Hin & Hr). exists y'. split; [right; exact Hin|exact Hr].
Qed.

(** * a member type without structs yields a field type without names *)
Lemma no_struct_no_names m mv : forall k t, has_struct m k t = false ->
  forall fuel r, rust_type fuel m t mv = Ok r -> named_in r = [].
Proof.
  induction k as [|k IH]; intros t Hs fuel r H; [discriminate|].
  destruct fuel as [|f]; [discriminate|].
  cbn [has_struct] in Hs. cbn [rust_type] in H.
  destruct (t_inner t) as [s|nv s|cols rows s|s|base sp| |base sz stride|ms span|dd a c|c| | |base sz] eqn:Ei; try discriminate.
  - destruct (rust_scalar_type s) eqn:E; cbn in H; try discriminate; inversion H; subst r; reflexivity.
  - revert H. destruct s as [kd w].
    destruct mv; unfold glam_vector_type, rust_vector_type, nalgebra_vector_type, rust_scalar_type; cbn [sk sw];
      destruct nv, kd; cbn; destruct_match_vars; intros H; try discriminate; inversion H; subst; reflexivity.
  - revert H. destruct s as [kd w].
    destruct mv; unfold glam_matrix_type, rust_matrix_type, nalgebra_matrix_type, rust_scalar_type; cbn [sk sw];
      destruct cols, rows; cbn; destruct_match_vars; intros H; try discriminate; inversion H; subst; reflexivity.
  - destruct (rust_scalar_type s) eqn:E; cbn in H; try discriminate; inversion H; subst r; reflexivity.
  - destruct sz as [cnt| |]; try discriminate. destruct (get_ty m base) as [bt|] eqn:Hb; [|discriminate].
    apply rbind_ok in H as (e & He & H). inversion H; subst r. cbn [named_in].
    apply (IH bt Hs f e He).
Qed.

Section Named.
  Variables (m : module) (o : options) (ss : list out_struct).
  Hypothesis Hwf : wf m = true.
  Hypothesis Hio : wf_io_structs m = true.
  Hypothesis Hss : structs m o = Ok ss.

  Let Htypes : wf_global_types m = true. Proof. apply (wf_proj m Hwf). Qed.
  Let Hwft : wf_types m = true. Proof. apply (wf_proj m Hwf). Qed.

  Lemma host_reach h : host_shareable_b m h = true <-> host_shareable m h.
  Proof.
    pose proof (wf_types_wfT m Hwft) as HwfT. unfold host_shareable_b, host_shareable. rewrite existsb_exists.
    split; intros (g & Hin & Hr); exists g; (split; [exact Hin|]);
      apply (reach_ty_b_spec m h HwfT (length (types m)) (g_ty g)); try (apply wf_global_types_lt; assumption); exact Hr.
  Qed.

  (** every name occurring in a field type of an emitted struct is the name of an emitted struct *)
  Theorem named_emitted : forall s f n, In s ss -> In f (s_fields s) -> In n (named_in (fd_ty f)) ->
    exists s', In s' ss /\ s_name s' = n.
  Proof.
    intros s f n Hs Hf Hn.
    pose proof (structs_rel m o ss Hwf Hss) as Hrel.
    destruct (Forall2_in_r _ _ _ Hrel s Hs) as ([[h nm] ms] & Hem & (t0 & Hrs & Hnm & Ht0)). cbn [fst snd] in *.
    destruct (emitted_in m h nm ms Hem) as (t0' & span & Ht0' & Hi0 & Hemit & _).
    rewrite Ht0 in Ht0'. inversion Ht0'; subst t0'. clear Ht0'.
    destruct (Forall2_in_r _ _ _ (rust_struct_fields _ _ _ _ _ _ _ Hrs) f Hf) as (mem & Hmem & (idx & Hsm)).
    assert (Hmem' : In mem ms) by (unfold user_members in Hmem; apply filter_In in Hmem; tauto).
    (* the member's type, the type [d] whose Rust type the field carries, and a path from the member to it *)
    assert (Hd : exists tm d td e, get_ty m (m_ty mem) = Some tm /\ get_ty m d = Some td /\
               rust_type (type_fuel m) m td (w_mv o) = Ok e /\ named_in (fd_ty f) = named_in e /\
               reach_ty m (m_ty mem) d /\
               (has_struct m (type_fuel m) tm = false -> exists k, has_struct m k td = false)).
    { unfold struct_member in Hsm. destruct (m_name mem) as [name|]; [|discriminate].
      destruct (get_ty m (m_ty mem)) as [tm|] eqn:Htm; [|discriminate].
      assert (Hnorm : forall e, rust_type (type_fuel m) m tm (w_mv o) = Ok e -> f = mkOutField name e false ->
                exists tm0 d td e, Some tm = Some tm0 /\ get_ty m d = Some td /\
                  rust_type (type_fuel m) m td (w_mv o) = Ok e /\ named_in (fd_ty f) = named_in e /\
                  reach_ty m (m_ty mem) d /\ (has_struct m (type_fuel m) tm0 = false -> exists k, has_struct m k td = false)).
      { intros e He ->. exists tm, (m_ty mem), tm, e. repeat split; try assumption.
        - eapply rty_here. unfold get_inner. rewrite Htm. reflexivity.
        - intros Hh. exists (type_fuel m). exact Hh. }
      destruct (t_inner tm) as [s0|nv s0|cols rows s0|s0|base sp| |base sz stride|ms0 span0|dd a c|c| | |base sz] eqn:Ei;
        try (apply rbind_ok in Hsm as (e & He & Hsm); inversion Hsm; subst f; apply (Hnorm e He eq_refl)).
      destruct sz as [cnt| |];
        try (apply rbind_ok in Hsm as (e & He & Hsm); inversion Hsm; subst f; apply (Hnorm e He eq_refl)).
      destruct (negb (idx =? length (user_members ms) - 1)%nat); [discriminate|].
      destruct (get_ty m base) as [bt|] eqn:Hb; [|discriminate].
      apply rbind_ok in Hsm as (e & He & Hsm). inversion Hsm; subst f. cbn [fd_ty named_in].
      exists tm, base, bt, e. repeat split; try assumption.
      - eapply rty_step; [unfold get_inner; rewrite Htm; cbn [option_map]; rewrite Ei; reflexivity|left; reflexivity|].
        eapply rty_here. unfold get_inner. rewrite Hb. reflexivity.
      - intros Hh. unfold type_fuel in Hh. cbn [has_struct] in Hh. rewrite Ei, Hb in Hh. eauto. }
    destruct Hd as (tm & d & td & e & Htm & Htd & He & Hnames & Hreach & Hnos).
    rewrite Hnames in Hn.
    destruct (host_shareable_b m h) eqn:Hhost.
    - (* host-shareable: the named struct is reachable from the same variable, hence emitted *)
      destruct (named_reach m (w_mv o) _ d td e Htd He n Hn) as (h' & t' & ms' & span' & Hr' & Ht' & Hi' & Hname').
      apply host_reach in Hhost as (g & Hg & Hgr).
      assert (Hh' : host_shareable m h').
      { exists g. split; [exact Hg|]. eapply reach_ty_trans; [exact Hgr|].
        eapply rty_step; [unfold get_inner; rewrite Ht0; cbn [option_map]; rewrite Hi0; reflexivity|cbn [children]; apply in_map; exact Hmem'|].
        eapply reach_ty_trans; [exact Hreach|exact Hr']. }
      apply host_reach in Hh'.
      assert (Hemit' : emit_b m h' = true) by (unfold emit_b; rewrite Hh'; reflexivity).
      pose proof (in_emitted m h' t' ms' span' Ht' Hi' Hemit') as Hin'.
      destruct (Forall2_in_l _ _ _ Hrel _ Hin') as (s' & Hs' & (t'' & Hrs' & _ & Ht'')). cbn [fst snd] in *.
      rewrite Ht' in Ht''. inversion Ht''; subst t''.
      destruct (rust_struct_spec _ _ _ _ _ _ _ Hrs') as (Hnm' & _).
      exists s'. split; [exact Hs'|]. congruence.
    - (* an IO struct: no struct-typed members at all *)
      exfalso. unfold wf_io_structs in Hio. rewrite forallb_forall in Hio. specialize (Hio _ Hem). cbn [fst snd] in Hio.
      rewrite Hhost in Hio. cbn [orb] in Hio. rewrite forallb_forall in Hio. specialize (Hio mem Hmem).
      rewrite Htm in Hio. apply negb_true_iff in Hio.
      destruct (Hnos Hio) as (k & Hk).
      rewrite (no_struct_no_names m (w_mv o) k td Hk _ e He) in Hn. contradiction.
  Qed.

  Theorem C06_named_structs :
    forallb (fun s => forallb (fun f => forallb (fun n => existsb (String.eqb n) (map s_name ss)) (named_in (fd_ty f)))
                              (s_fields s)) ss = true.
  Proof.
    apply forallb_forall. intros s Hs. apply forallb_forall. intros f Hf. apply forallb_forall. intros n Hn.
    destruct (named_emitted s f n Hs Hf Hn) as (s' & Hs' & Hname). apply existsb_exists. exists (s_name s').
    split; [apply in_map; exact Hs'|]. rewrite Hname. apply String.eqb_refl.
  Qed.
End Named.

Theorem C06_named_gen m src inc o out_ :
  wf m = true -> wf_io_structs m = true -> gen m src inc o = Ok out_ -> C06_named_ok out_ = true.
Proof.
  intros Hwf Hio Hgen. destruct (gen_inv _ _ _ _ _ Hgen) as [bgd pc _ Hss _ _ _ _ _ _ _ _ _ _ _ _ _ _ _].
  unfold C06_named_ok. apply (C06_named_structs m o (o_structs out_) Hwf Hio Hss).
Qed.
