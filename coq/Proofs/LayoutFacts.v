(** Facts about the WGSL layout rules of [Spec/Layout.v]: every size is a multiple of 4, every alignment
    is 1 (the empty struct of the model) or a multiple of 4. Used by C13 (the push constant range length is a
    multiple of 4, as wgpu requires of push constant ranges). *)
From W2W Require Import Out RustLayout Layout.
From Coq Require Import Lia ZifyBool ZifyN.
Local Open Scope N_scope.
Ltac Zify.zify_post_hook ::= Z.div_mod_to_equations.

Definition al_ok (a : N) : Prop := a = 1 \/ (a mod 4 = 0 /\ 0 < a).

Lemma round_up_mult4 a n : al_ok a -> n mod 4 = 0 -> round_up a n mod 4 = 0.
Proof.
  unfold al_ok, round_up. intros [->|[Ha Hp]] Hn.
  - replace (n + 1 - 1) with n by lia. rewrite N.div_1_r. lia.
  - assert (exists k, a = 4 * k) as [k ->] by (exists (a / 4); lia).
    rewrite (N.mul_comm 4 k), N.mul_assoc. apply N.mod_mul. lia.
Qed.

Lemma max_al_ok a b : al_ok a -> al_ok b -> al_ok (N.max a b).
Proof. unfold al_ok. intros [->|[Ha Hp]] [->|[Hb Hq]]; destruct (N.max_spec_le 1 1); lia. Qed.

Section LtyInd.
  Variable P : lty -> Prop.
  Hypothesis Hs : P LScalar.
  Hypothesis Hv : forall n, P (LVec n).
  Hypothesis Hm : forall c r, P (LMat c r).
  Hypothesis Ha : forall t n, P t -> P (LArr t n).
  Hypothesis Hr : forall t, P t -> P (LRts t).
  Hypothesis Hst : forall name fs, Forall P fs -> P (LStruct name fs).
  Fixpoint lty_ind' (t : lty) : P t :=
    match t with
    | LScalar => Hs
    | LVec n => Hv n
    | LMat c r => Hm c r
    | LArr t n => Ha t n (lty_ind' t)
    | LRts t => Hr t (lty_ind' t)
    | LStruct name fs =>
        Hst name fs ((fix go (l : list lty) : Forall P l :=
                        match l with [] => Forall_nil P | x :: r => Forall_cons x (lty_ind' x) (go r) end) fs)
    end.
End LtyInd.

Definition struct_go := fix go (fs : list lty) (cur : N) : N :=
  match fs with [] => cur | f :: r => go r (round_up (l_align f) cur + l_size f) end.

Lemma l_facts t : al_ok (l_align t) /\ l_size t mod 4 = 0.
Proof.
  induction t as [|n|c r|t n [IHa IHs]|t [IHa IHs]|name fs IH] using lty_ind'.
  - split; [right|]; cbn; lia.
  - split; [right; cbn; destruct (n =? 2); lia|]. cbn [l_size]. rewrite N.mul_comm. apply N.mod_mul. lia.
  - split; [right; cbn; destruct (r =? 2); lia|]. cbn [l_size]. destruct (r =? 2).
    + replace (c * 8) with (c * 2 * 4) by lia. apply N.mod_mul. lia.
    + replace (c * 16) with (c * 4 * 4) by lia. apply N.mod_mul. lia.
  - split; [exact IHa|]. cbn [l_size]. pose proof (round_up_mult4 _ _ IHa IHs) as H.
    revert H. generalize (round_up (l_align t) (l_size t)). intros x Hx. assert (exists k, x = 4 * k) as [k ->] by (exists (x / 4); lia). replace (n * (4 * k)) with (n * k * 4) by lia. apply N.mod_mul. lia.
  - split; [exact IHa|]. cbn [l_size]. apply round_up_mult4; assumption.
  - assert (al_ok (fold_right (fun f a => N.max (l_align f) a) 1 fs)) as HA.
    { induction IH as [|f r [Hf _] _ IHr]; cbn [fold_right]; [left; reflexivity|]. apply max_al_ok; assumption. }
    split; [exact HA|]. cbn [l_size]. apply round_up_mult4; [exact HA|].
    change (struct_go fs 0 mod 4 = 0).
    assert (forall cur, cur mod 4 = 0 -> struct_go fs cur mod 4 = 0) as Hgo.
    { clear HA. induction IH as [|f r [Hfa Hfs] _ IHr]; intros cur Hc; cbn [struct_go]; [exact Hc|].
      apply IHr. pose proof (round_up_mult4 _ _ Hfa Hc) as H. revert H Hfs. generalize (round_up (l_align f) cur) (l_size f). intros x y Hx Hy. lia. }
    apply Hgo. reflexivity.
Qed.

Theorem l_size_multiple_of_4 t : l_size t mod 4 = 0.
Proof. exact (proj2 (l_facts t)). Qed.
