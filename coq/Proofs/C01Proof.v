(** C01 (partial): the parts of [rust_wf] that follow from the other properties' theorems. *)
From W2W Require Import Wf GenInv C15Spec C15Proof C01Spec.

(** every exported constant's literal token has the declared type *)
Theorem consts_well_typed m src inc o out_ :
  wf_consts m = true -> gen m src inc o = Ok out_ -> forallb const_wt (o_consts out_) = true.
Proof.
  intros Hwf Hgen. pose proof (C15_ok_gen m src inc o out_ Hwf Hgen) as H. unfold C15_ok in H.
  destruct (expected_consts m (constants m)); [|discriminate]. apply andb_true_iff in H as [_ H]. exact H.
Qed.
