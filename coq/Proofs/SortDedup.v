(** [sort_by_key] + [dedup_by_key] on names (wgsl.rs [get_vertex_input_structs]) leaves one element per name:
    the names of the result are pairwise distinct. Uses that the byte-wise order of strings is total, antisymmetric
    and transitive. *)
From Coq Require Import List Bool String NArith Lia Sorting.Sorted.
From W2W Require Import Out C07Spec.
Import ListNotations.

Lemma str_leb_trans a : forall b c, String.leb a b = true -> String.leb b c = true -> String.leb a c = true.
Proof.
  unfold String.leb. induction a as [|x a IH]; intros [|y b] [|z c]; cbn; try congruence; try (intros; reflexivity).
  unfold Ascii.compare.
  destruct (N.compare_spec (Ascii.N_of_ascii x) (Ascii.N_of_ascii y)) as [E1|L1|G1];
  destruct (N.compare_spec (Ascii.N_of_ascii y) (Ascii.N_of_ascii z)) as [E2|L2|G2];
  destruct (N.compare_spec (Ascii.N_of_ascii x) (Ascii.N_of_ascii z)) as [E3|L3|G3];
    try lia; try congruence; intros; try reflexivity.
  apply (IH b c); assumption.
Qed.

Definition pn (p : string * string * list member) : string := fst (fst p).
Definition R (a b : string * string * list member) : Prop := String.leb (pn a) (pn b) = true.

Lemma leb_name_R a b : leb_name a b = true <-> R a b.
Proof. unfold leb_name, R, String.leb, pn. destruct (String.compare _ _); split; auto. Qed.

Lemma R_total a b : leb_name a b = false -> R b a.
Proof.
  intros H. destruct (String.leb_total (pn a) (pn b)) as [H1|H1]; [|exact H1].
  apply leb_name_R in H1. congruence.
Qed.

Lemma R_trans a b c : R a b -> R b c -> R a c.
Proof. unfold R. apply str_leb_trans. Qed.

Lemma insert_in x l y : In y (insert_by_name x l) -> y = x \/ In y l.
Proof.
  induction l as [|z t IH]; cbn; [intros [<-|[]]; auto|].
  destruct (leb_name z x); cbn; intros [<-|H]; auto. destruct (IH H); auto.
Qed.

Lemma insert_sorted x l : StronglySorted R l -> StronglySorted R (insert_by_name x l).
Proof.
  induction 1 as [|z t Hs IH Hall]; cbn; [repeat constructor|].
  destruct (leb_name z x) eqn:E.
  - constructor; [exact IH|]. apply Forall_forall. intros y Hy. destruct (insert_in _ _ _ Hy) as [->|Hy'].
    + apply leb_name_R. exact E.
    + rewrite Forall_forall in Hall. apply Hall. exact Hy'.
  - constructor; [constructor; assumption|]. pose proof (R_total _ _ E) as Hxz.
    constructor; [exact Hxz|]. rewrite Forall_forall in Hall |- *. intros y Hy. eapply R_trans; [exact Hxz|apply Hall; exact Hy].
Qed.

Lemma sort_sorted l : StronglySorted R (sort_by_name l).
Proof.
  unfold sort_by_name.
  assert (H : forall acc, StronglySorted R acc -> StronglySorted R (fold_left (fun acc x => insert_by_name x acc) l acc)).
  { induction l as [|x t IH]; intros acc Ha; cbn; [exact Ha|]. apply IH. apply insert_sorted. exact Ha. }
  apply H. constructor.
Qed.

Lemma dedup_from_incl prev l y : In y (dedup_from prev l) -> In y l.
Proof.
  revert prev. induction l as [|z t IH]; intros prev; cbn; [intros []|].
  destruct (String.eqb prev (fst (fst z))); [intros H; right; eapply IH; exact H|].
  intros [<-|H]; [left; reflexivity|right; eapply IH; exact H].
Qed.

(** for a list sorted above [p]: the kept elements have pairwise distinct names, none equal to [pn p] *)
Lemma dedup_from_nodup l : forall p, StronglySorted R (p :: l) ->
  NoDup (map pn (dedup_from (pn p) l)) /\ ~ In (pn p) (map pn (dedup_from (pn p) l)).
Proof.
  induction l as [|y t IH]; intros p Hs; cbn [dedup_from map]; [split; [constructor|intros []]|].
  inversion Hs as [|? ? Hst Hall]; subst. inversion Hst as [|? ? Hst' Hall']; subst.
  inversion Hall as [|? ? Hpy Hall'']; subst.
  fold (pn y). destruct (String.eqb_spec (pn p) (pn y)) as [E|E].
  - apply IH. constructor; assumption.
  - destruct (IH y Hst) as [Hnd Hni]. split.
    + cbn. constructor; assumption.
    + cbn. intros [Hc|Hc]; [apply E; symmetry; exact Hc|].
      apply in_map_iff in Hc as (z & Hz & Hin). apply dedup_from_incl in Hin.
      rewrite Forall_forall in Hall'. specialize (Hall' z Hin). unfold R in Hall', Hpy. rewrite Hz in Hall'.
      apply E. apply String.leb_antisym; assumption.
Qed.

Theorem sort_dedup_names_nodup l : NoDup (map pn (dedup_by_name (sort_by_name l))).
Proof.
  pose proof (sort_sorted l) as Hs. destruct (sort_by_name l) as [|x t]; [constructor|].
  cbn [dedup_by_name map]. fold (pn x). destruct (dedup_from_nodup t x Hs) as [Hnd Hni]. constructor; assumption.
Qed.
