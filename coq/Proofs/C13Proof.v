(** C13: push constant range and stages. *)
From stdpp Require Import gmap.
From W2W Require Import Wf GenInv Tactics C03Spec C03Link C13Spec.
Local Open Scope N_scope.

(** premise, evaluated on every case: naga's [TypeInner::size] of the push constant type equals
    the Layouter size (WGSL SizeOf) *)
Definition pc_size_agrees (m : module) : bool :=
  match List.find is_push_constant (globals m) with
  | None => true
  | Some gl =>
      match get_ty m (g_ty gl) with
      | Some t => inner_size (t_inner t) =? t_size t
      | None => false
      end
  end.

Lemma entry_stages_all m : entry_stages m = all_entry_stages m.
Proof.
  unfold entry_stages, all_entry_stages. apply st_ext. intros s.
  assert (Hgen : forall es acc,
    st_has (fold_left (fun s e => st_union s (st_of (e_stage e))) es acc) s =
    st_has acc s || existsb (fun e => stage_eqb (e_stage e) s) es).
  { induction es as [|e t IH]; intros acc; cbn [fold_left existsb]; [rewrite orb_false_r; reflexivity|].
    rewrite IH, st_has_union, st_has_of, orb_assoc. reflexivity. }
  rewrite Hgen. destruct s; reflexivity.
Qed.

Theorem C13_ok_gen m src inc o out_ :
  wf m = true -> pc_size_agrees m = true -> gen m src inc o = Ok out_ -> C13_ok m out_ = true.
Proof.
  intros Hwf Hsize Hgen. destruct (wf_proj m Hwf) as (Htypes & Hcalls & _ & Hnames & _).
  destruct (gen_inv _ _ _ _ _ Hgen) as [bgd pc _ _ _ _ _ _ _ _ _ _ _ _ Hpc Hpcs _ Hranges _].
  unfold C13_ok, pc_size_agrees in *. pose proof (find_pc_from_spec (globals m) 0) as Hpcf.
  unfold push_constant_range_stages in Hpc.
  destruct (find_pc_from (globals m) 0) as [h|], (List.find is_push_constant (globals m)) as [gl|]; try contradiction.
  - destruct Hpcf as (i & -> & Hi). cbn. rewrite Hi.
    destruct (get_ty m (g_ty gl)) as [t|]; [|discriminate]. inversion Hpc; subst pc; clear Hpc.
    cbn in Hpcs, Hranges. rewrite Hpcs, Hranges. apply N.eqb_eq in Hsize. cbn. rewrite Hsize, N.eqb_refl, !andb_true_r.
    apply st_eqb_spec. unfold pc_stage_spec.
    destruct (g_name gl) as [n|] eqn:Hn.
    + rewrite (lookup_vis_default m i gl n _ Hcalls Hnames Hi Hn), entry_stages_all. reflexivity.
    + exfalso. unfold wf_global_names in Hnames. apply andb_true_iff in Hnames as [Hall _].
      rewrite forallb_forall in Hall. specialize (Hall gl (nth_error_In _ _ Hi)). rewrite Hn in Hall. discriminate.
  - inversion Hpc; subst pc. cbn in Hpcs, Hranges. rewrite Hpcs, Hranges. reflexivity.
Qed.
