(** Small shared tactics and list lemmas. *)
From W2W Require Import Gen.

(** destruct whatever variable a [match] in the goal is stuck on *)
Ltac destruct_match_vars :=
  repeat match goal with
         | |- context [match ?x with _ => _ end] => is_var x; destruct x; cbn
         end.

Fixpoint forallb2' {A B} (f : A -> B -> bool) (l : list A) (l' : list B) : bool :=
  match l, l' with
  | [], [] => true
  | x :: t, y :: t' => f x y && forallb2' f t t'
  | _, _ => false
  end.

Lemma bool_eq_iff (a b : bool) : (a = true <-> b = true) -> a = b.
Proof. destruct a, b; intros [H1 H2]; auto; try (symmetry; auto); discriminate (H1 eq_refl) || discriminate (H2 eq_refl). Qed.

Lemma fold_left_max_init l : forall a, fold_left N.max l a = N.max a (fold_left N.max l 0%N).
Proof.
  induction l as [|x t IH]; intros a; cbn [fold_left]; [lia|].
  rewrite IH, (IH (N.max 0 x)). lia.
Qed.
