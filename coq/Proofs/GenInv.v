(** Inversion of the monadic pipeline of [gen], and generic [rmapM] lemmas. *)
From W2W Require Import Gen.

Lemma rbind_ok {A B} (r : result A) (f : A -> result B) b :
  rbind r f = Ok b -> exists a, r = Ok a /\ f a = Ok b.
Proof. destruct r; cbn; intros H; try discriminate. eauto. Qed.

Lemma rmapM_ok {A B} (f : A -> result B) l l' :
  rmapM f l = Ok l' -> Forall2 (fun x y => f x = Ok y) l l'.
Proof.
  revert l'. induction l as [|x t IH]; intros l' H; cbn in H.
  - inversion H. constructor.
  - apply rbind_ok in H as (y & Hy & H). apply rbind_ok in H as (ys & Hys & H).
    inversion H; subst. constructor; auto.
Qed.

Lemma rmapM_length {A B} (f : A -> result B) l l' : rmapM f l = Ok l' -> length l' = length l.
Proof. intros H. apply rmapM_ok in H. induction H; cbn; congruence. Qed.

Lemma rmapM_map {A B} (f : A -> result B) (g : A -> B) l :
  (forall x, In x l -> f x = Ok (g x)) -> rmapM f l = Ok (map g l).
Proof.
  induction l as [|x t IH]; intros H; cbn; [reflexivity|].
  rewrite (H x (or_introl eq_refl)). cbn. rewrite IH; [reflexivity|]. intros y Hy. apply H. right. exact Hy.
Qed.

Lemma Forall2_map_eq {A B C} (f : A -> result B) (pa : A -> C) (pb : B -> C) l l' :
  Forall2 (fun x y => f x = Ok y) l l' ->
  (forall x y, f x = Ok y -> pa x = pb y) -> map pa l = map pb l'.
Proof. induction 1; intros H'; cbn; [reflexivity|]. f_equal; auto. Qed.

(** Everything [gen] computed, when it returns [Ok]. *)
Inductive gen_parts (m : module) (src : string) (inc : option string) (o : options) (out_ : out) : Prop :=
| GenParts (bgd : groups) (pc : option (N * stages))
  (gp_bgd_eq : get_bind_group_data m = Ok bgd)
  (gp_structs : structs m o = Ok (o_structs out_))
  (gp_consts : o_consts out_ = consts m)
  (gp_bgm : bind_groups_module bgd (global_shader_stages m) = Ok (o_bind_groups out_))
  (gp_vmod : vertex_struct_methods m = Ok (o_vstructs out_))
  (gp_compute : o_compute out_ = compute_module m)
  (gp_ecs : o_entry_consts out_ = entry_point_constants m)
  (gp_vst : vertex_states m = Ok (o_ventries out_))
  (gp_vtpl : o_vertex_tpl out_ = match o_ventries out_ with [] => false | _ => true end)
  (gp_fst : o_fentries out_ = fragment_states m)
  (gp_ftpl : o_fragment_tpl out_ = match o_fentries out_ with [] => false | _ => true end)
  (gp_source : o_source out_ = gen_source src inc)
  (gp_pc_eq : push_constant_range_stages m (global_shader_stages m) = Ok pc)
  (gp_pc_stages : o_pc_stages out_ = option_map snd pc)
  (gp_pl : o_pl_groups out_ = map fst bgd)
  (gp_pc_ranges : o_pc_ranges out_ =
    match pc with Some (size, _) => [mkOutPcRange true 0%N size] | None => [] end)
  (gp_ov : pipeline_overridable_constants m = Ok (o_overrides out_)).

Lemma gen_inv m src inc o out_ : gen m src inc o = Ok out_ -> gen_parts m src inc o out_.
Proof.
  unfold gen. intros H.
  apply rbind_ok in H as (bgd & Hbgd & H).
  apply rbind_ok in H as (ss & Hss & H).
  apply rbind_ok in H as (bgm & Hbgm & H).
  apply rbind_ok in H as (vmod & Hvmod & H).
  apply rbind_ok in H as (vst & Hvst & H).
  apply rbind_ok in H as (pc & Hpc & H).
  apply rbind_ok in H as (ov & Hov & H).
  inversion H; subst out_; clear H.
  apply (GenParts _ _ _ _ _ bgd pc); cbn; try reflexivity; assumption.
Qed.
