(** C12: naga's override resolution sees exactly the values supplied. *)
From W2W Require Import Wf GenInv Tactics C12Spec C12Proof C03Link Overrides.
Local Open Scope N_scope.

Section Proof.
  Variable F : Type.
  Variables (one zero : F) (of_i32 : Z -> F) (of_u32 : N -> F) (of_f32 : N -> F) (of_f64 : N -> F).
  Variable lit_of : F -> rprim -> option oval.
  (** the retractions (see Overrides.v) *)
  Hypothesis lit_bool : forall b : bool, lit_of (if b then one else zero) PBool = Some (VBool b).
  Hypothesis lit_i32 : forall z : Z, (-2147483648 <= z < 2147483648)%Z -> lit_of (of_i32 z) PI32 = Some (VI32 z).
  Hypothesis lit_u32 : forall n : N, n < 4294967296 -> lit_of (of_u32 n) PU32 = Some (VU32 n).
  Hypothesis lit_f32 : forall b : N, b < 4294967296 -> lit_of (of_f32 b) PF32 = Some (VF32 b).
  Hypothesis lit_f64 : forall b : N, b < 18446744073709551616 -> lit_of (of_f64 b) PF64 = Some (VF64 b).

  Notation entry_value := (entry_value F one zero of_i32 of_u32 of_f32 of_f64).
  Notation req_entries := (req_entries F one zero of_i32 of_u32 of_f32 of_f64).
  Notation opt_entries := (opt_entries F one zero of_i32 of_u32 of_f32 of_f64).
  Notation constants_map := (constants_map F one zero of_i32 of_u32 of_f32 of_f64).
  Notation naga_resolve := (naga_resolve F lit_of).

  Lemma retraction is_bool v f p :
    oval_prim v = p -> oval_in_range v -> is_bool = rprim_eqb p PBool ->
    entry_value is_bool v = Some f -> lit_of f p = Some v.
  Proof.
    intros <- Hr -> H. destruct v; cbn in *; inversion H; subst f; auto.
  Qed.

  Lemma entry_value_typed is_bool v :
    is_bool = rprim_eqb (oval_prim v) PBool -> exists f, entry_value is_bool v = Some f.
  Proof. intros ->. destruct v; cbn; eauto. Qed.

  (** association lists with distinct keys *)
  Lemma assoc_in k f (l : list (string * F)) : NoDup (map fst l) -> In (k, f) l -> assoc F k l = Some f.
  Proof.
    induction l as [|[k' f'] t IH]; intros Hnd Hin; [contradiction|]. cbn in *. inversion Hnd as [|? ? Hni Hnd']; subst.
    destruct Hin as [E|Hin].
    - inversion E; subst. rewrite String.eqb_refl. reflexivity.
    - destruct (String.eqb_spec k' k) as [->|_]; [|apply IH; assumption].
      exfalso. apply Hni. apply in_map_iff. exists (k, f). split; [reflexivity|exact Hin].
  Qed.

  Lemma assoc_notin k (l : list (string * F)) : ~ In k (map fst l) -> assoc F k l = None.
  Proof.
    induction l as [|[k' f'] t IH]; intros Hni; [reflexivity|]. cbn in *.
    destruct (String.eqb_spec k' k) as [->|_]; [exfalso; apply Hni; left; reflexivity|].
    apply IH. intros H. apply Hni. right. exact H.
  Qed.

  Lemma map_get_in k f (l : list (string * F)) : NoDup (map fst l) -> In (k, f) l -> map_get F k l = Some f.
  Proof.
    intros Hnd Hin. unfold map_get. apply assoc_in.
    - rewrite map_rev. apply NoDup_rev. exact Hnd.
    - apply in_rev in Hin. exact Hin.
  Qed.

  Lemma map_get_notin k (l : list (string * F)) : ~ In k (map fst l) -> map_get F k l = None.
  Proof.
    intros Hni. unfold map_get. apply assoc_notin. rewrite map_rev. intros H. apply Hni. apply in_rev. exact H.
  Qed.

  (** the entries computed for a list of (override, entry) pairs *)
  Section Entries.
    Variables (m : module) (a : assignment).
    Hypothesis Ha : assignment_ok m a.

    Definition pair_ok (o : override) (e : out_ov_entry) : Prop := ov_entry_ok m o e = true.

    Lemma entry_facts o e :
      pair_ok o e -> exists n k p, od_name o = Some n /\ ov_key o = Some k /\ ov_prim m o = Some p /\
        ove_key e = k /\ ove_field e = n /\ ove_is_bool e = rprim_eqb p PBool.
    Proof.
      unfold pair_ok, ov_entry_ok. destruct (od_name o) as [n|]; [|discriminate].
      destruct (ov_key o) as [k|]; [|discriminate]. destruct (ov_prim m o) as [p|]; [|discriminate].
      intros H. apply andb_true_iff in H as [H Hb]. apply andb_true_iff in H as [Hk Hf].
      apply String.eqb_eq in Hk, Hf. apply Bool.eqb_prop in Hb. exists n, k, p. repeat split; auto.
    Qed.

    (** required entries: all present *)
    Lemma req_entries_ok os es :
      Forall2 pair_ok os es -> (forall o, In o os -> In o (overrides m) /\ od_has_init o = false) ->
      exists r, req_entries es a = Some r /\ map fst r = map ove_key es /\
        forall o e, In (o, e) (combine os es) ->
          exists n v f, od_name o = Some n /\ a n = Some v /\ entry_value (ove_is_bool e) v = Some f /\ In (ove_key e, f) r.
    Proof.
      induction 1 as [|o e os es Hoe _ IH]; intros Hin.
      - exists []. repeat split. intros o e [].
      - destruct IH as (r & Hr & Hk & Hall); [intros o' Ho'; apply Hin; right; exact Ho'|].
        destruct (entry_facts o e Hoe) as (n & k & p & Hn & Hkey & Hp & Hek & Hef & Heb).
        destruct (Hin o (or_introl eq_refl)) as [Hom Hinit].
        destruct (Ha o n Hom Hn) as [Hreq Hty]. specialize (Hreq Hinit).
        destruct (a n) as [v|] eqn:Ean; [|contradiction Hreq; reflexivity].
        destruct (Hty v eq_refl) as [Hpv Hrange].
        assert (Hb : ove_is_bool e = rprim_eqb (oval_prim v) PBool) by (rewrite Heb; congruence).
        destruct (entry_value_typed _ v Hb) as (f & Hf).
        exists ((ove_key e, f) :: r). cbn [req_entries]. rewrite Hef, Ean, Hf, Hr. repeat split.
        + cbn. rewrite Hk. reflexivity.
        + intros o' e' [E|Hin']; [inversion E; subst o' e'|].
          * exists n, v, f. repeat split; auto. left. reflexivity.
          * destruct (Hall o' e' Hin') as (n' & v' & f' & ? & ? & ? & ?). exists n', v', f'. repeat split; auto. right. assumption.
    Qed.

    (** optional entries: exactly the ones that are set *)
    Lemma opt_entries_ok os es :
      Forall2 pair_ok os es -> (forall o, In o os -> In o (overrides m)) -> NoDup (map ove_key es) ->
      exists r, opt_entries es a = Some r /\
        (forall k, In k (map fst r) -> In k (map ove_key es)) /\ NoDup (map fst r) /\
        forall o e, In (o, e) (combine os es) ->
          exists n, od_name o = Some n /\
            match a n with
            | Some v => exists f, entry_value (ove_is_bool e) v = Some f /\ In (ove_key e, f) r
            | None => ~ In (ove_key e) (map fst r)
            end.
    Proof.
      induction 1 as [|o e os es Hoe HF IH]; intros Hin Hnd.
      - exists []. repeat split; [intros k []|constructor|intros o e []].
      - cbn [map] in Hnd. inversion Hnd as [|? ? Hni Hnd']; subst.
        destruct IH as (r & Hr & Hsub & Hndr & Hall); [intros o' Ho'; apply Hin; right; exact Ho'|exact Hnd'|].
        destruct (entry_facts o e Hoe) as (n & k & p & Hn & Hkey & Hp & Hek & Hef & Heb).
        pose proof (Hin o (or_introl eq_refl)) as Hom.
        destruct (Ha o n Hom Hn) as [_ Hty].
        assert (Htail : forall o' e', In (o', e') (combine os es) -> ove_key e' <> ove_key e).
        { intros o' e' Hc E. apply Hni. rewrite <- E. apply in_map. eapply in_combine_r. exact Hc. }
        destruct (a n) as [v|] eqn:Ean.
        + destruct (Hty v eq_refl) as [Hpv Hrange].
          assert (Hb : ove_is_bool e = rprim_eqb (oval_prim v) PBool) by (rewrite Heb; congruence).
          destruct (entry_value_typed _ v Hb) as (f & Hf).
          exists ((ove_key e, f) :: r). cbn [opt_entries]. rewrite Hef, Ean, Hf, Hr. repeat split.
          * cbn. intros k' [<-|Hk']; [left; reflexivity|right; apply Hsub; exact Hk'].
          * cbn. constructor; [intros Hc; apply Hni; apply Hsub; exact Hc|exact Hndr].
          * intros o' e' [E|Hin']; [inversion E; subst o' e'|].
            -- exists n. split; [exact Hn|]. rewrite Ean. exists f. split; [exact Hf|left; reflexivity].
            -- destruct (Hall o' e' Hin') as (n' & Hn' & Hm). exists n'. split; [exact Hn'|].
               destruct (a n') as [v'|]; [destruct Hm as (f' & ? & ?); exists f'; split; [assumption|right; assumption]|].
               cbn. intros [E|Hc]; [apply (Htail o' e' Hin'); symmetry; exact E|exact (Hm Hc)].
        + exists r. cbn [opt_entries]. rewrite Hef, Ean. repeat split; [exact Hr| |exact Hndr|].
          * intros k' Hk'. right. apply Hsub. exact Hk'.
          * intros o' e' [E|Hin']; [inversion E; subst o' e'|].
            -- exists n. split; [exact Hn|]. rewrite Ean. intros Hc. apply Hni. apply Hsub. exact Hc.
            -- destruct (Hall o' e' Hin') as (n' & Hn' & Hm). exists n'. split; [exact Hn'|exact Hm].
    Qed.
  End Entries.

  Lemma NoDup_app_tail {A} (l l' : list A) : NoDup (l ++ l') -> NoDup l'.
  Proof. induction l as [|x t IH]; cbn; intros H; [exact H|]. inversion H; subst. apply IH. assumption. Qed.

  Lemma forallb2_Forall2_rev {A B} (f : A -> B -> bool) l l' :
    C12Spec.forallb2 f l l' = true -> Forall2 (fun x y => f x y = true) l l'.
  Proof.
    revert l'. induction l as [|x t IH]; intros [|y t'] H; cbn in H; try discriminate; [constructor|].
    apply andb_true_iff in H as [H1 H2]. constructor; [exact H1|apply IH; exact H2].
  Qed.

  Lemma Forall2_in_combine {A B} (P : A -> B -> Prop) l l' x :
    Forall2 P l l' -> In x l -> exists y, In (x, y) (combine l l').
  Proof.
    induction 1 as [|a b l l' _ _ IH]; intros Hin; [contradiction|].
    destruct Hin as [<-|Hin]; [exists b; left; reflexivity|]. destruct (IH Hin) as (y & Hy). exists y. right. exact Hy.
  Qed.

  (** * the theorem *)
  Theorem C12_resolution_ok m out_ oo (a : assignment) :
    wf_overrides m = true -> C12_ok m out_ = true -> o_overrides out_ = Some oo ->
    assignment_ok m a ->
    exists mp, constants_map oo a = Some mp /\
      forall o n, In o (overrides m) -> od_name o = Some n ->
        naga_resolve m o mp = match a n with Some v => RValue v | None => RDefault end.
  Proof.
    intros Hwf Hok Hoo Ha. unfold C12_ok in Hok. rewrite Hoo in Hok.
    apply andb_true_iff in Hok as [Hok _]. apply andb_true_iff in Hok as [Hok _].
    destruct (overrides m) as [|o0 ot] eqn:Eo; [discriminate|]. rewrite <- Eo in *.
    apply andb_true_iff in Hok as [Hok Hkeys]. apply andb_true_iff in Hok as [Hok Hopt].
    apply andb_true_iff in Hok as [_ Hreq].
    apply forallb2_Forall2_rev in Hreq, Hopt.
    apply str_nodup_spec in Hkeys. rewrite map_app in Hkeys.
    pose proof (NoDup_app_tail _ _ Hkeys) as Hnd_opt.
    destruct (req_entries_ok m a Ha _ _ Hreq) as (r & Hr & Hrk & Hrall).
    { intros o Ho. apply filter_In in Ho as [Ho Hi]. split; [exact Ho|]. destruct (od_has_init o); [discriminate|reflexivity]. }
    destruct (opt_entries_ok m a Ha _ _ Hopt) as (p & Hp & Hpsub & Hpnd & Hpall).
    { intros o Ho. apply filter_In in Ho as [Ho _]. exact Ho. }
    { exact Hnd_opt. }
    exists (r ++ p). split; [unfold Overrides.constants_map; rewrite Hr, Hp; reflexivity|].
    (* keys of the map are distinct *)
    assert (Hnd : NoDup (map fst (r ++ p))).
    { rewrite map_app, Hrk. clear -Hkeys Hpsub Hpnd.
      induction (map ove_key (ov_required oo)) as [|k t IH]; [exact Hpnd|].
      cbn in *. inversion Hkeys as [|? ? Hni Hk']; subst. constructor; [|apply IH; exact Hk'].
      intros Hc. apply Hni. apply in_app_iff in Hc as [Hc|Hc]; apply in_app_iff; [left; exact Hc|right; apply Hpsub; exact Hc]. }
    intros o n Ho Hn. unfold Overrides.naga_resolve.
    destruct (od_has_init o) eqn:Einit.
    - (* optional *)
      assert (Hf : In o (filter od_has_init (overrides m))) by (apply filter_In; split; assumption).
      destruct (Forall2_in_combine _ _ _ o Hopt Hf) as (e & Hc).
      destruct (Hpall o e Hc) as (n' & Hn' & Hm). rewrite Hn in Hn'. inversion Hn'; subst n'.
      pose proof (in_combine_l _ _ _ _ Hc) as Hol. pose proof (in_combine_r _ _ _ _ Hc) as Her.
      assert (Hoe : pair_ok m o e).
      { clear -Hopt Hc. induction Hopt as [|x y l l' Hxy _ IH]; [contradiction|]. destruct Hc as [E|Hc]; [inversion E; subst; exact Hxy|apply IH; exact Hc]. }
      destruct (entry_facts m o e Hoe) as (n2 & k & pr & Hn2 & Hkey & Hpr & Hek & Hef & Heb).
      rewrite Hkey. destruct (a n) as [v|] eqn:Ean.
      + destruct Hm as (f & Hf' & Hin). rewrite Hek in Hin.
        rewrite (map_get_in k f (r ++ p) Hnd (in_or_app _ _ _ (or_intror Hin))). rewrite Hpr.
        destruct (Ha o n Ho Hn) as [_ Hty]. destruct (Hty v Ean) as [Hpv Hrange].
        rewrite (retraction (ove_is_bool e) v f pr); [reflexivity|congruence|exact Hrange|exact Heb|exact Hf'].
      + rewrite map_get_notin; [reflexivity|].
        rewrite map_app. intros Hc'. apply in_app_iff in Hc' as [Hc'|Hc'].
        * (* a required key equal to an optional key contradicts key distinctness *)
          rewrite Hrk in Hc'. clear -Hkeys Hc' Her Hek. rewrite <- Hek in Hc'.
          induction (map ove_key (ov_required oo)) as [|k' t IH]; [contradiction|].
          cbn in Hkeys. inversion Hkeys as [|? ? Hni Hk']; subst. destruct Hc' as [->|Hc']; [|apply IH; assumption].
          apply Hni. apply in_app_iff. right. apply in_map. exact Her.
        * apply Hm. rewrite Hek. exact Hc'.
    - (* required *)
      assert (Hf : In o (filter (fun o => negb (od_has_init o)) (overrides m))) by (apply filter_In; split; [assumption|rewrite Einit; reflexivity]).
      destruct (Forall2_in_combine _ _ _ o Hreq Hf) as (e & Hc).
      destruct (Hrall o e Hc) as (n' & v & f & Hn' & Han & Hev & Hin). rewrite Hn in Hn'. inversion Hn'; subst n'.
      assert (Hoe : pair_ok m o e).
      { clear -Hreq Hc. induction Hreq as [|x y l l' Hxy _ IH]; [contradiction|]. destruct Hc as [E|Hc]; [inversion E; subst; exact Hxy|apply IH; exact Hc]. }
      destruct (entry_facts m o e Hoe) as (n2 & k & pr & Hn2 & Hkey & Hpr & Hek & Hef & Heb).
      rewrite Hkey, Han. rewrite Hek in Hin.
      rewrite (map_get_in k f (r ++ p) Hnd (in_or_app _ _ _ (or_introl Hin))). rewrite Hpr.
      destruct (Ha o n Ho Hn) as [_ Hty]. destruct (Hty v Han) as [Hpv Hrange].
      rewrite (retraction (ove_is_bool e) v f pr); [reflexivity|congruence|exact Hrange|exact Heb|exact Hev].
  Qed.
End Proof.
