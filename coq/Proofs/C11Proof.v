(** C11: the group numbering contract of [get_bind_group_data]. *)
From Coq Require Import Sorted.
From W2W Require Import GenBind.
Local Open Scope N_scope.

(** * Spec side: the bound variables in declaration order *)
Record bvar := mkBV { bv_group : N; bv_gb : gbinding }.
Definition pair_of (x : bvar) : N * N := (bv_group x, gb_index (bv_gb x)).

Fixpoint bvars_from (m : module) (gs : list global) (h : nat) : list bvar :=
  match gs with
  | [] => []
  | g :: t =>
      match g_binding g, get_ty m (g_ty g) with
      | Some (grp, b), Some ty =>
          mkBV grp (mkGB (g_name g) b (t_inner ty) (g_space g) h) :: bvars_from m t (S h)
      | _, _ => bvars_from m t (S h)
      end
  end.
Definition bvars (m : module) : list bvar := bvars_from m (globals m) 0%nat.

(** part of [wf]: the type handle of every global is in range *)
Definition global_types_ok (m : module) (gs : list global) : bool :=
  forallb (fun g => match get_ty m (g_ty g) with Some _ => true | None => false end) gs.

Fixpoint build_abs (vs : list bvar) (acc : groups) : result groups :=
  match vs with
  | [] => Ok acc
  | x :: t =>
      match add (bv_group x) (bv_gb x) acc with
      | None => Err (DuplicateBinding (gb_index (bv_gb x)))
      | Some acc' => build_abs t acc'
      end
  end.

Lemma build_abs_eq m gs : forall h acc,
  global_types_ok m gs = true -> build m gs h acc = build_abs (bvars_from m gs h) acc.
Proof.
  induction gs as [|g t IH]; intros h acc Hok; cbn [build bvars_from build_abs]; [reflexivity|].
  cbn [global_types_ok forallb] in Hok. apply andb_true_iff in Hok as [Hg Ht].
  destruct (g_binding g) as [[grp b]|]; [|apply IH; exact Ht].
  destruct (get_ty m (g_ty g)) as [ty|]; [|discriminate].
  cbn [build_abs bv_group bv_gb gb_index].
  destruct (add grp _ acc); [apply IH; exact Ht|reflexivity].
Qed.

Definition bindings_of (g : N) (pre : list bvar) : list gbinding :=
  map bv_gb (filter (fun x => bv_group x =? g) pre).

Fixpoint find (g : N) (m : groups) : option (list gbinding) :=
  match m with [] => None | (k, l) :: t => if g =? k then Some l else find g t end.

Definition Inv (m : groups) (pre : list bvar) : Prop :=
  StronglySorted N.lt (map fst m) /\
  forall g, find g m = match bindings_of g pre with [] => None | l => Some l end.

Lemma bindings_of_app g pre x :
  bindings_of g (pre ++ [x]) =
  bindings_of g pre ++ (if bv_group x =? g then [bv_gb x] else []).
Proof.
  unfold bindings_of. rewrite filter_app, map_app. cbn. destruct (bv_group x =? g); reflexivity.
Qed.

Lemma existsb_bindings g b pre :
  existsb (fun e => gb_index e =? b) (bindings_of g pre) = true <-> In (g, b) (map pair_of pre).
Proof.
  unfold bindings_of. rewrite existsb_exists. split.
  - intros (e & He & Hb). apply in_map_iff in He as (x & <- & Hx). apply filter_In in Hx as (Hx & Hg).
    apply N.eqb_eq in Hb, Hg. apply in_map_iff. exists x. unfold pair_of. subst. auto.
  - intros H. apply in_map_iff in H as (x & Hp & Hx). unfold pair_of in Hp. inversion Hp; subst.
    exists (bv_gb x). split; [|apply N.eqb_refl].
    apply in_map_iff. exists x. split; auto. apply filter_In. split; auto. apply N.eqb_refl.
Qed.

Lemma find_lt g m :
  StronglySorted N.lt (map fst m) -> (forall k, In k (map fst m) -> g < k) -> find g m = None.
Proof.
  induction m as [|[k l] t IH]; intros Hs Hlt; cbn; [reflexivity|].
  destruct (N.eqb_spec g k) as [->|Hne].
  - specialize (Hlt k (or_introl eq_refl)). lia.
  - apply IH; [inversion Hs; auto|]. intros k' Hk'. apply Hlt. right. exact Hk'.
Qed.

Ltac split5 := split; [|split; [|split; [|split]]].

(** association-list level characterisation of [add], independent of the history *)
Lemma add_find g x m :
  StronglySorted N.lt (map fst m) ->
  match add g x m with
  | None => exists l, find g m = Some l /\ existsb (fun e => gb_index e =? gb_index x) l = true
  | Some m' =>
      StronglySorted N.lt (map fst m') /\
      (forall k', In k' (map fst m') -> k' = g \/ In k' (map fst m)) /\
      (forall l, find g m = Some l -> existsb (fun e => gb_index e =? gb_index x) l = false) /\
      find g m' = Some (match find g m with Some l => l | None => [] end ++ [x]) /\
      (forall g', g' <> g -> find g' m' = find g' m)
  end.
Proof.
  induction m as [|[k l] t IH]; intros Hs.
  - cbn. rewrite N.eqb_refl. split5.
    + repeat constructor.
    + intros k' [<-|[]]; auto.
    + discriminate.
    + reflexivity.
    + intros g' Hne. destruct (N.eqb_spec g' g); [contradiction|reflexivity].
  - cbn [add]. cbn in Hs. inversion Hs as [|? ? Hs' Hall]; subst. rewrite Forall_forall in Hall.
    destruct (N.ltb_spec g k) as [Hlt|Hge].
    + assert (Hnone : find g ((k, l) :: t) = None).
      { apply find_lt; [exact Hs|]. intros k' [<-|Hk']; [exact Hlt|]. specialize (Hall _ Hk'). lia. }
      rewrite Hnone. split5.
      * cbn. constructor; [exact Hs|]. constructor; [exact Hlt|]. apply Forall_forall.
        intros k' Hk'. specialize (Hall _ Hk'). lia.
      * cbn. intros k' [<-|H]; auto.
      * discriminate.
      * cbn. rewrite N.eqb_refl. reflexivity.
      * intros g' Hne. cbn [find]. destruct (N.eqb_spec g' g); [contradiction|reflexivity].
    + destruct (N.eqb_spec g k) as [->|Hne].
      * cbn [find]. rewrite N.eqb_refl.
        destruct (existsb (fun e => gb_index e =? gb_index x) l) eqn:Hex.
        -- exists l. auto.
        -- split5.
           ++ exact Hs.
           ++ cbn. intros k' H. right. exact H.
           ++ intros l' Hl'. inversion Hl'; subst. exact Hex.
           ++ cbn. rewrite N.eqb_refl. reflexivity.
           ++ intros g' Hne'. cbn. destruct (N.eqb_spec g' k); [contradiction|reflexivity].
      * specialize (IH Hs'). cbn [find]. destruct (N.eqb_spec g k) as [|_]; [contradiction|].
        destruct (add g x t) as [t'|]; cbn [option_map].
        -- destruct IH as (Hs2 & Hk2 & Hex2 & Hf2 & Ho2). split5.
           ++ cbn. constructor; [exact Hs2|]. apply Forall_forall. intros k' Hk'.
              destruct (Hk2 _ Hk') as [->|Hin]; [lia|apply Hall; exact Hin].
           ++ cbn. intros k' [<-|Hk']; [auto|]. destruct (Hk2 _ Hk'); auto.
           ++ exact Hex2.
           ++ cbn [find]. destruct (N.eqb_spec g k); [contradiction|exact Hf2].
           ++ intros g' Hne'. cbn [find]. destruct (g' =? k); [reflexivity|apply Ho2; exact Hne'].
        -- exact IH.
Qed.

Lemma add_spec x m pre :
  Inv m pre ->
  match add (bv_group x) (bv_gb x) m with
  | None => In (pair_of x) (map pair_of pre)
  | Some m' => ~ In (pair_of x) (map pair_of pre) /\ Inv m' (pre ++ [x])
  end.
Proof.
  intros [Hs Hf]. destruct x as [g gb]. unfold pair_of at 1 3. cbn [bv_group bv_gb].
  pose proof (add_find g gb m Hs) as H. destruct (add g gb m) as [m'|].
  - destruct H as (Hs' & _ & Hex & Hfind & Hother). split.
    + intros Hin. apply existsb_bindings in Hin. specialize (Hf g).
      destruct (bindings_of g pre) as [|e l] eqn:E; [discriminate|].
      rewrite (Hex _ Hf) in Hin. discriminate.
    + split; [exact Hs'|]. intros g'. rewrite bindings_of_app. cbn [bv_group bv_gb].
      rewrite (N.eqb_sym g g'). destruct (N.eqb_spec g' g) as [->|Hne].
      * rewrite Hfind, Hf. destruct (bindings_of g pre); reflexivity.
      * rewrite app_nil_r, Hother by exact Hne. apply Hf.
  - destruct H as (l & Hl & Hex). apply existsb_bindings. specialize (Hf g). rewrite Hl in Hf.
    destruct (bindings_of g pre); inversion Hf; subst. exact Hex.
Qed.

(** * The loop *)
Lemma build_spec vs : forall m pre, Inv m pre ->
  match build_abs vs m with
  | Err (DuplicateBinding b) =>
      exists vs1 x vs2, vs = vs1 ++ x :: vs2 /\ b = gb_index (bv_gb x) /\
        In (pair_of x) (map pair_of (pre ++ vs1)) /\
        (forall vs1' y vs2', vs1 = vs1' ++ y :: vs2' -> ~ In (pair_of y) (map pair_of (pre ++ vs1')))
  | Err _ => False
  | Panic _ => False
  | Ok m' => Inv m' (pre ++ vs) /\
             (forall vs1 y vs2, vs = vs1 ++ y :: vs2 -> ~ In (pair_of y) (map pair_of (pre ++ vs1)))
  end.
Proof.
  induction vs as [|x t IH]; intros m pre Hinv; cbn [build_abs].
  - rewrite app_nil_r. split; [exact Hinv|]. intros [|] ? ? H; discriminate.
  - pose proof (add_spec x m pre Hinv) as Hadd.
    destruct (add (bv_group x) (bv_gb x) m) as [m'|].
    + destruct Hadd as [Hnin Hinv']. specialize (IH m' (pre ++ [x]) Hinv').
      destruct (build_abs t m') as [m''|[|b| |]|w].
      * destruct IH as [Hi Hn]. rewrite <- app_assoc in Hi. split; [exact Hi|].
        intros [|z vs1] y vs2 Heq; inversion Heq; subst.
        -- rewrite app_nil_r. exact Hnin.
        -- specialize (Hn vs1 y vs2 eq_refl). rewrite <- app_assoc in Hn. exact Hn.
      * exact IH.
      * destruct IH as (vs1 & y & vs2 & -> & -> & Hin & Hfirst).
        exists (x :: vs1), y, vs2. rewrite <- app_assoc in Hin. repeat split; auto.
        intros [|z vs1'] y' vs2' Heq; inversion Heq; subst.
        -- rewrite app_nil_r. exact Hnin.
        -- specialize (Hfirst vs1' y' vs2' eq_refl). rewrite <- app_assoc in Hfirst. exact Hfirst.
      * exact IH.
      * exact IH.
      * exact IH.
    + exists [], x, t. rewrite app_nil_r. repeat split; auto.
      intros [|] ? ? H; discriminate.
Qed.

Lemma Inv_nil : Inv [] [].
Proof. split; [constructor|reflexivity]. Qed.

Lemma NoDup_snoc {A} (l : list A) x : NoDup l -> ~ In x l -> NoDup (l ++ [x]).
Proof.
  induction l as [|a t IH]; intros Hnd Hx; cbn; [repeat constructor; auto|].
  inversion Hnd; subst. constructor.
  - rewrite in_app_iff. intros [H|[H|[]]]; [contradiction|subst; apply Hx; left; reflexivity].
  - apply IH; auto. intros H. apply Hx. right. exact H.
Qed.

Lemma nodup_of_prefixes (vs : list bvar) :
  (forall vs1 y vs2, vs = vs1 ++ y :: vs2 -> ~ In (pair_of y) (map pair_of vs1)) ->
  NoDup (map pair_of vs).
Proof.
  induction vs as [|x t IH] using rev_ind; intros Hn; [constructor|].
  rewrite map_app. cbn. apply NoDup_snoc.
  - apply IH. intros vs1 y vs2 Heq. apply (Hn vs1 y (vs2 ++ [x])). rewrite Heq, <- app_assoc. reflexivity.
  - apply (Hn t x []). reflexivity.
Qed.

Lemma prefixes_of_nodup (vs : list bvar) :
  NoDup (map pair_of vs) ->
  forall vs1 y vs2, vs = vs1 ++ y :: vs2 -> ~ In (pair_of y) (map pair_of vs1).
Proof.
  intros Hnd vs1 y vs2 ->. rewrite map_app in Hnd. cbn in Hnd.
  apply NoDup_remove_2 in Hnd. intros Hin. apply Hnd. apply in_or_app. left. exact Hin.
Qed.

(** * Dense group numbering *)
Definition dense (vs : list bvar) : Prop :=
  exists n, forall g, In g (map bv_group vs) <-> g < n.

Lemma In_N_seq g a n : In g (N_seq a n) <-> a <= g < a + N.of_nat n.
Proof.
  revert a. induction n as [|n IH]; intros a; cbn [N_seq].
  - cbn. lia.
  - cbn [In]. rewrite IH. lia.
Qed.

Lemma sorted_range (l : list N) : forall a n,
  StronglySorted N.lt l -> (forall g, In g l <-> a <= g < a + n) -> l = N_seq a (length l).
Proof.
  induction l as [|x t IH]; intros a n Hs Hset; [reflexivity|].
  inversion Hs as [|? ? Hs' Hall]; subst. rewrite Forall_forall in Hall.
  assert (Hx : a <= x < a + n) by (apply Hset; left; reflexivity).
  assert (Hax : x = a).
  { destruct (N.eq_dec x a) as [|Hne]; [assumption|].
    assert (Ha : In a (x :: t)) by (apply Hset; lia).
    destruct Ha as [Ha|Ha]; [congruence|]. specialize (Hall _ Ha). lia. }
  subst x. cbn [length N_seq]. f_equal.
  apply (IH (a + 1) (n - 1) Hs'). intros g. split.
  - intros Hg. specialize (Hall _ Hg).
    assert (Hg' : In g (a :: t)) by (right; exact Hg). apply Hset in Hg'. lia.
  - intros Hg. assert (Hg' : In g (a :: t)) by (apply Hset; lia).
    destruct Hg' as [Hg'|Hg']; [lia|exact Hg'].
Qed.

Lemma keys_of_Inv m vs : Inv m vs -> forall g, In g (map fst m) <-> In g (map bv_group vs).
Proof.
  intros [Hs Hf] g. specialize (Hf g). split.
  - intros Hin.
    assert (Hsome : find g m <> None).
    { clear -Hin. induction m as [|[k l] t IH]; cbn in *; [contradiction|].
      destruct (N.eqb_spec g k); [discriminate|]. apply IH. destruct Hin; [congruence|assumption]. }
    rewrite Hf in Hsome. unfold bindings_of in Hsome.
    destruct (filter (fun x => bv_group x =? g) vs) as [|x l] eqn:E; [cbn in Hsome; congruence|].
    assert (Hx : In x (filter (fun x => bv_group x =? g) vs)) by (rewrite E; left; reflexivity).
    apply filter_In in Hx as [Hx Hg]. apply N.eqb_eq in Hg. apply in_map_iff. exists x. auto.
  - intros Hin. apply in_map_iff in Hin as (x & Hg & Hx).
    assert (Hsome : find g m <> None).
    { rewrite Hf. unfold bindings_of.
      assert (Hx' : In x (filter (fun x => bv_group x =? g) vs))
        by (apply filter_In; split; [exact Hx|apply N.eqb_eq; exact Hg]).
      destruct (filter (fun x => bv_group x =? g) vs); [contradiction|cbn; discriminate]. }
    clear -Hsome. induction m as [|[k l] t IH]; cbn in *; [congruence|].
    destruct (N.eqb_spec g k); [left; congruence|right; apply IH; exact Hsome].
Qed.

Lemma keys_consecutive_dense m vs : Inv m vs -> keys_consecutive m = true <-> dense vs.
Proof.
  intros Hinv. pose proof (keys_of_Inv m vs Hinv) as Hk. destruct Hinv as [Hs _].
  unfold keys_consecutive. rewrite (list_eqb_spec N.eqb N.eqb_eq). split.
  - intros Heq. exists (N.of_nat (length m)). intros g. rewrite <- Hk, Heq, In_N_seq. lia.
  - intros (n & Hn). rewrite <- (map_length fst m).
    apply (sorted_range (map fst m) 0 n Hs). intros g. rewrite Hk, Hn. lia.
Qed.

(** * Main results *)
Section Main.
  Variable m : module.
  Hypothesis Hwf : global_types_ok m (globals m) = true.
  Let vs := bvars m.

  Lemma gbd_unfold :
    get_bind_group_data m =
    match build_abs vs [] with
    | Ok gs => if keys_consecutive gs then Ok gs else Err NonConsecutiveBindGroups
    | Err e => Err e
    | Panic w => Panic w
    end.
  Proof.
    unfold get_bind_group_data, vs, bvars. rewrite (build_abs_eq m (globals m) 0%nat [] Hwf).
    destruct (build_abs _ []); reflexivity.
  Qed.

  (** success: exactly when pairs are unique and groups dense; and then the map is the
      declaration-order partition of the bound variables by group, keys 0..n-1 *)
  Theorem gbd_ok_iff :
    (exists gs, get_bind_group_data m = Ok gs) <-> NoDup (map pair_of vs) /\ dense vs.
  Proof.
    rewrite gbd_unfold. pose proof (build_spec vs [] [] Inv_nil) as H. cbn [app] in H. split.
    - intros (gs & Hgs). destruct (build_abs vs []) as [gs'|e|w]; [|discriminate|discriminate].
      destruct H as [Hinv Hn]. split; [apply nodup_of_prefixes; exact Hn|].
      apply (keys_consecutive_dense gs' vs Hinv).
      destruct (keys_consecutive gs'); [reflexivity|discriminate].
    - intros [Hnd Hd]. destruct (build_abs vs []) as [gs'|[|b| |]|w]; try contradiction.
      + destruct H as [Hinv _]. apply (keys_consecutive_dense gs' vs Hinv) in Hd. rewrite Hd. eauto.
      + destruct H as (vs1 & x & vs2 & Heq & _ & Hin & _).
        exfalso. exact (prefixes_of_nodup vs Hnd vs1 x vs2 Heq Hin).
  Qed.

  Theorem gbd_ok_content gs :
    get_bind_group_data m = Ok gs ->
    map fst gs = N_seq 0 (length gs) /\
    StronglySorted N.lt (map fst gs) /\
    (forall g, find g gs = match bindings_of g vs with [] => None | l => Some l end).
  Proof.
    rewrite gbd_unfold. pose proof (build_spec vs [] [] Inv_nil) as H. cbn [app] in H.
    destruct (build_abs vs []) as [gs'|e|w]; [|discriminate|discriminate].
    destruct (keys_consecutive gs') eqn:Hk; [|discriminate]. intros Heq. inversion Heq; subst gs'.
    destruct H as [[Hs Hf] _]. split; [|split; assumption].
    unfold keys_consecutive in Hk. apply (list_eqb_spec N.eqb N.eqb_eq) in Hk. exact Hk.
  Qed.

  (** the duplicate error: reported exactly for the first variable (in declaration order) that
      repeats an earlier pair, with that variable's binding index *)
  Theorem gbd_duplicate_iff b :
    get_bind_group_data m = Err (DuplicateBinding b) <->
    exists vs1 x vs2, vs = vs1 ++ x :: vs2 /\ b = gb_index (bv_gb x) /\
      In (pair_of x) (map pair_of vs1) /\ NoDup (map pair_of vs1).
  Proof.
    rewrite gbd_unfold. pose proof (build_spec vs [] [] Inv_nil) as H. cbn [app] in H. split.
    - destruct (build_abs vs []) as [gs'|[|b'| |]|w]; try contradiction.
      + destruct (keys_consecutive gs'); discriminate.
      + intros Heq. inversion Heq; subst b'.
        destruct H as (vs1 & x & vs2 & Hvs & Hb & Hin & Hfirst).
        exists vs1, x, vs2. repeat split; auto. apply nodup_of_prefixes. exact Hfirst.
    - intros (vs1 & x & vs2 & Hvs & Hb & Hin & Hnd).
      destruct (build_abs vs []) as [gs'|[|b'| |]|w]; try contradiction.
      + destruct H as [_ Hn]. exfalso. exact (Hn vs1 x vs2 Hvs Hin).
      + destruct H as (ws1 & y & ws2 & Hvs' & Hb' & Hin' & Hfirst').
        (* both decompositions identify the first repeating element *)
        assert (Hlen : length vs1 = length ws1).
        { destruct (Nat.lt_trichotomy (length vs1) (length ws1)) as [Hlt|[Heq|Hgt]]; [|exact Heq|].
          - exfalso. rewrite Hvs in Hvs'.
            assert (exists r, ws1 = vs1 ++ x :: r) as (r & Hr).
            { clear -Hvs' Hlt. revert ws1 Hvs' Hlt. induction vs1 as [|a t IH]; intros [|c ws1] Heq Hlt; cbn in *; try lia.
              - inversion Heq; subst. eauto.
              - inversion Heq; subst. destruct (IH ws1 H1 ltac:(lia)) as (r & ->). eauto. }
            exact (Hfirst' vs1 x r Hr Hin).
          - exfalso. rewrite Hvs' in Hvs.
            assert (exists r, vs1 = ws1 ++ y :: r) as (r & Hr).
            { clear -Hvs Hgt. revert vs1 Hvs Hgt. induction ws1 as [|a t IH]; intros [|c vs1] Heq Hgt; cbn in *; try lia.
              - inversion Heq; subst. eauto.
              - inversion Heq; subst. destruct (IH vs1 H1 ltac:(lia)) as (r & ->). eauto. }
            exact (prefixes_of_nodup vs1 Hnd ws1 y r Hr Hin'). }
        rewrite Hvs in Hvs'.
        assert (x = y).
        { clear -Hvs' Hlen. revert ws1 Hvs' Hlen. induction vs1 as [|a t IH]; intros [|c ws1] Heq Hlen; cbn in *; try lia.
          - inversion Heq; auto.
          - inversion Heq; subst. eapply IH; eauto. }
        subst y. rewrite Hb, Hb'. reflexivity.
  Qed.

  Theorem gbd_nonconsecutive_iff :
    get_bind_group_data m = Err NonConsecutiveBindGroups <-> NoDup (map pair_of vs) /\ ~ dense vs.
  Proof.
    rewrite gbd_unfold. pose proof (build_spec vs [] [] Inv_nil) as H. cbn [app] in H. split.
    - destruct (build_abs vs []) as [gs'|[|b'| |]|w]; try contradiction; try discriminate.
      destruct H as [Hinv Hn]. destruct (keys_consecutive gs') eqn:Hk; [discriminate|]. intros _.
      split; [apply nodup_of_prefixes; exact Hn|].
      intros Hd. apply (keys_consecutive_dense gs' vs Hinv) in Hd. congruence.
    - intros [Hnd Hnd'].
      destruct (build_abs vs []) as [gs'|[|b'| |]|w]; try contradiction.
      + destruct H as [Hinv _]. destruct (keys_consecutive gs') eqn:Hk; [|reflexivity].
        exfalso. apply Hnd'. apply (keys_consecutive_dense gs' vs Hinv). exact Hk.
      + destruct H as (vs1 & x & vs2 & Heq & _ & Hin & _).
        exfalso. exact (prefixes_of_nodup vs Hnd vs1 x vs2 Heq Hin).
  Qed.

  (** no panic and no other error variant can come out of this stage *)
  Theorem gbd_outcomes :
    match get_bind_group_data m with
    | Ok _ | Err NonConsecutiveBindGroups | Err (DuplicateBinding _) => True
    | _ => False
    end.
  Proof.
    rewrite gbd_unfold. pose proof (build_spec vs [] [] Inv_nil) as H.
    destruct (build_abs vs []) as [gs'|[|b'| |]|w]; try contradiction; auto.
    destruct (keys_consecutive gs'); exact I.
  Qed.
End Main.
