(** The bind group sections: the groups [get_bind_group_data] returns hold, together, at most one binding per
    module-scope variable - the part of the output made from them is linear as well. *)
From stdpp Require Import gmap.
From W2W Require Import Wf GenInv C11Proof C11Link.
From Coq Require Import Lia Sorted.
Local Open Scope N_scope.

Definition sumn (l : list nat) : nat := fold_right Nat.add 0%nat l.

Lemma bvars_from_length m gs : forall h, (length (bvars_from m gs h) <= length gs)%nat.
Proof.
  induction gs as [|g t IH]; intros h; cbn [bvars_from length]; [lia|].
  destruct (g_binding g) as [[grp b]|]; [destruct (get_ty m (g_ty g))|]; cbn [length]; specialize (IH (S h)); lia.
Qed.

(** distinct keys select disjoint parts of the variable list *)
Lemma count_by_keys (keys : list N) (vs : list bvar) : NoDup keys ->
  (sumn (map (fun g => length (bindings_of g vs)) keys) <= length vs)%nat.
Proof.
  intros Hnd. induction vs as [|v t IH]; cbn [length].
  - induction keys as [|k r IHk]; cbn; [lia|]. inversion Hnd; subst. specialize (IHk H2). cbn in IHk. unfold sumn in *. lia.
  - assert (forall ks, NoDup ks ->
      (sumn (map (fun g => length (bindings_of g (v :: t))) ks) <=
       sumn (map (fun g => length (bindings_of g t)) ks) + (if existsb (N.eqb (bv_group v)) ks then 1 else 0))%nat) as Hstep.
    { induction ks as [|k r IHk]; intros Hks; cbn [map sumn fold_right existsb]; [lia|].
      inversion Hks; subst. specialize (IHk H2). unfold bindings_of at 1. cbn [filter]. cbn beta.
      destruct (N.eq_dec (bv_group v) k) as [E|Hne].
      - subst k. rewrite N.eqb_refl. cbn [map length orb].
        assert (existsb (N.eqb (bv_group v)) r = false) as Hex.
        { apply not_true_is_false. intros E. apply existsb_exists in E as (x & Hx & Ex). apply N.eqb_eq in Ex. subst. contradiction. }
        rewrite Hex in IHk. change (map bv_gb (filter (fun x => bv_group x =? bv_group v) t)) with (bindings_of (bv_group v) t).
        unfold sumn in *. lia.
      - rewrite (proj2 (N.eqb_neq _ _) Hne). cbn [orb].
        change (map bv_gb (filter (fun x => bv_group x =? k) t)) with (bindings_of k t). unfold sumn in *. lia. }
    specialize (Hstep keys Hnd). destruct (existsb (N.eqb (bv_group v)) keys); lia.
Qed.

Lemma find_of_key (gs : groups) : NoDup (map fst gs) ->
  forall k l, In (k, l) gs -> find k gs = Some l.
Proof.
  induction gs as [|[k0 l0] t IH]; intros Hnd k l Hin; [destruct Hin|].
  cbn [map fst] in Hnd. inversion Hnd; subst. cbn [find]. destruct Hin as [E|Hin].
  - inversion E; subst. rewrite N.eqb_refl. reflexivity.
  - destruct (N.eqb_spec k k0) as [->|Hne]; [|apply IH; assumption].
    exfalso. apply H1. apply (in_map fst) in Hin. exact Hin.
Qed.

Theorem groups_linear m gs : wf_global_types m = true -> get_bind_group_data m = Ok gs ->
  (sumn (map (fun kl => length (snd kl)) gs) <= length (globals m))%nat /\ (length gs <= length (globals m))%nat.
Proof.
  intros Hwf Hok. destruct (gbd_ok_content m Hwf gs Hok) as (_ & Hsorted & Hfind).
  assert (NoDup (map fst gs)) as Hnd by (apply StronglySorted_lt_NoDup; exact Hsorted).
  assert (forall kl, In kl gs -> snd kl = bindings_of (fst kl) (bvars m) /\ snd kl <> []) as Hgrp.
  { intros [k l] Hin. cbn [fst snd]. pose proof (find_of_key gs Hnd k l Hin) as Hf. rewrite Hfind in Hf.
    destruct (bindings_of k (bvars m)) eqn:E; [discriminate|]. inversion Hf; subst. split; [reflexivity|discriminate]. }
  assert (forall l : groups, (forall kl, In kl l -> snd kl = bindings_of (fst kl) (bvars m) /\ snd kl <> []) ->
            sumn (map (fun kl => length (snd kl)) l) = sumn (map (fun g => length (bindings_of g (bvars m))) (map fst l))
            /\ (length l <= sumn (map (fun kl => length (snd kl)) l))%nat) as Hgen.
  { induction l as [|kl t IH]; intros Hl; [split; [reflexivity|cbn; lia]|]. cbn [map sumn fold_right length].
    destruct (Hl kl (or_introl eq_refl)) as [He Hn]. destruct (IH (fun x Hx => Hl x (or_intror Hx))) as [IH1 IH2].
    assert (length (snd kl) <> 0)%nat by (destruct (snd kl); [contradiction|discriminate]).
    unfold sumn in *. rewrite <- IH1. rewrite <- He. split; lia. }
  destruct (Hgen gs Hgrp) as [Heq Hne].
  pose proof (count_by_keys (map fst gs) (bvars m) Hnd) as Hc.
  pose proof (bvars_from_length m (globals m) 0%nat) as Hb. fold (bvars m) in Hb.
  split; [lia|].
  lia.
Qed.

(** items of one generated group: the group, its layout struct fields, layout entries and bind group entries *)
Definition group_items (g : out_group) : nat :=
  S (length (og_layout_fields g) + length (og_entries g) + length (og_bind_entries g)).
Definition bind_group_items (o : out) : nat :=
  match o_bind_groups o with
  | None => 0
  | Some bg => sumn (map group_items (bg_groups bg)) + length (bg_struct_fields bg) + length (bg_struct_set bg)
               + length (bg_fn_params bg) + length (bg_fn_set bg)
  end%nat.

Lemma gen_group_items M k bs og : gen_group M (k, bs) = Ok og -> group_items og = S (3 * length bs).
Proof.
  unfold gen_group. intros H.
  apply rbind_ok in H as (fields & Hf & H). apply rbind_ok in H as (entries & He & H).
  apply rbind_ok in H as (bents & Hb & H). inversion H; subst og; clear H. unfold group_items. cbn.
  rewrite (rmapM_length _ _ _ Hf), (rmapM_length _ _ _ He), (rmapM_length _ _ _ Hb). lia.
Qed.

Theorem bind_group_items_linear m src inc o out_ :
  wf_global_types m = true -> gen m src inc o = Ok out_ ->
  (bind_group_items out_ <= 8 * length (globals m))%nat /\ (length (o_pl_groups out_) <= length (globals m))%nat.
Proof.
  intros Hwf Hgen. destruct (gen_inv _ _ _ _ _ Hgen) as [bgd pc Hbgd _ _ Hbgm _ _ _ _ _ _ _ _ _ _ Hpl _ _].
  destruct (groups_linear m bgd Hwf Hbgd) as [Hsum Hlen]. split; [|rewrite Hpl, map_length; exact Hlen].
  unfold bind_groups_module in Hbgm. apply rbind_ok in Hbgm as (ogs & Hogs & Hbgm).
  assert (sumn (map group_items ogs) = length bgd + 3 * sumn (map (fun kl => length (snd kl)) bgd))%nat as Hitems.
  { apply rmapM_ok in Hogs. clear -Hogs. induction Hogs as [|[k bs] og l l' Hg _ IH]; [reflexivity|].
    cbn [map sumn fold_right length snd]. rewrite (gen_group_items _ _ _ _ Hg). unfold sumn in *. lia. }
  unfold bind_group_items. destruct ogs as [|og0 ogs'].
  - inversion Hbgm as [E]. try rewrite <- E. cbn. lia.
  - inversion Hbgm as [E]. try rewrite <- E. cbn [bg_groups bg_struct_fields bg_struct_set bg_fn_params bg_fn_set].
    rewrite !map_length. lia.
Qed.
