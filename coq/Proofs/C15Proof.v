(** C15: exported constants = the named scalar constants, with the type of the declaration and
    the exact value. *)
From W2W Require Import Wf GenInv Tactics C15Spec.
Local Open Scope N_scope.

Lemma gen_const_expected m c :
  wf_const m c = true ->
  match gen_const m c with
  | Some k => expected_const m c = ESome k /\ const_wt k = true
  | None => expected_const m c = ENone
  end.
Proof.
  unfold wf_const, gen_const, expected_const. destruct (c_name c) as [n|]; [|reflexivity].
  destruct (get_inner m (c_ty c)) as [i|]; [|discriminate].
  destruct (c_init c) as [l| |].
  - destruct i; try discriminate. unfold lit_matches, prim_of_scalar.
    destruct s as [k w]. cbn [sk sw].
    destruct l, k; cbn; try discriminate; destruct_match_vars; try discriminate; intros _; split; reflexivity.
  - destruct i; try reflexivity. unfold literal_zero, prim_of_scalar. destruct s as [k w]. cbn [sk sw].
    destruct k; cbn; try discriminate; destruct_match_vars; try discriminate; intros _; split; reflexivity.
  - destruct i; try discriminate; reflexivity.
Qed.

Lemma consts_expected m cs :
  forallb (wf_const m) cs = true ->
  expected_consts m cs = Some (filter_map (gen_const m) cs) /\ forallb const_wt (filter_map (gen_const m) cs) = true.
Proof.
  induction cs as [|c t IH]; intros Hwf; [split; reflexivity|].
  cbn [forallb] in Hwf. apply andb_true_iff in Hwf as [Hc Ht]. destruct (IH Ht) as [IH1 IH2].
  pose proof (gen_const_expected m c Hc) as H. cbn [expected_consts filter_map].
  destruct (gen_const m c) as [k|].
  - destruct H as [-> Hk]. rewrite IH1. split; [reflexivity|]. cbn. rewrite Hk, IH2. reflexivity.
  - rewrite H. auto.
Qed.

Theorem C15_ok_gen m src inc o out_ :
  wf_consts m = true -> gen m src inc o = Ok out_ -> C15_ok m out_ = true.
Proof.
  intros Hwf Hgen. destruct (gen_inv _ _ _ _ _ Hgen) as [bgd pc _ _ Hc _ _ _ _ _ _ _ _ _ _ _ _ _ _].
  unfold C15_ok. rewrite Hc. unfold consts. destruct (consts_expected m (constants m) Hwf) as [-> H2].
  rewrite H2, andb_true_r. apply (list_eqb_spec const_eqb); [|reflexivity].
  intros x y. split.
  - unfold const_eqb. intros H. apply andb_true_iff in H as [H Hl]. apply andb_true_iff in H as [Hn Ht].
    destruct x as [n1 t1 l1], y as [n2 t2 l2]. cbn in *. apply String.eqb_eq in Hn. subst.
    assert (t1 = t2) by (destruct t1, t2; try discriminate; reflexivity). subst.
    assert (l1 = l2).
    { destruct l1, l2; cbn in Hl; try discriminate;
        try (apply N.eqb_eq in Hl; congruence); try (apply Z.eqb_eq in Hl; congruence).
      destruct b, b0; try discriminate; reflexivity. }
    subst. reflexivity.
  - intros <-. unfold const_eqb. rewrite String.eqb_refl.
    assert (rprim_eqb (k_ty x) (k_ty x) = true) as -> by (destruct (k_ty x); reflexivity).
    destruct (k_lit x); cbn; rewrite ?N.eqb_refl, ?Z.eqb_refl; try reflexivity. destruct b; reflexivity.
Qed.
