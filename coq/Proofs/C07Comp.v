(** C07, composition: the attribute tables of the generated module, read against the repr(C) layout of the
    emitted Rust struct, satisfy wgpu's vertex-buffer rules (stride multiple of 4, every attribute inside the
    stride at an aligned offset, attribute ranges disjoint) - for every module the generator accepts whose vertex
    input structs have 32/64-bit numeric scalar / vector members with distinct names and are emitted. *)
From stdpp Require Import gmap.
From Coq Require Import Sorting.Sorted ZifyN ZifyBool.
From W2W Require Import Wf GenInv Tactics TypeDfs C20Proof C03Link C04Proof StructSpec StructProof C06Spec C06Proof
  C06Named RustLayout C07Spec C07Premise C07Proof.
Local Open Scope N_scope.
Ltac Zify.zify_post_hook ::= Z.div_mod_to_equations.

(** * leaf types: size = component count x component size, at least 4 *)
Lemma vertex_leaf_layout2 m mv fuel t r e :
  rust_type fuel m t mv = Ok r -> vertex_leaf_ty t = true ->
  exists p n a, wgsl_components (t_inner t) = Some (p, n) /\ ty_layout e r = Some (n * prim_size p, a)
                /\ leaf4 (n * prim_size p, a) /\ 4 <= n * prim_size p.
Proof.
  destruct fuel as [|k]; [discriminate|]. cbn [rust_type]. unfold vertex_leaf_ty, wgsl_components, scalar_prim.
  destruct (t_inner t) as [s|n s| | | | | | | | | | |]; try discriminate; destruct s as [kd w]; cbn [sk sw].
  - unfold rust_scalar_type. cbn [sk sw]. intros H Hw. apply andb_true_iff in Hw as [Hw Hk].
    apply orb_true_iff in Hw as [Hw|Hw]; apply N.eqb_eq in Hw; subst w;
      destruct kd; cbn in H, Hk; try discriminate; inversion H; subst r;
      do 3 eexists; (split; [reflexivity|]); (split; [reflexivity|]); unfold leaf4; cbn; repeat split; lia.
  - intros H Hw. apply andb_true_iff in Hw as [Hw Hk].
    apply orb_true_iff in Hw as [Hw|Hw]; apply N.eqb_eq in Hw; subst w;
      destruct mv; unfold glam_vector_type, rust_vector_type, nalgebra_vector_type, rust_scalar_type in H; cbn [sk sw] in H;
      destruct n, kd; cbn in H, Hk; try discriminate; inversion H; subst r;
      do 3 eexists; (split; [reflexivity|]); (split; [reflexivity|]); unfold leaf4; cbn; repeat split; lia.
Qed.

(** * small list lemmas *)
Lemma in_insert_by_name x y l : In y (insert_by_name x l) -> y = x \/ In y l.
Proof.
  induction l as [|z t IH]; cbn [insert_by_name]; [intros [<-|[]]; auto|].
  destruct (leb_name z x).
  - intros [<-|H]; [right; left; reflexivity|]. destruct (IH H) as [->|H']; [left; reflexivity|right; right; exact H'].
  - intros [<-|H]; [left; reflexivity|right; exact H].
Qed.

Lemma in_sort_by_name l : forall y, In y (sort_by_name l) -> In y l.
Proof.
  unfold sort_by_name. intros y.
  assert (H : forall acc, In y (fold_left (fun acc x => insert_by_name x acc) l acc) -> In y acc \/ In y l).
  { induction l as [|x t IH]; intros acc Hy; cbn [fold_left] in Hy; [left; exact Hy|].
    destruct (IH _ Hy) as [Hy'|Hy']; [|right; right; exact Hy'].
    destruct (in_insert_by_name _ _ _ Hy') as [->|Hacc]; [right; left; reflexivity|left; exact Hacc]. }
  intros Hy. destruct (H [] Hy) as [[]|Hy']. exact Hy'.
Qed.

Lemma in_dedup_from prev l : forall y, In y (dedup_from prev l) -> In y l.
Proof.
  revert prev. induction l as [|x t IH]; intros prev y Hy; cbn [dedup_from] in Hy; [contradiction|].
  destruct (String.eqb prev (fst (fst x))); [right; eapply IH; exact Hy|].
  destruct Hy as [<-|Hy]; [left; reflexivity|right; eapply IH; exact Hy].
Qed.

Lemma in_dedup_by_name l : forall y, In y (dedup_by_name l) -> In y l.
Proof.
  destruct l as [|x t]; intros y Hy; [contradiction|]. cbn [dedup_by_name] in Hy.
  destruct Hy as [<-|Hy]; [left; reflexivity|right; eapply in_dedup_from; exact Hy].
Qed.

Lemma forallb2_in_r {A B} (f : A -> B -> bool) l l' :
  C07Spec.forallb2 f l l' = true -> forall y, In y l' -> exists x, In x l /\ f x y = true.
Proof.
  revert l'. induction l as [|x t IH]; intros [|y' t'] H y Hy; cbn in H; try discriminate; [contradiction|].
  apply andb_true_iff in H as [H1 H2]. destruct Hy as [<-|Hy]; [exists x; split; [left; reflexivity|exact H1]|].
  destruct (IH t' H2 y Hy) as (x' & Hx' & Hf). exists x'. split; [right; exact Hx'|exact Hf].
Qed.

Lemma forallb2_Forall2' {A B} (f : A -> B -> bool) l l' :
  C07Spec.forallb2 f l l' = true -> Forall2 (fun x y => f x y = true) l l'.
Proof.
  revert l'. induction l as [|x t IH]; intros [|y t'] H; cbn in H; try discriminate; [constructor|].
  apply andb_true_iff in H as [H1 H2]. constructor; [exact H1|apply IH; exact H2].
Qed.

Lemma Forall2_nth_l {A B} (R : A -> B -> Prop) l l' : Forall2 R l l' ->
  forall i x, nth_error l i = Some x -> exists y, nth_error l' i = Some y /\ R x y.
Proof.
  induction 1 as [|x y l l' Hxy _ IH]; intros i z Hi; [destruct i; discriminate|].
  destruct i as [|i]; cbn in *; [inversion Hi; subst; eauto|apply IH; exact Hi].
Qed.

Lemma find_by_name (ss : list out_struct) s :
  List.NoDup (map s_name ss) -> In s ss ->
  List.find (fun s' => String.eqb (s_name s') (s_name s)) ss = Some s.
Proof.
  induction ss as [|x t IH]; intros Hnd Hin; [contradiction|]. cbn [map] in Hnd. inversion Hnd as [|? ? Hx Ht]; subst.
  cbn [List.find]. destruct Hin as [->|Hin]; [rewrite String.eqb_refl; reflexivity|].
  destruct (String.eqb_spec (s_name x) (s_name s)) as [E|_]; [|apply IH; assumption].
  exfalso. apply Hx. rewrite E. apply in_map. exact Hin.
Qed.

Lemma index_of_nodup fs : forall k i f,
  List.NoDup (map fd_name fs) -> nth_error fs i = Some f -> index_of (fd_name f) fs k = Some (k + i)%nat.
Proof.
  induction fs as [|x t IH]; intros k i f Hnd Hi; [destruct i; discriminate|].
  cbn [map] in Hnd. inversion Hnd as [|? ? Hx Ht]; subst. cbn [index_of].
  destruct i as [|i]; cbn in Hi.
  - inversion Hi; subst. rewrite String.eqb_refl. f_equal. lia.
  - destruct (String.eqb_spec (fd_name x) (fd_name f)) as [E|_].
    + exfalso. apply Hx. rewrite E. apply in_map. eapply nth_error_In. exact Hi.
    + rewrite (IH (S k) i f Ht Hi). f_equal. lia.
Qed.

Lemma pn_eqb_eq x y : pn_eqb x y = true -> x = y.
Proof.
  destruct x as [p n], y as [q k]. unfold pn_eqb. cbn. intros H. apply andb_true_iff in H as [H1 H2].
  apply N.eqb_eq in H2. subst k. destruct p, q; try discriminate; reflexivity.
Qed.

(** * the @location members with their position among the user members *)
Fixpoint lm_idx (ums : list member) (k : nat) : list (nat * (N * member)) :=
  match ums with
  | [] => []
  | mem :: t =>
      match m_binding mem with
      | Some (BLocation l _) => (k, (l, mem)) :: lm_idx t (S k)
      | _ => lm_idx t (S k)
      end
  end.

Lemma lm_idx_map ums : forall k, map snd (lm_idx ums k) = location_members ums.
Proof.
  induction ums as [|mem t IH]; intros k; [reflexivity|]. unfold location_members in *. cbn [lm_idx flat_map].
  destruct (m_binding mem) as [[w|l b]|]; cbn [map app]; rewrite ?IH; reflexivity.
Qed.

Lemma lm_idx_spec ums : forall k,
  Forall (fun ix => (k <= fst ix)%nat /\ nth_error ums (fst ix - k) = Some (snd (snd ix))) (lm_idx ums k)
  /\ StronglySorted (fun a b => (fst a < fst b)%nat) (lm_idx ums k).
Proof.
  induction ums as [|mem t IH]; intros k; [split; constructor|]. cbn [lm_idx].
  destruct (IH (S k)) as [Hf Hs].
  assert (Hf' : Forall (fun ix : nat * (N * member) => (k <= fst ix)%nat /\ nth_error (mem :: t) (fst ix - k) = Some (snd (snd ix)))
                  (lm_idx t (S k))).
  { eapply Forall_impl; [|exact Hf]. intros [i x] [Hle Hn]. cbn [fst snd] in *. split; [lia|].
    replace (i - k)%nat with (S (i - S k)) by lia. exact Hn. }
  destruct (m_binding mem) as [[w|l b]|]; try (split; [exact Hf'|exact Hs]).
  split.
  - constructor; [cbn [fst snd]; split; [lia|rewrite Nat.sub_diag; reflexivity]|exact Hf'].
  - constructor; [exact Hs|]. eapply Forall_impl; [|exact Hf]. intros [i x] [Hle _]. cbn [fst] in *. lia.
Qed.

Lemma location_members_user ms : location_members (user_members ms) = location_members ms.
Proof.
  unfold location_members, user_members. induction ms as [|mem t IH]; [reflexivity|]. cbn [filter flat_map].
  destruct (m_binding mem) as [[w|l b]|] eqn:E; cbn [flat_map app]; rewrite ?E; cbn [app]; rewrite IH; reflexivity.
Qed.

(** * disjointness from ordering *)
Lemma ranges_disjoint_sorted l :
  StronglySorted (fun r r' : N * N => fst r + snd r <= fst r') l -> ranges_disjoint l = true.
Proof.
  induction 1 as [|[o1 s1] t Hs IH Hall]; [reflexivity|]. cbn [ranges_disjoint]. rewrite IH, andb_true_r.
  apply forallb_forall. intros r Hr. rewrite Forall_forall in Hall. specialize (Hall r Hr). cbn [fst snd] in Hall.
  apply orb_true_iff. left. apply N.leb_le. exact Hall.
Qed.

Lemma repr_c_length fields : Forall (fun f => 0 < snd f) fields ->
  length (fst (fst (repr_c fields))) = length fields.
Proof.
  intros Hpos. unfold repr_c. pose proof (place_spec fields 0 1 Hpos) as Hp.
  destruct (place fields 0 1) as [[offs cur] al]. cbn [fst]. tauto.
Qed.

(** * struct parameters and their handles *)
Lemma struct_params_handles m f n sn ms :
  In (n, sn, ms) (struct_params m f) ->
  exists h t span, In h (struct_param_handles m f) /\ get_ty m h = Some t /\ t_inner t = TStruct ms span /\ t_name t = Some n.
Proof.
  unfold struct_params, struct_param_handles. intros Hin. apply in_flat_map in Hin as (a & Ha & Hin).
  destruct (a_binding a) eqn:Eb; [contradiction|]. destruct (get_ty m (a_ty a)) as [t|] eqn:Et; [|contradiction].
  destruct (t_inner t) as [| | | | | | |ms' span| | | | |] eqn:Ei; try contradiction.
  destruct (t_name t) as [n'|] eqn:En; [|contradiction]. destruct (t_snake t) as [sn'|] eqn:Es; [|contradiction].
  destruct Hin as [Hin|[]]. inversion Hin; subst. exists (a_ty a), t, span. repeat split; try assumption.
  apply in_flat_map. exists a. split; [exact Ha|]. rewrite Eb, Et, Ei, En, Es. left. reflexivity.
Qed.

Section Comp.
  Variables (m : module) (src : string) (inc : option string) (o : options) (out_ : out).
  Hypothesis Hwf : wf m = true.
  Hypothesis Hvi : wf_vertex_inputs m = true.
  Hypothesis Hgen : gen m src inc o = Ok out_.

  Let Hss : structs m o = Ok (o_structs out_).
  Proof. destruct (gen_inv _ _ _ _ _ Hgen) as [bgd pc _ Hss _ _ _ _ _ _ _ _ _ _ _ _ _ _ _]. exact Hss. Qed.

  Lemma vis_handle n sn ms : In (n, sn, ms) (vertex_input_structs m) ->
    exists h t span, vertex_struct_ok m h = true /\ get_ty m h = Some t /\ t_inner t = TStruct ms span /\ t_name t = Some n.
  Proof.
    intros Hin. unfold vertex_input_structs in Hin. apply in_dedup_by_name, in_sort_by_name in Hin.
    apply in_flat_map in Hin as (e & He & Hin).
    destruct (struct_params_handles m (e_fn e) n sn ms Hin) as (h & t & span & Hh & Ht & Hi & Hn).
    exists h, t, span. repeat split; try assumption.
    unfold wf_vertex_inputs in Hvi. rewrite forallb_forall in Hvi. specialize (Hvi e He).
    rewrite forallb_forall in Hvi. apply Hvi. exact Hh.
  Qed.

  (** the layouts of the fields of an emitted vertex input struct *)
  Lemma fields_layouts e n0 : forall ums fs,
    Forall2 (fun mem f => exists idx, struct_member m o n0 idx mem = Ok f) ums fs ->
    forallb (vertex_leaf m) ums = true ->
    exists ls, field_layouts e fs = Some ls /\ Forall leaf4 ls /\
      Forall2 (fun mem l => exists t p n, get_ty m (m_ty mem) = Some t /\ wgsl_components (t_inner t) = Some (p, n)
                                          /\ fst l = n * prim_size p /\ 4 <= fst l) ums ls /\
      Forall2 (fun mem f => m_name mem = Some (fd_name f)) ums fs.
  Proof.
    intros ums fs Hf. induction Hf as [|mem f ums fs (idx & Hsm) _ IH]; intros Hleaf.
    - exists []. repeat split; constructor.
    - cbn [forallb] in Hleaf. apply andb_true_iff in Hleaf as [Hl Hrest].
      destruct (IH Hrest) as (ls & Hls & Hl4 & Hrel & Hnames).
      unfold vertex_leaf in Hl. unfold struct_member in Hsm.
      destruct (m_name mem) as [name|] eqn:En; [|discriminate].
      destruct (get_ty m (m_ty mem)) as [t|] eqn:Et; [|discriminate].
      assert (Hnorm : exists r, rust_type (type_fuel m) m t (w_mv o) = Ok r /\ f = mkOutField name r false).
      { unfold vertex_leaf_ty in Hl.
        destruct (t_inner t) as [s|nv s| | | | | | | | | | |]; try discriminate;
          apply rbind_ok in Hsm as (r & Hr & Hsm); inversion Hsm; subst f; eauto. }
      destruct Hnorm as (r & Hr & ->).
      destruct (vertex_leaf_layout2 m (w_mv o) _ t r e Hr Hl) as (p & n & a & Hc & Hty & Hl4' & Hge).
      exists ((n * prim_size p, a) :: ls). cbn [field_layouts fd_ty]. rewrite Hty, Hls.
      split; [reflexivity|]. split; [constructor; assumption|]. split.
      + constructor; [|exact Hrel]. exists t, p, n. cbn [fst]. auto.
      + constructor; [cbn [fd_name]; exact En|exact Hnames].
  Qed.

  Lemma vstruct_layout v vi : In vi (vertex_input_structs m) -> vstruct_ok m vi v = true ->
    vstruct_layout_ok out_ v = true.
  Proof.
    destruct vi as [[n sn] ms]. intros Hin Hok.
    destruct (vis_handle n sn ms Hin) as (h & t & span & Hvs & Ht & Hi & Hn).
    unfold vertex_struct_ok in Hvs. rewrite Ht, Hi in Hvs.
    apply andb_true_iff in Hvs as [Hemit Hvs]. apply andb_true_iff in Hvs as [Hleaf Hnd].
    (* the emitted struct *)
    pose proof (structs_rel m o (o_structs out_) Hwf Hss) as Hrel.
    pose proof (in_emitted m h t ms span Ht Hi Hemit) as Hem.
    destruct (Forall2_in_l _ _ _ Hrel _ Hem) as (s & Hs & (t' & Hrs & _ & Ht')). cbn [fst snd] in *.
    rewrite Ht in Ht'. inversion Ht'; subst t'. clear Ht'.
    destruct (rust_struct_spec _ _ _ _ _ _ _ Hrs) as (Hname & _).
    assert (Hsn : s_name s = n) by congruence.
    (* the checker's own conjuncts *)
    unfold vstruct_ok in Hok. repeat (apply andb_true_iff in Hok as [Hok ?]).
    match goal with H : C07Spec.forallb2 (attr_ok m n) _ _ = true |- _ => rename H into Hattrs end.
    apply String.eqb_eq in Hok. unfold vstruct_layout_ok. rewrite Hok, <- Hsn.
    destruct (C08_ok_structs m o (o_structs out_) Hwf Hss) as [_ Hnodup]. apply str_nodup_spec in Hnodup.
    rewrite (find_by_name _ s Hnodup Hs).
    (* field layouts *)
    pose proof (rust_struct_fields _ _ _ _ _ _ _ Hrs) as Hf.
    destruct (fields_layouts (struct_env (o_structs out_) []) _ _ _ Hf Hleaf) as (ls & Hls & Hl4 & Hlrel & Hnames).
    unfold struct_layout. rewrite Hls. cbn [option_map].
    assert (Hpos : Forall (fun f : N * N => 0 < snd f) ls) by (eapply Forall_impl; [|exact Hl4]; unfold leaf4; tauto).
    pose proof (repr_c_length ls Hpos) as Hlen. pose proof (layout_rules ls Hl4) as Hrules.
    destruct (repr_c ls) as [[offs size] al] eqn:Erc. cbn [fst] in Hlen.
    destruct Hrules as (Hsize & Hfield & Hmono).
    (* names of the fields are distinct *)
    assert (Hfn : List.NoDup (map fd_name (s_fields s))).
    { apply str_nodup_spec in Hnd. clear -Hnd Hnames. set (ums := user_members ms) in *. clearbody ums.
      assert (E : flat_map (fun mem => match m_name mem with Some n => [n] | None => [] end) ums = map fd_name (s_fields s)).
      { clear Hnd. revert Hnames. generalize (s_fields s) as fs0. intros fs0 Hnames.
        induction Hnames as [|mem f l l' Hmf _ IH]; [reflexivity|]. cbn [flat_map map]. rewrite Hmf, IH. reflexivity. }
      rewrite <- E. exact Hnd. }
    (* every attribute sits on its field *)
    set (ums := user_members ms) in *.
    assert (Hat : Forall2 (fun ix a => exists sz a' off,
                     index_of (va_field a) (s_fields s) 0 = Some (fst ix) /\ format_size (va_format a) = Some sz /\
                     nth_error ls (fst ix) = Some (sz, a') /\ nth_error offs (fst ix) = Some off /\ 4 <= sz)
                   (lm_idx ums 0) (vs_attrs v)).
    { apply forallb2_Forall2' in Hattrs. rewrite <- (location_members_user ms), <- (lm_idx_map (user_members ms) 0) in Hattrs.
      fold ums in Hattrs. destruct (lm_idx_spec ums 0) as [Hidx _].
      revert Hattrs Hidx. generalize (lm_idx ums 0) as idxs. generalize (vs_attrs v) as attrs.
      intros attrs idxs. revert attrs. induction idxs as [|[i [l mem]] idxs IH]; intros attrs Hattrs Hidx.
      - inversion Hattrs. constructor.
      - cbn [map] in Hattrs. inversion Hattrs as [|? a ? attrs' Ha Hrest]; subst.
        inversion Hidx as [|? ? [_ Hnth] Hidx']; subst. cbn [fst snd] in *. rewrite Nat.sub_0_r in Hnth.
        constructor; [|apply IH; assumption].
        destruct (Forall2_nth_l _ _ _ Hlrel i mem Hnth) as ([sz a'] & Hlsi & (tm & p & k & Htm & Hc & Hsz & Hge)).
        destruct (Forall2_nth_l _ _ _ Hnames i mem Hnth) as (f & Hfi & Hfn').
        cbn [fst] in Hsz. unfold attr_ok in Ha. cbn [fst snd] in Ha. rewrite Hfn' in Ha.
        unfold get_inner in Ha. rewrite Htm in Ha. cbn [option_map] in Ha.
        repeat (apply andb_true_iff in Ha as [Ha ?]).
        apply String.eqb_eq in Ha.
        destruct (format_info (va_format a)) as [x|] eqn:Efi; [|discriminate]. rewrite Hc in *.
        match goal with H : pn_eqb x (p, k) = true |- _ => apply pn_eqb_eq in H; subst x end.
        assert (Hoff : exists off, nth_error offs i = Some off).
        { destruct (nth_error offs i) as [off|] eqn:E; [eauto|]. apply nth_error_None in E.
          assert (i < length ls)%nat by (apply nth_error_Some; congruence). lia. }
        destruct Hoff as (off & Hoff).
        exists sz, a', off. cbn [fst] in *. split; [|split; [|split; [exact Hlsi|split; [exact Hoff|exact Hge]]]].
        + rewrite Ha. rewrite (index_of_nodup (s_fields s) 0 i f Hfn Hfi). reflexivity.
        + unfold format_size. rewrite Efi. rewrite Hsz. reflexivity. }
    destruct (lm_idx_spec ums 0) as [_ Hsorted].
    rewrite !andb_true_iff. repeat split.
    - destruct ls as [|l0 ls']; [|apply N.eqb_eq; apply Hsize; discriminate].
      unfold repr_c in Erc. cbn in Erc. inversion Erc; subst. reflexivity.
    - apply forallb_forall. intros a Ha.
      destruct (Forall2_in_r _ _ _ Hat a Ha) as ([i x] & _ & (sz & a' & off & Hio & Hfs & Hlsi & Hoff & Hge)). cbn [fst] in *.
      unfold attr_layout_ok. rewrite Hio, Hfs, Hoff. destruct (Hfield i sz a' off Hlsi Hoff) as [Hle Hmod].
      apply andb_true_iff. split; [apply N.leb_le; exact Hle|]. apply N.eqb_eq.
      replace (N.min sz 4) with 4 by lia. exact Hmod.
    - apply ranges_disjoint_sorted. clear -Hat Hsorted Hmono.
      induction Hat as [|[i x] a idxs attrs (sz & a' & off & Hio & Hfs & Hlsi & Hoff & _) Hrest IH]; [constructor|].
      cbn [map]. apply StronglySorted_inv in Hsorted as [Hs Hall]. constructor; [apply IH; exact Hs|].
      cbn [fst] in *. apply Forall_forall. intros r Hr. apply in_map_iff in Hr as (b & <- & Hb).
      destruct (Forall2_in_r _ _ _ Hrest b Hb) as ([j y] & Hj & (sz' & a'' & off' & Hio' & Hfs' & Hlsj & Hoff' & _)). cbn [fst] in *.
      rewrite Forall_forall in Hall. specialize (Hall _ Hj). cbn [fst] in Hall.
      unfold attr_range. rewrite Hio, Hfs, Hio', Hfs'. cbn [fst snd].
      rewrite (nth_error_nth _ _ 0 Hoff), (nth_error_nth _ _ 0 Hoff').
      apply (Hmono i j sz a' off off' Hall Hlsi Hoff Hoff').
  Qed.

  Theorem C07_layout_structs : C07_layout_ok out_ = true.
  Proof.
    unfold C07_layout_ok. apply forallb_forall. intros v Hv.
    pose proof (C07_struct_gen m src inc o out_ Hgen) as Hst. unfold C07_struct_ok in Hst.
    apply andb_true_iff in Hst as [Hst _].
    destruct (forallb2_in_r _ _ _ Hst v Hv) as (vi & Hvi' & Hok).
    apply (vstruct_layout v vi Hvi' Hok).
  Qed.
End Comp.

Theorem C07_ok_gen m src inc o out_ :
  wf m = true -> wf_vertex_inputs m = true -> gen m src inc o = Ok out_ -> C07_ok m out_ = true.
Proof.
  intros Hwf Hvi Hgen. unfold C07_ok. rewrite (C07_struct_gen m src inc o out_ Hgen).
  rewrite (C07_layout_structs m src inc o out_ Hwf Hvi Hgen). reflexivity.
Qed.
