(** C02: every used resource has a visible, type-compatible layout entry at its slot; every entry is
    creatable - outside the two known-finding classes. *)
From stdpp Require Import gmap.
From Coq Require Import Sorted.
From W2W Require Import Wf GenInv Tactics C11Proof C11Link C03Spec C03Link WgpuValid C02Spec.
Local Open Scope N_scope.

(** * the binding type synthesised for a variable passes [check_binding_use] *)
Lemma binding_type_compatible m gl x ty :
  wf_resource m gl = true ->
  g_binding gl <> None ->
  get_inner m (g_ty gl) = Some (gb_inner x) -> gb_space x = g_space gl ->
  binding_type_of x = Ok ty ->
  check_binding_use (resource_ty (gb_inner x)) (g_space gl) ty = true.
Proof.
  unfold wf_resource, binding_type_of. intros Hwf Hb Hi Hsp. rewrite Hi in Hwf. rewrite Hsp.
  destruct (g_binding gl) as [p|]; [|congruence].
  destruct (gb_inner x) as [s|n s|c r s|s|base sp| |base sz stride|ms span|d a cl|cmp| | |base sz];
    try discriminate;
    try (intros H; inversion H; subst ty; cbn; unfold buffer_binding_type;
         destruct (g_space gl) as [| | | |acc| |]; try discriminate; cbn;
         [reflexivity|apply andb_true_iff in Hwf as [Hl Ha]; apply negb_true_iff in Ha;
          unfold access_eqb; destruct acc as [l st at_]; cbn in *; subst; destruct st; reflexivity]).
  - (* image *)
    intros H. apply rbind_ok in H as (vd & Hvd & H).
    assert (Hdim : view_dim_ok d a vd = true).
    { unfold view_dimension in Hvd. destruct d, a; inversion Hvd; reflexivity. }
    destruct cl as [k multi|multi|f acc].
    + destruct k; try discriminate; inversion H; subst ty; cbn; rewrite Hdim; cbn;
        destruct multi; reflexivity.
    + inversion H; subst ty. cbn. rewrite Hdim. destruct multi; reflexivity.
    + apply rbind_ok in H as (ta & Hta & H). inversion H; subst ty. cbn. rewrite Hdim. cbn.
      assert (sf_eqb f f = true) as -> by (unfold sf_eqb; apply N.eqb_refl). cbn.
      apply andb_true_iff in Hwf as [Hacc _]. unfold wf_access in Hacc. unfold storage_access in Hta.
      destruct acc as [l st at_]. cbn in *. destruct l, st, at_; cbn in *; try discriminate; inversion Hta; reflexivity.
  - (* sampler *)
    intros H. inversion H; subst ty. cbn. destruct cmp; reflexivity.
Qed.

Lemma binding_type_bgl m gl x ty :
  wf_resource m gl = true -> g_binding gl <> None ->
  get_inner m (g_ty gl) = Some (gb_inner x) ->
  (match gb_inner x with TImage _ _ (ICSampled SkFloat true) => false | _ => true end) = true ->
  binding_type_of x = Ok ty ->
  forall b v, bgl_entry_ok (mkOutEntry b v ty true) = true.
Proof.
  unfold wf_resource, binding_type_of, bgl_entry_ok. intros Hwf Hb Hi Hkf H b v. rewrite Hi in Hwf. cbn [oe_count_none oe_ty andb].
  destruct (g_binding gl) as [p|]; [|congruence].
  destruct (gb_inner x) as [s|n s|c r s|s|base sp| |base sz stride|ms span|d a cl|cmp| | |base sz];
    try discriminate; try (inversion H; subst ty; reflexivity).
  apply rbind_ok in H as (vd & Hvd & H). unfold view_dimension in Hvd.
  destruct cl as [k multi|multi|f acc].
  - destruct k; try discriminate; inversion H; subst ty; destruct multi; try reflexivity; try discriminate;
      cbn in Hwf; destruct d, a; try discriminate; inversion Hvd; reflexivity.
  - inversion H; subst ty. destruct multi; [|reflexivity]. cbn in Hwf. destruct d, a; try discriminate; inversion Hvd; reflexivity.
  - apply rbind_ok in H as (ta & _ & H). inversion H; subst ty.
    apply andb_true_iff in Hwf as [_ Hd]. destruct d, a; try discriminate; inversion Hvd; reflexivity.
Qed.

(** * finding the entry generated for a given variable *)
Lemma find_Forall2 {A B} (R : A -> B -> Prop) (ka : A -> N) (kb : B -> N) l l' k a :
  Forall2 R l l' -> (forall x y, R x y -> ka x = kb y) -> List.NoDup (map ka l) -> In a l -> ka a = k ->
  exists b, List.find (fun y => kb y =? k) l' = Some b /\ R a b.
Proof.
  intros HF Hk. induction HF as [|x y t t' Hxy _ IH]; intros Hnd Hin Hka; [contradiction|].
  cbn in Hnd. inversion Hnd as [|? ? Hnin Hnd']; subst. cbn [List.find].
  destruct Hin as [->|Hin].
  - rewrite <- (Hk a y Hxy), N.eqb_refl. eauto.
  - destruct (N.eqb_spec (kb y) (ka a)) as [Heq|_].
    + exfalso. apply Hnin. rewrite (Hk x y Hxy), Heq. apply in_map. exact Hin.
    + apply IH; auto.
Qed.

Lemma gen_group_entries M k bs og :
  gen_group M (k, bs) = Ok og ->
  og_no og = k /\
  Forall2 (fun x e => oe_binding e = gb_index x /\ oe_vis e = lookup_stages (gb_name x) M st_none
                      /\ binding_type_of x = Ok (oe_ty e) /\ oe_count_none e = true) bs (og_entries og).
Proof.
  unfold gen_group. intros H.
  apply rbind_ok in H as (fields & Hf & H).
  apply rbind_ok in H as (entries & He & H).
  apply rbind_ok in H as (bents & Hb & H). inversion H; subst og; clear H. cbn.
  split; [reflexivity|]. apply rmapM_ok in He. clear -He.
  induction He as [|x y l l' Hxy _ IH]; [constructor|]. constructor; [|exact IH].
  unfold bind_group_layout_entry in Hxy. apply rbind_ok in Hxy as (ty & Hty & Hxy). inversion Hxy. cbn. auto.
Qed.

Section Main.
  Variables (m : module) (src : string) (inc : option string) (o : options) (out_ : out).
  Hypothesis Hwf : wf m = true.
  Hypothesis Hgen : gen m src inc o = Ok out_.

  Let Htypes : wf_global_types m = true. Proof. apply (wf_proj m Hwf). Qed.
  Let Hcalls : wf_calls m = true. Proof. apply (wf_proj m Hwf). Qed.
  Let Hnames : wf_global_names m = true. Proof. apply (wf_proj m Hwf). Qed.

  (** the entry at the slot of a bound variable is the one generated from that variable *)
  Lemma entry_of_global h gl grp b :
    nth_error (globals m) h = Some gl -> g_binding gl = Some (grp, b) ->
    exists e ty i, find_entry out_ grp b = Some e /\ get_inner m (g_ty gl) = Some i /\
      oe_vis e = vis_spec m h /\ oe_count_none e = true /\ oe_binding e = b /\
      binding_type_of (mkGB (g_name gl) b i (g_space gl) h) = Ok ty /\ oe_ty e = ty.
  Proof.
    intros Hh Hb.
    destruct (gen_inv _ _ _ _ _ Hgen) as [bgd pc Hbgd _ _ Hbgm _ _ _ _ _ _ _ _ _ _ _ _ _].
    destruct (gbd_ok_content m Htypes bgd Hbgd) as (_ & Hsorted & Hfind).
    assert (Hnd : List.NoDup (map pair_of (bvars m))) by (apply (gbd_ok_iff m Htypes); eauto).
    assert (Hty : exists t, get_ty m (g_ty gl) = Some t).
    { unfold wf_global_types in Htypes. rewrite forallb_forall in Htypes.
      specialize (Htypes gl (nth_error_In _ _ Hh)). destruct (get_ty m (g_ty gl)); [eauto|discriminate]. }
    destruct Hty as (t & Ht).
    pose proof (bvars_from_complete m (globals m) 0 h gl t grp b Hh Ht Hb) as Hbv. cbn in Hbv.
    set (x := mkGB (g_name gl) b (t_inner t) (g_space gl) h) in *.
    assert (Hx : In x (bindings_of grp (bvars m))).
    { unfold bindings_of. apply in_map_iff. exists (mkBV grp x). split; [reflexivity|].
      apply filter_In. split; [exact Hbv|apply N.eqb_refl]. }
    assert (Hfg : find grp bgd = Some (bindings_of grp (bvars m))).
    { rewrite Hfind. destruct (bindings_of grp (bvars m)); [contradiction|reflexivity]. }
    assert (Hin : In (grp, bindings_of grp (bvars m)) bgd).
    { clear -Hfg. induction bgd as [|[k l] r IH]; cbn in Hfg; [discriminate|].
      destruct (N.eqb_spec grp k) as [Heq|_]; [inversion Hfg; subst; left; reflexivity|right; apply IH; exact Hfg]. }
    unfold bind_groups_module in Hbgm. apply rbind_ok in Hbgm as (ogs & Hogs & Hbgm).
    assert (Hgroups : groups_of out_ = ogs).
    { unfold groups_of. destruct ogs; inversion Hbgm; reflexivity. }
    pose proof (rmapM_ok _ _ _ Hogs) as HF.
    destruct (find_Forall2 (fun g og => gen_group (global_shader_stages m) g = Ok og) fst og_no bgd ogs grp
                (grp, bindings_of grp (bvars m)) HF) as (og & Hfog & Hgg); auto.
    { intros [k bs] og Hg. apply gen_group_entries in Hg as [Hno _]. cbn. congruence. }
    { apply StronglySorted_lt_NoDup. exact Hsorted. }
    destruct (gen_group_entries _ _ _ _ Hgg) as [Hno HFe].
    (* binding indices are distinct within the group *)
    assert (Hndb : List.NoDup (map gb_index (bindings_of grp (bvars m)))).
    { unfold bindings_of. rewrite map_map.
      assert (Hsub : forall l, List.NoDup (map pair_of l) ->
                List.NoDup (map (fun x => gb_index (bv_gb x)) (filter (fun x => bv_group x =? grp) l))).
      { induction l as [|bv l IH]; intros Hn; [constructor|]. cbn in Hn. apply NoDup_cons_iff in Hn as [Hnin Hn'].
        cbn [filter]. destruct (N.eqb_spec (bv_group bv) grp) as [Heq|_]; [|apply IH; exact Hn'].
        cbn. constructor; [|apply IH; exact Hn']. intros Hc. apply Hnin.
        apply in_map_iff in Hc as (bv' & Hidx & Hf). apply filter_In in Hf as [Hf Hg]. apply N.eqb_eq in Hg.
        apply in_map_iff. exists bv'. split; [unfold pair_of; congruence|exact Hf]. }
      apply Hsub. exact Hnd. }
    destruct (find_Forall2 _ gb_index oe_binding _ _ b x HFe) as (e & Hfe & He); auto.
    { intros y e' (H1 & _). congruence. }
    destruct He as (Hidx & Hvis & Hbt & Hcnt).
    exists e, (oe_ty e), (t_inner t). unfold find_entry. rewrite Hgroups, Hfog, Hfe.
    split; [reflexivity|]. split; [unfold get_inner; rewrite Ht; reflexivity|].
    split; [|split; [exact Hcnt|split; [exact Hidx|split; [exact Hbt|reflexivity]]]].
    rewrite Hvis. cbn [gb_name x].
    destruct (g_name gl) as [n|] eqn:Hn.
    - apply (lookup_vis m h gl n Hcalls Hnames Hh Hn).
    - exfalso. unfold wf_global_names in Hnames. apply andb_true_iff in Hnames as [Hall _].
      rewrite forallb_forall in Hall. specialize (Hall gl (nth_error_In _ _ Hh)). rewrite Hn in Hall. discriminate.
  Qed.

  (** premise tying naga's ModuleInfo to the static-access relation (evaluated per case): every variable the
      validator reports as used by an entry point is statically accessed by it, and handles are in range *)
  Definition uses_sound (uses : list (list nat)) : bool :=
    forallb2 (fun e us => forallb (fun h => static_access_b m e h && (h <? length (globals m))%nat) us) (entries m) uses.

  Lemma resource_ok_used ep h :
    wf_resources m = true -> In ep (entries m) ->
    static_access_b m ep h = true -> (h < length (globals m))%nat ->
    resource_ok m out_ (e_stage ep) h = true.
  Proof.
    intros Hres Hep Hsa Hlt. unfold resource_ok.
    destruct (nth_error (globals m) h) as [gl|] eqn:Hh; [|apply nth_error_None in Hh; lia].
    destruct (g_binding gl) as [[grp b]|] eqn:Hb; [|reflexivity].
    destruct (entry_of_global h gl grp b Hh Hb) as (e & ty & i & Hfe & Hi & Hvis & _ & _ & Hbt & Hty).
    rewrite Hi, Hfe. apply andb_true_iff. split.
    - rewrite Hvis. apply (vis_spec_has m h (e_stage ep) Hcalls). exists ep. split; [exact Hep|]. split; [reflexivity|].
      apply (static_access_b_spec m ep h Hcalls Hep). exact Hsa.
    - rewrite Hty.
      apply (binding_type_compatible m gl (mkGB (g_name gl) b i (g_space gl) h) ty); auto.
      + unfold wf_resources in Hres. rewrite forallb_forall in Hres. apply Hres. eapply nth_error_In; eauto.
      + rewrite Hb. discriminate.
  Qed.

  Lemma pair_ok_wf p sampling :
    wf_resources m = true -> wf_pair m p = true -> kf_int_sampling m sampling = false ->
    (exists ps, In ps sampling /\ In p ps) ->
    pair_ok m out_ p = true.
  Proof.
    intros Hres Hwp Hkf (ps & Hps & Hp). unfold pair_ok, wf_pair in *.
    destruct (nth_error (globals m) (fst p)) as [t|] eqn:Ht; [|discriminate].
    destruct (nth_error (globals m) (snd p)) as [s|] eqn:Hs; [|discriminate].
    destruct (g_binding t) as [[gt bt]|] eqn:Hbt; [|discriminate].
    destruct (g_binding s) as [[gs bs]|] eqn:Hbs; [|discriminate].
    destruct (entry_of_global _ _ _ _ Ht Hbt) as (et & tyt & it & Hfet & Hit & _ & _ & _ & Hbtt & Htyt).
    destruct (entry_of_global _ _ _ _ Hs Hbs) as (es & tys & is_ & Hfes & His & _ & _ & _ & Hbts & Htys).
    rewrite Hfet, Hfes, Htyt, Htys. rewrite Hit, His in Hwp.
    (* the known-finding class is excluded *)
    assert (Hnk : match it, is_ with
                  | TImage _ _ (ICSampled k _), TSampler false => match k with SkSint | SkUint => false | _ => true end
                  | _, _ => true
                  end = true).
    { unfold kf_int_sampling in Hkf.
      destruct it as [| | | | | | | |d a cl| | | |]; try reflexivity. destruct cl as [k mu| |]; try reflexivity.
      destruct is_ as [| | | | | | | | |c| | |]; try reflexivity. destruct c; [reflexivity|].
      destruct k; try reflexivity; exfalso;
        (assert (Hex : existsb (existsb (fun p => match nth_error (globals m) (fst p), nth_error (globals m) (snd p) with
                             | Some t, Some s =>
                                 match get_inner m (g_ty t), get_inner m (g_ty s) with
                                 | Some (TImage _ _ (ICSampled k _)), Some (TSampler false) =>
                                     match k with SkSint | SkUint => true | _ => false end
                                 | _, _ => false
                                 end
                             | _, _ => false
                             end)) sampling = true);
         [apply existsb_exists; exists ps; split; [exact Hps|]; apply existsb_exists; exists p; split; [exact Hp|];
          rewrite Ht, Hs, Hit, His; reflexivity|congruence]). }
    unfold binding_type_of in Hbtt, Hbts. cbn [gb_inner gb_space] in *.
    destruct it as [| | | | | | | |d a cl| | | |]; try discriminate.
    destruct is_ as [| | | | | | | | |c| | |]; try (destruct cl; discriminate).
    inversion Hbts; subst tys.
    apply rbind_ok in Hbtt as (vd & _ & Hbtt).
    destruct cl as [k mu|mu|f acc]; try discriminate.
    - destruct k; try discriminate; inversion Hbtt; subst tyt; destruct c; try reflexivity; discriminate.
    - inversion Hbtt; subst tyt. destruct c; reflexivity.
  Qed.

  Lemma bgl_ok_all : wf_resources m = true -> kf_ms_float m = false -> C02_bgl_ok out_ = true.
  Proof.
    intros Hres Hkf. unfold C02_bgl_ok.
    destruct (gen_inv _ _ _ _ _ Hgen) as [bgd pc Hbgd _ _ Hbgm _ _ _ _ _ _ _ _ _ _ _ _ _].
    destruct (gbd_ok_content m Htypes bgd Hbgd) as (_ & Hsorted & Hfind).
    unfold bind_groups_module in Hbgm. apply rbind_ok in Hbgm as (ogs & Hogs & Hbgm).
    assert (Hgroups : groups_of out_ = ogs).
    { unfold groups_of. destruct ogs; inversion Hbgm; reflexivity. }
    rewrite Hgroups. pose proof (rmapM_ok _ _ _ Hogs) as HF.
    apply forallb_forall. intros og Hog. apply forallb_forall. intros e He.
    assert (exists k bs, In (k, bs) bgd /\ gen_group (global_shader_stages m) (k, bs) = Ok og) as (k & bs & Hin & Hg).
    { clear -HF Hog. induction HF as [|[k bs] y l l' Hxy HF IH]; [contradiction|].
      destruct Hog as [<-|Hog]; [exists k, bs; split; [left; reflexivity|exact Hxy]|].
      destruct (IH Hog) as (k' & bs' & Hin & Hg). exists k', bs'. split; [right; exact Hin|exact Hg]. }
    destruct (gen_group_entries _ _ _ _ Hg) as [_ HFe].
    assert (exists x, In x bs /\ binding_type_of x = Ok (oe_ty e) /\ oe_count_none e = true) as (x & Hx & Hbt & Hcnt).
    { clear -HFe He. induction HFe as [|x y l l' (H1 & H2 & H3 & H4) _ IH]; [contradiction|].
      destruct He as [<-|He]; [exists x; split; [left; reflexivity|auto]|].
      destruct (IH He) as (x' & Hx' & H). exists x'. split; [right; exact Hx'|exact H]. }
    assert (Hbs : bs = bindings_of k (bvars m)).
    { pose proof (find_of_In bgd k bs (StronglySorted_lt_NoDup _ Hsorted) Hin) as Hf.
      rewrite Hfind in Hf. destruct (bindings_of k (bvars m)); inversion Hf; reflexivity. }
    subst bs. unfold bindings_of in Hx. apply in_map_iff in Hx as (bv & <- & Hbv).
    apply filter_In in Hbv as [Hbv _].
    destruct (bvars_from_spec m (globals m) 0 bv Hbv) as (i & gl & ty & Hi & Hty & Hb & Heq). cbn in Heq.
    assert (Hgl : In gl (globals m)) by (eapply nth_error_In; eauto).
    destruct e as [eb ev et ec]. cbn in *. subst ec.
    apply (binding_type_bgl m gl (bv_gb bv) et).
    - unfold wf_resources in Hres. rewrite forallb_forall in Hres. apply Hres. exact Hgl.
    - rewrite Hb. discriminate.
    - rewrite Heq. cbn. unfold get_inner. rewrite Hty. reflexivity.
    - rewrite Heq. cbn [bv_gb gb_inner].
      destruct (t_inner ty) as [| | | | | | | |d a cl| | | |] eqn:Eti; try reflexivity.
      destruct cl as [kd mu| |]; try reflexivity. destruct kd; try reflexivity. destruct mu; [|reflexivity].
      exfalso. unfold kf_ms_float in Hkf.
      assert (Hex : existsb (fun gl => match g_binding gl, get_inner m (g_ty gl) with
                     | Some _, Some (TImage _ _ (ICSampled SkFloat true)) => true
                     | _, _ => false
                     end) (globals m) = true).
      { apply existsb_exists. exists gl. split; [exact Hgl|]. rewrite Hb. unfold get_inner. rewrite Hty. cbn. rewrite Eti. reflexivity. }
      congruence.
    - exact Hbt.
  Qed.

  Theorem C02_ok_gen uses sampling :
    wf_resources m = true -> uses_sound uses = true -> wf_sampling m sampling = true ->
    length sampling = length (entries m) ->
    kf_ms_float m = false -> kf_int_sampling m sampling = false ->
    C02_ok m out_ uses sampling = true.
  Proof.
    intros Hres Huses Hsamp Hlen Hk1 Hk2. unfold C02_ok, C02_stage_ok. rewrite (bgl_ok_all Hres Hk1), andb_true_r.
    apply andb_true_iff. split.
    - unfold uses_sound in Huses. revert Huses. generalize uses as us.
      assert (Hsub : forall e, In e (entries m) -> In e (entries m)) by auto. revert Hsub.
      generalize (entries m) at 1 3 4 as es. induction es as [|e es IH]; intros Hsub [|u us] H; cbn in *; try discriminate; [reflexivity|].
      apply andb_true_iff in H as [Hu Hr]. rewrite IH; [|intros e' He'; apply Hsub; right; exact He'|exact Hr].
      rewrite andb_true_r. apply forallb_forall. intros h Hh. rewrite forallb_forall in Hu. specialize (Hu h Hh).
      apply andb_true_iff in Hu as [Hsa Hlt]. apply Nat.ltb_lt in Hlt.
      apply resource_ok_used; auto.
    - unfold wf_sampling in Hsamp.
      assert (Hall : forall ps, In ps sampling -> forallb (pair_ok m out_) ps = true).
      { intros ps Hps. apply forallb_forall. intros p Hp. rewrite forallb_forall in Hsamp.
        specialize (Hsamp ps Hps). rewrite forallb_forall in Hsamp.
        apply (pair_ok_wf p sampling Hres (Hsamp p Hp) Hk2). eauto. }
      clear Hsamp Hk2. revert Hlen Hall. generalize sampling as sp. generalize (entries m) as es.
      induction es as [|e es IH]; intros [|ps sp] Hlen Hall; cbn in *; try discriminate; [reflexivity|].
      rewrite (Hall ps (or_introl eq_refl)), IH; [reflexivity|lia|]. intros ps' Hps'. apply Hall. right. exact Hps'.
  Qed.
End Main.
