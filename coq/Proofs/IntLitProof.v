From W2W Require Import Render C15Spec IntLit.
From Coq Require Import Ascii DecimalString DecimalN Lia.
Local Open Scope N_scope.

Lemma split_digits_uint d suf :
  (match suf with EmptyString => True | String c _ => is_digit c = false end) ->
  split_digits (NilEmpty.string_of_uint d +s+ suf) = (NilEmpty.string_of_uint d, suf).
Proof.
  intros Hs. induction d as [|d IH|d IH|d IH|d IH|d IH|d IH|d IH|d IH|d IH|d IH];
    cbn [NilEmpty.string_of_uint String.append split_digits];
    try (change (is_digit _) with true; cbn iota; rewrite IH; reflexivity).
  destruct suf as [|c r]; [reflexivity|]. cbn [split_digits]. rewrite Hs. reflexivity.
Qed.

Lemma N_to_uint_nonnil n : N.to_uint n <> Decimal.Nil.
Proof. destruct n as [|p]; [discriminate|]. apply DecimalPos.Unsigned.to_uint_nonnil. Qed.

Lemma N_to_string_empty n : N_to_string n = NilEmpty.string_of_uint (N.to_uint n).
Proof.
  unfold N_to_string, NilZero.string_of_uint. pose proof (N_to_uint_nonnil n) as H.
  destruct (N.to_uint n); [contradiction|reflexivity..].
Qed.

Lemma int_suffix_inv suf p : int_suffix suf = Some p ->
  (suf = "i32" /\ p = PI32) \/ (suf = "u32" /\ p = PU32) \/ (suf = "i64" /\ p = PI64) \/ (suf = "u64" /\ p = PU64).
Proof.
  unfold int_suffix. intros H.
  destruct (String.eqb_spec suf "i32") as [->|_]; [left; split; congruence|].
  destruct (String.eqb_spec suf "u32") as [->|_]; [right; left; split; congruence|].
  destruct (String.eqb_spec suf "i64") as [->|_]; [right; right; left; split; congruence|].
  destruct (String.eqb_spec suf "u64") as [->|_]; [right; right; right; split; congruence|discriminate].
Qed.

(** reading back what [quote!] prints for an integer: the magnitude and the suffix type *)
Lemma lex_int_print v suf p : int_suffix suf = Some p -> lex_int_lit (N_to_string v +s+ suf) = Some (v, p).
Proof.
  intros Hs. unfold lex_int_lit. rewrite N_to_string_empty.
  rewrite split_digits_uint.
  - rewrite Hs. pose proof (N_to_uint_nonnil v) as Hn.
    replace (NilEmpty.string_of_uint (N.to_uint v)) with (NilZero.string_of_uint (N.to_uint v))
      by (unfold NilZero.string_of_uint; destruct (N.to_uint v); [contradiction|reflexivity..]).
    rewrite (NilZero.usu _ Hn). rewrite DecimalN.Unsigned.of_to. reflexivity.
  - destruct (int_suffix_inv _ _ Hs) as [[-> _]|[[-> _]|[[-> _]|[-> _]]]]; reflexivity.
Qed.

(** the printed token of a number is never [true] / [false] / [-] *)
Lemma num_token_not_word v suf w : int_suffix suf <> None ->
  (w = "true" \/ w = "false" \/ w = "-")%string -> String.eqb (N_to_string v +s+ suf) w = false.
Proof.
  intros Hs Hw. apply String.eqb_neq. intros E.
  assert (fst (split_digits (N_to_string v +s+ suf)) <> EmptyString) as Hd.
  { rewrite N_to_string_empty, split_digits_uint.
    - cbn [fst]. pose proof (N_to_uint_nonnil v) as Hn. destruct (N.to_uint v); [contradiction|discriminate..].
    - destruct (int_suffix suf) eqn:E'; [|congruence].
      destruct (int_suffix_inv _ _ E') as [[-> _]|[[-> _]|[[-> _]|[-> _]]]]; reflexivity. }
  rewrite E in Hd. destruct Hw as [->|[->| ->]]; apply Hd; reflexivity.
Qed.

(** C15, reading direction: rustc evaluates the tokens printed for an integer / boolean constant to the
    WGSL value, with the type of the token's suffix = the type of C15's table *)
Lemma eval_unsigned x suf p : int_suffix suf = Some p -> fits p (Z.of_N x) = true ->
  eval_const_tokens [T (N_to_string x +s+ suf)] = Some (RInt p (Z.of_N x)).
Proof.
  intros Hs Hf. unfold eval_const_tokens.
  rewrite !num_token_not_word by (try (rewrite Hs; discriminate); auto).
  rewrite (lex_int_print _ _ _ Hs), Hf. reflexivity.
Qed.

Lemma eval_signed x suf p : int_suffix suf = Some p -> fits p x = true ->
  eval_const_tokens ((if (x <? 0)%Z then [T "-"] else []) ++ [T (N_to_string (Z.abs_N x) +s+ suf)]) = Some (RInt p x).
Proof.
  intros Hs Hf. destruct (Z.ltb_spec x 0) as [Hneg|Hpos]; cbn [app].
  - unfold eval_const_tokens. change (String.eqb "-" "-") with true. cbn iota.
    rewrite (lex_int_print _ _ _ Hs).
    replace (- Z.of_N (Z.abs_N x))%Z with x by lia. rewrite Hf. reflexivity.
  - replace x with (Z.of_N (Z.abs_N x)) at 2 by lia. apply eval_unsigned; [exact Hs|].
    replace (Z.of_N (Z.abs_N x)) with x by lia. exact Hf.
Qed.

(** C15, reading direction: rustc evaluates the tokens printed for an integer / boolean constant to the
    WGSL value, with the type of the token's suffix = the type of C15's table *)
Theorem literal_tokens_roundtrip l v :
  lit_in_range l = true -> wgsl_value l = Some v -> eval_const_tokens (r_literal l) = Some v.
Proof.
  intros Hr Hv. destruct l as [b|b|x|x|x|x|b|x|b]; cbn [wgsl_value] in Hv; try discriminate; injection Hv as <-;
    cbn [r_literal lit_in_range] in *.
  - apply eval_unsigned; [reflexivity|exact Hr].
  - apply eval_signed; [reflexivity|exact Hr].
  - apply eval_unsigned; [reflexivity|exact Hr].
  - apply eval_signed; [reflexivity|exact Hr].
  - destruct b; reflexivity.
  - apply eval_signed; [reflexivity|exact Hr].
Qed.

(** the type rustc gives the expression is the declared type of C15's table *)
Lemma wgsl_value_type l v : wgsl_value l = Some v ->
  match v with RInt p _ => p = lit_prim (concrete l) | RBool _ => lit_prim (concrete l) = PBool end.
Proof. destruct l; cbn; intros H; try discriminate; injection H as <-; reflexivity. Qed.

(** ** lifted to the generator: every exported integer / boolean constant reads back as its WGSL value *)
From W2W Require Import Wf GenInv Tactics.

Lemma ctv_range l : lit_in_range l = true ->
  lit_in_range (snd (const_type_and_value l)) = true /\ fst (const_type_and_value l) = lit_prim (snd (const_type_and_value l)).
Proof. destruct l; cbn; auto. Qed.

Lemma gen_const_range m c k : (match c_init c with GLiteral l => lit_in_range l | _ => true end) = true ->
  gen_const m c = Some k -> lit_in_range (k_lit k) = true /\ k_ty k = lit_prim (k_lit k).
Proof.
  unfold gen_const. intros Hr. destruct (c_name c) as [n|]; [|discriminate].
  destruct (c_init c) as [l| |]; [| |discriminate].
  - destruct (ctv_range l Hr) as [H1 H2]. destruct (const_type_and_value l) as [t v]. intros [= <-]. cbn in *. auto.
  - destruct (get_inner m (c_ty c)) as [i|]; [|discriminate]. destruct i as [s| | | | | | | | | | | |]; try discriminate.
    destruct (literal_zero s) as [l|] eqn:Hz; [|discriminate].
    assert (lit_in_range l = true) as Hl.
    { revert Hz. unfold literal_zero. destruct (sk s); destruct (sw s) as [|p]; try discriminate;
        do 4 (try (destruct p as [p|p|]; try discriminate)); intros Hz; try discriminate; try (injection Hz as <-; reflexivity). }
    destruct (ctv_range l Hl) as [H1 H2]. destruct (const_type_and_value l) as [t v]. intros [= <-]. cbn in *. auto.
Qed.

Theorem const_tokens_roundtrip m src inc o out_ :
  consts_in_range m = true -> gen m src inc o = Ok out_ ->
  forall k, In k (o_consts out_) -> forall v, wgsl_value (k_lit k) = Some v ->
    eval_const_tokens (r_literal (k_lit k)) = Some v /\
    match v with RInt p _ => p = k_ty k | RBool _ => k_ty k = PBool end.
Proof.
  intros Hr Hgen k Hk v Hv.
  destruct (gen_inv _ _ _ _ _ Hgen) as [bgd pc _ _ Hc _ _ _ _ _ _ _ _ _ _ _ _ _ _].
  rewrite Hc in Hk. unfold consts in Hk.
  assert (exists c, In c (constants m) /\ gen_const m c = Some k) as [c [Hin Hg]].
  { revert Hk. generalize (constants m). intros cs. induction cs as [|c t IH]; cbn [filter_map]; [intros []|].
    destruct (gen_const m c) as [k'|] eqn:E.
    - intros [->|H]; [exists c; split; [left; reflexivity|exact E]|].
      destruct (IH H) as [c' [H1 H2]]. exists c'. split; [right; exact H1|exact H2].
    - intros H. destruct (IH H) as [c' [H1 H2]]. exists c'. split; [right; exact H1|exact H2]. }
  unfold consts_in_range in Hr. rewrite forallb_forall in Hr. specialize (Hr c Hin).
  destruct (gen_const_range m c k Hr Hg) as [H1 H2]. split.
  - apply literal_tokens_roundtrip; assumption.
  - rewrite H2. destruct (k_lit k); cbn in Hv; try discriminate; injection Hv as <-; reflexivity.
Qed.
