(** C01: [rust_wf] of the model's output outside the known-finding classes. The conjuncts that are conditions on
    the shader's identifiers and member types ARE the known-finding classes; everything else follows from the
    structure theorems of the other properties (C04: field names of a group, C06: field names of a struct, C12:
    override fields, C07 / C08: references resolve). *)
From W2W Require Import Wf GenInv Tactics StructSpec StructProof C06Spec C06Proof C07Premise C15Spec C12Spec C12Proof
  C04Spec C04Proof C03Link C07Spec C07Proof C07Comp SortDedup C01Spec C01Proof C01More.
Local Open Scope N_scope.

Lemma in_indexed {A} (l : list A) : forall i p, In p (indexed l i) -> In (snd p) l.
Proof. induction l as [|x t IH]; intros i p; cbn; [intros []|]. intros [<-|H]; [left; reflexivity|right; eapply IH; exact H]. Qed.

Lemma emitted_members m e : In e (emitted_structs m) -> exists t span, In t (types m) /\ t_inner t = TStruct (snd e) span.
Proof.
  unfold emitted_structs. intros H. apply in_flat_map in H as (p & Hp & H).
  destruct (t_inner (snd p)) eqn:E; try contradiction. destruct (emit_b m (fst p)); [|contradiction].
  destruct H as [<-|[]]. cbn. exists (snd p), span. split; [eapply in_indexed; exact Hp|exact E].
Qed.

Lemma str_nodup_filter_names ms :
  C01Spec.str_nodup (member_names ms) = true -> C01Spec.str_nodup (member_names (user_members ms)) = true.
Proof.
  intros H. apply str_nodup_spec in H. apply C04Proof.str_nodup_of_NoDup.
  unfold member_names, user_members in *. induction ms as [|x t IH]; [constructor|]. cbn [flat_map filter] in *.
  assert (Ht : NoDup (flat_map (fun mem => match m_name mem with Some n => [n] | None => [] end) t)).
  { destruct (m_name x); [cbn in H; inversion H; assumption|exact H]. }
  destruct (match m_binding x with Some (BBuiltIn _) => false | _ => true end); [|apply IH; exact Ht].
  cbn [flat_map]. destruct (m_name x) as [n|]; [|apply IH; exact Ht]. cbn. constructor; [|apply IH; exact Ht].
  cbn in H. inversion H as [|? ? Hni _]; subst. intros Hc. apply Hni.
  clear -Hc. induction t as [|y t IH]; [contradiction|]. cbn [filter flat_map] in *.
  destruct (match m_binding y with Some (BBuiltIn _) => false | _ => true end).
  - cbn [flat_map] in Hc. apply in_app_iff in Hc as [Hc|Hc]; apply in_app_iff; [left; exact Hc|right; apply IH; exact Hc].
  - apply in_app_iff. right. apply IH. exact Hc.
Qed.

(** the field names of an emitted struct are the names of its non-builtin members, in order *)
Lemma field_names_of ak m w names e s :
  struct_fields_ok ak m w names e s = true -> map fd_name (s_fields s) = member_names (user_members (snd e)).
Proof.
  unfold struct_fields_ok. generalize (user_members (snd e)) as ms. generalize (s_fields s) as fs.
  intros fs ms. revert fs. induction ms as [|x t IH]; intros [|f fs] H; cbn in H; try discriminate; [reflexivity|].
  apply andb_true_iff in H as [Hx H]. unfold member_shape_ok in Hx.
  destruct (m_name x) as [n|] eqn:En; [|discriminate]. destruct (get_ty m (m_ty x)); [|discriminate].
  apply andb_true_iff in Hx as [Hx _]. apply andb_true_iff in Hx as [Hx _]. apply String.eqb_eq in Hx.
  unfold member_names in *. cbn [map flat_map]. rewrite En. cbn. rewrite Hx, (IH fs H). reflexivity.
Qed.

Section Full.
  Variables (m : module) (src : string) (inc : option string) (o : options) (out_ : out).
  Hypothesis Hwf : wf m = true.
  Hypothesis Hgen : gen m src inc o = Ok out_.

  Lemma struct_fields_distinct : wf_member_names m = true ->
    forallb (fun s => C01Spec.str_nodup (map fd_name (s_fields s))) (o_structs out_) = true.
  Proof.
    intros Hmn. destruct (C06_fields_gen m src inc o out_ Hwf Hgen) as [Hf _]. unfold C06_fields_ok in Hf.
    apply forallb_forall. intros s Hs.
    destruct (C07Comp.forallb2_in_r _ _ _ Hf s Hs) as (e & He & Hok).
    rewrite (field_names_of _ _ _ _ _ _ Hok). apply str_nodup_filter_names.
    destruct (emitted_members m e He) as (t & span & Ht & Hi).
    unfold wf_member_names in Hmn. rewrite forallb_forall in Hmn. specialize (Hmn t Ht). rewrite Hi in Hmn. exact Hmn.
  Qed.

  Lemma override_fields_distinct : wf_overrides m = true -> wf_override_names m = true ->
    match o_overrides out_ with Some ov => C01Spec.str_nodup (map fst (ov_fields ov)) | None => true end = true.
  Proof.
    intros Hwo Hon. pose proof (C12_ok_gen m src inc o out_ Hwo Hgen) as Hok. unfold C12_ok in Hok.
    apply andb_true_iff in Hok as [Hok _]. apply andb_true_iff in Hok as [Hok _].
    destruct (o_overrides out_) as [oo|]; [|reflexivity].
    destruct (overrides m) as [|o0 ot] eqn:Eo; [discriminate|]. rewrite <- Eo in *.
    do 3 (apply andb_true_iff in Hok as [Hok _]).
    assert (Hn : map fst (ov_fields oo) = flat_map (fun o => match od_name o with Some n => [n] | None => [] end) (overrides m)).
    { revert Hok. generalize (ov_fields oo) as fs. generalize (overrides m) as os.
      induction os as [|x t IH]; intros [|f fs] H; cbn in H; try discriminate; [reflexivity|].
      apply andb_true_iff in H as [Hx H]. unfold ov_field_ok in Hx. destruct (od_name x) as [n|] eqn:En; [|discriminate].
      destruct (ov_prim m x); [|discriminate]. apply andb_true_iff in Hx as [Hx _]. apply String.eqb_eq in Hx.
      cbn [map flat_map]. rewrite En. cbn. rewrite Hx, (IH fs H). reflexivity. }
    rewrite Hn. exact Hon.
  Qed.

  Lemma group_fields_distinct :
    match o_bind_groups out_ with
    | Some bg => forallb (fun g => C01Spec.str_nodup (map fst (og_layout_fields g))) (bg_groups bg)
    | None => true end = true.
  Proof.
    pose proof (C04_ok_gen m src inc o out_ Hwf Hgen) as Hok. unfold C04_ok in Hok.
    destruct (o_bind_groups out_) as [bg|]; [|reflexivity].
    do 6 (apply andb_true_iff in Hok as [Hok _]). apply andb_true_iff in Hok as [_ Hall].
    apply forallb_forall. intros g Hg. rewrite forallb_forall in Hall. specialize (Hall g Hg). unfold group_ok in Hall.
    do 11 (apply andb_true_iff in Hall as [Hall _]). apply andb_true_iff in Hall as [_ Hnd]. exact Hnd.
  Qed.

  (** one attribute table per vertex input struct name: sort + dedup leaves distinct names *)
  Lemma vstruct_names_distinct : C01Spec.str_nodup (map vs_name (o_vstructs out_)) = true.
  Proof.
    pose proof (C07_struct_gen m src inc o out_ Hgen) as Hst. unfold C07_struct_ok in Hst.
    apply andb_true_iff in Hst as [Hvs _].
    assert (Hn : map vs_name (o_vstructs out_) = map pn (vertex_input_structs m)).
    { revert Hvs. generalize (o_vstructs out_) as vs. generalize (vertex_input_structs m) as vis.
      induction vis as [|[[n sn] ms] t IH]; intros [|v vs] H; cbn in H; try discriminate; [reflexivity|].
      apply andb_true_iff in H as [Hv H]. unfold vstruct_ok in Hv. do 4 (apply andb_true_iff in Hv as [Hv _]).
      apply String.eqb_eq in Hv. cbn. rewrite Hv, (IH vs H). reflexivity. }
    rewrite Hn. apply C04Proof.str_nodup_of_NoDup. apply sort_dedup_names_nodup.
  Qed.
End Full.

Theorem C01_full m src inc o out_ :
  wf m = true -> wf_consts m = true -> wf_io_structs m = true -> wf_vertex_inputs m = true ->
  wf_overrides m = true -> wf_member_names m = true -> wf_override_names m = true ->
  gen m src inc o = Ok out_ -> kf_any out_ = false -> rust_wf out_ = true.
Proof.
  intros Hwf Hc Hio Hvi Hwo Hmn Hon Hgen Hkf.
  destruct (C01_structure m src inc o out_ Hwf Hc Hio Hvi Hgen) as (H11 & H13 & H12 & H14 & H15).
  unfold kf_any in Hkf. repeat (apply orb_false_iff in Hkf as [Hkf ?]).
  repeat match goal with H : negb _ = false |- _ => apply negb_false_iff in H end.
  unfold rust_wf. repeat (apply andb_true_iff; split); try assumption;
    try (apply negb_true_iff; assumption).
  - apply (struct_fields_distinct m src inc o out_ Hwf Hgen Hmn).
  - apply (override_fields_distinct m src inc o out_ Hgen Hwo Hon).
  - apply (group_fields_distinct m src inc o out_ Hwf Hgen).
  - (* attribute tables are distinct: one per vertex input struct, whose names are distinct *)
    apply (vstruct_names_distinct m src inc o out_ Hgen).
Qed.
