(** Structs: which are emitted (C08), with which derives (C09) and assertions (C05). *)
From stdpp Require Import gmap.
From W2W Require Import Wf GenInv Tactics TypeDfs C20Proof C03Link C04Proof StructSpec.
Local Open Scope N_scope.

(** * reachability: the spec's relation, its boolean, and the traversal's set *)
Lemma reach_ty_treach m c h : reach_ty m c h <-> treach m c h.
Proof.
  unfold treach. split.
  - induction 1 as [c i Hi|c i d h Hi Hd _ IH].
    + eapply rt_here; [set_solver|exact Hi].
    + eapply rt_step; [set_solver| |exact IH]. exists i. auto.
  - induction 1 as [c i _ Hi|c d x _ (i & Hi & Hd) _ IH].
    + eapply rty_here; exact Hi.
    + eapply rty_step; eauto.
Qed.

Lemma reach_ty_b_spec m h : wfT m -> forall fuel c, (c < fuel)%nat ->
  reach_ty_b fuel m c h = true <-> reach_ty m c h.
Proof.
  intros Hwf. induction fuel as [|k IH]; intros c Hc; [lia|]. cbn [reach_ty_b].
  destruct (get_inner m c) as [i|] eqn:Hi.
  2:{ split; [discriminate|]. inversion 1; congruence. }
  rewrite orb_true_iff, Nat.eqb_eq. split.
  - intros [<-|Hex]; [eapply rty_here; eauto|].
    apply existsb_exists in Hex as (d & Hd & Hr).
    assert (d < c)%nat by (eapply Hwf; eauto).
    destruct k as [|k']; [lia|]. eapply rty_step; [exact Hi|exact Hd|]. apply (IH d); [lia|exact Hr].
  - inversion 1 as [? i' Hi'|? i' d ? Hi' Hd Hr]; subst; [left; reflexivity|right].
    rewrite Hi in Hi'. inversion Hi'; subst i'.
    assert (d < c)%nat by (eapply Hwf; eauto).
    destruct k as [|k']; [lia|]. apply existsb_exists. exists d. split; [exact Hd|]. apply (IH d); [lia|exact Hr].
Qed.

Lemma host_shareable_b_spec m h :
  wf_types m = true -> wf_global_types m = true ->
  host_shareable_b m h = true <-> h ∈ global_variable_types m.
Proof.
  intros Ht Hg. pose proof (wf_types_wfT m Ht) as Hwf.
  destruct (global_types_spec m Hwf (fun g => wf_global_types_lt m g Hg)) as [Hspec _].
  rewrite Hspec. unfold host_shareable_b. rewrite existsb_exists. split.
  - intros (g & Hin & Hr). exists g. split; [exact Hin|]. apply reach_ty_treach.
    apply (reach_ty_b_spec m h Hwf (length (types m)) (g_ty g)); [apply wf_global_types_lt; assumption|exact Hr].
  - intros (g & Hin & Hr). exists g. split; [exact Hin|].
    apply (reach_ty_b_spec m h Hwf (length (types m)) (g_ty g)); [apply wf_global_types_lt; assumption|].
    apply reach_ty_treach. exact Hr.
Qed.

Lemma host_bool m h :
  wf_types m = true -> wf_global_types m = true ->
  bool_decide (h ∈ global_variable_types m) = host_shareable_b m h.
Proof.
  intros Ht Hg. apply bool_eq_iff. rewrite bool_decide_eq_true. symmetry. apply host_shareable_b_spec; assumption.
Qed.

Lemma struct_wanted_emit m h :
  wf_types m = true -> wf_global_types m = true ->
  struct_wanted m (global_variable_types m) h = emit_b m h.
Proof.
  intros Ht Hg. unfold struct_wanted, emit_b. rewrite (host_bool m h Ht Hg).
  change (is_entry_result m h) with (is_entry_result_b m h).
  change (is_entry_arg m h) with (is_entry_arg_b m h).
  destruct (is_entry_result_b m h), (is_entry_arg_b m h), (host_shareable_b m h); reflexivity.
Qed.

(** * [structs_from] emits one struct per wanted struct type, in order *)
Lemma structs_from_spec m o gvt ts : forall h0 ss,
  structs_from m o gvt h0 ts = Ok ss ->
  Forall2 (fun e s => exists t, rust_struct m o gvt (fst (fst e)) t (snd e) = Ok s /\ t_name t = snd (fst e))
    (flat_map (fun p => match t_inner (snd p) with
                        | TStruct ms _ => if struct_wanted m gvt (fst p) then [(fst p, t_name (snd p), ms)] else []
                        | _ => []
                        end) (indexed ts h0)) ss.
Proof.
  induction ts as [|t rest IH]; intros h0 ss H; cbn [structs_from indexed flat_map] in *.
  - inversion H. constructor.
  - cbn [fst snd]. destruct (t_inner t) eqn:Hi; try (apply IH; exact H).
    destruct (struct_wanted m gvt h0).
    + apply rbind_ok in H as (s & Hs & H). apply rbind_ok in H as (ss' & Hss & H). inversion H; subst ss.
      cbn [app]. constructor; [|apply IH; exact Hss]. exists t. auto.
    + apply IH. exact H.
Qed.

(** * what [rust_struct] produces *)
Lemma struct_members_from_rts m o n ms : forall idx fs,
  struct_members_from m o n idx ms = Ok fs ->
  forall k mem, nth_error ms k = Some mem -> is_rts_array m mem = true -> (idx + k = n - 1)%nat.
Proof.
  induction ms as [|x t IH]; intros idx fs H k mem Hk Hr; [destruct k; discriminate|].
  cbn [struct_members_from] in H. apply rbind_ok in H as (f & Hf & H). apply rbind_ok in H as (fs' & Hfs & H).
  destruct k as [|k]; cbn in Hk.
  - inversion Hk; subst x. unfold struct_member in Hf. unfold is_rts_array, get_inner in Hr.
    destruct (m_name mem); [|discriminate]. destruct (get_ty m (m_ty mem)) as [ty|]; [|discriminate].
    cbn in Hr. destruct (t_inner ty); try discriminate. destruct sz; try discriminate.
    destruct (Nat.eqb_spec idx (n - 1)); [lia|discriminate].
  - specialize (IH (S idx) fs' Hfs k mem Hk Hr). lia.
Qed.

Lemma existsb_rts_last m o ms fs :
  struct_members_from m o (length ms) 0 ms = Ok fs ->
  existsb (is_rts_array m) ms = match rev ms with last :: _ => is_rts_array m last | [] => false end.
Proof.
  intros H. destruct (rev ms) as [|last r] eqn:Er.
  - assert (ms = []) by (apply (f_equal (@rev member)) in Er; rewrite rev_involutive in Er; exact Er). subst. reflexivity.
  - assert (Hms : ms = rev r ++ [last]).
    { apply (f_equal (@rev member)) in Er. rewrite rev_involutive in Er. exact Er. }
    apply bool_eq_iff. rewrite existsb_exists. split.
    + intros (mem & Hin & Hr). apply In_nth_error in Hin as (k & Hk).
      pose proof (struct_members_from_rts m o (length ms) ms 0 fs H k mem Hk Hr) as Hidx.
      rewrite Hms in Hk. rewrite Hms, app_length in Hidx. cbn in Hidx.
      rewrite nth_error_app2 in Hk by lia. replace (k - length (rev r))%nat with 0%nat in Hk by lia.
      cbn in Hk. inversion Hk; subst. exact Hr.
    + intros Hr. exists last. split; [rewrite Hms; apply in_or_app; right; left; reflexivity|exact Hr].
Qed.

Lemma user_members_eq ms :
  filter (fun mem => negb (is_builtin (m_binding mem))) ms = user_members ms.
Proof.
  unfold user_members. induction ms as [|x t IH]; [reflexivity|]. cbn [filter]. rewrite IH.
  destruct (m_binding x) as [[w|l b]|]; reflexivity.
Qed.

Lemma rust_struct_spec m o gvt h t ms s :
  rust_struct m o gvt h t ms = Ok s ->
  let ums := user_members ms in
  let rts := ends_in_rts m ms in
  let host := bool_decide (h ∈ gvt) in
  t_name t = Some (s_name s) /\
  s_derives s = expected_derives o rts host /\
  s_repr_c s = negb rts /\
  s_assert_size s = (if w_bm_host o && host then Some (t_size t) else None) /\
  (if w_bm_host o && host
   then Forall2 (fun mem a => m_name mem = Some (fst a) /\ snd a = m_offset mem) ums (s_assert_offsets s)
   else s_assert_offsets s = []) /\
  Forall2 (fun mem f => m_name mem = Some (fd_name f)) ums (s_fields s).
Proof.
  unfold rust_struct. destruct (t_name t) as [name|]; [|discriminate]. intros H.
  rewrite (user_members_eq ms) in H.
  apply rbind_ok in H as (offsets & Hoff & H). apply rbind_ok in H as (fields & Hf & H).
  pose proof (existsb_rts_last m o (user_members ms) fields Hf) as Hrts.
  change (match rev (user_members ms) with last :: _ => is_rts_array m last | [] => false end)
    with (ends_in_rts m ms) in Hrts.
  rewrite Hrts in H. cbn zeta.
  set (rts := ends_in_rts m ms) in *. set (host := bool_decide (h ∈ gvt)) in *.
  assert (Hoffs : Forall2 (fun mem a => m_name mem = Some (fst a) /\ snd a = m_offset mem) (user_members ms) offsets).
  { apply rmapM_ok in Hoff. clear -Hoff. induction Hoff as [|x y l l' Hxy _ IH]; [constructor|]. constructor; [|exact IH].
    unfold member_offset_assert in Hxy. destruct (m_name x); [|discriminate]. inversion Hxy. auto. }
  assert (Hfields : Forall2 (fun mem f => m_name mem = Some (fd_name f)) (user_members ms) fields).
  { clear -Hf. revert Hf. generalize (length (user_members ms)) as n. generalize 0%nat as idx. revert fields.
    induction (user_members ms) as [|x l IH]; intros fields idx n Hf; cbn in Hf.
    - inversion Hf. constructor.
    - apply rbind_ok in Hf as (f & Hfx & Hf). apply rbind_ok in Hf as (fs & Hfs & Hf). inversion Hf; subst fields.
      constructor; [|eapply IH; exact Hfs]. unfold struct_member in Hfx.
      destruct (m_name x); [|discriminate]. destruct (get_ty m (m_ty x)) as [ty|]; [|discriminate].
      destruct (t_inner ty) eqn:E;
        try (apply rbind_ok in Hfx as (e & _ & Hfx); inversion Hfx; reflexivity).
      destruct sz; try (apply rbind_ok in Hfx as (e & _ & Hfx); inversion Hfx; reflexivity).
      destruct (negb (idx =? n - 1)%nat); [discriminate|]. destruct (get_ty m base); [|discriminate].
      apply rbind_ok in Hfx as (e & _ & Hfx). inversion Hfx. reflexivity. }
  destruct (rts && negb (w_encase o)) eqn:E1; [discriminate|].
  destruct (w_bm_vertex o && negb host && rts) eqn:E2; [discriminate|].
  destruct (w_bm_host o && host && rts) eqn:E3; [discriminate|].
  inversion H; subst s; clear H. cbn.
  split; [reflexivity|]. split; [|split; [reflexivity|split; [reflexivity|split; [|exact Hfields]]]].
  - unfold expected_derives.
    destruct (w_bm_vertex o), (w_bm_host o), (w_encase o), (w_serde o), host, rts; cbn in *; try discriminate; reflexivity.
  - destruct (w_bm_host o && host); [exact Hoffs|reflexivity].
Qed.

(** * The three checkers hold of the generator's structs *)
Section Main.
  Variables (m : module) (o : options) (ss : list out_struct).
  Hypothesis Hwf : wf m = true.
  Hypothesis Hss : structs m o = Ok ss.

  Let Htypes : wf_global_types m = true. Proof. apply (wf_proj m Hwf). Qed.
  Let Hwft : wf_types m = true. Proof. apply (wf_proj m Hwf). Qed.
  Let Hsn : wf_struct_names m = true. Proof. apply (wf_proj m Hwf). Qed.

  Lemma emitted_eq h0 ts :
    flat_map (fun p => match t_inner (snd p) with
                        | TStruct ms _ => if struct_wanted m (global_variable_types m) (fst p) then [(fst p, t_name (snd p), ms)] else []
                        | _ => []
                        end) (indexed ts h0) =
    flat_map (fun p => match t_inner (snd p) with
                     | TStruct ms _ => if emit_b m (fst p) then [(fst p, t_name (snd p), ms)] else []
                     | _ => []
                     end) (indexed ts h0).
  Proof.
    revert h0. induction ts as [|t rest IH]; intros h0; [reflexivity|].
    cbn [indexed flat_map fst snd]. rewrite IH, (struct_wanted_emit m h0 Hwft Htypes). reflexivity.
  Qed.

  Lemma structs_rel :
    Forall2 (fun e s => exists t, rust_struct m o (global_variable_types m) (fst (fst e)) t (snd e) = Ok s
                                  /\ t_name t = snd (fst e) /\ get_ty m (fst (fst e)) = Some t)
            (emitted_structs m) ss.
  Proof.
    unfold structs in Hss. destruct (negb (layouter_ok m)); [discriminate|].
    unfold emitted_structs. rewrite <- emitted_eq.
    assert (Hgen : forall ts h0 ss', structs_from m o (global_variable_types m) h0 ts = Ok ss' ->
      (forall k t, nth_error ts k = Some t -> nth_error (types m) (h0 + k) = Some t) ->
      Forall2 (fun e s => exists t, rust_struct m o (global_variable_types m) (fst (fst e)) t (snd e) = Ok s
                                  /\ t_name t = snd (fst e) /\ get_ty m (fst (fst e)) = Some t)
        (flat_map (fun p => match t_inner (snd p) with
                        | TStruct ms _ => if struct_wanted m (global_variable_types m) (fst p) then [(fst p, t_name (snd p), ms)] else []
                        | _ => []
                        end) (indexed ts h0)) ss').
    { induction ts as [|t rest IH]; intros h0 ss' H Hnth; cbn [structs_from indexed flat_map] in *.
      - inversion H. constructor.
      - assert (Hrest : forall k t', nth_error rest k = Some t' -> nth_error (types m) (S h0 + k) = Some t').
        { intros k t' Hk. specialize (Hnth (S k) t' Hk). rewrite <- Hnth. f_equal. lia. }
        cbn [fst snd]. destruct (t_inner t) eqn:Hi; try (apply IH; [exact H|exact Hrest]).
        destruct (struct_wanted m (global_variable_types m) h0).
        + apply rbind_ok in H as (s & Hs & H). apply rbind_ok in H as (ss'' & Hss' & H). inversion H; subst ss'.
          cbn [app]. constructor; [|apply IH; [exact Hss'|exact Hrest]]. exists t. cbn. split; [exact Hs|]. split; [reflexivity|].
          specialize (Hnth 0%nat t eq_refl). rewrite Nat.add_0_r in Hnth. exact Hnth.
        + apply IH; [exact H|exact Hrest]. }
    apply (Hgen (types m) 0%nat ss Hss). intros k t Hk. exact Hk.
  Qed.

  Definition srel (e : nat * option string * list member) (s : out_struct) : Prop :=
    exists t, rust_struct m o (global_variable_types m) (fst (fst e)) t (snd e) = Ok s
              /\ t_name t = snd (fst e) /\ get_ty m (fst (fst e)) = Some t.

  Lemma C09_of_rel es ss' : Forall2 srel es ss' -> forallb2 (struct_derives_ok m o) es ss' = true.
  Proof.
    intros H. induction H as [|e s l l' (t & Hrs & Hn & Ht) _ IH]; [reflexivity|].
    cbn [forallb2]. rewrite IH, andb_true_r. destruct e as [[h n] ms]. cbn [fst snd] in *.
    destruct (rust_struct_spec _ _ _ _ _ _ _ Hrs) as (_ & Hd & Hr & Has & Hao & _). cbn zeta in *.
    rewrite (host_bool m h Hwft Htypes) in *.
    unfold struct_derives_ok. rewrite Hd, Hr, Has. rewrite !andb_true_iff. repeat split.
    - apply (list_eqb_spec String.eqb String.eqb_eq). reflexivity.
    - destruct (ends_in_rts m ms); reflexivity.
    - destruct (w_bm_host o && host_shareable_b m h); reflexivity.
    - destruct (w_bm_host o && host_shareable_b m h); [reflexivity|]. rewrite Hao. reflexivity.
  Qed.

  Theorem C09_ok_structs : forallb2 (struct_derives_ok m o) (emitted_structs m) ss = true.
  Proof. apply C09_of_rel. exact structs_rel. Qed.

  Lemma C05_of_rel es ss' : Forall2 srel es ss' -> forallb2 (struct_asserts_ok m o) es ss' = true.
  Proof.
    intros H. induction H as [|e s l l' (t & Hrs & Hn & Ht) _ IH]; [reflexivity|].
    cbn [forallb2]. rewrite IH, andb_true_r. destruct e as [[h n] ms]. cbn [fst snd] in *.
    destruct (rust_struct_spec _ _ _ _ _ _ _ Hrs) as (_ & _ & _ & Has & Hao & _). cbn zeta in *.
    rewrite (host_bool m h Hwft Htypes) in *.
    unfold struct_asserts_ok. destruct (w_bm_host o && host_shareable_b m h); [|reflexivity].
    rewrite Ht, Has. cbn [option_eqb]. rewrite N.eqb_refl. cbn [andb].
    clear -Hao. induction Hao as [|mem a l l' [Hn Ho] _ IH]; [reflexivity|].
    cbn [forallb2]. rewrite Hn, Ho, String.eqb_refl, N.eqb_refl, IH. reflexivity.
  Qed.

  Theorem C05_ok_structs : forallb2 (struct_asserts_ok m o) (emitted_structs m) ss = true.
  Proof. apply C05_of_rel. exact structs_rel. Qed.

  Lemma names_of_rel es ss' : Forall2 srel es ss' ->
    map (fun e => snd (fst e)) es = map (fun s => Some (s_name s)) ss'.
  Proof.
    intros H. induction H as [|e s l l' (t & Hrs & Hn & Ht) _ IH]; [reflexivity|].
    cbn [map]. rewrite IH. f_equal. destruct e as [[h n] ms]. cbn [fst snd] in *.
    destruct (rust_struct_spec _ _ _ _ _ _ _ Hrs) as (Hname & _). congruence.
  Qed.

  Lemma names_rel : map (fun e => snd (fst e)) (emitted_structs m) = map (fun s => Some (s_name s)) ss.
  Proof. apply names_of_rel. exact structs_rel. Qed.

  Lemma C08_names_of_rel es ss' : Forall2 srel es ss' ->
    forallb2 (fun e s => match snd (fst e) with Some n => String.eqb (s_name s) n | None => false end) es ss' = true.
  Proof.
    intros H. induction H as [|e s l l' (t & Hrs & Hn & Ht) _ IH]; [reflexivity|].
    cbn [forallb2]. rewrite IH, andb_true_r. destruct e as [[h n] ms]. cbn [fst snd] in *.
    destruct (rust_struct_spec _ _ _ _ _ _ _ Hrs) as (Hname & _). rewrite <- Hn, Hname. apply String.eqb_refl.
  Qed.

  (** names of the emitted structs are a sub-sequence of the (distinct) struct names of the arena *)
  Lemma emitted_names_sub : forall ts h0,
    exists keep : list bool,
      flat_map (fun e : nat * option string * list member => match snd (fst e) with Some n => [n] | None => [] end)
        (flat_map (fun p : nat * ty => match t_inner (snd p) with
                     | TStruct ms _ => if emit_b m (fst p) then [(fst p, t_name (snd p), ms)] else []
                     | _ => []
                     end) (indexed ts h0)) =
      flat_map (fun x : bool * string => if fst x then [snd x] else [])
        (combine keep (flat_map (fun t => match t_inner t, t_name t with TStruct _ _, Some n => [n] | _, _ => [] end) ts))
      /\ length keep = length (flat_map (fun t => match t_inner t, t_name t with TStruct _ _, Some n => [n] | _, _ => [] end) ts).
  Proof.
    induction ts as [|t rest IH]; intros h0; [exists []; split; reflexivity|].
    destruct (IH (S h0)) as (keep & Heq & Hlen). cbn [indexed flat_map fst snd].
    destruct (t_inner t) eqn:Hi; try (exists keep; split; [exact Heq|exact Hlen]).
    destruct (t_name t) as [n|] eqn:Hn.
    - destruct (emit_b m h0).
      + exists (true :: keep). cbn. split; [rewrite Heq; reflexivity|lia].
      + exists (false :: keep). cbn. split; [rewrite Heq; reflexivity|lia].
    - destruct (emit_b m h0); cbn; exists keep; split; assumption.
  Qed.

  Lemma NoDup_subseq (l : list string) : forall keep,
    List.NoDup l -> List.NoDup (flat_map (fun x : bool * string => if fst x then [snd x] else []) (combine keep l)).
  Proof.
    induction l as [|x t IH]; intros keep Hnd; [destruct keep; constructor|].
    destruct keep as [|b keep]; [constructor|]. inversion Hnd; subst. cbn [combine flat_map fst snd].
    destruct b; cbn [app]; [|apply IH; assumption].
    constructor; [|apply IH; assumption]. intros Hin. apply H1.
    apply in_flat_map in Hin as ((b & y) & Hin & Hy). cbn in Hy. destruct b; [|contradiction].
    destruct Hy as [<-|[]]. apply in_combine_r in Hin. exact Hin.
  Qed.

  Theorem C08_ok_structs :
    forallb2 (fun e s => match snd (fst e) with Some n => String.eqb (s_name s) n | None => false end)
             (emitted_structs m) ss = true
    /\ str_nodup (map s_name ss) = true.
  Proof.
    split.
    - apply C08_names_of_rel. exact structs_rel.
    - apply C04Proof.str_nodup_of_NoDup.
      assert (Hnames : map s_name ss =
        flat_map (fun e : nat * option string * list member => match snd (fst e) with Some n => [n] | None => [] end) (emitted_structs m)).
      { pose proof names_rel as Hr. revert Hr. generalize (emitted_structs m) as es. generalize ss as l0.
        induction l0 as [|s l IH]; intros [|e es] Hr; try discriminate; [reflexivity|].
        cbn in Hr. inversion Hr as [[He Hrest]]. cbn. rewrite He. cbn. f_equal. apply IH. exact Hrest. }
      rewrite Hnames. unfold emitted_structs.
      destruct (emitted_names_sub (types m) 0%nat) as (keep & -> & _).
      apply NoDup_subseq. unfold wf_struct_names in Hsn. apply andb_true_iff in Hsn as [_ Hnd].
      apply str_nodup_spec in Hnd. exact Hnd.
  Qed.
End Main.
