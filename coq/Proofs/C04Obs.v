(** C04 at the level of observations: what the generated code hands to the device / does on a pass. *)
From W2W Require Import Wf GenInv Tactics C04Spec C04Proof C03Link Obs.
Local Open Scope N_scope.

Lemma forallb2_length {A B} (f : A -> B -> bool) l l' : C04Spec.forallb2 f l l' = true -> length l = length l'.
Proof.
  revert l'. induction l as [|x t IH]; intros [|y t'] H; cbn in H; try discriminate; [reflexivity|].
  apply andb_true_iff in H as [_ H]. cbn. f_equal. apply IH. exact H.
Qed.

Lemma res_kind_eqb_eq a b : res_kind_eqb a b = true -> a = b.
Proof. destruct a, b; cbn; congruence. Qed.

(** all variables of the group are named and kinded, and the bind entries are exactly their (binding, name, kind) *)
Lemma bind_entries_named vars es :
  C04Spec.forallb2 bind_entry_matches vars es = true ->
  flat_map (fun v => match v with (Some n, Some k, b) => [(b, n, k)] | _ => [] end) vars
  = map (fun e => (be_binding e, be_field e, be_kind e)) es /\
  length (flat_map (fun v : option string * option res_kind * N => match v with (Some n, Some k, b) => [(b, n, k)] | _ => [] end) vars) = length vars.
Proof.
  revert es. induction vars as [|[[on ok] b] t IH]; intros [|e es] H; cbn in H; try discriminate; [split; reflexivity|].
  apply andb_true_iff in H as [He H]. destruct (IH es H) as [IH1 IH2].
  destruct on as [n|]; [|discriminate]. destruct ok as [k|]; [|discriminate].
  apply andb_true_iff in He as [He Hb]. apply andb_true_iff in He as [Hn Hk].
  apply String.eqb_eq in Hn. apply res_kind_eqb_eq in Hk. apply N.eqb_eq in Hb.
  cbn. split; [rewrite IH1; subst; reflexivity|rewrite IH2; reflexivity].
Qed.

Lemma fields_named vars fs :
  C04Spec.forallb2 field_matches vars fs = true ->
  map (fun v => (fst (fst v), snd (fst v))) vars = map (fun f : string * res_kind => (Some (fst f), Some (snd f))) fs.
Proof.
  revert fs. induction vars as [|[[on ok] b] t IH]; intros [|f fs] H; cbn in H; try discriminate; [reflexivity|].
  apply andb_true_iff in H as [Hf H]. destruct on as [n|]; [|discriminate]. destruct ok as [k|]; [|discriminate].
  apply andb_true_iff in Hf as [Hn Hk]. apply String.eqb_eq in Hn. apply res_kind_eqb_eq in Hk.
  cbn. rewrite (IH fs H). subst. reflexivity.
Qed.

Lemma nn_list_eq a b : list_eqb nn_eqb a b = true -> a = b.
Proof.
  apply list_eqb_spec. intros [x1 x2] [y1 y2]. unfold nn_eqb, pair_eqb. cbn. rewrite andb_true_iff, !N.eqb_eq.
  split; [intros [-> ->]; reflexivity|intros E; inversion E; auto].
Qed.
Lemma n_list_eq a b : list_eqb N.eqb a b = true -> a = b.
Proof. apply list_eqb_spec. intros x y. apply N.eqb_eq. Qed.

Section Obs.
  Variables (m : module) (out_ : out) (bg : out_bind_groups).
  Hypothesis Hok : C04_ok m out_ = true.
  Hypothesis Hbg : o_bind_groups out_ = Some bg.

  Let n := length (bg_groups bg).
  Let idx := N_range 0 n.

  Lemma parts :
    forallb (group_ok m) (bg_groups bg) = true /\ map og_no (bg_groups bg) = idx /\
    bg_struct_fields bg = map (fun k => (k, k)) idx /\ bg_struct_set bg = idx /\
    bg_fn_params bg = map (fun k => (k, k)) idx /\ bg_fn_set bg = idx /\ o_pl_groups out_ = idx.
  Proof.
    unfold C04_ok in Hok. rewrite Hbg in Hok. fold n in Hok. fold idx in Hok.
    repeat (apply andb_true_iff in Hok as [Hok ?]).
    repeat split; try (apply n_list_eq; assumption); try (apply nn_list_eq; assumption). assumption.
  Qed.

  Lemma group_parts og : In og (bg_groups bg) ->
    C04Spec.forallb2 field_matches (group_vars m (og_no og)) (og_layout_fields og) = true /\
    C04Spec.forallb2 bind_entry_matches (group_vars m (og_no og)) (og_bind_entries og) = true /\
    map oe_binding (og_entries og) = map be_binding (og_bind_entries og) /\
    og_desc_no og = og_no og /\ og_from_desc_no og = og_no og /\ og_get_layout_desc_no og = og_no og /\
    og_set_index og = og_no og /\ og_from_param_no og = og_no og /\ og_layout_struct_no og = og_no og.
  Proof.
    intros Hin. destruct parts as [Hall _]. rewrite forallb_forall in Hall. specialize (Hall og Hin).
    unfold group_ok in Hall. repeat (apply andb_true_iff in Hall as [Hall ?]).
    repeat match goal with H : (_ =? _) = true |- _ => apply N.eqb_eq in H end.
    repeat split; try assumption. apply n_list_eq. assumption.
  Qed.

  (** group numbers are distinct, so a number finds its group *)
  Lemma N_range_nodup s k : NoDup (N_range s k).
  Proof.
    revert s. induction k as [|k IH]; intros s; cbn; constructor; [|apply IH].
    assert (H : forall k s x, In x (N_range s k) -> s <= x).
    { clear. induction k as [|k IH]; intros s x; cbn; [intros []|]. intros [<-|Hx]; [lia|]. specialize (IH _ _ Hx). lia. }
    intros Hc. specialize (H _ _ _ Hc). lia.
  Qed.

  Lemma find_by_no k : In k idx -> exists og, find_group bg k = Some og /\ og_no og = k /\ In og (bg_groups bg).
  Proof.
    intros Hk. destruct parts as (_ & Hnos & _). rewrite <- Hnos in Hk. apply in_map_iff in Hk as (og0 & Hno & Hin0).
    unfold find_group. destruct (find (fun g => og_no g =? k) (bg_groups bg)) as [og|] eqn:E.
    - apply find_some in E as [Hin He]. apply N.eqb_eq in He. exists og. auto.
    - exfalso. apply (find_none _ _ E) in Hin0. rewrite Hno, N.eqb_refl in Hin0. discriminate.
  Qed.

  Lemma find_desc_by_no k : In k idx -> exists og, find_desc bg k = Some og /\ og_no og = k /\ In og (bg_groups bg).
  Proof.
    intros Hk. destruct (find_by_no k Hk) as (og0 & _ & Hno0 & Hin0).
    unfold find_desc. destruct (find (fun g => og_desc_no g =? k) (bg_groups bg)) as [og|] eqn:E.
    - apply find_some in E as [Hin He]. apply N.eqb_eq in He. exists og. repeat split; auto.
      destruct (group_parts og Hin) as (_ & _ & _ & Hd & _). congruence.
    - exfalso. pose proof (find_none _ _ E _ Hin0) as Hf. cbn beta in Hf.
      destruct (group_parts og0 Hin0) as (_ & _ & _ & Hd & _).
      rewrite Hd, Hno0, N.eqb_refl in Hf. discriminate.
  Qed.

  Lemma no_in_idx og : In og (bg_groups bg) -> In (og_no og) idx.
  Proof. intros H. destruct parts as (_ & Hnos & _). rewrite <- Hnos. apply in_map. exact H. Qed.

  (** the group with a given number is unique *)
  Lemma group_unique og og' : In og (bg_groups bg) -> In og' (bg_groups bg) -> og_no og = og_no og' -> og = og'.
  Proof.
    destruct parts as (_ & Hnos & _). pose proof (N_range_nodup 0 n) as Hnd. fold idx in Hnd. rewrite <- Hnos in Hnd.
    clear -Hnd. induction (bg_groups bg) as [|g t IH]; intros Hi Hi' E; [contradiction|].
    cbn in Hnd. inversion Hnd as [|? ? Hni Hnd']; subst.
    destruct Hi as [<-|Hi], Hi' as [<-|Hi']; auto.
    - exfalso. apply Hni. rewrite E. apply in_map. exact Hi'.
    - exfalso. apply Hni. rewrite <- E. apply in_map. exact Hi.
  Qed.

  (** * building group N *)
  Theorem from_bindings_obs og : In og (bg_groups bg) ->
    obs_from_bindings bg og =
      Some (map (fun x => fst (fst x)) (named_vars m (og_no og)), named_vars m (og_no og)) /\
    length (named_vars m (og_no og)) = length (group_vars m (og_no og)) /\
    map (fun v => (fst (fst v), snd (fst v))) (group_vars m (og_no og))
      = map (fun f : string * res_kind => (Some (fst f), Some (snd f))) (og_layout_fields og) /\
    str_nodup (map fst (og_layout_fields og)) = true.
  Proof.
    intros Hin. destruct (group_parts og Hin) as (Hf & Hb & Hidx & Hd & Hfd & _).
    destruct (bind_entries_named _ _ Hb) as [Hnv Hlen]. fold (named_vars m (og_no og)) in Hnv, Hlen.
    unfold obs_from_bindings. rewrite Hfd.
    destruct (find_desc_by_no (og_no og) (no_in_idx og Hin)) as (d & Hfind & Hdno & Hdin).
    rewrite Hfind. rewrite (group_unique d og Hdin Hin Hdno).
    repeat split; [|exact Hlen|apply fields_named; exact Hf|].
    - rewrite Hnv, Hidx, map_map. reflexivity.
    - destruct parts as [Hall _]. rewrite forallb_forall in Hall. specialize (Hall og Hin). unfold group_ok in Hall.
      repeat (apply andb_true_iff in Hall as [Hall ?]). assumption.
  Qed.

  (** * setting group N alone *)
  Theorem set_obs og : In og (bg_groups bg) -> obs_set og = (og_no og, og_no og).
  Proof. intros Hin. destruct (group_parts og Hin) as (_ & _ & _ & _ & _ & _ & Hs & _). unfold obs_set. rewrite Hs. reflexivity. Qed.

  (** * setting all groups *)
  Lemma set_via_idx : obs_set_via bg (map (fun k => (k, k)) idx) idx = Some (map (fun k => (k, k)) idx).
  Proof.
    unfold obs_set_via.
    assert (H : forall l, incl l idx -> NoDup l ->
              omapM (fun a => match find (fun p : N * N => fst p =? a) (map (fun k => (k, k)) idx) with
                              | Some p => option_map obs_set (find_group bg (snd p)) | None => None end) l
              = Some (map (fun k => (k, k)) l)).
    { induction l as [|a t IH]; intros Hincl Hnd; [reflexivity|]. cbn [omapM map].
      inversion Hnd; subst. rewrite (IH (fun x Hx => Hincl x (or_intror Hx)) H2).
      assert (Ha : In a idx) by (apply Hincl; left; reflexivity).
      destruct (find (fun p : N * N => fst p =? a) (map (fun k => (k, k)) idx)) as [p|] eqn:E.
      - apply find_some in E as [Hp He]. apply N.eqb_eq in He. apply in_map_iff in Hp as (k & <- & Hk). cbn in He. subst k. cbn [snd].
        destruct (find_by_no a Ha) as (og & Hf & Hno & Hin). rewrite Hf. cbn. rewrite (set_obs og Hin), Hno. reflexivity.
      - exfalso. assert (Hin : In (a, a) (map (fun k => (k, k)) idx)) by (apply in_map_iff; exists a; auto).
        apply (find_none _ _ E) in Hin. cbn in Hin. rewrite N.eqb_refl in Hin. discriminate. }
    apply H; [apply incl_refl|apply N_range_nodup].
  Qed.

  Theorem bindgroups_set_obs : obs_bindgroups_set bg = Some (map (fun k => (k, k)) idx).
  Proof. unfold obs_bindgroups_set. destruct parts as (_ & _ & -> & -> & _). apply set_via_idx. Qed.

  Theorem set_bind_groups_obs : obs_set_bind_groups bg = Some (map (fun k => (k, k)) idx).
  Proof. unfold obs_set_bind_groups. destruct parts as (_ & _ & _ & _ & -> & -> & _). apply set_via_idx. Qed.

  (** * the pipeline layout *)
  Theorem pipeline_layout_obs :
    obs_pipeline_layout out_ = Some (map (fun k => (k, map (fun x => fst (fst x)) (named_vars m k))) idx).
  Proof.
    unfold obs_pipeline_layout. rewrite Hbg. destruct parts as (_ & _ & _ & _ & _ & _ & ->).
    assert (H : forall l, incl l idx ->
              omapM (fun k => match find_group bg k with
                              | Some g => match find_desc bg (og_get_layout_desc_no g) with
                                          | Some d => Some (og_no d, map oe_binding (og_entries d)) | None => None end
                              | None => None end) l
              = Some (map (fun k => (k, map (fun x => fst (fst x)) (named_vars m k))) l)).
    { induction l as [|a t IH]; intros Hincl; [reflexivity|]. cbn [omapM map].
      rewrite (IH (fun x Hx => Hincl x (or_intror Hx))).
      assert (Ha : In a idx) by (apply Hincl; left; reflexivity).
      destruct (find_by_no a Ha) as (og & Hf & Hno & Hin). rewrite Hf.
      destruct (group_parts og Hin) as (_ & Hb & Hidx & _ & _ & Hg & _). rewrite Hg.
      destruct (find_desc_by_no (og_no og) (no_in_idx og Hin)) as (d & Hfind & Hdno & Hdin). rewrite Hfind.
      rewrite (group_unique d og Hdin Hin Hdno), Hno.
      destruct (bind_entries_named _ _ Hb) as [Hnv _]. fold (named_vars m (og_no og)) in Hnv. rewrite Hno in Hnv.
      rewrite Hidx, Hnv, map_map. reflexivity. }
    apply H. apply incl_refl.
  Qed.
End Obs.
