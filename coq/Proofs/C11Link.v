(** C11: the executable checker [C11_ok] holds of whatever [gen] returns. *)
From Coq Require Import Sorted.
From W2W Require Import Gen GenInv NoErr C11Proof C11Spec.
Local Open Scope N_scope.

(** ** the spec-side enumeration of bound variables agrees with [bvars] *)
Lemma pairs_bvars_from m gs : forall h,
  global_types_ok m gs = true ->
  map pair_of (bvars_from m gs h) =
  map fst (flat_map (fun g => match g_binding g with
                              | Some (grp, b) => [(grp, b, g_name g)]
                              | None => []
                              end) gs).
Proof.
  induction gs as [|g t IH]; intros h Hok; cbn [bvars_from flat_map map]; [reflexivity|].
  cbn [global_types_ok forallb] in Hok. apply andb_true_iff in Hok as [Hg Ht].
  destruct (g_binding g) as [[grp b]|]; [|cbn; apply IH; exact Ht].
  destruct (get_ty m (g_ty g)); [|discriminate].
  cbn. f_equal. apply IH. exact Ht.
Qed.

Lemma pairs_bvars m : global_types_ok m (globals m) = true -> pairs m = map pair_of (bvars m).
Proof. intros H. unfold pairs, bound_globals, bvars. symmetry. apply pairs_bvars_from. exact H. Qed.

Lemma bindings_in_from m gs g : forall h,
  global_types_ok m gs = true ->
  map gb_index (bindings_of g (bvars_from m gs h)) =
  map (fun x => snd (fst x))
      (filter (fun x => fst (fst x) =? g)
         (flat_map (fun g => match g_binding g with
                             | Some (grp, b) => [(grp, b, g_name g)]
                             | None => []
                             end) gs)).
Proof.
  induction gs as [|gl t IH]; intros h Hok; cbn [bvars_from flat_map]; [reflexivity|].
  cbn [global_types_ok forallb] in Hok. apply andb_true_iff in Hok as [Hg Ht].
  destruct (g_binding gl) as [[grp b]|]; [|cbn; apply IH; exact Ht].
  destruct (get_ty m (g_ty gl)); [|discriminate].
  unfold bindings_of in *. cbn [filter app bv_group fst]. destruct (grp =? g); cbn; [f_equal|]; apply IH; exact Ht.
Qed.

Lemma bindings_in_bvars m g :
  global_types_ok m (globals m) = true ->
  bindings_in m g = map gb_index (bindings_of g (bvars m)).
Proof. intros H. unfold bindings_in, bound_globals, bvars. symmetry. apply bindings_in_from. exact H. Qed.

(** ** [first_dup] *)
Lemma nn_eqb_eq p q : nn_eqb p q = true <-> p = q.
Proof.
  destruct p as [a b], q as [c d]. unfold nn_eqb, pair_eqb. cbn.
  rewrite andb_true_iff, !N.eqb_eq. split; [intros [-> ->]; reflexivity|intros H; inversion H; auto].
Qed.

Lemma existsb_nn p l : existsb (nn_eqb p) l = true <-> In p l.
Proof.
  rewrite existsb_exists. split.
  - intros (q & Hq & He). apply nn_eqb_eq in He. subst. exact Hq.
  - intros H. exists p. split; [exact H|apply nn_eqb_eq; reflexivity].
Qed.

Lemma first_dup_spec l : forall seen, NoDup seen ->
  match first_dup seen l with
  | Some b => exists l1 p l2, l = l1 ++ p :: l2 /\ b = snd p /\ In p (seen ++ l1) /\ NoDup (seen ++ l1)
  | None => NoDup (seen ++ l)
  end.
Proof.
  induction l as [|p t IH]; intros seen Hnd; cbn [first_dup].
  - rewrite app_nil_r. exact Hnd.
  - destruct (existsb (nn_eqb p) seen) eqn:E.
    + apply existsb_nn in E. exists [], p, t. rewrite app_nil_r. auto.
    + assert (Hnin : ~ In p seen) by (rewrite <- existsb_nn, E; discriminate).
      specialize (IH (seen ++ [p]) (NoDup_snoc seen p Hnd Hnin)).
      destruct (first_dup (seen ++ [p]) t) as [b|].
      * destruct IH as (l1 & q & l2 & -> & -> & Hin & Hnd').
        exists (p :: l1), q, l2. rewrite <- app_assoc in Hin, Hnd'. auto.
      * rewrite <- app_assoc in IH. exact IH.
Qed.

Lemma app_split_shorter {A} (l1 l1' : list A) x y r r' :
  l1 ++ x :: r = l1' ++ y :: r' -> (length l1 < length l1')%nat -> exists r'', l1' = l1 ++ x :: r''.
Proof.
  revert l1'. induction l1 as [|a t IH]; intros [|c l1'] Heq Hlt; cbn in *; try lia.
  - inversion Heq; subst. eauto.
  - inversion Heq; subst. destruct (IH l1' H1 ltac:(lia)) as (r'' & ->). eauto.
Qed.

Lemma app_split_same {A} (l1 l1' : list A) x y r r' :
  l1 ++ x :: r = l1' ++ y :: r' -> length l1 = length l1' -> l1 = l1' /\ x = y.
Proof.
  revert l1'. induction l1 as [|a t IH]; intros [|c l1'] Heq Hlen; cbn in *; try lia.
  - inversion Heq; auto.
  - inversion Heq; subst. destruct (IH l1' H1 ltac:(lia)) as [-> ->]. auto.
Qed.

(** the first element that repeats an earlier one is unique *)
Lemma first_repeat_unique {A} (l1 l1' : list A) x y r r' :
  l1 ++ x :: r = l1' ++ y :: r' -> In x l1 -> NoDup l1 -> In y l1' -> NoDup l1' -> l1 = l1' /\ x = y.
Proof.
  intros Heq Hx Hnd Hy Hnd'.
  destruct (Nat.lt_trichotomy (length l1) (length l1')) as [Hlt|[Hlen|Hgt]].
  - exfalso. destruct (app_split_shorter _ _ _ _ _ _ Heq Hlt) as (r'' & ->).
    apply NoDup_remove_2 in Hnd'. apply Hnd'. apply in_or_app. left. exact Hx.
  - apply (app_split_same _ _ _ _ _ _ Heq Hlen).
  - exfalso. symmetry in Heq. destruct (app_split_shorter _ _ _ _ _ _ Heq Hgt) as (r'' & ->).
    apply NoDup_remove_2 in Hnd. apply Hnd. apply in_or_app. left. exact Hy.
Qed.

(** ** [dense_b] *)
Lemma N_range_seq a n : N_range a n = N_seq a n.
Proof. revert a. induction n as [|n IH]; intros a; cbn; [reflexivity|]. rewrite IH. reflexivity. Qed.

Lemma NoDup_N_seq n : forall a, NoDup (N_seq a n).
Proof.
  induction n as [|n IH]; intros a; cbn [N_seq]; constructor; [|apply IH].
  rewrite In_N_seq. lia.
Qed.

Lemma N_seq_length a n : length (N_seq a n) = n.
Proof. revert a. induction n as [|n IH]; intros a; cbn; [reflexivity|]. rewrite IH. reflexivity. Qed.

Lemma dense_b_spec (vs : list bvar) : dense_b (map bv_group vs) = true <-> dense vs.
Proof.
  unfold dense_b, dense. rewrite existsb_exists. split.
  - intros (n & _ & H). apply andb_true_iff in H as [H1 H2].
    rewrite forallb_forall in H1, H2. exists (N.of_nat n). intros g. split.
    + intros Hg. apply N.ltb_lt. apply H1. exact Hg.
    + intros Hg. assert (Hin : In g (N_range 0 n)) by (rewrite N_range_seq, In_N_seq; lia).
      apply H2 in Hin. apply existsb_exists in Hin as (k & Hk & He). apply N.eqb_eq in He. subst. exact Hk.
  - intros (n & Hn).
    assert (Hincl : incl (N_seq 0 (N.to_nat n)) (map bv_group vs)).
    { intros g Hg. apply In_N_seq in Hg. apply Hn. lia. }
    pose proof (NoDup_incl_length (NoDup_N_seq (N.to_nat n) 0) Hincl) as Hlen.
    rewrite N_seq_length in Hlen.
    exists (N.to_nat n). split; [apply in_seq; lia|].
    apply andb_true_iff. split; apply forallb_forall.
    + intros g Hg. apply N.ltb_lt. apply Hn in Hg. lia.
    + intros k Hk. rewrite N_range_seq in Hk. apply Hincl in Hk.
      apply existsb_exists. exists k. split; [exact Hk|apply N.eqb_refl].
Qed.

(** ** the groups of the output *)
Lemma find_of_In (gs : groups) k bs :
  NoDup (map fst gs) -> In (k, bs) gs -> find k gs = Some bs.
Proof.
  induction gs as [|[k' l] t IH]; intros Hnd Hin; [contradiction|].
  cbn in Hnd. inversion Hnd; subst. cbn [find]. destruct Hin as [Heq|Hin].
  - inversion Heq; subst. rewrite N.eqb_refl. reflexivity.
  - destruct (N.eqb_spec k k') as [->|_]; [|apply IH; assumption].
    exfalso. apply H1. apply in_map_iff. exists (k', bs). auto.
Qed.

Lemma StronglySorted_lt_NoDup (l : list N) : StronglySorted N.lt l -> NoDup l.
Proof.
  induction 1 as [|x t Hs IH Hall]; constructor; [|exact IH].
  rewrite Forall_forall in Hall. intros Hin. specialize (Hall _ Hin). lia.
Qed.

Lemma gen_group_fields M k bs og :
  gen_group M (k, bs) = Ok og ->
  og_no og = k /\ map oe_binding (og_entries og) = map gb_index bs
  /\ map be_binding (og_bind_entries og) = map gb_index bs.
Proof.
  unfold gen_group. intros H.
  apply rbind_ok in H as (fields & Hf & H).
  apply rbind_ok in H as (entries & He & H).
  apply rbind_ok in H as (bents & Hb & H). inversion H; subst og; clear H. cbn.
  split; [reflexivity|]. split.
  - symmetry. eapply Forall2_map_eq; [apply rmapM_ok; exact He|].
    intros x y Hxy. unfold bind_group_layout_entry in Hxy.
    apply rbind_ok in Hxy as (ty & _ & Hxy). inversion Hxy. reflexivity.
  - symmetry. eapply Forall2_map_eq; [apply rmapM_ok; exact Hb|].
    intros x y Hxy. unfold bind_entry in Hxy.
    destruct (gb_name x); [|discriminate]. destruct (resource_kind (gb_inner x)); [|discriminate].
    inversion Hxy. reflexivity.
Qed.

Theorem C11_ok_gen m src inc o :
  global_types_ok m (globals m) = true -> C11_ok m false (gen m src inc o) = true.
Proof.
  intros Hwf. pose proof (pairs_bvars m Hwf) as Hpairs.
  pose proof (first_dup_spec (pairs m) [] (NoDup_nil _)) as Hfd. cbn [app] in Hfd.
  pose proof (gbd_outcomes m Hwf) as Hout.
  unfold C11_ok.
  destruct (get_bind_group_data m) as [bgd|e|w] eqn:Hbgd; try contradiction.
  - (* the stage succeeded: pairs unique, groups dense *)
    assert (Hok : NoDup (map pair_of (bvars m)) /\ dense (bvars m)) by (apply gbd_ok_iff; eauto).
    destruct Hok as [Hnd Hdense].
    assert (Hfd' : first_dup [] (pairs m) = None).
    { destruct (first_dup [] (pairs m)) as [b|]; [|reflexivity]. exfalso.
      destruct Hfd as (l1 & p & l2 & Heq & _ & Hin & _). rewrite Hpairs in Heq.
      rewrite Heq in Hnd. apply NoDup_remove_2 in Hnd. apply Hnd. apply in_or_app. left. exact Hin. }
    assert (Hdb : dense_b (map fst (pairs m)) = true).
    { rewrite Hpairs, map_map. cbn [pair_of fst]. apply dense_b_spec. exact Hdense. }
    destruct (gen m src inc o) as [out_|e|w] eqn:Hgen.
    + rewrite Hfd', Hdb. cbn [negb].
      destruct (gen_inv _ _ _ _ _ Hgen) as [bgd' pc Hb _ _ Hbgm _ _ _ _ _ _ _ _ _ _ Hpl _ _].
      rewrite Hbgd in Hb. inversion Hb; subst bgd'; clear Hb.
      destruct (gbd_ok_content m Hwf bgd Hbgd) as (Hkeys & Hsorted & Hfind).
      unfold bind_groups_module in Hbgm. apply rbind_ok in Hbgm as (ogs & Hogs & Hbgm).
      assert (Hgroups : groups_of out_ = ogs).
      { unfold groups_of. destruct ogs; inversion Hbgm; reflexivity. }
      rewrite Hgroups. pose proof (rmapM_ok _ _ _ Hogs) as HF.
      assert (Hnos : map og_no ogs = map fst bgd).
      { symmetry. eapply Forall2_map_eq; [exact HF|]. intros [k bs] og Hg.
        apply gen_group_fields in Hg as (Hno & _). cbn. congruence. }
      assert (Hlen : length ogs = length bgd) by (eapply rmapM_length; eauto).
      rewrite !andb_true_iff. repeat split.
      * apply (list_eqb_spec N.eqb N.eqb_eq). rewrite Hnos, N_range_seq, Hlen. exact Hkeys.
      * apply (list_eqb_spec N.eqb N.eqb_eq). rewrite Hpl, N_range_seq, Hlen. exact Hkeys.
      * apply forallb_forall. intros og Hog.
        assert (exists k bs, In (k, bs) bgd /\ gen_group (global_shader_stages m) (k, bs) = Ok og)
          as (k & bs & Hin & Hg).
        { clear -HF Hog. induction HF as [|[k bs] y l l' Hxy HF IH]; [contradiction|].
          destruct Hog as [<-|Hog]; [exists k, bs; split; [left; reflexivity|exact Hxy]|].
          destruct (IH Hog) as (k' & bs' & Hin & Hg). exists k', bs'. split; [right; exact Hin|exact Hg]. }
        apply gen_group_fields in Hg as (Hno & He & Hb).
        assert (Hbs : bs = bindings_of k (bvars m)).
        { pose proof (find_of_In bgd k bs (StronglySorted_lt_NoDup _ Hsorted) Hin) as Hf.
          rewrite Hfind in Hf. destruct (bindings_of k (bvars m)); inversion Hf; reflexivity. }
        unfold group_ok. rewrite Hno, (bindings_in_bvars m k Hwf), He, Hb, Hbs.
        apply andb_true_iff; split; apply (list_eqb_spec N.eqb N.eqb_eq); reflexivity.
      * apply forallb_forall. intros g Hg. apply existsb_exists.
        rewrite Hpairs, map_map in Hg. cbn [pair_of fst] in Hg.
        assert (Hk : In g (map fst bgd)).
        { apply (keys_of_Inv bgd (bvars m)); [split; assumption|exact Hg]. }
        rewrite <- Hnos in Hk. apply in_map_iff in Hk as (og & Hno & Hog).
        exists og. split; [exact Hog|apply N.eqb_eq; exact Hno].
    + apply gen_err_only_from_bind_group_data in Hgen. congruence.
    + rewrite Hfd', Hdb. reflexivity.
  - (* typed error *)
    rewrite (gen_err_of_bind_group_data m src inc o e Hbgd).
    destruct e as [|b| |]; try contradiction.
    + apply gbd_nonconsecutive_iff in Hbgd as [Hnd Hnd']; [|exact Hwf].
      destruct (first_dup [] (pairs m)) as [b|].
      * exfalso. destruct Hfd as (l1 & p & l2 & Heq & _ & Hin & _). rewrite Hpairs in Heq.
        rewrite Heq in Hnd. apply NoDup_remove_2 in Hnd. apply Hnd. apply in_or_app. left. exact Hin.
      * destruct (dense_b (map fst (pairs m))) eqn:Hdb; [|reflexivity].
        exfalso. apply Hnd'. apply dense_b_spec. rewrite Hpairs, map_map in Hdb. exact Hdb.
    + apply gbd_duplicate_iff in Hbgd as (vs1 & x & vs2 & Hvs & Hb & Hin & Hnd); [|exact Hwf].
      destruct (first_dup [] (pairs m)) as [b'|].
      * destruct Hfd as (l1 & p & l2 & Heq & Hb' & Hin' & Hnd').
        rewrite Hpairs, Hvs, map_app in Heq. cbn [map] in Heq.
        destruct (first_repeat_unique _ _ _ _ _ _ Heq Hin Hnd Hin' Hnd') as [_ Hsame].
        subst p. rewrite Hb', Hb. apply N.eqb_eq. reflexivity.
      * exfalso. rewrite Hpairs, Hvs, map_app in Hfd. cbn [map] in Hfd.
        apply NoDup_remove_2 in Hfd. apply Hfd. apply in_or_app. left. exact Hin.
Qed.
