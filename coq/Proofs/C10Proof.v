(** C10: for glam-representable member types, encase's layout type of the generated Rust type is the WGSL
    layout type. *)
From W2W Require Import Wf GenInv Tactics RustLayout Layout StructSpec C10Spec.
Local Open Scope N_scope.

Fixpoint no_struct (l : lty) : bool :=
  match l with
  | LStruct _ _ => false
  | LArr t _ | LRts t => no_struct t
  | _ => true
  end.

Lemma encase_rust_type m e : forall fuel t r l,
  rust_type fuel m t MVGlam = Ok r -> wgsl_lty fuel m t = Some l ->
  has_nonsquare l = false -> no_struct l = true ->
  encase_lty e r = Some l.
Proof.
  induction fuel as [|k IH]; intros t r l Hr Hl Hns Hst; [discriminate|].
  cbn [rust_type wgsl_lty] in *.
  destruct (t_inner t) as [s|n s|cols rows s|s|base sp| |base sz stride|ms span|d a c|c| | |base sz]; try discriminate.
  - (* scalar *)
    destruct s as [kd w]. unfold is32, rust_scalar_type in *. cbn [sk sw] in *.
    destruct (N.eqb_spec w 4) as [->|]; [|discriminate]. destruct kd; cbn in Hl, Hr; try discriminate;
      inversion Hl; inversion Hr; subst; reflexivity.
  - (* vector *)
    destruct s as [kd w]. unfold is32, glam_vector_type, rust_vector_type, rust_scalar_type in *. cbn [sk sw] in *.
    destruct (N.eqb_spec w 4) as [->|]; [|discriminate]. destruct kd, n; cbn in Hl, Hr; try discriminate;
      inversion Hl; inversion Hr; subst; reflexivity.
  - (* matrix *)
    destruct s as [kd w]. cbn [sk sw] in *. destruct (N.eqb_spec w 4) as [->|]; [|discriminate].
    inversion Hl; subst l. cbn [has_nonsquare] in Hns. unfold glam_matrix_type, rust_matrix_type, rust_scalar_type in Hr.
    destruct cols, rows; cbn in Hns, Hr; try discriminate; inversion Hr; subst; reflexivity.
  - (* atomic *)
    destruct s as [kd w]. unfold is32, rust_scalar_type in *. cbn [sk sw] in *.
    destruct (N.eqb_spec w 4) as [->|]; [|discriminate]. destruct kd; cbn in Hl, Hr; try discriminate;
      inversion Hl; inversion Hr; subst; reflexivity.
  - (* fixed array *)
    destruct sz as [n| |]; try discriminate.
    + destruct (get_ty m base) as [bt|]; [|discriminate].
      apply rbind_ok in Hr as (x & Hx & Hr). inversion Hr; subst r.
      destruct (wgsl_lty k m bt) as [le|] eqn:El; [|discriminate]. inversion Hl; subst l.
      cbn in Hns, Hst |- *. rewrite (IH bt x le Hx El Hns Hst). reflexivity.
  - (* struct *)
    destruct (t_name t); [|discriminate].
    destruct ((fix go (ms0 : list member) : option (list lty) :=
                 match ms0 with
                 | [] => Some []
                 | mem :: r0 =>
                     match get_ty m (m_ty mem) with
                     | Some mt => match go r0 with
                                  | Some fs => option_map (fun f => f :: fs) (wgsl_lty k m mt)
                                  | None => None
                                  end
                     | None => None
                     end
                 end) ms); [|discriminate].
    inversion Hl; subst l. discriminate.
Qed.

