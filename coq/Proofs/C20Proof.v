(** C20: each entry point walks each function body at most once; each type is expanded at most once. *)
From stdpp Require Import gmap.
From W2W Require Import Wf Traversal TypeDfs C03Link C20Spec.

Lemma wf_types_from_spec ts : forall i,
  wf_types_from ts i = true ->
  forall k t d, nth_error ts k = Some t -> In d (type_children (t_inner t)) -> d < i + k.
Proof.
  induction ts as [|t0 rest IH]; intros i Hwf k t d Hk Hd; [destruct k; discriminate|].
  cbn [wf_types_from] in Hwf. apply andb_true_iff in Hwf as [Hf Ht]. destruct k as [|k]; cbn in Hk.
  - inversion Hk; subst. rewrite forallb_forall in Hf. specialize (Hf d Hd). apply Nat.ltb_lt in Hf. lia.
  - specialize (IH (S i) Ht k t d Hk Hd). lia.
Qed.

Lemma wf_types_wfT m : wf_types m = true -> wfT m.
Proof.
  intros H c i d Hc Hd. unfold get_inner, get_ty in Hc.
  destruct (nth_error (types m) c) as [t|] eqn:E; [|discriminate]. inversion Hc; subst i.
  apply (wf_types_from_spec _ 0 H c t d E Hd).
Qed.

Lemma wf_global_types_lt m g :
  wf_global_types m = true -> In g (globals m) -> g_ty g < length (types m).
Proof.
  unfold wf_global_types. rewrite forallb_forall. intros H Hg. specialize (H g Hg).
  unfold get_ty in H. apply nth_error_Some. destruct (nth_error (types m) (g_ty g)); [discriminate|discriminate].
Qed.

Theorem stage_walks_bound m :
  wf_calls m = true -> stage_walks m <= length (entries m) * S (length (functions m)).
Proof.
  intros Hwf. unfold stage_walks.
  assert (Hgen : forall es acc, (forall e, In e es -> In e (entries m)) ->
    fold_left (fun n e => n + entry_walks m e) es acc <= acc + length es * S (length (functions m))).
  { induction es as [|e t IH]; intros acc Hsub; cbn [fold_left length]; [lia|].
    specialize (IH (acc + entry_walks m e) ltac:(intros e' He'; apply Hsub; right; exact He')).
    destruct (entry_walk_spec m e (wf_calls_wfH m Hwf)
                (fun d => wf_calls_entries m e d Hwf (Hsub e (or_introl eq_refl)))) as [_ Hw].
    lia. }
  specialize (Hgen (entries m) 0 ltac:(auto)). lia.
Qed.

Theorem type_visits_bound m :
  wf_types m = true -> wf_global_types m = true -> type_visits m <= length (types m).
Proof.
  intros Ht Hg.
  destruct (global_types_spec m (wf_types_wfT m Ht) (fun g => wf_global_types_lt m g Hg)) as [_ H].
  exact H.
Qed.

Theorem C20_ok_model m :
  wf m = true -> C20_ok m (N.of_nat (stage_walks m)) (N.of_nat (type_visits m)) = true.
Proof.
  intros Hwf. destruct (wf_proj m Hwf) as (Hg & Hc & Ht & _ & _).
  unfold C20_ok, walks_bound, visits_bound. apply andb_true_iff. split; apply N.leb_le.
  - pose proof (stage_walks_bound m Hc). lia.
  - pose proof (type_visits_bound m Ht Hg). lia.
Qed.
