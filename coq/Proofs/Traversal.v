(** The memoised call-graph traversal of [update_stages]: what it marks and how
    many function bodies it walks. Serves C03 (visibility = static access),
    C13 (push constant stages) and C20 (cost). *)
From stdpp Require Import gmap.
From W2W Require Import Wf.

(** * The statement walk visits exactly the calls of the block, in order *)
Section Walk.
  Context {S : Type} (visit : S -> nat -> S).

  Lemma fold_left_app' {A B} (f : A -> B -> A) l1 l2 a :
    fold_left f (l1 ++ l2) a = fold_left f l2 (fold_left f l1 a).
  Proof. apply fold_left_app. Qed.

  Lemma walk_stmt_calls (st : stmt) : forall s,
    walk_stmt visit st s = fold_left visit (stmt_calls st) s.
  Proof.
    induction st as [b IHb|a r IHa IHr|cs IHcs|b c IHb IHc|f|] using stmt_ind'; intros s.
    - cbn [walk_stmt stmt_calls]. revert s. induction IHb as [|x t Hx _ IH]; intros s; [reflexivity|].
      rewrite fold_left_app, <- Hx. apply IH.
    - cbn [walk_stmt stmt_calls]. rewrite fold_left_app.
      assert (Hblk : forall l, Forall (fun st => forall s, walk_stmt visit st s = fold_left visit (stmt_calls st) s) l ->
        forall s, (fix blk (l : list stmt) (s : S) : S :=
           match l with [] => s | x :: t => blk t (walk_stmt visit x s) end) l s =
        fold_left visit ((fix blk (l : list stmt) : list nat :=
           match l with [] => [] | x :: t => stmt_calls x ++ blk t end) l) s).
      { intros l Hl. induction Hl as [|x t Hx _ IH]; intros s'; [reflexivity|].
        rewrite fold_left_app, <- Hx. apply IH. }
      rewrite <- (Hblk a IHa s). apply (Hblk r IHr).
    - cbn [walk_stmt stmt_calls]. revert s. induction IHcs as [|c t Hc _ IH]; intros s; [reflexivity|].
      rewrite fold_left_app, <- IH. f_equal.
      clear -Hc. revert s. induction Hc as [|x t' Hx _ IH']; intros s; [reflexivity|].
      rewrite fold_left_app, <- Hx. apply IH'.
    - cbn [walk_stmt stmt_calls]. rewrite fold_left_app.
      assert (Hblk : forall l, Forall (fun st => forall s, walk_stmt visit st s = fold_left visit (stmt_calls st) s) l ->
        forall s, (fix blk (l : list stmt) (s : S) : S :=
           match l with [] => s | x :: t => blk t (walk_stmt visit x s) end) l s =
        fold_left visit ((fix blk (l : list stmt) : list nat :=
           match l with [] => [] | x :: t => stmt_calls x ++ blk t end) l) s).
      { intros l Hl. induction Hl as [|x t Hx _ IH]; intros s'; [reflexivity|].
        rewrite fold_left_app, <- Hx. apply IH. }
      rewrite <- (Hblk b IHb s). apply (Hblk c IHc).
    - reflexivity.
    - reflexivity.
  Qed.

  Lemma walk_block_calls (l : list stmt) : forall s,
    walk_block visit l s = fold_left visit (block_calls l) s.
  Proof.
    unfold walk_block, block_calls. induction l as [|x t IH]; intros s; [reflexivity|].
    cbn [fold_left flat_map]. rewrite fold_left_app, <- walk_stmt_calls. apply IH.
  Qed.
End Walk.

(** * Actions of a function body: calls and global references, in traversal order *)
Inductive action := ACall (c : nat) | ARef (g : nat).

Definition expr_actions (es : list expr) : list action :=
  flat_map (fun e => match e with
                     | EGlobal g => [ARef g]
                     | ECallResult f => [ACall f]
                     | EOther => []
                     end) es.

Definition fn_actions (f : func) : list action :=
  map ACall (block_calls (f_body f)) ++ expr_actions (f_exprs f).

Definition do_action (visit : tstate -> nat -> tstate) (s : tstate) (a : action) : tstate :=
  match a with ACall c => visit s c | ARef g => mark g s end.

Lemma fold_exprs_actions visit es : forall s,
  fold_left (walk_expr visit) es s = fold_left (do_action visit) (expr_actions es) s.
Proof.
  induction es as [|e t IH]; intros s; [reflexivity|].
  cbn [fold_left expr_actions flat_map]. rewrite fold_left_app. rewrite <- IH.
  destruct e; reflexivity.
Qed.

Lemma fold_map_ACall visit l : forall s,
  fold_left visit l s = fold_left (do_action visit) (map ACall l) s.
Proof. induction l as [|c t IH]; intros s; [reflexivity|]. cbn. apply IH. Qed.

Lemma walk_fn_S k m f s :
  walk_fn (S k) m f s = fold_left (do_action (visit_fn k m)) (fn_actions f) s.
Proof.
  unfold fn_actions. rewrite fold_left_app, <- fold_exprs_actions, <- fold_map_ACall, <- walk_block_calls.
  reflexivity.
Qed.

Lemma In_ACall_fn_actions f c : In (ACall c) (fn_actions f) <-> In c (fn_callees f).
Proof.
  unfold fn_actions, fn_callees, expr_actions, expr_calls. rewrite !in_app_iff, in_map_iff, !in_flat_map. split.
  - intros [(c' & Heq & Hc)|(e & He & Hin)].
    + inversion Heq; subst. left. exact Hc.
    + right. exists e. split; [exact He|]. destruct e; cbn in *; intuition congruence.
  - intros [Hc|(e & He & Hin)].
    + left. eauto.
    + right. exists e. split; [exact He|]. destruct e; cbn in *; intuition congruence.
Qed.

Lemma In_ARef_fn_actions f g : In (ARef g) (fn_actions f) <-> In g (fn_globals f).
Proof.
  unfold fn_actions, fn_globals, expr_actions, expr_globals. rewrite in_app_iff, in_map_iff, !in_flat_map. split.
  - intros [(c' & Heq & _)|(e & He & Hin)]; [discriminate|].
    exists e. split; [exact He|]. destruct e; cbn in *; intuition congruence.
  - intros (e & He & Hin). right. exists e. split; [exact He|]. destruct e; cbn in *; intuition congruence.
Qed.

(** * Specification: reachability that avoids a set of already visited functions *)
Section Spec.
  Variable m : module.

  Definition callsH (c d : nat) : Prop := exists g, get_func m c = Some g /\ In d (fn_callees g).
  Definition refsH (c g : nat) : Prop := exists f, get_func m c = Some f /\ In g (fn_globals f).

  (** callee handles are smaller than the caller's (naga: functions appear before their callers) *)
  Definition wfH : Prop := forall i g d, get_func m i = Some g -> In d (fn_callees g) -> d < i.

  Inductive ra (V : gset nat) : nat -> nat -> Prop :=
  | ra_here c g : c ∉ V -> get_func m c = Some g -> ra V c c
  | ra_step c d x : c ∉ V -> callsH c d -> ra V d x -> ra V c x.

  Lemma ra_mono V V' c x : V ⊆ V' -> ra V' c x -> ra V c x.
  Proof. intros HV. induction 1; [eapply ra_here|eapply ra_step]; eauto; set_solver. Qed.

  Lemma ra_trans V c y x : ra V c y -> ra V y x -> ra V c x.
  Proof. induction 1; intros Hx; [exact Hx|]. eapply ra_step; eauto. Qed.

  Lemma ra_start V c x : ra V c x -> c ∉ V.
  Proof. destruct 1; assumption. Qed.

  Lemma ra_target_some V c x : ra V c x -> exists g, get_func m x = Some g.
  Proof. induction 1; eauto. Qed.

  Lemma ra_split V (W : gset nat) c x :
    (forall y z, y ∈ W -> ra V y z -> z ∈ W) ->
    ra V c x -> ra (V ∪ W) c x \/ x ∈ W.
  Proof.
    intros Hcl. induction 1 as [c g Hc Hg|c d x Hc Hcd Hdx IH].
    - destruct (decide (c ∈ W)) as [HW|HW]; [right; exact HW|left]. eapply ra_here; eauto. set_solver.
    - destruct (decide (c ∈ W)) as [HW|HW].
      + right. eapply Hcl; [exact HW|]. eapply ra_step; eauto.
      + destruct IH as [IH|IH]; [left|right; exact IH]. eapply ra_step; eauto. set_solver.
  Qed.

  Lemma ra_add_above V c d x : wfH -> d < c -> ra V d x -> ra ({[c]} ∪ V) d x.
  Proof.
    intros Hwf Hlt H. induction H as [d g Hd Hg|d e x Hd (g & Hg & He) Hex IH].
    - eapply ra_here; eauto. set_solver by lia.
    - eapply ra_step; [set_solver by lia| exists g; eauto |]. apply IH. specialize (Hwf _ _ _ Hg He). lia.
  Qed.

  Lemma ra_inv V c x g : get_func m c = Some g -> c ∉ V ->
    ra V c x <-> x = c \/ exists d, In d (fn_callees g) /\ ra V d x.
  Proof.
    intros Hg Hc. split.
    - inversion 1 as [? g' _ Hg'|? d ? _ (g' & Hg' & Hd) Hdx]; subst; [left; reflexivity|].
      right. exists d. rewrite Hg in Hg'. inversion Hg'; subst. auto.
    - intros [->|(d & Hd & Hdx)]; [eapply ra_here; eauto|]. eapply ra_step; eauto. exists g; auto.
  Qed.

  (** what processing a list of actions guarantees *)
  Definition step_ok (l : list action) (s s' : tstate) : Prop :=
    let '(V, A, w) := s in let '(V', A', w') := s' in
    (forall x, x ∈ V' <-> x ∈ V \/ exists c, In (ACall c) l /\ ra V c x) /\
    (forall g, g ∈ A' <-> g ∈ A \/ In (ARef g) l \/ exists c x, In (ACall c) l /\ ra V c x /\ refsH x g) /\
    w' = w + size (V' ∖ V).

  Lemma step_ok_nil s : step_ok [] s s.
  Proof.
    destruct s as [[V A] w]. repeat split; try tauto.
    - intros [H|(c & [] & _)]; exact H.
    - intros [H|[[]|(c & x & [] & _)]]; exact H.
    - replace (V ∖ V) with (∅ : gset nat) by set_solver. rewrite size_empty. lia.
  Qed.

  Lemma step_ok_app l1 l2 s s1 s2 :
    step_ok l1 s s1 -> step_ok l2 s1 s2 -> step_ok (l1 ++ l2) s s2.
  Proof.
    destruct s as [[V A] w], s1 as [[V1 A1] w1], s2 as [[V2 A2] w2]. cbn.
    intros (HV1 & HA1 & Hw1) (HV2 & HA2 & Hw2).
    assert (Hsub : V ⊆ V1) by (intros x Hx; apply HV1; auto).
    set (W := V1 ∖ V).
    assert (HW : forall y, y ∈ W <-> exists c, In (ACall c) l1 /\ ra V c y).
    { intros y. unfold W. rewrite elem_of_difference, HV1. split.
      - intros [[H|H] Hn]; [contradiction|exact H].
      - intros (c & Hc & Hr). split; [right; eauto|]. clear -Hr. induction Hr; auto. }
    assert (Hcl : forall y z, y ∈ W -> ra V y z -> z ∈ W).
    { intros y z Hy Hyz. apply HW in Hy as (c & Hc & Hcy). apply HW. exists c. split; auto. eapply ra_trans; eauto. }
    assert (HV1eq : V1 = V ∪ W).
    { unfold W. apply set_eq. intros x. rewrite elem_of_union, elem_of_difference.
      destruct (decide (x ∈ V)); set_solver. }
    assert (Hra : forall c x, ra V c x <-> ra V1 c x \/ (x ∈ W /\ ra V c x)).
    { intros c x. split.
      - intros H. destruct (ra_split V W c x Hcl H) as [H'|H']; [left; rewrite HV1eq; exact H'|right; auto].
      - intros [H|[_ H]]; [eapply ra_mono; eauto|exact H]. }
    split; [|split].
    - intros x. split.
      + intros Hx. apply HV2 in Hx as [Hx|(c & Hc & Hr)].
        * apply HV1 in Hx as [Hx|(c & Hc & Hr)]; [auto|]. right. exists c. split; [apply in_or_app; auto|exact Hr].
        * right. exists c. split; [apply in_or_app; auto|]. eapply ra_mono; eauto.
      + intros [Hx|(c & Hc & Hr)].
        * apply HV2. left. apply HV1. auto.
        * apply in_app_or in Hc as [Hc|Hc].
          -- apply HV2. left. apply HV1. right. eauto.
          -- apply Hra in Hr as [Hr|[Hx _]].
             ++ apply HV2. right. eauto.
             ++ apply HV2. left. unfold W in Hx. set_solver.
    - intros g. split.
      + intros Hg. apply HA2 in Hg as [Hg|[Hg|(c & x & Hc & Hr & Hg)]].
        * apply HA1 in Hg as [Hg|[Hg|(c & x & Hc & Hr & Hg)]]; [auto| |].
          -- right; left. apply in_or_app; auto.
          -- right; right. exists c, x. split; [apply in_or_app; auto|auto].
        * right; left. apply in_or_app; auto.
        * right; right. exists c, x. split; [apply in_or_app; auto|]. split; [eapply ra_mono; eauto|exact Hg].
      + intros [Hg|[Hg|(c & x & Hc & Hr & Hg)]].
        * apply HA2. left. apply HA1. auto.
        * apply in_app_or in Hg as [Hg|Hg]; [apply HA2; left; apply HA1; auto|apply HA2; auto].
        * apply in_app_or in Hc as [Hc|Hc].
          -- apply HA2. left. apply HA1. right; right. eauto.
          -- apply Hra in Hr as [Hr|[Hx Hr]].
             ++ apply HA2. right; right. eauto.
             ++ apply HW in Hx as (c1 & Hc1 & Hr1). apply HA2. left. apply HA1. right; right. exists c1, x. auto.
    - assert (Hsub2 : V1 ⊆ V2) by (intros x Hx; apply HV2; auto).
      replace (V2 ∖ V) with ((V1 ∖ V) ∪ (V2 ∖ V1)).
      + rewrite size_union by set_solver. lia.
      + apply set_eq. intros x. rewrite elem_of_union, !elem_of_difference.
        destruct (decide (x ∈ V1)); set_solver.
  Qed.

  Lemma fold_ok (act : tstate -> action -> tstate) l :
    (forall a, In a l -> forall s, step_ok [a] s (act s a)) ->
    forall s, step_ok l s (fold_left act l s).
  Proof.
    induction l as [|a t IH]; intros Hv s; cbn [fold_left].
    - apply step_ok_nil.
    - change (a :: t) with ([a] ++ t). eapply step_ok_app.
      + apply Hv. left. reflexivity.
      + apply IH. intros a' Ha'. apply Hv. right. exact Ha'.
  Qed.

  Lemma step_ok_mark g s : step_ok [ARef g] s (mark g s).
  Proof.
    destruct s as [[V A] w]. cbn. split; [|split].
    - intros x. split; [auto|]. intros [H|(c & [Hc|[]] & _)]; [exact H|discriminate].
    - intros g'. rewrite elem_of_union, elem_of_singleton. split.
      + intros [->|H]; [right; left; left; reflexivity|auto].
      + intros [H|[[Heq|[]]|(c & x & [Hc|[]] & _)]]; [auto|inversion Heq; auto|discriminate].
    - replace (V ∖ V) with (∅ : gset nat) by set_solver. rewrite size_empty. lia.
  Qed.

  (** the body of a function, seen as its action list *)
  Definition body_ok (f : func) (s s' : tstate) : Prop := step_ok (fn_actions f) s s'.

  Lemma step_ok_skip c (s : tstate) :
    (forall x, ~ ra (fst (fst s)) c x) -> step_ok [ACall c] s s.
  Proof.
    destruct s as [[V A] w]. cbn. intros Hno. split; [|split].
    - intros x. split; [auto|]. intros [H|(c' & [Hc'|[]] & Hr)]; [exact H|].
      inversion Hc'; subst. exfalso. eapply Hno; eauto.
    - intros g. split; [auto|]. intros [H|[[Heq|[]]|(c' & x & [Hc'|[]] & Hr & _)]]; [exact H|discriminate|].
      inversion Hc'; subst. exfalso. eapply Hno; eauto.
    - replace (V ∖ V) with (∅ : gset nat) by set_solver. rewrite size_empty. lia.
  Qed.

  Lemma traversal_ok : wfH -> forall n,
    forall f, (forall d, In d (fn_callees f) -> d < n) ->
    forall fuel, n < fuel -> forall s, body_ok f s (walk_fn fuel m f s).
  Proof.
    intros Hwf. induction n as [n IH] using lt_wf_ind. intros f Hf fuel Hfuel s.
    destruct fuel as [|k]; [lia|]. unfold body_ok. rewrite walk_fn_S.
    apply fold_ok. intros a Ha s0. destruct a as [c|g]; [|apply step_ok_mark].
    apply In_ACall_fn_actions in Ha. specialize (Hf c Ha).
    destruct s0 as [[V A] w]. cbn [do_action]. unfold visit_fn.
    destruct (decide (c ∈ V)) as [HV|HV].
    { apply (step_ok_skip c (V, A, w)). cbn. intros x Hr. apply ra_start in Hr. contradiction. }
    destruct (get_func m c) as [g|] eqn:Hg.
    2:{ apply (step_ok_skip c (V, A, w)). cbn. intros x Hr.
        inversion Hr as [? g' _ Hg'|? d ? _ (g' & Hg' & _) _]; subst; congruence. }
    assert (Hg_lt : forall d, In d (fn_callees g) -> d < c) by (intros d Hd; eapply Hwf; eauto).
    pose proof (IH c Hf g Hg_lt k ltac:(lia) ({[c]} ∪ V, A, S w)) as Hb.
    unfold body_ok in Hb.
    destruct (walk_fn k m g ({[c]} ∪ V, A, S w)) as [[V' A'] w'] eqn:E. cbn in Hb |- *.
    destruct Hb as (HV' & HA' & Hw').
    assert (Hsame : forall d x, In d (fn_callees g) -> ra ({[c]} ∪ V) d x <-> ra V d x).
    { intros d x Hd. split; [apply ra_mono; set_solver|apply ra_add_above; auto]. }
    split; [|split].
    - intros x. split.
      + intros Hx. apply HV' in Hx as [Hx|(d & Hd & Hr)].
        * apply elem_of_union in Hx as [Hx|Hx]; [|auto]. apply elem_of_singleton in Hx as ->.
          right. exists c. split; [left; reflexivity|]. eapply ra_here; eauto.
        * right. exists c. split; [left; reflexivity|]. apply In_ACall_fn_actions in Hd.
          apply (ra_inv V c x g Hg HV). right. exists d. split; auto. apply Hsame; auto.
      + intros [Hx|(c' & [Hc'|[]] & Hr)].
        * apply HV'. left. set_solver.
        * inversion Hc'; subst c'. apply (ra_inv V c x g Hg HV) in Hr as [->|(d & Hd & Hr)].
          -- apply HV'. left. set_solver.
          -- apply HV'. right. exists d. split; [apply In_ACall_fn_actions; exact Hd|]. apply Hsame; auto.
    - intros g0. split.
      + intros Hg0. apply HA' in Hg0 as [Hg0|[Hg0|(d & x & Hd & Hr & Hx)]]; [auto| |].
        * right; right. exists c, c. split; [left; reflexivity|]. split; [eapply ra_here; eauto|].
          exists g. split; [exact Hg|]. apply In_ARef_fn_actions. exact Hg0.
        * right; right. exists c, x. split; [left; reflexivity|]. split; [|exact Hx].
          apply In_ACall_fn_actions in Hd.
          apply (ra_inv V c x g Hg HV). right. exists d. split; auto. apply Hsame; auto.
      + intros [Hg0|[[Heq|[]]|(c' & x & [Hc'|[]] & Hr & Hx)]]; [apply HA'; auto|discriminate|].
        inversion Hc'; subst c'. apply (ra_inv V c x g Hg HV) in Hr as [->|(d & Hd & Hr)].
        * destruct Hx as (f' & Hf' & Hx). rewrite Hg in Hf'. inversion Hf'; subst.
          apply HA'. right; left. apply In_ARef_fn_actions. exact Hx.
        * apply HA'. right; right. exists d, x. split; [apply In_ACall_fn_actions; exact Hd|].
          split; [apply Hsame; auto|exact Hx].
    - assert (Hc' : c ∈ V') by (apply HV'; left; set_solver).
      assert (Hsub : {[c]} ∪ V ⊆ V') by (intros y Hy; apply HV'; auto).
      replace (V' ∖ V) with ({[c]} ∪ (V' ∖ ({[c]} ∪ V))).
      + rewrite size_union by set_solver. rewrite size_singleton. lia.
      + apply set_eq. intros y. rewrite elem_of_union, !elem_of_difference, elem_of_union, elem_of_singleton.
        destruct (decide (y = c)) as [->|]; [tauto|]. set_solver.
  Qed.

  (** plain reachability in the call graph, from the callees of a root function *)
  Definition reach (c x : nat) : Prop := ra ∅ c x.

  (** * Top level: one entry point, fresh visited set *)
  Theorem entry_walk_spec (e : entry) :
    wfH -> (forall d, In d (fn_callees (e_fn e)) -> d < length (functions m)) ->
    (forall g, g ∈ entry_marks m e <->
       In g (fn_globals (e_fn e)) \/
       exists c x, In c (fn_callees (e_fn e)) /\ reach c x /\ refsH x g) /\
    entry_walks m e <= S (length (functions m)).
  Proof.
    intros Hwf Hf. unfold entry_marks, entry_walks, entry_walk, stage_fuel.
    pose proof (traversal_ok Hwf (length (functions m)) (e_fn e) Hf
                  (S (length (functions m))) ltac:(lia) (∅, ∅, 0)) as H.
    unfold body_ok in H.
    destruct (walk_fn (S (length (functions m))) m (e_fn e) (∅, ∅, 0)) as [[V A] w]. cbn in H |- *.
    destruct H as (HV & HA & Hw). split.
    - intros g. rewrite HA. rewrite In_ARef_fn_actions. split.
      + intros [H|[H|(c & x & Hc & Hr)]]; [set_solver|auto|].
        right. exists c, x. rewrite <- In_ACall_fn_actions. auto.
      + intros [H|(c & x & Hc & Hr)]; [auto|]. right; right. exists c, x.
        rewrite In_ACall_fn_actions. auto.
    - subst w. rewrite difference_empty_L. cbn.
      assert (Hsub : V ⊆ list_to_set (seq 0 (length (functions m)))).
      { intros x Hx. apply HV in Hx as [Hx|(c & Hc & Hr)]; [set_solver|].
        apply elem_of_list_to_set, elem_of_seq. split; [lia|]. cbn.
        apply ra_target_some in Hr as (g & Hg). unfold get_func in Hg.
        apply nth_error_Some. congruence. }
      apply subseteq_size in Hsub. rewrite size_list_to_set in Hsub by apply NoDup_seq.
      rewrite seq_length in Hsub. lia.
  Qed.
End Spec.
