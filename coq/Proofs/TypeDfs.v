(** The memoised type closure of [add_types_recursive]: which types end up in the
    set and how many are expanded. Serves C08 / C05 / C09 (host-shareable types)
    and C20 (cost). Same argument as [Traversal.v], over the type arena. *)
From stdpp Require Import gmap.
From W2W Require Import Wf.

Section Spec.
  Variable m : module.

  Definition childH (c d : nat) : Prop := exists i, get_inner m c = Some i /\ In d (type_children i).

  (** base types have smaller handles than the types built from them *)
  Definition wfT : Prop := forall c i d, get_inner m c = Some i -> In d (type_children i) -> d < c.

  (** reachable from [c] along a path whose nodes all avoid [V] *)
  Inductive rt (V : gset nat) : nat -> nat -> Prop :=
  | rt_here c i : c ∉ V -> get_inner m c = Some i -> rt V c c
  | rt_step c d x : c ∉ V -> childH c d -> rt V d x -> rt V c x.

  Lemma rt_mono V V' c x : V ⊆ V' -> rt V' c x -> rt V c x.
  Proof. intros HV. induction 1; [eapply rt_here|eapply rt_step]; eauto; set_solver. Qed.
  Lemma rt_trans V c y x : rt V c y -> rt V y x -> rt V c x.
  Proof. induction 1; intros Hx; [exact Hx|]. eapply rt_step; eauto. Qed.
  Lemma rt_start V c x : rt V c x -> c ∉ V.
  Proof. destruct 1; assumption. Qed.
  Lemma rt_target_some V c x : rt V c x -> exists i, get_inner m x = Some i.
  Proof. induction 1; eauto. Qed.

  Lemma rt_split V (W : gset nat) c x :
    (forall y z, y ∈ W -> rt V y z -> z ∈ W) -> rt V c x -> rt (V ∪ W) c x \/ x ∈ W.
  Proof.
    intros Hcl. induction 1 as [c g Hc Hg|c d x Hc Hcd Hdx IH].
    - destruct (decide (c ∈ W)) as [HW|HW]; [right; exact HW|left]. eapply rt_here; eauto. set_solver.
    - destruct (decide (c ∈ W)) as [HW|HW].
      + right. eapply Hcl; [exact HW|]. eapply rt_step; eauto.
      + destruct IH as [IH|IH]; [left|right; exact IH]. eapply rt_step; eauto. set_solver.
  Qed.

  Lemma rt_add_above V c d x : wfT -> d < c -> rt V d x -> rt ({[c]} ∪ V) d x.
  Proof.
    intros Hwf Hlt H. induction H as [d g Hd Hg|d e x Hd (g & Hg & He) Hex IH].
    - eapply rt_here; eauto. set_solver by lia.
    - eapply rt_step; [set_solver by lia| exists g; eauto |]. apply IH. specialize (Hwf _ _ _ Hg He). lia.
  Qed.

  Lemma rt_inv V c x i : get_inner m c = Some i -> c ∉ V ->
    rt V c x <-> x = c \/ exists d, In d (type_children i) /\ rt V d x.
  Proof.
    intros Hg Hc. split.
    - inversion 1 as [? g' _ Hg'|? d ? _ (g' & Hg' & Hd) Hdx]; subst; [left; reflexivity|].
      right. exists d. rewrite Hg in Hg'. inversion Hg'; subst. auto.
    - intros [->|(d & Hd & Hdx)]; [eapply rt_here; eauto|]. eapply rt_step; eauto. exists i; auto.
  Qed.

  Definition step_ok (l : list nat) (s s' : ystate) : Prop :=
    let '(V, w) := s in let '(V', w') := s' in
    (forall x, x ∈ V' <-> x ∈ V \/ exists c, In c l /\ rt V c x) /\
    w' = w + size (V' ∖ V).

  Lemma step_ok_nil s : step_ok [] s s.
  Proof.
    destruct s as [V w]. split.
    - intros x. split; [auto|]. intros [H|(c & [] & _)]; exact H.
    - replace (V ∖ V) with (∅ : gset nat) by set_solver. rewrite size_empty. lia.
  Qed.

  Lemma step_ok_app l1 l2 s s1 s2 :
    step_ok l1 s s1 -> step_ok l2 s1 s2 -> step_ok (l1 ++ l2) s s2.
  Proof.
    destruct s as [V w], s1 as [V1 w1], s2 as [V2 w2]. cbn.
    intros (HV1 & Hw1) (HV2 & Hw2).
    assert (Hsub : V ⊆ V1) by (intros x Hx; apply HV1; auto).
    set (W := V1 ∖ V).
    assert (HW : forall y, y ∈ W <-> exists c, In c l1 /\ rt V c y).
    { intros y. unfold W. rewrite elem_of_difference, HV1. split.
      - intros [[H|H] Hn]; [contradiction|exact H].
      - intros (c & Hc & Hr). split; [right; eauto|]. clear -Hr. induction Hr; auto. }
    assert (Hcl : forall y z, y ∈ W -> rt V y z -> z ∈ W).
    { intros y z Hy Hyz. apply HW in Hy as (c & Hc & Hcy). apply HW. exists c. split; auto. eapply rt_trans; eauto. }
    assert (HV1eq : V1 = V ∪ W).
    { unfold W. apply set_eq. intros x. rewrite elem_of_union, elem_of_difference.
      destruct (decide (x ∈ V)); set_solver. }
    assert (Hrt : forall c x, rt V c x <-> rt V1 c x \/ (x ∈ W /\ rt V c x)).
    { intros c x. split.
      - intros H. destruct (rt_split V W c x Hcl H) as [H'|H']; [left; rewrite HV1eq; exact H'|right; auto].
      - intros [H|[_ H]]; [eapply rt_mono; eauto|exact H]. }
    split.
    - intros x. split.
      + intros Hx. apply HV2 in Hx as [Hx|(c & Hc & Hr)].
        * apply HV1 in Hx as [Hx|(c & Hc & Hr)]; [auto|]. right. exists c. split; [apply in_or_app; auto|exact Hr].
        * right. exists c. split; [apply in_or_app; auto|]. eapply rt_mono; eauto.
      + intros [Hx|(c & Hc & Hr)].
        * apply HV2. left. apply HV1. auto.
        * apply in_app_or in Hc as [Hc|Hc].
          -- apply HV2. left. apply HV1. right. eauto.
          -- apply Hrt in Hr as [Hr|[Hx _]].
             ++ apply HV2. right. eauto.
             ++ apply HV2. left. unfold W in Hx. set_solver.
    - assert (Hsub2 : V1 ⊆ V2) by (intros x Hx; apply HV2; auto).
      replace (V2 ∖ V) with ((V1 ∖ V) ∪ (V2 ∖ V1)).
      + rewrite size_union by set_solver. lia.
      + apply set_eq. intros x. rewrite elem_of_union, !elem_of_difference.
        destruct (decide (x ∈ V1)); set_solver.
  Qed.

  Lemma fold_ok (act : ystate -> nat -> ystate) l :
    (forall a, In a l -> forall s, step_ok [a] s (act s a)) ->
    forall s, step_ok l s (fold_left act l s).
  Proof.
    induction l as [|a t IH]; intros Hv s; cbn [fold_left].
    - apply step_ok_nil.
    - change (a :: t) with ([a] ++ t). eapply step_ok_app.
      + apply Hv. left. reflexivity.
      + apply IH. intros a' Ha'. apply Hv. right. exact Ha'.
  Qed.

  Lemma step_ok_skip c (s : ystate) : (forall x, ~ rt (fst s) c x) -> step_ok [c] s s.
  Proof.
    destruct s as [V w]. cbn. intros Hno. split.
    - intros x. split; [auto|]. intros [H|(c' & [<-|[]] & Hr)]; [exact H|]. exfalso. eapply Hno; eauto.
    - replace (V ∖ V) with (∅ : gset nat) by set_solver. rewrite size_empty. lia.
  Qed.

  Lemma add_types_ok : wfT -> forall n fuel l,
    (forall d, In d l -> d < n) -> n <= fuel ->
    forall s, step_ok l s (fold_left (add_types fuel m) l s).
  Proof.
    intros Hwf. induction n as [n IH] using lt_wf_ind. intros fuel l Hl Hfuel s.
    apply fold_ok. intros c Hc [V w]. specialize (Hl c Hc).
    destruct fuel as [|k]; [lia|]. cbn [add_types].
    destruct (decide (c ∈ V)) as [HV|HV].
    { apply (step_ok_skip c (V, w)). cbn. intros x Hr. apply rt_start in Hr. contradiction. }
    destruct (get_inner m c) as [i|] eqn:Hi.
    2:{ apply (step_ok_skip c (V, w)). cbn. intros x Hr.
        inversion Hr as [? g' _ Hg'|? d ? _ (g' & Hg' & _) _]; subst; congruence. }
    assert (Hi_lt : forall d, In d (type_children i) -> d < c) by (intros d Hd; eapply Hwf; eauto).
    pose proof (IH c Hl k (type_children i) Hi_lt ltac:(lia) ({[c]} ∪ V, S w)) as Hb.
    destruct (fold_left (add_types k m) (type_children i) ({[c]} ∪ V, S w)) as [V' w'] eqn:E.
    cbn in Hb |- *. destruct Hb as (HV' & Hw').
    assert (Hsame : forall d x, In d (type_children i) -> rt ({[c]} ∪ V) d x <-> rt V d x).
    { intros d x Hd. split; [apply rt_mono; set_solver|apply rt_add_above; auto]. }
    split.
    - intros x. split.
      + intros Hx. apply HV' in Hx as [Hx|(d & Hd & Hr)].
        * apply elem_of_union in Hx as [Hx|Hx]; [|auto]. apply elem_of_singleton in Hx as ->.
          right. exists c. split; [left; reflexivity|]. eapply rt_here; eauto.
        * right. exists c. split; [left; reflexivity|].
          apply (rt_inv V c x i Hi HV). right. exists d. split; auto. apply Hsame; auto.
      + intros [Hx|(c' & [<-|[]] & Hr)].
        * apply HV'. left. set_solver.
        * apply (rt_inv V c x i Hi HV) in Hr as [->|(d & Hd & Hr)].
          -- apply HV'. left. set_solver.
          -- apply HV'. right. exists d. split; [exact Hd|]. apply Hsame; auto.
    - assert (Hc' : c ∈ V') by (apply HV'; left; set_solver).
      assert (Hsub : {[c]} ∪ V ⊆ V') by (intros y Hy; apply HV'; auto).
      replace (V' ∖ V) with ({[c]} ∪ (V' ∖ ({[c]} ∪ V))).
      + rewrite size_union by set_solver. rewrite size_singleton. lia.
      + apply set_eq. intros y. rewrite elem_of_union, !elem_of_difference, elem_of_union, elem_of_singleton.
        destruct (decide (y = c)) as [->|]; [tauto|]. set_solver.
  Qed.

  (** plain reachability in the type graph *)
  Definition treach (c x : nat) : Prop := rt ∅ c x.

  Theorem global_types_spec :
    wfT -> (forall g, In g (globals m) -> g_ty g < length (types m)) ->
    (forall x, x ∈ global_variable_types m <-> exists g, In g (globals m) /\ treach (g_ty g) x) /\
    type_visits m <= length (types m).
  Proof.
    intros Hwf Hg. unfold global_variable_types, type_visits, global_types_state, type_fuel.
    assert (Hfold : forall (gs : list global) s,
      fold_left (fun s g => add_types (S (length (types m))) m s (g_ty g)) gs s =
      fold_left (add_types (S (length (types m))) m) (map g_ty gs) s).
    { induction gs as [|g t IH]; intros s; [reflexivity|]. cbn. apply IH. }
    rewrite Hfold.
    pose proof (add_types_ok Hwf (length (types m)) (S (length (types m))) (map g_ty (globals m))) as H.
    specialize (H ltac:(intros d Hd; apply in_map_iff in Hd as (g & <- & Hin); auto) ltac:(lia) (∅, 0)).
    destruct (fold_left (add_types (S (length (types m))) m) (map g_ty (globals m)) (∅, 0)) as [V w].
    cbn in H |- *. destruct H as (HV & Hw). split.
    - intros x. rewrite HV. split.
      + intros [H|(c & Hc & Hr)]; [set_solver|]. apply in_map_iff in Hc as (g & <- & Hin). eauto.
      + intros (g & Hin & Hr). right. exists (g_ty g). split; [apply in_map; exact Hin|exact Hr].
    - subst w. rewrite difference_empty_L. cbn.
      assert (Hsub : V ⊆ list_to_set (seq 0 (length (types m)))).
      { intros x Hx. apply HV in Hx as [Hx|(c & Hc & Hr)]; [set_solver|].
        apply elem_of_list_to_set, elem_of_seq. split; [lia|]. cbn.
        apply rt_target_some in Hr as (i & Hi). unfold get_inner, get_ty in Hi.
        apply nth_error_Some. destruct (nth_error (types m) x); [discriminate|discriminate]. }
      apply subseteq_size in Hsub. rewrite size_list_to_set in Hsub by apply NoDup_seq.
      rewrite seq_length in Hsub. exact Hsub.
  Qed.
End Spec.
