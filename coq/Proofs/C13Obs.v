(** C13 over the descriptor the generated [create_pipeline_layout] hands to the device ([Spec/Obs.v]). *)
From W2W Require Import Wf GenInv Tactics C03Spec C13Spec C13Proof Obs.
Local Open Scope N_scope.

Theorem C13_obs_gen m src inc o out_ :
  wf m = true -> pc_size_agrees m = true -> gen m src inc o = Ok out_ ->
  match find_pc_from (globals m) 0 with
  | None => o_pc_stages out_ = None /\ obs_pc_ranges out_ = Some []
  | Some h =>
      exists gl t, nth_error (globals m) h = Some gl /\ get_ty m (g_ty gl) = Some t /\
        o_pc_stages out_ = Some (pc_stage_spec m h) /\
        obs_pc_ranges out_ = Some [(pc_stage_spec m h, 0, t_size t)]
  end.
Proof.
  intros Hwf Hsize Hgen. pose proof (C13_ok_gen m src inc o out_ Hwf Hsize Hgen) as Hok.
  unfold C13_ok in Hok. unfold obs_pc_ranges.
  destruct (find_pc_from (globals m) 0) as [h|].
  - destruct (nth_error (globals m) h) as [gl|] eqn:Egl; [|discriminate].
    destruct (get_ty m (g_ty gl)) as [t|] eqn:Et; [|discriminate].
    destruct (o_pc_stages out_) as [s|]; [|discriminate].
    destruct (o_pc_ranges out_) as [|r [|r' rs]]; try discriminate.
    rewrite !andb_true_iff in Hok. destruct Hok as [[[Hs Hc] H0] He].
    apply st_eqb_spec in Hs. apply N.eqb_eq in H0, He. subst s.
    exists gl, t. split; [reflexivity|]. split; [exact Et|]. split; [reflexivity|].
    cbn [omapM]. rewrite Hc. cbn [option_map]. rewrite H0, He. reflexivity.
  - destruct (o_pc_stages out_); [discriminate|]. destruct (o_pc_ranges out_); [|discriminate]. split; reflexivity.
Qed.
