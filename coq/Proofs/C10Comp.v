(** C10, composition over nested structs: for every emitted struct deriving ShaderType, the layout type encase
    computes for the Rust struct (looking nested structs up by name among the emitted structs) is the WGSL
    layout type of the struct - hence same size and same offset of every field. *)
From stdpp Require Import gmap.
From Coq Require Import Sorting.Sorted.
From W2W Require Import Wf GenInv Tactics TypeDfs C20Proof C03Link C04Proof StructSpec StructProof C06Spec C06Proof
  C06Named RustLayout Layout C10Spec C10Proof.
Local Open Scope N_scope.

(** * [lty_eqb] is reflexive *)
Fixpoint lty_eqb_refl (l : lty) : lty_eqb l l = true.
Proof.
  destruct l as [|n|c r|t n|name fs|t]; cbn [lty_eqb].
  - reflexivity.
  - apply N.eqb_refl.
  - rewrite !N.eqb_refl. reflexivity.
  - rewrite (lty_eqb_refl t), N.eqb_refl. reflexivity.
  - rewrite String.eqb_refl. cbn [andb].
    revert fs. fix IHfs 1. intros [|f fs]; [reflexivity|]. rewrite (lty_eqb_refl f), (IHfs fs). reflexivity.
  - apply (lty_eqb_refl t).
Qed.

Fixpoint lty_eqb_eq (a b : lty) {struct a} : lty_eqb a b = true -> a = b.
Proof.
  destruct a as [|n|c r|t n|name fs|t], b as [|n'|c' r'|t' n'|name' fs'|t']; cbn [lty_eqb]; intros H; try discriminate.
  - reflexivity.
  - apply N.eqb_eq in H. congruence.
  - apply andb_true_iff in H as [H1 H2]. apply N.eqb_eq in H1, H2. congruence.
  - apply andb_true_iff in H as [H1 H2]. apply N.eqb_eq in H2. rewrite (lty_eqb_eq t t' H1), H2. reflexivity.
  - apply andb_true_iff in H as [H1 H2]. apply String.eqb_eq in H1. subst name'. f_equal.
    revert fs fs' H2. fix IHfs 1. intros [|f fs] [|f' fs'] H2; try discriminate; [reflexivity|].
    apply andb_true_iff in H2 as [Hf Hr]. rewrite (lty_eqb_eq f f' Hf), (IHfs fs fs' Hr). reflexivity.
  - rewrite (lty_eqb_eq t t' H). reflexivity.
Qed.

(** * the member list of a struct, and fuel monotonicity of [wgsl_lty] *)
Fixpoint lty_members (k : nat) (m : module) (ms : list member) : option (list lty) :=
  match ms with
  | [] => Some []
  | mem :: r =>
      match get_ty m (m_ty mem), lty_members k m r with
      | Some mt, Some fs => option_map (fun f => f :: fs) (wgsl_lty k m mt)
      | _, _ => None
      end
  end.

Lemma wgsl_lty_struct k m t ms span n :
  t_inner t = TStruct ms span -> t_name t = Some n ->
  wgsl_lty (S k) m t = option_map (LStruct n) (lty_members k m ms).
Proof.
  intros Hi Hn. cbn [wgsl_lty]. rewrite Hi, Hn. f_equal. clear Hi.
  induction ms as [|mem r IH]; [reflexivity|]. cbn [lty_members]. rewrite <- IH. reflexivity.
Qed.

Lemma wgsl_lty_S m : forall k t l, wgsl_lty k m t = Some l -> wgsl_lty (S k) m t = Some l.
Proof.
  induction k as [|k IH]; intros t l H; [discriminate|].
  destruct (t_inner t) as [s|nv s|cols rows s|s|base sp| |base sz stride|ms span|dd a c|c| | |base sz] eqn:Ei;
    try (cbn [wgsl_lty] in H |- *; rewrite Ei in H |- *; exact H).
  - (* array *)
    cbn [wgsl_lty] in H. rewrite Ei in H.
    change (wgsl_lty (S (S k)) m t) with
      (match t_inner t with
       | TScalar s | TAtomic s => if is32 s then Some LScalar else None
       | TVector n s => if is32 s then Some (LVec (vsize_n n)) else None
       | TMatrix cols rows s => if (sw s =? 4) then Some (LMat (vsize_n cols) (vsize_n rows)) else None
       | TArray base (ASConstant n) _ =>
           match get_ty m base with Some bt => option_map (fun e => LArr e n) (wgsl_lty (S k) m bt) | None => None end
       | TArray base ASDynamic _ =>
           match get_ty m base with Some bt => option_map LRts (wgsl_lty (S k) m bt) | None => None end
       | TStruct ms _ =>
           match t_name t with
           | None => None
           | Some n =>
               option_map (LStruct n)
                 ((fix go (ms : list member) : option (list lty) :=
                     match ms with
                     | [] => Some []
                     | mem :: r =>
                         match get_ty m (m_ty mem), go r with
                         | Some mt, Some fs => option_map (fun f => f :: fs) (wgsl_lty (S k) m mt)
                         | _, _ => None
                         end
                     end) ms)
           end
       | _ => None
       end).
    rewrite Ei. destruct sz as [n| |]; try discriminate; destruct (get_ty m base) as [bt|]; try discriminate;
      destruct (wgsl_lty k m bt) as [le|] eqn:El; try discriminate; rewrite (IH bt le El); exact H.
  - (* struct *)
    destruct (t_name t) as [n|] eqn:En.
    2:{ cbn [wgsl_lty] in H. rewrite Ei, En in H. discriminate. }
    rewrite (wgsl_lty_struct k _ _ _ _ _ Ei En) in H. rewrite (wgsl_lty_struct (S k) _ _ _ _ _ Ei En).
    destruct (lty_members k m ms) as [fs|] eqn:Em; [|discriminate].
    assert (Hm : lty_members (S k) m ms = Some fs).
    { clear -IH Em. revert fs Em. induction ms as [|mem r IHm]; intros fs Em; [exact Em|].
      cbn [lty_members] in *. destruct (get_ty m (m_ty mem)) as [mt|]; [|discriminate].
      destruct (lty_members k m r) as [fs'|]; [|discriminate]. rewrite (IHm fs' eq_refl).
      destruct (wgsl_lty k m mt) as [lf|] eqn:El; [|discriminate]. rewrite (IH mt lf El). exact Em. }
    rewrite Hm. exact H.
Qed.

Lemma wgsl_lty_le m k k' t l : (k <= k')%nat -> wgsl_lty k m t = Some l -> wgsl_lty k' m t = Some l.
Proof. induction 1 as [|k' _ IH]; intros H; [exact H|]. apply wgsl_lty_S. apply IH. exact H. Qed.

Lemma wgsl_lty_pos m k t l : wgsl_lty k m t = Some l -> exists k', k = S k'.
Proof. destruct k; [discriminate|eauto]. Qed.

(** * environments *)
Lemma lenv_get_app_some e x n l : lenv_get e n = Some l -> lenv_get (e ++ x) n = Some l.
Proof.
  induction e as [|[k v] e IH]; [discriminate|]. cbn [lenv_get app]. destruct (String.eqb k n); [auto|exact IH].
Qed.

Lemma lenv_get_app_new e n v : ~ In n (map fst e) -> lenv_get (e ++ [(n, v)]) n = Some v.
Proof.
  induction e as [|[k v'] e IH]; intros Hn; cbn [lenv_get app].
  - rewrite String.eqb_refl. reflexivity.
  - destruct (String.eqb_spec k n) as [->|_]; [exfalso; apply Hn; left; reflexivity|].
    apply IH. intros Hin. apply Hn. right. exact Hin.
Qed.

(** * [emitted_structs] is sorted by handle *)
Definition hlt (a b : nat * option string * list member) : Prop := (fst (fst a) < fst (fst b))%nat.

Lemma emitted_sorted_from m : forall ts h0,
  let l := flat_map (fun p : nat * ty => match t_inner (snd p) with
                     | TStruct ms _ => if emit_b m (fst p) then [(fst p, t_name (snd p), ms)] else []
                     | _ => []
                     end) (indexed ts h0) in
  StronglySorted hlt l /\ Forall (fun x => (h0 <= fst (fst x))%nat) l.
Proof.
  induction ts as [|t ts IH]; intros h0; cbn zeta; [split; constructor|].
  destruct (IH (S h0)) as [Hs Hf]. cbn zeta in Hs, Hf. cbn [indexed flat_map fst snd].
  assert (Hf' : Forall (fun x : nat * option string * list member => (h0 <= fst (fst x))%nat)
                  (flat_map (fun p : nat * ty => match t_inner (snd p) with
                     | TStruct ms _ => if emit_b m (fst p) then [(fst p, t_name (snd p), ms)] else []
                     | _ => []
                     end) (indexed ts (S h0)))).
  { eapply Forall_impl; [|exact Hf]. cbn. intros; lia. }
  destruct (t_inner t); try (split; [exact Hs|exact Hf']).
  destruct (emit_b m h0); [|split; [exact Hs|exact Hf']].
  cbn [app]. split.
  - constructor; [exact Hs|]. eapply Forall_impl; [|exact Hf]. unfold hlt. cbn. intros; lia.
  - constructor; [cbn; lia|exact Hf'].
Qed.

Lemma emitted_sorted m : StronglySorted hlt (emitted_structs m).
Proof. apply (emitted_sorted_from m (types m) 0%nat). Qed.

Lemma sorted_before l1 : forall x l2 y, StronglySorted hlt (l1 ++ x :: l2) -> In y (l1 ++ x :: l2) -> hlt y x -> In y l1.
Proof.
  induction l1 as [|a l1 IH]; intros x l2 y Hs Hin Hlt; cbn [app] in *.
  - exfalso. apply StronglySorted_inv in Hs as [_ Hall]. destruct Hin as [<-|Hin]; [unfold hlt in Hlt; lia|].
    rewrite Forall_forall in Hall. specialize (Hall y Hin). unfold hlt in *. lia.
  - apply StronglySorted_inv in Hs as [Hs Hall]. destruct Hin as [<-|Hin]; [left; reflexivity|].
    right. apply (IH x l2 y Hs Hin Hlt).
Qed.

(** * premises *)
Lemma user_members_all ms :
  forallb (fun mem => negb (is_builtin (m_binding mem))) ms = true -> user_members ms = ms.
Proof.
  unfold user_members. induction ms as [|x t IH]; [reflexivity|]. cbn [forallb filter]. intros H.
  apply andb_true_iff in H as [Hx Ht]. rewrite (IH Ht).
  destruct (m_binding x) as [[w|l b]|]; try reflexivity. discriminate.
Qed.

Lemma encase_derive_host o rts host :
  existsb (String.eqb "encase::ShaderType") (expected_derives o rts host) = true -> host = true.
Proof.
  unfold expected_derives.
  destruct rts, host, (w_bm_host o), (w_bm_vertex o), (w_encase o), (w_serde o); cbn; intros H; try reflexivity; discriminate.
Qed.

Section Comp.
  Variables (m : module) (o : options) (ss : list out_struct).
  Hypothesis Hwf : wf m = true.
  Hypothesis Hss : structs m o = Ok ss.
  Hypothesis Hglam : w_mv o = MVGlam.
  Hypothesis Hkf : kf_nonsquare_encase m = false.
  Hypothesis Hnb : host_no_builtins m = true.

  Let Htypes : wf_global_types m = true. Proof. apply (wf_proj m Hwf). Qed.
  Let Hwft : wf_types m = true. Proof. apply (wf_proj m Hwf). Qed.
  Let HwfT : wfT m. Proof. apply wf_types_wfT. exact Hwft. Qed.
  Let F := S (length (types m)).

  Lemma host_iff h : host_shareable_b m h = true <-> host_shareable m h.
  Proof.
    unfold host_shareable_b, host_shareable. rewrite existsb_exists.
    split; intros (g & Hin & Hr); exists g; (split; [exact Hin|]);
      apply (reach_ty_b_spec m h HwfT (length (types m)) (g_ty g)); try (apply wf_global_types_lt; assumption); exact Hr.
  Qed.

  Lemma host_child d i c : host_shareable m d -> get_inner m d = Some i -> In c (children i) -> host_shareable m c.
  Proof.
    intros (g & Hg & Hr) Hi Hc. exists g. split; [exact Hg|]. eapply reach_ty_trans; [exact Hr|].
    eapply rty_step; [exact Hi|exact Hc|].
    assert (c < length (types m))%nat.
    { assert (c < d)%nat by (eapply HwfT; [exact Hi|]; destruct i; exact Hc).
      unfold get_inner, get_ty in Hi. destruct (nth_error (types m) d) eqn:E; [|discriminate].
      assert (d < length (types m))%nat by (apply nth_error_Some; congruence). lia. }
    destruct (nth_error (types m) c) as [tc|] eqn:E; [|apply nth_error_None in E; lia].
    eapply rty_here. unfold get_inner, get_ty. rewrite E. reflexivity.
  Qed.

  (** the environment [e] knows every host-shareable struct below [h0] *)
  Definition knows (e : lenv) (h0 : nat) : Prop :=
    forall d t' n l', (d < h0)%nat -> host_shareable m d -> get_ty m d = Some t' ->
      (exists ms span, t_inner t' = TStruct ms span) -> t_name t' = Some n ->
      wgsl_lty F m t' = Some l' -> lenv_get e n = Some l'.

  Lemma encase_member e h0 : knows e h0 ->
    forall k d t fuel r l, (d < h0)%nat -> host_shareable m d -> get_ty m d = Some t -> (k <= F)%nat ->
      rust_type fuel m t MVGlam = Ok r -> wgsl_lty k m t = Some l -> has_nonsquare l = false ->
      encase_lty e r = Some l.
  Proof.
    intros Hk. induction k as [|k IH]; intros d t fuel r l Hd Hh Ht Hle Hr Hl Hns; [discriminate|].
    destruct fuel as [|fuel]; [discriminate|].
    assert (Hi : get_inner m d = Some (t_inner t)) by (unfold get_inner; rewrite Ht; reflexivity).
    destruct (t_inner t) as [s|n s|cols rows s|s|base sp| |base sz stride|ms span|dd a c|c| | |base sz] eqn:Ei.
    all: try (cbn [wgsl_lty] in Hl; rewrite Ei in Hl; discriminate).
    - cbn [rust_type wgsl_lty] in Hr, Hl. rewrite Ei in Hr, Hl.
      destruct s as [kd w]. unfold is32, rust_scalar_type in *. cbn [sk sw] in *.
      destruct (N.eqb_spec w 4) as [->|]; [|discriminate]. destruct kd; cbn in Hl, Hr; try discriminate;
        inversion Hl; inversion Hr; subst; reflexivity.
    - cbn [rust_type wgsl_lty] in Hr, Hl. rewrite Ei in Hr, Hl.
      destruct s as [kd w]. unfold is32, glam_vector_type, rust_vector_type, rust_scalar_type in *. cbn [sk sw] in *.
      destruct (N.eqb_spec w 4) as [->|]; [|discriminate]. destruct kd, n; cbn in Hl, Hr; try discriminate;
        inversion Hl; inversion Hr; subst; reflexivity.
    - cbn [rust_type wgsl_lty] in Hr, Hl. rewrite Ei in Hr, Hl.
      destruct s as [kd w]. cbn [sk sw] in *. destruct (N.eqb_spec w 4) as [->|]; [|discriminate].
      inversion Hl; subst l. cbn [has_nonsquare] in Hns. unfold glam_matrix_type, rust_matrix_type, rust_scalar_type in Hr.
      destruct cols, rows; cbn in Hns, Hr; try discriminate; inversion Hr; subst; reflexivity.
    - cbn [rust_type wgsl_lty] in Hr, Hl. rewrite Ei in Hr, Hl.
      destruct s as [kd w]. unfold is32, rust_scalar_type in *. cbn [sk sw] in *.
      destruct (N.eqb_spec w 4) as [->|]; [|discriminate]. destruct kd; cbn in Hl, Hr; try discriminate;
        inversion Hl; inversion Hr; subst; reflexivity.
    - cbn [rust_type wgsl_lty] in Hr, Hl. rewrite Ei in Hr, Hl.
      destruct sz as [n| |]; try discriminate.
      destruct (get_ty m base) as [bt|] eqn:Hb; [|discriminate].
      apply rbind_ok in Hr as (x & Hx & Hr). inversion Hr; subst r.
      destruct (wgsl_lty k m bt) as [le|] eqn:El; [|discriminate]. inversion Hl; subst l.
      cbn [has_nonsquare] in Hns. cbn [encase_lty].
      assert (Hlt : (base < d)%nat) by (eapply HwfT; [exact Hi|left; reflexivity]).
      assert (Hb' : host_shareable m base) by (eapply host_child; [exact Hh|exact Hi|left; reflexivity]).
      rewrite (IH base bt fuel x le ltac:(lia) Hb' Hb ltac:(lia) Hx El Hns). reflexivity.
    - cbn [rust_type] in Hr. rewrite Ei in Hr. destruct (t_name t) as [n|] eqn:En; [|discriminate].
      inversion Hr; subst r. cbn [encase_lty].
      apply (Hk d t n l Hd Hh Ht); [eauto|exact En|]. apply (wgsl_lty_le m (S k) F t l Hle Hl).
  Qed.

  (** what the environment must know about an emitted struct *)
  Definition good (x : nat * option string * list member) (e : lenv) : Prop :=
    host_shareable_b m (fst (fst x)) = true ->
    forall t l n, get_ty m (fst (fst x)) = Some t -> wgsl_lty F m t = Some l -> t_name t = Some n ->
      lenv_get e n = Some l.

  Lemma nonsquare_emitted x t l : In x (emitted_structs m) -> get_ty m (fst (fst x)) = Some t ->
    wgsl_lty F m t = Some l -> has_nonsquare l = false.
  Proof.
    intros Hin Ht Hl. unfold kf_nonsquare_encase in Hkf.
    destruct (has_nonsquare l) eqn:E; [|reflexivity]. exfalso.
    assert (Hex : existsb (fun e => match get_ty m (fst (fst e)) with
                    | Some t => match wgsl_lty (S (length (types m))) m t with Some l => has_nonsquare l | None => false end
                    | None => false
                    end) (emitted_structs m) = true).
    { apply existsb_exists. exists x. split; [exact Hin|]. rewrite Ht. fold F. rewrite Hl. exact E. }
    congruence.
  Qed.

  Lemma fields_encase e h0 (Hknow : knows e h0) (Hh0 : host_shareable m h0) t0 ms0 span0 :
    get_ty m h0 = Some t0 -> t_inner t0 = TStruct ms0 span0 ->
    forall ms fs n0, (forall mem, In mem ms -> In mem ms0) ->
      Forall2 (fun mem f => exists idx, struct_member m o n0 idx mem = Ok f) ms fs ->
      forall ls, lty_members (length (types m)) m ms = Some ls -> existsb has_nonsquare ls = false ->
      encase_fields e fs = Some ls.
  Proof.
    intros Ht0 Hi0 ms fs n0 Hsub Hf. induction Hf as [|mem f ms fs (idx & Hsm) _ IH]; intros ls Hls Hns.
    - inversion Hls. reflexivity.
    - cbn [lty_members] in Hls. destruct (get_ty m (m_ty mem)) as [mt|] eqn:Hmt; [|discriminate].
      destruct (lty_members (length (types m)) m ms) as [ls'|] eqn:Els; [|discriminate].
      destruct (wgsl_lty (length (types m)) m mt) as [lf|] eqn:Elf; [|discriminate]. inversion Hls; subst ls.
      cbn [existsb] in Hns. apply orb_false_iff in Hns as [Hns1 Hns2].
      cbn [encase_fields]. rewrite (IH (fun x Hx => Hsub x (or_intror Hx)) ls' eq_refl Hns2).
      assert (Hmem0 : In mem ms0) by (apply Hsub; left; reflexivity).
      assert (Hi0' : get_inner m h0 = Some (TStruct ms0 span0)) by (unfold get_inner; rewrite Ht0; cbn; rewrite Hi0; reflexivity).
      assert (Hlt : (m_ty mem < h0)%nat) by (eapply HwfT; [exact Hi0'|cbn; apply in_map; exact Hmem0]).
      assert (Hhm : host_shareable m (m_ty mem)) by (eapply host_child; [exact Hh0|exact Hi0'|cbn; apply in_map; exact Hmem0]).
      assert (Hfl : encase_lty e (fd_ty f) = Some lf).
      { unfold struct_member in Hsm. destruct (m_name mem) as [name|]; [|discriminate]. rewrite Hmt in Hsm.
        rewrite Hglam in Hsm.
        assert (Hnorm : forall r, rust_type (type_fuel m) m mt MVGlam = Ok r -> encase_lty e r = Some lf).
        { intros r Hr. apply (encase_member e h0 Hknow (length (types m)) (m_ty mem) mt (type_fuel m) r lf); try assumption.
          unfold F. lia. }
        destruct (t_inner mt) as [s|nv s|cols rows s|s|base sp| |base sz stride|ms1 span1|dd a c|c| | |base sz] eqn:Ei;
          try (apply rbind_ok in Hsm as (r & Hr & Hsm); inversion Hsm; subst f; cbn [fd_ty]; apply Hnorm; exact Hr).
        destruct sz as [cnt| |];
          try (apply rbind_ok in Hsm as (r & Hr & Hsm); inversion Hsm; subst f; cbn [fd_ty]; apply Hnorm; exact Hr).
        destruct (negb (idx =? n0 - 1)%nat); [discriminate|].
        destruct (get_ty m base) as [bt|] eqn:Hb; [|discriminate].
        apply rbind_ok in Hsm as (r & Hr & Hsm). inversion Hsm; subst f. cbn [fd_ty encase_lty].
        pose proof (wgsl_lty_pos _ _ _ _ Elf) as Hpos.
        destruct Hpos as (k & Elen). rewrite Elen in Elf.
        cbn [wgsl_lty] in Elf. rewrite Ei, Hb in Elf.
        destruct (wgsl_lty k m bt) as [lb|] eqn:Elb; [|discriminate]. inversion Elf; subst lf.
        cbn [has_nonsquare] in Hns1.
        assert (Hmi : get_inner m (m_ty mem) = Some (TArray base ASDynamic stride))
          by (unfold get_inner; rewrite Hmt; cbn; rewrite Ei; reflexivity).
        assert (Hbl : (base < m_ty mem)%nat) by (eapply HwfT; [exact Hmi|left; reflexivity]).
        assert (Hb' : host_shareable m base) by (eapply host_child; [exact Hhm|exact Hmi|left; reflexivity]).
        assert (HkF : (k <= F)%nat) by (unfold F; rewrite Elen; lia).
        rewrite (encase_member e h0 Hknow k base bt (type_fuel m) r lb ltac:(lia) Hb' Hb HkF Hr Elb Hns1). reflexivity. }
      rewrite Hfl. reflexivity.
  Qed.

  (** processing the emitted structs in order keeps every processed struct known *)
  Lemma env_inv : forall rest done ssd ssr e,
    emitted_structs m = done ++ rest -> ss = ssd ++ ssr ->
    Forall2 (srel m o) done ssd -> Forall2 (srel m o) rest ssr ->
    (forall x, In x done -> good x e) ->
    (forall n, In n (map fst e) -> In n (map s_name ssd)) ->
    forall x, In x (done ++ rest) -> good x (encase_env ssr e).
  Proof.
    induction rest as [|x rest IH]; intros done ssd ssr e Hes Hsss Hd Hr Hgood Hnames y Hy.
    - inversion Hr; subst ssr. cbn [encase_env]. rewrite app_nil_r in Hy. apply Hgood. exact Hy.
    - inversion Hr as [|x' s rest' ssr' Hxs Hr' E1 E2]; subst x' rest' ssr. cbn [encase_env].
      assert (Hes' : emitted_structs m = (done ++ [x]) ++ rest) by (rewrite <- app_assoc; exact Hes).
      assert (Hsss' : ss = (ssd ++ [s]) ++ ssr') by (rewrite <- app_assoc; exact Hsss).
      assert (Hd' : Forall2 (srel m o) (done ++ [x]) (ssd ++ [s])) by (apply Forall2_app; [exact Hd|constructor; [exact Hxs|constructor]]).
      assert (Hy' : In y ((done ++ [x]) ++ rest)) by (rewrite <- app_assoc; exact Hy).
      destruct Hxs as (t0 & Hrs & Hn0 & Ht0). destruct x as [[h0 nm0] ms0]. cbn [fst snd] in *.
      destruct (rust_struct_spec _ _ _ _ _ _ _ Hrs) as (Hname & _).
      assert (Hxin : In (h0, nm0, ms0) (emitted_structs m)) by (rewrite Hes; apply in_or_app; right; left; reflexivity).
      destruct (emitted_in m h0 nm0 ms0 Hxin) as (t0' & span0 & Ht0' & Hi0 & Hemit0 & _).
      rewrite Ht0 in Ht0'. inversion Ht0'; subst t0'. clear Ht0'.
      (* the new struct is known to the extended environment whenever it is host-shareable and in the domain *)
      assert (Hnew : host_shareable_b m h0 = true -> forall l, wgsl_lty F m t0 = Some l ->
                exists fs, encase_fields e (s_fields s) = Some fs /\ l = LStruct (s_name s) fs).
      { intros Hh l Hl. unfold F in Hl. rewrite (wgsl_lty_struct _ _ _ _ _ _ Hi0 Hname) in Hl.
        destruct (lty_members (length (types m)) m ms0) as [ls|] eqn:Els; [|discriminate]. inversion Hl; subst l.
        exists ls. split; [|reflexivity].
        assert (Hum : user_members ms0 = ms0).
        { apply user_members_all. unfold host_no_builtins in Hnb. rewrite forallb_forall in Hnb.
          specialize (Hnb _ Hxin). cbn [fst snd] in Hnb. rewrite Hh in Hnb. cbn [negb orb] in Hnb. exact Hnb. }
        pose proof (rust_struct_fields _ _ _ _ _ _ _ Hrs) as Hf. rewrite Hum in Hf.
        assert (Hknow : knows e h0).
        { intros d t' n l' Hlt Hhd Htd (ms' & span' & Hid) Hnd Hld.
          assert (Hed : emit_b m d = true) by (unfold emit_b; apply host_iff in Hhd; rewrite Hhd; reflexivity).
          pose proof (in_emitted m d t' ms' span' Htd Hid Hed) as Hind.
          assert (Hdone : In (d, t_name t', ms') done).
          { apply (sorted_before done (h0, nm0, ms0) rest); [rewrite <- Hes; apply emitted_sorted|rewrite <- Hes; exact Hind|exact Hlt]. }
          apply (Hgood _ Hdone (proj2 (host_iff d) Hhd) t' l' n Htd Hld Hnd). }
        apply (fields_encase e h0 Hknow (proj1 (host_iff h0) Hh) t0 ms0 span0 Ht0 Hi0 ms0 (s_fields s) _ (fun _ H => H) Hf ls Els).
        assert (Hns : has_nonsquare (LStruct (s_name s) ls) = false).
        { apply (nonsquare_emitted (h0, nm0, ms0) t0); [exact Hxin|exact Ht0|].
          unfold F. rewrite (wgsl_lty_struct _ _ _ _ _ _ Hi0 Hname), Els. reflexivity. }
        exact Hns. }
      assert (Hfresh : ~ In (s_name s) (map fst e)).
      { intros Hin. apply Hnames in Hin.
        destruct (C08_ok_structs m o ss Hwf Hss) as [_ Hnd]. apply str_nodup_spec in Hnd.
        rewrite Hsss, map_app in Hnd. cbn [map] in Hnd. apply NoDup_remove_2 in Hnd. apply Hnd.
        apply in_or_app. left. exact Hin. }
      destruct (encase_fields e (s_fields s)) as [fs|] eqn:Ef.
      + apply (IH (done ++ [(h0, nm0, ms0)]) (ssd ++ [s]) ssr' (e ++ [(s_name s, LStruct (s_name s) fs)]) Hes' Hsss' Hd' Hr'); [| |exact Hy'].
        * intros z Hz. apply in_app_or in Hz as [Hz|[<-|[]]].
          -- intros Hh t l n Ht Hl Hn. apply lenv_get_app_some. apply (Hgood z Hz Hh t l n Ht Hl Hn).
          -- intros Hh t l n Ht Hl Hn. cbn [fst snd] in *. rewrite Ht0 in Ht. inversion Ht; subst t.
             destruct (Hnew Hh l Hl) as (fs' & Hfs' & ->). assert (fs' = fs) by congruence. subst fs'.
             assert (n = s_name s) by congruence. subst n. apply lenv_get_app_new. exact Hfresh.
        * intros n Hn. rewrite map_app in Hn |- *. apply in_app_or in Hn as [Hn|[<-|[]]]; apply in_or_app;
            [left; apply Hnames; exact Hn|right; left; reflexivity].
      + apply (IH (done ++ [(h0, nm0, ms0)]) (ssd ++ [s]) ssr' e Hes' Hsss' Hd' Hr'); [| |exact Hy'].
        * intros z Hz. apply in_app_or in Hz as [Hz|[<-|[]]]; [apply Hgood; exact Hz|].
          intros Hh t l n Ht Hl Hn. cbn [fst snd] in *. rewrite Ht0 in Ht. inversion Ht; subst t.
          destruct (Hnew Hh l Hl) as (fs' & Hfs' & _). congruence.
        * intros n Hn. rewrite map_app. apply in_or_app. left. apply Hnames. exact Hn.
  Qed.

  Lemma all_good : forall x, In x (emitted_structs m) -> good x (encase_env ss []).
  Proof.
    intros x Hx. apply (env_inv (emitted_structs m) [] [] ss []); try reflexivity.
    - constructor.
    - apply structs_rel; assumption.
    - intros y [].
    - intros n [].
    - exact Hx.
  Qed.

  Lemma encase_ok_rel out_ : o_structs out_ = ss -> forall es ss',
    Forall2 (srel m o) es ss' -> (forall x, In x es -> In x (emitted_structs m)) ->
    forallb2 (struct_encase_ok m out_) es ss' = true.
  Proof.
    intros Hout es ss' Hrel. induction Hrel as [|x s es' ss'' (t & Hrs & Hn & Ht) _ IH]; intros Hsub; [reflexivity|].
    cbn [forallb2]. rewrite IH by (intros y Hy; apply Hsub; right; exact Hy). rewrite andb_true_r.
    unfold struct_encase_ok. destruct (has_derive s "encase::ShaderType") eqn:Hder; [|reflexivity].
    rewrite Ht. fold F. destruct (wgsl_lty F m t) as [l|] eqn:El; [|reflexivity].
    destruct (Nat.eqb (length (user_members (snd x))) (length (snd x))); [|reflexivity].
    destruct x as [[h nm] ms]. cbn [fst snd] in *.
    destruct (rust_struct_spec _ _ _ _ _ _ _ Hrs) as (Hname & Hd & _). cbn zeta in Hd.
    assert (Hhost : host_shareable_b m h = true).
    { rewrite <- (host_bool m h Hwft Htypes). unfold has_derive in Hder. rewrite Hd in Hder.
      apply (encase_derive_host o _ _ Hder). }
    rewrite Hout. rewrite (all_good (h, nm, ms) (Hsub _ (or_introl eq_refl)) Hhost t l (s_name s) Ht El Hname).
    apply lty_eqb_refl.
  Qed.

  Theorem C10_ok_structs : forall out_, o_structs out_ = ss ->
    forallb2 (struct_encase_ok m out_) (emitted_structs m) ss = true.
  Proof.
    intros out_ Hout. apply (encase_ok_rel out_ Hout); [apply structs_rel; assumption|auto].
  Qed.
End Comp.

Theorem C10_ok_gen m src inc o out_ :
  wf m = true -> w_mv o = MVGlam -> kf_nonsquare_encase m = false -> host_no_builtins m = true ->
  gen m src inc o = Ok out_ -> C10_ok m out_ = true.
Proof.
  intros Hwf Hglam Hkf Hnb Hgen. destruct (gen_inv _ _ _ _ _ Hgen) as [bgd pc _ Hss _ _ _ _ _ _ _ _ _ _ _ _ _ _ _].
  unfold C10_ok. apply (C10_ok_structs m o (o_structs out_) Hwf Hss Hglam Hkf Hnb out_ eq_refl).
Qed.
