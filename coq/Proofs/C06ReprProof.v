(** C06: fields are written in the selected representation. *)
From stdpp Require Import gmap.
From W2W Require Import Wf GenInv Tactics StructSpec StructProof C06Spec C06Proof C06Repr.
Local Open Scope N_scope.

Lemma rust_type_repr m mv : forall fuel t r,
  rust_type fuel m t mv = Ok r -> repr_ok mv fuel m t r = true.
Proof.
  induction fuel as [|k IH]; intros t r H; [discriminate|].
  cbn [rust_type repr_ok wgsl_shape] in *.
  destruct (t_inner t) as [s|n s|cols rows s|s|base sp| |base sz stride|ms span|d a c|c| | |base sz] eqn:Hi; try discriminate;
    try reflexivity.
  - (* vector *)
    destruct s as [kd w].
    destruct mv; unfold rust_vector_type, glam_vector_type, nalgebra_vector_type, rust_scalar_type, prim_of in *;
      cbn [sk sw] in *; destruct n, kd; cbn in H |- *; destruct_match_vars; try discriminate; inversion H; subst r;
      reflexivity.
  - (* matrix *)
    destruct s as [kd w].
    destruct mv; unfold rust_matrix_type, glam_matrix_type, nalgebra_matrix_type, rust_scalar_type, prim_of in *;
      cbn [sk sw] in *; destruct cols, rows; cbn in H |- *; destruct_match_vars; try discriminate; inversion H; subst r;
      reflexivity.
  - (* array *)
    destruct sz as [n| |]; try discriminate.
    destruct (get_ty m base) as [bt|]; [|discriminate].
    apply rbind_ok in H as (e & He & H). inversion H; subst r. exact (IH bt e He).
Qed.

Lemma struct_member_repr m o n idx mem f :
  struct_member m o n idx mem = Ok f -> member_repr_ok m o mem f = true.
Proof.
  unfold struct_member, member_repr_ok.
  destruct (m_name mem) as [name|]; [|discriminate].
  destruct (get_ty m (m_ty mem)) as [t|]; [|discriminate].
  destruct (t_inner t) as [s|nv s|cols rows s|s|base sp| |base sz stride|ms span|d a c|c| | |base sz] eqn:Hi;
    try (intros H; apply rbind_ok in H as (e & He & H); inversion H; subst f; cbn [fd_ty];
         pose proof (rust_type_repr m (w_mv o) _ _ _ He) as Hr; unfold type_fuel in Hr;
         cbn [repr_ok] in Hr |- *; rewrite Hi in Hr |- *; exact Hr).
  destruct sz as [k| |].
  - intros H; apply rbind_ok in H as (e & He & H); inversion H; subst f; cbn [fd_ty].
    pose proof (rust_type_repr m (w_mv o) _ _ _ He) as Hr. unfold type_fuel in Hr.
    cbn [repr_ok] in Hr |- *. rewrite Hi in Hr |- *. exact Hr.
  - destruct (negb (idx =? n - 1)%nat); [discriminate|].
    destruct (get_ty m base) as [bt|]; [|discriminate].
    intros H; apply rbind_ok in H as (e & He & H); inversion H; subst f; cbn [fd_ty].
    exact (rust_type_repr m (w_mv o) _ _ _ He).
  - intros H; apply rbind_ok in H as (e & He & H). unfold type_fuel in He. cbn [rust_type] in He. rewrite Hi in He. discriminate.
Qed.

Lemma repr_of_rel m o es ss :
  Forall2 (srel m o) es ss -> forallb2 (struct_repr_ok m o) es ss = true.
Proof.
  intros H. induction H as [|e s l l' (t & Hrs & Hn & Ht) _ IH]; [reflexivity|].
  pose proof (rust_struct_fields _ _ _ _ _ _ _ Hrs) as Hf.
  cbn [forallb2]. rewrite IH, andb_true_r. unfold struct_repr_ok.
  clear -Hf. induction Hf as [|mem f ms fs (idx & Hm) _ IH]; [reflexivity|].
  cbn [forallb2]. rewrite IH, andb_true_r. apply (struct_member_repr _ _ _ _ _ _ Hm).
Qed.

Theorem C06_repr_gen m src inc o out_ :
  wf m = true -> gen m src inc o = Ok out_ -> C06_repr_ok m o out_ = true.
Proof.
  intros Hwf Hgen. destruct (gen_inv _ _ _ _ _ Hgen) as [bgd pc _ Hss _ _ _ _ _ _ _ _ _ _ _ _ _ _ _].
  pose proof (structs_rel m o (o_structs out_) Hwf Hss) as Hrel.
  exact (repr_of_rel m o _ _ Hrel).
Qed.
