(** C13: the length of the push constant range is a multiple of 4 (the property's parenthesis; wgpu rejects a
    range that is not), from the WGSL layout rules: [LayoutFacts.l_size_multiple_of_4]. *)
From stdpp Require Import gmap.
From W2W Require Import Wf GenInv Tactics C03Spec C03Link C13Spec C13Proof Layout LayoutFacts.
Local Open Scope N_scope.

(** premise, evaluated on every case: the push constant's type is in the domain of [Layout.wgsl_lty] (32-bit
    scalars, vectors, f32 matrices, arrays and structs of those) and naga's Layouter size is the size the
    WGSL rules of Layout.v give *)
Definition pc_layout_agrees (m : module) : bool :=
  match List.find is_push_constant (globals m) with
  | None => true
  | Some gl =>
      match get_ty m (g_ty gl) with
      | Some t =>
          match wgsl_lty (S (length (types m))) m t with
          | Some lt => t_size t =? l_size lt
          | None => false
          end
      | None => false
      end
  end.

Theorem pc_range_multiple_of_4 m src inc o out_ :
  wf m = true -> pc_size_agrees m = true -> pc_layout_agrees m = true -> gen m src inc o = Ok out_ ->
  Forall (fun r => pr_start r = 0 /\ pr_end r mod 4 = 0) (o_pc_ranges out_).
Proof.
  intros Hwf Hsize Hlay Hgen. pose proof (C13_ok_gen m src inc o out_ Hwf Hsize Hgen) as Hok.
  unfold C13_ok, pc_layout_agrees in *. pose proof (find_pc_from_spec (globals m) 0) as Hpcf.
  destruct (find_pc_from (globals m) 0) as [h|], (List.find is_push_constant (globals m)) as [gl|]; try contradiction.
  - destruct Hpcf as (i & -> & Hi). cbn in Hok. rewrite Hi in Hok.
    destruct (get_ty m (g_ty gl)) as [t|]; [|discriminate].
    destruct (wgsl_lty (S (length (types m))) m t) as [lt|]; [|discriminate]. apply N.eqb_eq in Hlay.
    destruct (o_pc_stages out_); [|discriminate]. destruct (o_pc_ranges out_) as [|r [|r' rs]]; try discriminate.
    repeat (apply andb_true_iff in Hok as [Hok ?]).
    constructor; [|constructor]. split; [apply N.eqb_eq; assumption|].
    match goal with H : (pr_end r =? t_size t) = true |- _ => apply N.eqb_eq in H; rewrite H end.
    rewrite Hlay. apply l_size_multiple_of_4.
  - destruct (o_pc_stages out_); [discriminate|]. destruct (o_pc_ranges out_); [constructor|discriminate].
Qed.

(** the same clause as a checker over an arbitrary output (evaluated on the real output of every case) *)
Definition pc_ranges_mult4 (o : out) : bool :=
  forallb (fun r => (pr_start r =? 0) && (pr_end r mod 4 =? 0)) (o_pc_ranges o).
