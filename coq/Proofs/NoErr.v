(** After [get_bind_group_data] no stage of the generator can return a typed error:
    every later function returns [Ok] or panics. *)
From stdpp Require Import gmap.
From W2W Require Import Gen.

Definition no_err {A} (r : result A) : Prop := match r with Err _ => False | _ => True end.

Lemma no_err_bind {A B} (r : result A) (f : A -> result B) :
  no_err r -> (forall a, no_err (f a)) -> no_err (rbind r f).
Proof. destruct r; cbn; auto. Qed.

Lemma no_err_rmap {A B} (g : A -> B) (r : result A) : no_err r -> no_err (rmap g r).
Proof. destruct r; cbn; auto. Qed.

Lemma no_err_rmapM {A B} (f : A -> result B) l : (forall a, no_err (f a)) -> no_err (rmapM f l).
Proof.
  intros H. induction l as [|x t IH]; cbn; [exact I|].
  apply no_err_bind; [apply H|]. intros y. apply no_err_bind; [exact IH|]. intros ys. exact I.
Qed.

Lemma no_err_rfilter_map {A B} (f : A -> result (option B)) l :
  (forall a, no_err (f a)) -> no_err (rfilter_map f l).
Proof.
  intros H. induction l as [|x t IH]; cbn; [exact I|].
  apply no_err_bind; [apply H|]. intros y. apply no_err_bind; [exact IH|]. intros ys. exact I.
Qed.

Ltac ne_step :=
  match goal with
  | |- no_err (Ok _) => exact I
  | |- no_err (Panic _) => exact I
  | |- no_err (rbind _ _) => apply no_err_bind; [|intros ?]
  | |- no_err (rmap _ _) => apply no_err_rmap
  | |- no_err (rmapM _ _) => apply no_err_rmapM; intros ?
  | |- no_err (rfilter_map _ _) => apply no_err_rfilter_map; intros ?
  | |- no_err (match ?x with _ => _ end) => destruct x
  | |- no_err (if ?x then _ else _) => destruct x
  | |- no_err (let '(_, _) := ?x in _) => destruct x
  | H : _ |- _ => solve [apply H]
  end.
Ltac ne := repeat ne_step.

Lemma ne_storage_access a : no_err (storage_access a).
Proof. unfold storage_access. ne. Qed.
Lemma ne_view_dimension d a : no_err (view_dimension d a).
Proof. unfold view_dimension. ne. Qed.
Lemma ne_binding_type_of b : no_err (binding_type_of b).
Proof. unfold binding_type_of. ne; try apply ne_view_dimension; try apply ne_storage_access. Qed.
Lemma ne_bind_group_layout_entry b M : no_err (bind_group_layout_entry b M).
Proof. unfold bind_group_layout_entry. ne. apply ne_binding_type_of. Qed.
Lemma ne_layout_field b : no_err (layout_field b).
Proof. unfold layout_field. ne. Qed.
Lemma ne_bind_entry b : no_err (bind_entry b).
Proof. unfold bind_entry. ne. Qed.
Lemma ne_gen_group M g : no_err (gen_group M g).
Proof.
  unfold gen_group. ne; try apply ne_layout_field; try apply ne_bind_group_layout_entry; try apply ne_bind_entry.
Qed.
Lemma ne_bind_groups_module gs M : no_err (bind_groups_module gs M).
Proof. unfold bind_groups_module. ne. apply ne_gen_group. Qed.

Lemma ne_rust_scalar_type s : no_err (rust_scalar_type s).
Proof. unfold rust_scalar_type. ne. Qed.
Lemma ne_rust_matrix_type r c w : no_err (rust_matrix_type r c w).
Proof. unfold rust_matrix_type. ne. apply ne_rust_scalar_type. Qed.
Lemma ne_glam_matrix_type r c w : no_err (glam_matrix_type r c w).
Proof. unfold glam_matrix_type. ne; apply ne_rust_matrix_type. Qed.
Lemma ne_nalgebra_matrix_type r c w : no_err (nalgebra_matrix_type r c w).
Proof. unfold nalgebra_matrix_type. ne. apply ne_rust_scalar_type. Qed.
Lemma ne_rust_vector_type n s : no_err (rust_vector_type n s).
Proof. unfold rust_vector_type. ne. apply ne_rust_scalar_type. Qed.
Lemma ne_glam_vector_type n s : no_err (glam_vector_type n s).
Proof. unfold glam_vector_type. ne; apply ne_rust_vector_type. Qed.
Lemma ne_nalgebra_vector_type n s : no_err (nalgebra_vector_type n s).
Proof. unfold nalgebra_vector_type. ne. apply ne_rust_scalar_type. Qed.

Lemma ne_rust_type fuel m : forall t mv, no_err (rust_type fuel m t mv).
Proof.
  induction fuel as [|k IH]; intros t mv; cbn [rust_type]; [exact I|].
  ne; try apply ne_rust_scalar_type; try apply ne_rust_vector_type; try apply ne_glam_vector_type;
    try apply ne_nalgebra_vector_type; try apply ne_rust_matrix_type; try apply ne_glam_matrix_type;
    try apply ne_nalgebra_matrix_type.
Qed.

Lemma ne_struct_member m o n i mem : no_err (struct_member m o n i mem).
Proof. unfold struct_member. ne; apply ne_rust_type. Qed.
Lemma ne_struct_members_from m o n ms : forall i, no_err (struct_members_from m o n i ms).
Proof. induction ms as [|x t IH]; intros i; cbn [struct_members_from]; ne; apply ne_struct_member. Qed.
Lemma ne_member_offset_assert mem : no_err (member_offset_assert mem).
Proof. unfold member_offset_assert. ne. Qed.
Lemma ne_rust_struct m o gvt h t ms : no_err (rust_struct m o gvt h t ms).
Proof.
  unfold rust_struct. ne; try apply ne_member_offset_assert; try apply ne_struct_members_from.
Qed.
Lemma ne_structs_from m o gvt ts : forall h, no_err (structs_from m o gvt h ts).
Proof. induction ts as [|t rest IH]; intros h; cbn [structs_from]; ne; apply ne_rust_struct. Qed.
Lemma ne_structs m o : no_err (structs m o).
Proof. unfold structs. ne. apply ne_structs_from. Qed.

Lemma ne_override_key o : no_err (override_key o).
Proof. unfold override_key. ne. Qed.
Lemma ne_override_field m o : no_err (override_field m o).
Proof. unfold override_field. ne. apply ne_rust_type. Qed.
Lemma ne_override_entry m o : no_err (override_entry m o).
Proof. unfold override_entry. ne. apply ne_override_key. Qed.
Lemma ne_pipeline_overridable_constants m : no_err (pipeline_overridable_constants m).
Proof.
  unfold pipeline_overridable_constants. ne; try apply ne_override_field; try apply ne_override_entry.
Qed.

Lemma ne_vertex_format i : no_err (vertex_format i).
Proof. unfold vertex_format. ne. Qed.
Lemma ne_vertex_field mem : no_err (vertex_field mem).
Proof. unfold vertex_field. ne. Qed.
Lemma ne_vertex_arg_struct m a : no_err (vertex_arg_struct m a).
Proof. unfold vertex_arg_struct. ne. apply ne_vertex_field. Qed.
Lemma ne_vertex_entry_structs m e : no_err (vertex_entry_structs m e).
Proof. unfold vertex_entry_structs. ne. apply ne_vertex_arg_struct. Qed.
Lemma ne_get_vertex_input_structs m : no_err (get_vertex_input_structs m).
Proof. unfold get_vertex_input_structs. ne. apply ne_vertex_entry_structs. Qed.
Lemma ne_vertex_attr m s f : no_err (vertex_attr m s f).
Proof. unfold vertex_attr. ne. apply ne_vertex_format. Qed.
Lemma ne_vertex_struct_impl m vi : no_err (vertex_struct_impl m vi).
Proof. unfold vertex_struct_impl. ne. apply ne_vertex_attr. Qed.
Lemma ne_vertex_struct_methods m : no_err (vertex_struct_methods m).
Proof. unfold vertex_struct_methods. ne; [apply ne_get_vertex_input_structs|apply ne_vertex_struct_impl]. Qed.
Lemma ne_vertex_entry m e : no_err (vertex_entry m e).
Proof. unfold vertex_entry. ne. apply ne_vertex_entry_structs. Qed.
Lemma ne_vertex_states m : no_err (vertex_states m).
Proof. unfold vertex_states. ne. apply ne_vertex_entry. Qed.
Lemma ne_push_constant_range_stages m M : no_err (push_constant_range_stages m M).
Proof. unfold push_constant_range_stages. ne. Qed.

(** [gen] returns a typed error only if [get_bind_group_data] does, and then the same one *)
Theorem gen_err_only_from_bind_group_data m src inc o e :
  gen m src inc o = Err e -> get_bind_group_data m = Err e.
Proof.
  unfold gen. destruct (get_bind_group_data m) as [bgd|e'|w]; cbn; [|congruence|discriminate].
  intros H. exfalso.
  assert (Hne : no_err (Err (A:=out) e)) by (rewrite <- H; ne;
    first [apply ne_structs|apply ne_bind_groups_module|apply ne_vertex_struct_methods
          |apply ne_vertex_states|apply ne_push_constant_range_stages
          |apply ne_pipeline_overridable_constants]).
  exact Hne.
Qed.

Theorem gen_err_of_bind_group_data m src inc o e :
  get_bind_group_data m = Err e -> gen m src inc o = Err e.
Proof. unfold gen. intros ->. reflexivity. Qed.

(** the only typed errors of [get_bind_group_data] (hence of [gen]) are its own two *)
Lemma build_err_kind m gs : forall h acc e, build m gs h acc = Err e -> exists b, e = DuplicateBinding b.
Proof.
  induction gs as [|g t IH]; intros h acc e H; cbn [build] in H; [discriminate|].
  destruct (g_binding g) as [[grp b]|]; [|eapply IH; exact H].
  destruct (get_ty m (g_ty g)); [|discriminate].
  destruct (add grp _ acc); [eapply IH; exact H|]. inversion H. eauto.
Qed.

Theorem gen_err_kind m src inc o e :
  gen m src inc o = Err e -> e = NonConsecutiveBindGroups \/ exists b, e = DuplicateBinding b.
Proof.
  intros H. apply gen_err_only_from_bind_group_data in H. unfold get_bind_group_data in H.
  destruct (build m (globals m) 0 []) as [gs|e'|w] eqn:E; cbn in H.
  - destruct (keys_consecutive gs); inversion H. auto.
  - inversion H; subst. right. eapply build_err_kind; eauto.
  - discriminate.
Qed.
