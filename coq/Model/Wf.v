(** [wf]: a decidable description of what naga's WGSL front end guarantees about
    the IR it produces. Every clause is a boolean that the correspondence run
    evaluates on every case (so a clause no real module satisfies would be seen),
    and every clause is used by at least one proof. *)
From W2W Require Export Gen Pipeline.

(** every global's type handle is in range *)
Definition wf_global_types (m : module) : bool :=
  forallb (fun g => match get_ty m (g_ty g) with Some _ => true | None => false end) (globals m).

(** calls: statement / expression callees *)
Fixpoint stmt_calls (s : stmt) : list nat :=
  let blk := fix blk (l : list stmt) : list nat :=
    match l with [] => [] | x :: t => stmt_calls x ++ blk t end in
  match s with
  | SBlock b => blk b
  | SIf a r => blk a ++ blk r
  | SSwitch cs =>
      (fix cases (l : list (list stmt)) : list nat :=
         match l with [] => [] | c :: t => blk c ++ cases t end) cs
  | SLoop b c => blk b ++ blk c
  | SCall f => [f]
  | SOther => []
  end.
Definition block_calls (l : list stmt) : list nat := flat_map stmt_calls l.

Definition expr_calls (es : list expr) : list nat :=
  flat_map (fun e => match e with ECallResult f => [f] | _ => [] end) es.
Definition expr_globals (es : list expr) : list nat :=
  flat_map (fun e => match e with EGlobal g => [g] | _ => [] end) es.

Definition fn_callees (f : func) : list nat := block_calls (f_body f) ++ expr_calls (f_exprs f).
Definition fn_globals (f : func) : list nat := expr_globals (f_exprs f).

(** "each function must appear in this arena strictly before all its callers" (naga) *)
Fixpoint wf_calls_from (fs : list func) (i : nat) : bool :=
  match fs with
  | [] => true
  | f :: t => forallb (fun c => Nat.ltb c i) (fn_callees f) && wf_calls_from t (S i)
  end.
Definition wf_calls (m : module) : bool :=
  wf_calls_from (functions m) 0
  && forallb (fun e => forallb (fun c => Nat.ltb c (length (functions m))) (fn_callees (e_fn e)))
             (entries m).

(** composite types refer to types with a smaller handle (UniqueArena insertion order) *)
Fixpoint wf_types_from (ts : list ty) (i : nat) : bool :=
  match ts with
  | [] => true
  | t :: rest => forallb (fun c => Nat.ltb c i) (type_children (t_inner t)) && wf_types_from rest (S i)
  end.
Definition wf_types (m : module) : bool := wf_types_from (types m) 0.

(** module-scope variables are named, with pairwise distinct names *)
Fixpoint str_nodup (l : list string) : bool :=
  match l with
  | [] => true
  | x :: t => negb (existsb (String.eqb x) t) && str_nodup t
  end.
Definition global_names (m : module) : list string :=
  flat_map (fun g => match g_name g with Some n => [n] | None => [] end) (globals m).
Definition wf_global_names (m : module) : bool :=
  forallb (fun g => match g_name g with Some _ => true | None => false end) (globals m)
  && str_nodup (global_names m).

(** struct types are named, with pairwise distinct names *)
Definition struct_names (m : module) : list string :=
  flat_map (fun t => match t_inner t, t_name t with TStruct _ _, Some n => [n] | _, _ => [] end) (types m).
Definition wf_struct_names (m : module) : bool :=
  forallb (fun t => match t_inner t, t_name t with TStruct _ _, None => false | _, _ => true end) (types m)
  && str_nodup (struct_names m).

Definition wf (m : module) : bool :=
  wf_global_types m && wf_calls m && wf_types m && wf_global_names m && wf_struct_names m.

Lemma wf_proj m : wf m = true ->
  wf_global_types m = true /\ wf_calls m = true /\ wf_types m = true /\ wf_global_names m = true
  /\ wf_struct_names m = true.
Proof.
  unfold wf. intros H. repeat (apply andb_true_iff in H as [H ?]). auto.
Qed.
