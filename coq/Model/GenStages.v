(** Model of wgsl.rs [global_shader_stages] / [update_stages] /
    [update_stages_blocks] / [entry_stages] (memoised form: one [HashSet] of
    visited function handles per entry point), and of lib.rs
    [push_constant_range_stages].

    The [HashSet] is a [gset nat]: it is used through [insert] / membership only.
    The traversal state also counts the function bodies walked (the hook counter
    [STAGE_WALKS]), for C20. *)
From stdpp Require Import gmap.
From W2W Require Export GenBind.

(** visited functions, marked globals, number of arena function bodies walked *)
Definition tstate := (gset nat * gset nat * nat)%type.

(** ** [update_stages_blocks]: statement tree walk, parameterised by what a call does *)
Fixpoint walk_stmt {S : Type} (visit : S -> nat -> S) (st : stmt) (s : S) : S :=
  let blk := fix blk (l : list stmt) (s : S) : S :=
    match l with
    | [] => s
    | x :: t => blk t (walk_stmt visit x s)
    end in
  match st with
  | SBlock b => blk b s
  | SIf a r => blk r (blk a s)
  | SSwitch cs =>
      (fix cases (l : list (list stmt)) (s : S) : S :=
         match l with
         | [] => s
         | c :: t => cases t (blk c s)
         end) cs s
  | SLoop b c => blk c (blk b s)
  | SCall f => visit s f
  | SOther => s
  end.

Definition walk_block {S : Type} (visit : S -> nat -> S) (l : list stmt) (s : S) : S :=
  fold_left (fun s x => walk_stmt visit x s) l s.

Definition mark (g : nat) (s : tstate) : tstate :=
  let '(V, A, w) := s in (V, {[g]} ∪ A, w).

Definition walk_expr (visit : tstate -> nat -> tstate) (s : tstate) (e : expr) : tstate :=
  match e with
  | EGlobal g => mark g s
  | ECallResult f => visit s f
  | EOther => s
  end.

(** ** [update_stages]; fuel = number of arena functions + 1 (callee handles decrease) *)
Fixpoint walk_fn (fuel : nat) (m : module) (f : func) (s : tstate) : tstate :=
  match fuel with
  | O => s
  | S k =>
      let visit (s : tstate) (c : nat) : tstate :=
        let '(V, A, w) := s in
        if decide (c ∈ V) then s
        else match get_func m c with
             | Some g => walk_fn k m g ({[c]} ∪ V, A, S w)
             | None => s                      (* Rust: index panic; excluded by [wf] *)
             end in
      let s1 := walk_block visit (f_body f) s in
      fold_left (walk_expr visit) (f_exprs f) s1
  end.

Definition visit_fn (k : nat) (m : module) (s : tstate) (c : nat) : tstate :=
  let '(V, A, w) := s in
  if decide (c ∈ V) then s
  else match get_func m c with
       | Some g => walk_fn k m g ({[c]} ∪ V, A, S w)
       | None => s
       end.

Definition stage_fuel (m : module) : nat := S (length (functions m)).

(** one entry point: fresh visited set *)
Definition entry_walk (m : module) (e : entry) : tstate :=
  walk_fn (stage_fuel m) m (e_fn e) (∅, ∅, O).

Definition entry_marks (m : module) (e : entry) : gset nat := snd (fst (entry_walk m e)).
Definition entry_walks (m : module) (e : entry) : nat := S (snd (entry_walk m e)).

(** ** the name-keyed map *)
Fixpoint smap_or (n : string) (s : stages) (M : smap) : smap :=
  match M with
  | [] => [(n, s)]
  | (k, v) :: t => if String.eqb k n then (k, st_union v s) :: t else (k, v) :: smap_or n s t
  end.

(** [global_stages.entry(name).or_insert(NONE) |= stage] for a marked global *)
Definition apply_mark (m : module) (s : stages) (M : smap) (g : nat) : smap :=
  match get_global m g with
  | Some gl => match g_name gl with Some n => smap_or n s M | None => M end
  | None => M
  end.

Definition global_shader_stages (m : module) : smap :=
  fold_left (fun M e => fold_left (apply_mark m (st_of (e_stage e))) (elements (entry_marks m e)) M)
            (entries m) [].

(** total number of [update_stages] invocations (the hook counter) *)
Definition stage_walks (m : module) : nat :=
  fold_left (fun n e => n + entry_walks m e) (entries m) O.

Definition entry_stages (m : module) : stages :=
  fold_left (fun s e => st_union s (st_of (e_stage e))) (entries m) st_none.

(** ** [TypeInner::size] (naga proc/mod.rs) as used for the push constant range *)
Local Open Scope N_scope.
Definition pointer_span : N := 4.
Definition align_of_vsize (v : vsize) : N := match v with Bi => 2 | Tri => 4 | Quad => 4 end.

Definition inner_size (i : type_inner) : N :=
  match i with
  | TScalar s | TAtomic s => sw s
  | TVector n s => vsize_n n * sw s
  | TMatrix cols rows s => align_of_vsize rows * sw s * vsize_n cols
  | TPointer _ _ | TValuePointer => pointer_span
  | TArray _ sz stride =>
      (match sz with ASConstant c => c | ASPending => 0 | ASDynamic => 1 end) * stride
  | TStruct _ span => span
  | TImage _ _ _ | TSampler _ | TAccelerationStructure | TRayQuery | TBindingArray _ _ => 0
  end.

Definition is_push_constant (g : global) : bool :=
  match g_space g with SpPushConstant => true | _ => false end.

(** lib.rs [push_constant_range_stages]: [(size, stages)] of the first push constant variable *)
Definition push_constant_range_stages (m : module) (M : smap) : result (option (N * stages)) :=
  match find is_push_constant (globals m) with
  | None => Ok None
  | Some g =>
      match get_ty m (g_ty g) with
      | None => Panic "type handle out of range"
      | Some t => Ok (Some (inner_size (t_inner t), lookup_stages (g_name g) M (entry_stages m)))
      end
  end.
