(** Abstract syntax of the generated Rust module: one field per section of the
    [quote!] at lib.rs (structs, consts, override constants, bind_groups module,
    vertex struct methods, compute module, entry constants, vertex/fragment
    states, shader module, push constants, pipeline layout).

    Values of [out] are produced (i) by the model [gen] and (ii) by the extractor
    in /verif/harness/driver, which parses the text returned by the real
    generator with [syn] and pattern-matches every item against the templates.
    The values are semantic, not textual: stage expressions are evaluated to
    stage sets, integer literals to numbers, paths are taken modulo a leading
    [::]. *)
From W2W Require Export Naga.

(** ** Types of struct fields *)
Inductive rprim := PI8 | PU8 | PI16 | PU16 | PI32 | PU32 | PF32 | PF64 | PBool | PI64 | PU64.

Inductive glam_ty :=
| GVec2 | GVec3 | GVec4 | GDVec2 | GDVec3 | GDVec4
| GUVec2 | GUVec3 | GUVec4 | GIVec2 | GIVec3 | GIVec4
| GMat2 | GMat3 | GMat4 | GDMat2 | GDMat3 | GDMat4.

Inductive rust_ty :=
| RPrim (p : rprim)
| RArr (t : rust_ty) (n : N)                  (* [t; n] *)
| RGlam (g : glam_ty)                         (* glam::Vec4 ... *)
| RNalgV (p : rprim) (n : N)                  (* nalgebra::SVector<p, n> *)
| RNalgM (p : rprim) (r c : N)                (* nalgebra::SMatrix<p, r, c> *)
| RNamed (s : string)                         (* another generated struct *)
| RVec (t : rust_ty)                          (* Vec<t> *)
| ROption (t : rust_ty).                      (* Option<t> (override fields only) *)

Record out_field := mkOutField {
  fd_name : string;
  fd_ty : rust_ty;
  fd_runtime : bool }.                        (* carries #[size(runtime)] *)

(** derive paths as written, e.g. "Debug", "bytemuck::Pod" *)
Record out_struct := mkOutStruct {
  s_name : string;
  s_repr_c : bool;
  s_derives : list string;
  s_fields : list out_field;
  s_assert_size : option N;                   (* const _: () = assert!(size_of::<S>() == n, ..) *)
  s_assert_offsets : list (string * N) }.     (* const _: () = assert!(offset_of!(S, f) == n, ..) *)

(** ** Constants *)
Record out_const := mkOutConst {
  k_name : string;
  k_ty : rprim;                               (* declared type *)
  k_lit : literal }.                          (* the literal token: suffix decides the constructor,
                                                 a leading unary minus is folded into the value *)

(** ** Override constants *)
Record out_ov_entry := mkOvEntry {
  ove_key : string;                           (* the string literal used as map key *)
  ove_field : string;                         (* self.<field> *)
  ove_is_bool : bool }.                       (* value is [if x {1.0} else {0.0}] rather than [x as f64] *)

Record out_overrides := mkOutOverrides {
  ov_fields : list (string * rust_ty);        (* optional fields are [ROption t] *)
  ov_required : list out_ov_entry;            (* HashMap::from([...]) *)
  ov_optional : list out_ov_entry }.          (* if let Some(value) = self.f { entries.insert(..) } *)

(** ** Bind groups *)
Inductive res_kind := RKBuffer | RKTexture | RKSampler.

Inductive buf_ty := BufUniform | BufStorage (read_only : bool).
Inductive sample_ty := STFloat (filterable : bool) | STSint | STUint | STDepth.
Inductive view_dim := VD1 | VD2 | VD2Array | VDCube | VDCubeArray | VD3.
Inductive tex_access := TAReadOnly | TAWriteOnly | TAReadWrite | TAAtomic.
Inductive sampler_ty := SFiltering | SNonFiltering | SComparison.

Inductive binding_ty :=
| BTBuffer (t : buf_ty) (dynamic_offset : bool) (min_size : option N)
| BTTexture (s : sample_ty) (d : view_dim) (multisampled : bool)
| BTStorageTexture (a : tex_access) (f : storage_format) (d : view_dim)
| BTSampler (s : sampler_ty).

Record out_entry := mkOutEntry {
  oe_binding : N;
  oe_vis : stages;
  oe_ty : binding_ty;
  oe_count_none : bool }.

Record out_bind_entry := mkOutBindEntry {
  be_binding : N;
  be_field : string;                          (* bindings.<field> *)
  be_kind : res_kind }.                       (* BindingResource::{Buffer, TextureView, Sampler} *)

(** All index-named identifiers of a group are recorded by their numeric suffix,
    in the positions where they occur. *)
Record out_group := mkOutGroup {
  og_no : N;                                  (* struct BindGroup<n> *)
  og_layout_struct_no : N;                    (* struct BindGroupLayout<n> *)
  og_layout_fields : list (string * res_kind);
  og_desc_no : N;                             (* const LAYOUT_DESCRIPTOR<n> *)
  og_desc_label : string;
  og_entries : list out_entry;
  og_impl_no : N;                             (* impl BindGroup<n> *)
  og_get_layout_desc_no : N;                  (* get_bind_group_layout uses &LAYOUT_DESCRIPTOR<n> *)
  og_from_param_no : N;                       (* from_bindings(.., bindings: BindGroupLayout<n>) *)
  og_from_desc_no : N;                        (* from_bindings creates the layout from LAYOUT_DESCRIPTOR<n> *)
  og_bind_entries : list out_bind_entry;
  og_bg_label : string;
  og_set_index : N }.                         (* pass.set_bind_group(<n>, &self.0, &[]) *)

Record out_bind_groups := mkOutBindGroups {
  bg_groups : list out_group;
  bg_struct_fields : list (N * N);            (* BindGroups { bind_group<a>: &BindGroup<b> } *)
  bg_struct_set : list N;                     (* BindGroups::set: self.bind_group<n>.set(pass) *)
  bg_fn_params : list (N * N);                (* set_bind_groups(pass, bind_group<a>: &bind_groups::BindGroup<b>) *)
  bg_fn_set : list N }.                       (* set_bind_groups body: bind_group<n>.set(pass) *)

(** ** Vertex input structs *)
Record out_vattr := mkOutVAttr {
  va_format : string;                         (* wgpu::VertexFormat::<name> *)
  va_struct : string;                         (* offset_of!(<struct>, <field>) *)
  va_field : string;
  va_location : N }.

Record out_vstruct := mkOutVStruct {
  vs_name : string;                           (* impl <name> *)
  vs_count : N;                               (* [wgpu::VertexAttribute; n] *)
  vs_attrs : list out_vattr;
  vs_stride_of : string;                      (* size_of::<name>() *)
  vs_attrs_of : string }.                     (* &<name>::VERTEX_ATTRIBUTES *)

(** ** Compute *)
Record out_compute := mkOutCompute {
  cp_wg_const : string;
  cp_wg : N * N * N;
  cp_fn : string;
  cp_label : string;
  cp_entry_lit : string }.

(** ** Vertex / fragment entries *)
Record out_ventry := mkOutVEntry {
  ve_fn : string;
  ve_const : string;                          (* entry_point: <CONST> *)
  ve_params : list string;                    (* step mode parameters in order *)
  ve_buffers : list (string * string);        (* <Struct>::vertex_buffer_layout(<param>) in order *)
  ve_n : N;                                   (* VertexEntry<n> *)
  ve_ov_param : bool;                         (* takes overrides: &OverrideConstants *)
  ve_ov_used : bool }.                        (* constants: overrides.constants() (else Default::default()) *)

Record out_fentry := mkOutFEntry {
  fe_fn : string;
  fe_const : string;
  fe_targets : N;                             (* targets: [Option<ColorTargetState>; n] *)
  fe_n : N;                                   (* FragmentEntry<n> *)
  fe_ov_param : bool;
  fe_ov_used : bool }.

(** ** Shader source *)
Inductive out_source :=
| SrcEmbedded (value : string)                (* the *value* of the string literal *)
| SrcInclude (path : string).                 (* include_str!(<path>) *)

Record out_pc_range := mkOutPcRange {
  pr_stages_const : bool;                     (* stages: PUSH_CONSTANT_STAGES *)
  pr_start : N;
  pr_end : N }.

Record out := mkOut {
  o_structs : list out_struct;
  o_consts : list out_const;
  o_overrides : option out_overrides;
  o_bind_groups : option out_bind_groups;     (* None: no bind_groups module and no set_bind_groups *)
  o_vstructs : list out_vstruct;
  o_compute : list out_compute;               (* [] : no compute module *)
  o_entry_consts : list (string * string);
  o_vertex_tpl : bool;                        (* VertexEntry / vertex_state present *)
  o_ventries : list out_ventry;
  o_fragment_tpl : bool;
  o_fentries : list out_fentry;
  o_source : out_source;
  o_pc_stages : option stages;                (* pub const PUSH_CONSTANT_STAGES *)
  o_pl_groups : list N;                       (* bind_groups::BindGroup<n>::get_bind_group_layout(device) *)
  o_pc_ranges : list out_pc_range }.

(** * Boolean equalities (used by the projections of the correspondence) *)

Definition rprim_eqb (a b : rprim) : bool :=
  match a, b with
  | PI8, PI8 | PU8, PU8 | PI16, PI16 | PU16, PU16 | PI32, PI32 | PU32, PU32
  | PF32, PF32 | PF64, PF64 | PBool, PBool | PI64, PI64 | PU64, PU64 => true
  | _, _ => false
  end.

Definition glam_idx (g : glam_ty) : N :=
  match g with
  | GVec2 => 0 | GVec3 => 1 | GVec4 => 2 | GDVec2 => 3 | GDVec3 => 4 | GDVec4 => 5
  | GUVec2 => 6 | GUVec3 => 7 | GUVec4 => 8 | GIVec2 => 9 | GIVec3 => 10 | GIVec4 => 11
  | GMat2 => 12 | GMat3 => 13 | GMat4 => 14 | GDMat2 => 15 | GDMat3 => 16 | GDMat4 => 17
  end.
Definition glam_eqb (a b : glam_ty) : bool := N.eqb (glam_idx a) (glam_idx b).

Fixpoint rust_ty_eqb (a b : rust_ty) : bool :=
  match a, b with
  | RPrim p, RPrim q => rprim_eqb p q
  | RArr t n, RArr u k => rust_ty_eqb t u && N.eqb n k
  | RGlam g, RGlam h => glam_eqb g h
  | RNalgV p n, RNalgV q k => rprim_eqb p q && N.eqb n k
  | RNalgM p r c, RNalgM q r' c' => rprim_eqb p q && N.eqb r r' && N.eqb c c'
  | RNamed s, RNamed t => String.eqb s t
  | RVec t, RVec u => rust_ty_eqb t u
  | ROption t, ROption u => rust_ty_eqb t u
  | _, _ => false
  end.

Definition field_eqb (a b : out_field) : bool :=
  String.eqb (fd_name a) (fd_name b) && rust_ty_eqb (fd_ty a) (fd_ty b)
  && Bool.eqb (fd_runtime a) (fd_runtime b).

Definition str_n_eqb (a b : string * N) : bool := String.eqb (fst a) (fst b) && N.eqb (snd a) (snd b).

Definition struct_eqb (a b : out_struct) : bool :=
  String.eqb (s_name a) (s_name b) && Bool.eqb (s_repr_c a) (s_repr_c b)
  && list_eqb String.eqb (s_derives a) (s_derives b)
  && list_eqb field_eqb (s_fields a) (s_fields b)
  && option_eqb N.eqb (s_assert_size a) (s_assert_size b)
  && list_eqb str_n_eqb (s_assert_offsets a) (s_assert_offsets b).

Definition literal_eqb (a b : literal) : bool :=
  match a, b with
  | LF64 x, LF64 y | LF32 x, LF32 y | LU32 x, LU32 y | LU64 x, LU64 y
  | LAbstractFloat x, LAbstractFloat y => N.eqb x y
  | LI32 x, LI32 y | LI64 x, LI64 y | LAbstractInt x, LAbstractInt y => Z.eqb x y
  | LBool x, LBool y => Bool.eqb x y
  | _, _ => false
  end.

Definition const_eqb (a b : out_const) : bool :=
  String.eqb (k_name a) (k_name b) && rprim_eqb (k_ty a) (k_ty b) && literal_eqb (k_lit a) (k_lit b).

Definition ov_entry_eqb (a b : out_ov_entry) : bool :=
  String.eqb (ove_key a) (ove_key b) && String.eqb (ove_field a) (ove_field b)
  && Bool.eqb (ove_is_bool a) (ove_is_bool b).

Definition overrides_eqb (a b : out_overrides) : bool :=
  list_eqb (pair_eqb String.eqb rust_ty_eqb) (ov_fields a) (ov_fields b)
  && list_eqb ov_entry_eqb (ov_required a) (ov_required b)
  && list_eqb ov_entry_eqb (ov_optional a) (ov_optional b).

Definition res_kind_eqb (a b : res_kind) : bool :=
  match a, b with
  | RKBuffer, RKBuffer | RKTexture, RKTexture | RKSampler, RKSampler => true
  | _, _ => false
  end.

Definition buf_ty_eqb (a b : buf_ty) : bool :=
  match a, b with
  | BufUniform, BufUniform => true
  | BufStorage x, BufStorage y => Bool.eqb x y
  | _, _ => false
  end.
Definition sample_ty_eqb (a b : sample_ty) : bool :=
  match a, b with
  | STFloat x, STFloat y => Bool.eqb x y
  | STSint, STSint | STUint, STUint | STDepth, STDepth => true
  | _, _ => false
  end.
Definition view_dim_idx (v : view_dim) : N :=
  match v with VD1 => 0 | VD2 => 1 | VD2Array => 2 | VDCube => 3 | VDCubeArray => 4 | VD3 => 5 end.
Definition view_dim_eqb (a b : view_dim) : bool := N.eqb (view_dim_idx a) (view_dim_idx b).
Definition tex_access_eqb (a b : tex_access) : bool :=
  match a, b with
  | TAReadOnly, TAReadOnly | TAWriteOnly, TAWriteOnly | TAReadWrite, TAReadWrite
  | TAAtomic, TAAtomic => true
  | _, _ => false
  end.
Definition sampler_ty_eqb (a b : sampler_ty) : bool :=
  match a, b with
  | SFiltering, SFiltering | SNonFiltering, SNonFiltering | SComparison, SComparison => true
  | _, _ => false
  end.

Definition sf_idx (f : storage_format) : N :=
  match f with
  | R8Unorm => 0 | R8Snorm => 1 | R8Uint => 2 | R8Sint => 3 | R16Uint => 4 | R16Sint => 5
  | R16Float => 6 | Rg8Unorm => 7 | Rg8Snorm => 8 | Rg8Uint => 9 | Rg8Sint => 10
  | R32Uint => 11 | R32Sint => 12 | R32Float => 13 | Rg16Uint => 14 | Rg16Sint => 15
  | Rg16Float => 16 | Rgba8Unorm => 17 | Rgba8Snorm => 18 | Rgba8Uint => 19 | Rgba8Sint => 20
  | Bgra8Unorm => 21 | Rgb10a2Uint => 22 | Rgb10a2Unorm => 23 | Rg11b10Ufloat => 24
  | R64Uint => 25 | Rg32Uint => 26 | Rg32Sint => 27 | Rg32Float => 28 | Rgba16Uint => 29
  | Rgba16Sint => 30 | Rgba16Float => 31 | Rgba32Uint => 32 | Rgba32Sint => 33
  | Rgba32Float => 34 | R16Unorm => 35 | R16Snorm => 36 | Rg16Unorm => 37 | Rg16Snorm => 38
  | Rgba16Unorm => 39 | Rgba16Snorm => 40
  end.
Definition sf_eqb (a b : storage_format) : bool := N.eqb (sf_idx a) (sf_idx b).

Definition binding_ty_eqb (a b : binding_ty) : bool :=
  match a, b with
  | BTBuffer t d m, BTBuffer t' d' m' => buf_ty_eqb t t' && Bool.eqb d d' && option_eqb N.eqb m m'
  | BTTexture s d ms, BTTexture s' d' ms' => sample_ty_eqb s s' && view_dim_eqb d d' && Bool.eqb ms ms'
  | BTStorageTexture a f d, BTStorageTexture a' f' d' =>
      tex_access_eqb a a' && sf_eqb f f' && view_dim_eqb d d'
  | BTSampler s, BTSampler s' => sampler_ty_eqb s s'
  | _, _ => false
  end.

Definition entry_eqb (a b : out_entry) : bool :=
  N.eqb (oe_binding a) (oe_binding b) && st_eqb (oe_vis a) (oe_vis b)
  && binding_ty_eqb (oe_ty a) (oe_ty b) && Bool.eqb (oe_count_none a) (oe_count_none b).

Definition bind_entry_eqb (a b : out_bind_entry) : bool :=
  N.eqb (be_binding a) (be_binding b) && String.eqb (be_field a) (be_field b)
  && res_kind_eqb (be_kind a) (be_kind b).

Definition group_eqb (a b : out_group) : bool :=
  N.eqb (og_no a) (og_no b) && N.eqb (og_layout_struct_no a) (og_layout_struct_no b)
  && list_eqb (pair_eqb String.eqb res_kind_eqb) (og_layout_fields a) (og_layout_fields b)
  && N.eqb (og_desc_no a) (og_desc_no b) && String.eqb (og_desc_label a) (og_desc_label b)
  && list_eqb entry_eqb (og_entries a) (og_entries b)
  && N.eqb (og_impl_no a) (og_impl_no b)
  && N.eqb (og_get_layout_desc_no a) (og_get_layout_desc_no b)
  && N.eqb (og_from_param_no a) (og_from_param_no b)
  && N.eqb (og_from_desc_no a) (og_from_desc_no b)
  && list_eqb bind_entry_eqb (og_bind_entries a) (og_bind_entries b)
  && String.eqb (og_bg_label a) (og_bg_label b) && N.eqb (og_set_index a) (og_set_index b).

Definition nn_eqb := pair_eqb N.eqb N.eqb.

Definition bind_groups_eqb (a b : out_bind_groups) : bool :=
  list_eqb group_eqb (bg_groups a) (bg_groups b)
  && list_eqb nn_eqb (bg_struct_fields a) (bg_struct_fields b)
  && list_eqb N.eqb (bg_struct_set a) (bg_struct_set b)
  && list_eqb nn_eqb (bg_fn_params a) (bg_fn_params b)
  && list_eqb N.eqb (bg_fn_set a) (bg_fn_set b).

Definition vattr_eqb (a b : out_vattr) : bool :=
  String.eqb (va_format a) (va_format b) && String.eqb (va_struct a) (va_struct b)
  && String.eqb (va_field a) (va_field b) && N.eqb (va_location a) (va_location b).

Definition vstruct_eqb (a b : out_vstruct) : bool :=
  String.eqb (vs_name a) (vs_name b) && N.eqb (vs_count a) (vs_count b)
  && list_eqb vattr_eqb (vs_attrs a) (vs_attrs b)
  && String.eqb (vs_stride_of a) (vs_stride_of b) && String.eqb (vs_attrs_of a) (vs_attrs_of b).

Definition n3_eqb (a b : N * N * N) : bool :=
  let '(a1, a2, a3) := a in let '(b1, b2, b3) := b in N.eqb a1 b1 && N.eqb a2 b2 && N.eqb a3 b3.

Definition compute_eqb (a b : out_compute) : bool :=
  String.eqb (cp_wg_const a) (cp_wg_const b) && n3_eqb (cp_wg a) (cp_wg b)
  && String.eqb (cp_fn a) (cp_fn b) && String.eqb (cp_label a) (cp_label b)
  && String.eqb (cp_entry_lit a) (cp_entry_lit b).

Definition ss_eqb := pair_eqb String.eqb String.eqb.

Definition ventry_eqb (a b : out_ventry) : bool :=
  String.eqb (ve_fn a) (ve_fn b) && String.eqb (ve_const a) (ve_const b)
  && list_eqb String.eqb (ve_params a) (ve_params b)
  && list_eqb ss_eqb (ve_buffers a) (ve_buffers b) && N.eqb (ve_n a) (ve_n b)
  && Bool.eqb (ve_ov_param a) (ve_ov_param b) && Bool.eqb (ve_ov_used a) (ve_ov_used b).

Definition fentry_eqb (a b : out_fentry) : bool :=
  String.eqb (fe_fn a) (fe_fn b) && String.eqb (fe_const a) (fe_const b)
  && N.eqb (fe_targets a) (fe_targets b) && N.eqb (fe_n a) (fe_n b)
  && Bool.eqb (fe_ov_param a) (fe_ov_param b) && Bool.eqb (fe_ov_used a) (fe_ov_used b).

Definition source_eqb (a b : out_source) : bool :=
  match a, b with
  | SrcEmbedded x, SrcEmbedded y => String.eqb x y
  | SrcInclude x, SrcInclude y => String.eqb x y
  | _, _ => false
  end.

Definition pc_range_eqb (a b : out_pc_range) : bool :=
  Bool.eqb (pr_stages_const a) (pr_stages_const b) && N.eqb (pr_start a) (pr_start b)
  && N.eqb (pr_end a) (pr_end b).

Definition out_eqb (a b : out) : bool :=
  list_eqb struct_eqb (o_structs a) (o_structs b)
  && list_eqb const_eqb (o_consts a) (o_consts b)
  && option_eqb overrides_eqb (o_overrides a) (o_overrides b)
  && option_eqb bind_groups_eqb (o_bind_groups a) (o_bind_groups b)
  && list_eqb vstruct_eqb (o_vstructs a) (o_vstructs b)
  && list_eqb compute_eqb (o_compute a) (o_compute b)
  && list_eqb ss_eqb (o_entry_consts a) (o_entry_consts b)
  && Bool.eqb (o_vertex_tpl a) (o_vertex_tpl b)
  && list_eqb ventry_eqb (o_ventries a) (o_ventries b)
  && Bool.eqb (o_fragment_tpl a) (o_fragment_tpl b)
  && list_eqb fentry_eqb (o_fentries a) (o_fentries b)
  && source_eqb (o_source a) (o_source b)
  && option_eqb st_eqb (o_pc_stages a) (o_pc_stages b)
  && list_eqb N.eqb (o_pl_groups a) (o_pl_groups b)
  && list_eqb pc_range_eqb (o_pc_ranges a) (o_pc_ranges b).
