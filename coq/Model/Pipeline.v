(** lib.rs [create_shader_module_inner] around the generator: parse, optional validation (a pure gate),
    generation, and the choice of pretty printer. naga's front end and validator are abstract functions
    (Section variables): the model says what the crate does with their results, not what they compute. *)
From W2W Require Export Gen.

Section Pipeline.
  Variable parse : string -> option module.          (* [None]: naga::front::wgsl::parse_str returned Err *)
  Variable validate : module -> bool.                (* Validator::validate returned Ok *)

  (** [v]: validation requested ([options.validate.is_some()]) *)
  Definition run (src : string) (inc : option string) (o : options) (v : bool) : result out :=
    match parse src with
    | None => Err ParseError
    | Some m =>
        if v && negb (validate m) then Err ValidationError
        else gen m src inc o
    end.
End Pipeline.

(** the same gate with the validator's verdict supplied as data (used by the correspondence) *)
Definition gate (requested valid : bool) (r : result out) : result out :=
  if requested && negb valid then Err ValidationError else r.

(** ** the external formatter (lib.rs [pretty_print_rustfmt], after the repair) *)
Inductive fmt_write := WOk | WErr.                         (* writing the tokens to the child's stdin *)
Inductive fmt_status := Exit0 | ExitN | Signal | WaitErr.  (* wait_with_output *)
Inductive fmt_outcome :=
| SpawnErr
| Ran (w : fmt_write) (st : fmt_status) (stdout_utf8 : bool) (stdout_blank : bool).

(** [true]: the formatter's output is returned; [false]: fall back to the unformatted token text.
    There is no panicking outcome. *)
Definition use_formatted (f : fmt_outcome) : bool :=
  match f with
  | SpawnErr => false
  | Ran w st utf8 blank =>
      match w, st with
      | WOk, Exit0 => utf8 && negb blank
      | _, _ => false
      end
  end.
