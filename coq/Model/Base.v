(** Base definitions shared by the model: results, strings, small helpers. *)
From Coq Require Export String.
From Coq Require Export List NArith ZArith Bool Arith Lia DecimalString.
Export ListNotations.
Open Scope string_scope.
Open Scope list_scope.   (* [++] is list append; strings use [+s+] *)
Infix "+s+" := String.append (right associativity, at level 60).

(** [CreateModuleError] (lib.rs); the payload of the parse / validation errors is
    naga's and is not modelled. *)
Inductive error :=
| NonConsecutiveBindGroups
| DuplicateBinding (binding : N)
| ParseError
| ValidationError.

Definition error_eqb (a b : error) : bool :=
  match a, b with
  | NonConsecutiveBindGroups, NonConsecutiveBindGroups => true
  | DuplicateBinding x, DuplicateBinding y => N.eqb x y
  | ParseError, ParseError => true
  | ValidationError, ValidationError => true
  | _, _ => false
  end.

(** Outcome of a (partial, possibly panicking) Rust function. *)
Inductive result (A : Type) : Type :=
| Ok (a : A)
| Err (e : error)        (* typed error *)
| Panic (why : string).  (* [panic!]/[todo!]/[unwrap] on [None] *)
Arguments Ok {A} a.
Arguments Err {A} e.
Arguments Panic {A} why.

Definition rbind {A B} (r : result A) (f : A -> result B) : result B :=
  match r with Ok a => f a | Err e => Err e | Panic w => Panic w end.
Notation "'do' x <- r ; k" := (rbind r (fun x => k))
  (at level 200, x name, r at level 100, k at level 200, right associativity).

Definition rmap {A B} (f : A -> B) (r : result A) : result B :=
  match r with Ok a => Ok (f a) | Err e => Err e | Panic w => Panic w end.

(** [mapM] over lists, left to right, first failure wins (the order of Rust iterators). *)
Fixpoint rmapM {A B} (f : A -> result B) (l : list A) : result (list B) :=
  match l with
  | [] => Ok []
  | x :: t => do y <- f x; do ys <- rmapM f t; Ok (y :: ys)
  end.

Definition is_ok {A} (r : result A) : bool := match r with Ok _ => true | _ => false end.
Definition is_panic {A} (r : result A) : bool := match r with Panic _ => true | _ => false end.

Definition option_eqb {A} (eqb : A -> A -> bool) (a b : option A) : bool :=
  match a, b with
  | Some x, Some y => eqb x y
  | None, None => true
  | _, _ => false
  end.

Fixpoint list_eqb {A} (eqb : A -> A -> bool) (a b : list A) : bool :=
  match a, b with
  | [], [] => true
  | x :: a', y :: b' => eqb x y && list_eqb eqb a' b'
  | _, _ => false
  end.

Definition pair_eqb {A B} (ea : A -> A -> bool) (eb : B -> B -> bool) (p q : A * B) : bool :=
  ea (fst p) (fst q) && eb (snd p) (snd q).

Lemma list_eqb_spec {A} (eqb : A -> A -> bool) :
  (forall x y, eqb x y = true <-> x = y) ->
  forall a b, list_eqb eqb a b = true <-> a = b.
Proof.
  intros H a. induction a as [|x a IH]; intros [|y b]; cbn; split; intros E; try congruence; try discriminate.
  - apply andb_true_iff in E as [E1 E2]. apply H in E1. apply IH in E2. congruence.
  - inversion E; subst. apply andb_true_iff. split; [apply H|apply IH]; reflexivity.
Qed.

Lemma option_eqb_spec {A} (eqb : A -> A -> bool) :
  (forall x y, eqb x y = true <-> x = y) ->
  forall a b, option_eqb eqb a b = true <-> a = b.
Proof.
  intros H [x|] [y|]; cbn; split; intros E; try congruence; try discriminate.
  - apply H in E. congruence.
  - inversion E; subst. apply H. reflexivity.
Qed.

(** Decimal printing of numbers ([format!("{n}")] / [u32::to_string]). *)
Definition N_to_string (n : N) : string := NilZero.string_of_uint (N.to_uint n).

Definition nth_opt {A} (l : list A) (n : nat) : option A := nth_error l n.

(** Shader stage sets: bit 0 = VERTEX, bit 1 = FRAGMENT, bit 2 = COMPUTE
    (the values of [wgpu::ShaderStages] are 1, 2, 4). *)
Record stages := mkStages { st_v : bool; st_f : bool; st_c : bool }.
Definition st_none := mkStages false false false.
Definition st_all := mkStages true true true.
Definition st_union (a b : stages) :=
  mkStages (st_v a || st_v b) (st_f a || st_f b) (st_c a || st_c b).
Definition st_eqb (a b : stages) :=
  Bool.eqb (st_v a) (st_v b) && Bool.eqb (st_f a) (st_f b) && Bool.eqb (st_c a) (st_c b).

Lemma st_eqb_spec a b : st_eqb a b = true <-> a = b.
Proof.
  destruct a as [a1 a2 a3], b as [b1 b2 b3]; unfold st_eqb; cbn.
  destruct a1, a2, a3, b1, b2, b3; cbn; split; intros; congruence.
Qed.

Inductive stage := Vertex | Fragment | Compute.
Definition stage_eqb (a b : stage) : bool :=
  match a, b with Vertex, Vertex | Fragment, Fragment | Compute, Compute => true | _, _ => false end.
Definition st_of (s : stage) : stages :=
  match s with
  | Vertex => mkStages true false false
  | Fragment => mkStages false true false
  | Compute => mkStages false false true
  end.
Definition st_has (a : stages) (s : stage) : bool :=
  match s with Vertex => st_v a | Fragment => st_f a | Compute => st_c a end.

Lemma st_has_union a b s : st_has (st_union a b) s = st_has a s || st_has b s.
Proof. destruct s; reflexivity. Qed.
Lemma st_has_of s s' : st_has (st_of s) s' = stage_eqb s s'.
Proof. destruct s, s'; reflexivity. Qed.
Lemma st_ext a b : (forall s, st_has a s = st_has b s) -> a = b.
Proof.
  intros H. destruct a as [a1 a2 a3], b as [b1 b2 b3].
  pose proof (H Vertex); pose proof (H Fragment); pose proof (H Compute); cbn in *; congruence.
Qed.
