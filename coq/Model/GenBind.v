(** Model of bindgroup.rs: [get_bind_group_data], [bind_group_layout],
    [bind_group_layout_descriptor], [bind_group_layout_entry], [storage_access],
    [bind_group], [bind_groups_module]; and of [buffer_binding_type] (wgsl.rs). *)
From W2W Require Export Out.
Local Open Scope N_scope.

(** ** [GroupBinding] / [GroupData] / [BTreeMap<u32, GroupData>]
    The map is an association list with strictly ascending keys; iteration over
    a [BTreeMap] is in ascending key order (the [BTreeMap] contract, trusted). *)
Record gbinding := mkGB {
  gb_name : option string;
  gb_index : N;
  gb_inner : type_inner;          (* [binding_type.inner] *)
  gb_space : address_space;
  gb_global : nat }.              (* handle of the variable; not in the Rust struct, kept for the proofs *)

Definition groups := list (N * list gbinding).

(** [groups.entry(g).or_insert(empty)], duplicate scan over the group, [push]. [None] = duplicate. *)
Fixpoint add (g : N) (x : gbinding) (m : groups) : option groups :=
  match m with
  | [] => Some [(g, [x])]
  | (k, l) :: t =>
      if g <? k then Some ((g, [x]) :: m)
      else if g =? k then
        if existsb (fun e => gb_index e =? gb_index x) l then None
        else Some ((k, l ++ [x]) :: t)
      else option_map (cons (k, l)) (add g x t)
  end.

Fixpoint build (m : module) (gs : list global) (h : nat) (acc : groups) : result groups :=
  match gs with
  | [] => Ok acc
  | g :: t =>
      match g_binding g with
      | None => build m t (S h) acc
      | Some (grp, b) =>
          match get_ty m (g_ty g) with
          | None => Panic "type handle out of range"
          | Some ty =>
              match add grp (mkGB (g_name g) b (t_inner ty) (g_space g) h) acc with
              | None => Err (DuplicateBinding b)
              | Some acc' => build m t (S h) acc'
              end
          end
      end
  end.

Fixpoint N_seq (start : N) (len : nat) : list N :=
  match len with O => [] | S k => start :: N_seq (start + 1) k end.

(** [groups.keys().map(|i| *i as usize).eq(0..groups.len())] *)
Definition keys_consecutive (gs : groups) : bool :=
  list_eqb N.eqb (map fst gs) (N_seq 0 (length gs)).

Definition get_bind_group_data (m : module) : result groups :=
  do gs <- build m (globals m) 0%nat [];
  if keys_consecutive gs then Ok gs else Err NonConsecutiveBindGroups.

(** ** Resource kinds: the three-way match repeated in [bind_group_layout] and [bind_group] *)
Definition resource_kind (i : type_inner) : option res_kind :=
  match i with
  | TStruct _ _ | TArray _ _ _ | TScalar _ | TVector _ _ | TMatrix _ _ _ => Some RKBuffer
  | TImage _ _ _ => Some RKTexture
  | TSampler _ => Some RKSampler
  | _ => None
  end.

(** wgsl.rs [buffer_binding_type] *)
Definition buffer_binding_type (sp : address_space) : buf_ty :=
  match sp with
  | SpUniform => BufUniform
  | SpStorage acc => if a_store acc then BufStorage false else BufStorage true
  | _ => BufUniform
  end.

(** bindgroup.rs [storage_access] (after the fix that maps ATOMIC to Atomic) *)
Definition storage_access (acc : access) : result tex_access :=
  if a_atomic acc then Ok TAAtomic
  else match a_load acc, a_store acc with
       | true, true => Ok TAReadWrite
       | true, false => Ok TAReadOnly
       | false, true => Ok TAWriteOnly
       | false, false => Panic "todo: storage access without load and store"
       end.

Definition view_dimension (d : image_dim) (arrayed : bool) : result view_dim :=
  match d, arrayed with
  | D1, false => Ok VD1
  | D2, false => Ok VD2
  | D2, true => Ok VD2Array
  | D3, false => Ok VD3
  | Cube, false => Ok VDCube
  | Cube, true => Ok VDCubeArray
  | _, _ => Panic "Unsupported image dimension"
  end.

(** name-keyed stage map [BTreeMap<String, wgpu::ShaderStages>]; only [get] is ever used on it *)
Definition smap := list (string * stages).
Fixpoint smap_get (n : string) (M : smap) : option stages :=
  match M with
  | [] => None
  | (k, v) :: t => if String.eqb k n then Some v else smap_get n t
  end.

Definition lookup_stages (name : option string) (M : smap) (default : stages) : stages :=
  match name with
  | Some n => match smap_get n M with Some s => s | None => default end
  | None => default
  end.

Definition binding_type_of (b : gbinding) : result binding_ty :=
  match gb_inner b with
  | TStruct _ _ | TArray _ _ _ | TScalar _ | TVector _ _ | TMatrix _ _ _ =>
      Ok (BTBuffer (buffer_binding_type (gb_space b)) false None)
  | TImage dim arrayed class =>
      do vd <- view_dimension dim arrayed;
      match class with
      | ICSampled k multi =>
          match k with
          | SkSint => Ok (BTTexture STSint vd multi)
          | SkUint => Ok (BTTexture STUint vd multi)
          | SkFloat => Ok (BTTexture (STFloat true) vd multi)
          | _ => Panic "todo: sampled image kind"
          end
      | ICDepth multi => Ok (BTTexture STDepth vd multi)
      | ICStorage f acc =>
          do a <- storage_access acc;
          Ok (BTStorageTexture a f vd)
      end
  | TSampler comparison => Ok (BTSampler (if comparison then SComparison else SFiltering))
  | _ => Panic "Failed to generate BindingType"
  end.

Definition bind_group_layout_entry (b : gbinding) (M : smap) : result out_entry :=
  let vis := lookup_stages (gb_name b) M st_none in
  do ty <- binding_type_of b;
  Ok (mkOutEntry (gb_index b) vis ty true).

(** [bind_group_layout]: the fields of [BindGroupLayoutN] *)
Definition layout_field (b : gbinding) : result (string * res_kind) :=
  match gb_name b with
  | None => Panic "unwrap: unnamed binding"
  | Some n =>
      match resource_kind (gb_inner b) with
      | Some k => Ok (n, k)
      | None => Panic "Unsupported type"
      end
  end.

(** [bind_group]: the [BindGroupEntry] list of [from_bindings] *)
Definition bind_entry (b : gbinding) : result out_bind_entry :=
  match gb_name b with
  | None => Panic "unwrap: unnamed binding"
  | Some n =>
      match resource_kind (gb_inner b) with
      | Some k => Ok (mkOutBindEntry (gb_index b) n k)
      | None => Panic "Failed to generate BindingType"
      end
  end.

Definition gen_group (M : smap) (g : N * list gbinding) : result out_group :=
  let '(no, bs) := g in
  do fields <- rmapM layout_field bs;
  do entries <- rmapM (fun b => bind_group_layout_entry b M) bs;
  do bents <- rmapM bind_entry bs;
  Ok (mkOutGroup no no fields no ("LayoutDescriptor" +s+ N_to_string no) entries
        no no no no bents ("BindGroup" +s+ N_to_string no) no).

(** [bind_groups_module] *)
Definition bind_groups_module (gs : groups) (M : smap) : result (option out_bind_groups) :=
  do ogs <- rmapM (gen_group M) gs;
  let keys := map fst gs in
  match ogs with
  | [] => Ok None
  | _ => Ok (Some (mkOutBindGroups ogs (map (fun k => (k, k)) keys) keys
                     (map (fun k => (k, k)) keys) keys))
  end.
