(** The text of the generated module: [render : out -> list tok] is the token stream that the
    [quote!] templates of lib.rs, bindgroup.rs, entry.rs, structs.rs and consts.rs produce for the
    abstract output [out], token for token, in the order of the final [quote!] of
    [create_shader_module_inner].

    This makes the fixed template text part of the model: with it, the model defines the *whole*
    returned program, and the correspondence check compares [canon (render (gen m o))] with the
    canonical token stream of the text the real crate returned (driver [tokens]).

    Tokens. The driver re-tokenises the returned text with proc_macro2 and flattens it:
    identifiers -> [T name]; every punctuation character -> [T c] (one token per character, so
    [::] is [T ":"; T ":"] and a lifetime ['a] is [T "'"; T "a"]); delimiters -> [T "("] ...;
    string literals -> [TS value] (the *value*, escapes resolved - the escaping itself is the
    subject of C16 and compared there); literals ending in f32 / f64 -> [TF32 bits] / [TF64 bits]
    (Rust prints floats with the shortest-round-trip algorithm, which is not modelled: floats are
    compared by value); every other literal is split by the same character classes as the template
    lexer [lex] below (so [1.0] is [T "1"; T "."; T "0"] on both sides).

    [canon] removes a comma directly in front of a closing delimiter (both pretty printers add or
    remove such commas depending on line width, and one template ([vertex_states]) produces one) and a
    semicolon directly after a closing brace (prettyplease drops the separators between block-like
    statements). Both sides of the comparison go through [canon]. *)
From W2W Require Export Out.
From Coq Require Import Ascii.
Local Open Scope N_scope.

Inductive tok :=
| T (s : string)
| TS (value : string)
| TF32 (bits : N)
| TF64 (bits : N).

Definition tok_eqb (a b : tok) : bool :=
  match a, b with
  | T x, T y => String.eqb x y
  | TS x, TS y => String.eqb x y
  | TF32 x, TF32 y => N.eqb x y
  | TF64 x, TF64 y => N.eqb x y
  | _, _ => false
  end.

(** ** the template lexer: words of [A-Za-z0-9_] (and bytes >= 128), every other non-blank
    character a token of its own *)
Definition is_word_char (c : ascii) : bool :=
  let n := N_of_ascii c in
  ((48 <=? n) && (n <=? 57)) || ((65 <=? n) && (n <=? 90)) || ((97 <=? n) && (n <=? 122))
  || (n =? 95) || (128 <=? n).
Definition is_blank (c : ascii) : bool :=
  let n := N_of_ascii c in (n =? 32) || (n =? 10) || (n =? 9) || (n =? 13).

Definition flush (w : string) (acc : list tok) : list tok :=
  match w with EmptyString => acc | _ => T w :: acc end.

(** [w] is the current word (reversed), [acc] the tokens so far (reversed) *)
Fixpoint srev_app (a b : string) : string :=
  match a with EmptyString => b | String c a' => srev_app a' (String c b) end.
Definition srev (a : string) : string := srev_app a EmptyString.

Fixpoint lex_go (s : string) (w : string) (acc : list tok) : list tok :=
  match s with
  | EmptyString => rev (flush (srev w) acc)
  | String c s' =>
      if is_word_char c then lex_go s' (String c w) acc
      else if is_blank c then lex_go s' EmptyString (flush (srev w) acc)
      else lex_go s' EmptyString (T (String c EmptyString) :: flush (srev w) acc)
  end.
Definition lex (s : string) : list tok := lex_go s EmptyString [].

(** ** small combinators *)
Fixpoint sep_by {A} (sep : list A) (ls : list (list A)) : list A :=
  match ls with
  | [] => []
  | [x] => x
  | x :: t => x ++ sep ++ sep_by sep t
  end.
Definition comma_sep (ls : list (list tok)) : list tok := sep_by [T ","] ls.
Definition num (n : N) : tok := T (N_to_string n).
Definition idn (prefix : string) (n : N) : tok := T (prefix +s+ N_to_string n).

(** a closing delimiter *)
Definition is_closer (t : tok) : bool :=
  match t with T s => String.eqb s ")" || String.eqb s "]" || String.eqb s "}" | _ => false end.
Definition is_comma (t : tok) : bool := match t with T s => String.eqb s "," | _ => false end.

Fixpoint drop_commas (l : list tok) : list tok :=
  match l with
  | [] => []
  | x :: t =>
      match t with
      | y :: _ => if is_comma x && is_closer y then drop_commas t else x :: drop_commas t
      | [] => [x]
      end
  end.

(** a semicolon directly after a closing brace: prettyplease drops the ones that separate block-like
    statements ([#(#insert_optional_entries);*] in consts.rs), rustfmt and the raw fallback keep them *)
Definition is_rbrace (t : tok) : bool := match t with T s => String.eqb s "}" | _ => false end.
Definition is_semi (t : tok) : bool := match t with T s => String.eqb s ";" | _ => false end.
Fixpoint drop_semis (prev_rbrace : bool) (l : list tok) : list tok :=
  match l with
  | [] => []
  | x :: t => if prev_rbrace && is_semi x then drop_semis false t else x :: drop_semis (is_rbrace x) t
  end.

Definition canon (l : list tok) : list tok := drop_semis false (drop_commas l).

(** ** types *)
Definition prim_name (p : rprim) : string :=
  match p with
  | PI8 => "i8" | PU8 => "u8" | PI16 => "i16" | PU16 => "u16" | PI32 => "i32" | PU32 => "u32"
  | PF32 => "f32" | PF64 => "f64" | PBool => "bool" | PI64 => "i64" | PU64 => "u64"
  end.

Definition glam_name (g : glam_ty) : string :=
  match g with
  | GVec2 => "Vec2" | GVec3 => "Vec3" | GVec4 => "Vec4"
  | GDVec2 => "DVec2" | GDVec3 => "DVec3" | GDVec4 => "DVec4"
  | GUVec2 => "UVec2" | GUVec3 => "UVec3" | GUVec4 => "UVec4"
  | GIVec2 => "IVec2" | GIVec3 => "IVec3" | GIVec4 => "IVec4"
  | GMat2 => "Mat2" | GMat3 => "Mat3" | GMat4 => "Mat4"
  | GDMat2 => "DMat2" | GDMat3 => "DMat3" | GDMat4 => "DMat4"
  end.

Fixpoint r_ty (t : rust_ty) : list tok :=
  match t with
  | RPrim p => [T (prim_name p)]
  | RArr t n => [T "["] ++ r_ty t ++ [T ";"; num n; T "]"]
  | RGlam g => lex "glam::" ++ [T (glam_name g)]
  | RNalgV p n => lex "nalgebra::SVector<" ++ [T (prim_name p); T ","; num n; T ">"]
  | RNalgM p r c => lex "nalgebra::SMatrix<" ++ [T (prim_name p); T ","; num r; T ","; num c; T ">"]
  | RNamed s => [T s]
  | RVec t => lex "Vec<" ++ r_ty t ++ [T ">"]
  | ROption t => lex "Option<" ++ r_ty t ++ [T ">"]
  end.

(** ** structs.rs [rust_struct] *)
Definition r_field (f : out_field) : list tok :=
  (if fd_runtime f then lex "#[size(runtime)]" else [])
  ++ [T "pub"; T (fd_name f); T ":"] ++ r_ty (fd_ty f).

Definition r_assert_size (name : string) (n : N) : list tok :=
  lex "const _: () = assert!(std::mem::size_of::<" ++ [T name] ++ lex ">() ==" ++ [num n; T ","]
  ++ [TS ("size of " +s+ name +s+ " does not match WGSL")] ++ lex ");".

Definition r_assert_offset (name : string) (fo : string * N) : list tok :=
  lex "const _: () = assert!(std::mem::offset_of!(" ++ [T name; T ","; T (fst fo)] ++ lex ") ==" ++ [num (snd fo); T ","]
  ++ [TS ("offset of " +s+ name +s+ "." +s+ fst fo +s+ " does not match WGSL")] ++ lex ");".

Definition r_struct (s : out_struct) : list tok :=
  (if s_repr_c s then lex "#[repr(C)]" else [])
  ++ lex "#[derive(" ++ comma_sep (map lex (s_derives s)) ++ lex ")]"
  ++ [T "pub"; T "struct"; T (s_name s); T "{"] ++ comma_sep (map r_field (s_fields s)) ++ [T "}"]
  ++ match s_assert_size s with
     | Some n => r_assert_size (s_name s) n ++ flat_map (r_assert_offset (s_name s)) (s_assert_offsets s)
     | None => []
     end.

(** ** consts.rs [consts]: [pub const NAME: ty = literal;]
    quote! prints numbers with a type suffix; a negative number re-lexes as [-] followed by the
    magnitude. Floats are carried as bit patterns: sign bit = the [-] token. *)
Definition r_literal (l : literal) : list tok :=
  match l with
  | LF32 b => if 2147483648 <=? b then [T "-"; TF32 (b - 2147483648)] else [TF32 b]
  | LF64 b => if 9223372036854775808 <=? b then [T "-"; TF64 (b - 9223372036854775808)] else [TF64 b]
  | LAbstractFloat b => if 9223372036854775808 <=? b then [T "-"; TF64 (b - 9223372036854775808)] else [TF64 b]
  | LU32 v => [T (N_to_string v +s+ "u32")]
  | LU64 v => [T (N_to_string v +s+ "u64")]
  | LI32 v => (if (v <? 0)%Z then [T "-"] else []) ++ [T (N_to_string (Z.abs_N v) +s+ "i32")]
  | LI64 v => (if (v <? 0)%Z then [T "-"] else []) ++ [T (N_to_string (Z.abs_N v) +s+ "i64")]
  | LAbstractInt v => (if (v <? 0)%Z then [T "-"] else []) ++ [T (N_to_string (Z.abs_N v) +s+ "i64")]
  | LBool b => [T (if b then "true" else "false")]
  end.

Definition r_const (k : out_const) : list tok :=
  [T "pub"; T "const"; T (k_name k); T ":"; T (prim_name (k_ty k)); T "="] ++ r_literal (k_lit k) ++ [T ";"].

(** ** consts.rs [pipeline_overridable_constants] *)
Definition r_ov_value (is_bool : bool) (subject : list tok) : list tok :=
  if is_bool then [T "if"] ++ subject ++ lex "{ 1.0 } else { 0.0 }" else subject ++ lex "as f64".

Definition r_ov_required (e : out_ov_entry) : list tok :=
  [T "("; TS (ove_key e)] ++ lex ".to_owned()," ++ r_ov_value (ove_is_bool e) [T "self"; T "."; T (ove_field e)] ++ [T ")"].

Definition r_ov_optional (e : out_ov_entry) : list tok :=
  lex "if let Some(value) = self." ++ [T (ove_field e)] ++ lex "{ entries.insert(" ++ [TS (ove_key e)]
  ++ lex ".to_owned()," ++ r_ov_value (ove_is_bool e) [T "value"] ++ lex "); }".

Definition r_overrides (ov : out_overrides) : list tok :=
  lex "pub struct OverrideConstants {"
  ++ comma_sep (map (fun f => [T "pub"; T (fst f); T ":"] ++ r_ty (snd f)) (ov_fields ov))
  ++ lex "} impl OverrideConstants { pub fn constants(&self) -> std::collections::HashMap<String, f64> {"
  ++ (match ov_optional ov with [] => lex "let entries" | _ => lex "let mut entries" end)
  ++ lex "= std::collections::HashMap::from([" ++ comma_sep (map r_ov_required (ov_required ov)) ++ lex "]);"
  ++ sep_by [T ";"] (map r_ov_optional (ov_optional ov))
  ++ lex "entries } }".

(** ** lib.rs [quote_shader_stages] *)
Definition r_stages (s : stages) : list tok :=
  if st_eqb s st_all then lex "wgpu::ShaderStages::all()"
  else if st_eqb s (mkStages true true false) then lex "wgpu::ShaderStages::VERTEX_FRAGMENT"
  else
    let comps := (if st_v s then [lex "wgpu::ShaderStages::VERTEX"] else [])
                 ++ (if st_f s then [lex "wgpu::ShaderStages::FRAGMENT"] else [])
                 ++ (if st_c s then [lex "wgpu::ShaderStages::COMPUTE"] else []) in
    match comps with
    | [] => lex "wgpu::ShaderStages::NONE"
    | first :: rest => first ++ flat_map (fun c => lex ".union(" ++ c ++ [T ")"]) rest
    end.

(** ** bindgroup.rs *)
Definition format_name (f : storage_format) : string :=
  match f with
  | R8Unorm => "R8Unorm" | R8Snorm => "R8Snorm" | R8Uint => "R8Uint" | R8Sint => "R8Sint"
  | R16Uint => "R16Uint" | R16Sint => "R16Sint" | R16Float => "R16Float"
  | Rg8Unorm => "Rg8Unorm" | Rg8Snorm => "Rg8Snorm" | Rg8Uint => "Rg8Uint" | Rg8Sint => "Rg8Sint"
  | R32Uint => "R32Uint" | R32Sint => "R32Sint" | R32Float => "R32Float"
  | Rg16Uint => "Rg16Uint" | Rg16Sint => "Rg16Sint" | Rg16Float => "Rg16Float"
  | Rgba8Unorm => "Rgba8Unorm" | Rgba8Snorm => "Rgba8Snorm" | Rgba8Uint => "Rgba8Uint" | Rgba8Sint => "Rgba8Sint"
  | Bgra8Unorm => "Bgra8Unorm" | Rgb10a2Uint => "Rgb10a2Uint" | Rgb10a2Unorm => "Rgb10a2Unorm"
  | Rg11b10Ufloat => "Rg11b10Ufloat" | R64Uint => "R64Uint"
  | Rg32Uint => "Rg32Uint" | Rg32Sint => "Rg32Sint" | Rg32Float => "Rg32Float"
  | Rgba16Uint => "Rgba16Uint" | Rgba16Sint => "Rgba16Sint" | Rgba16Float => "Rgba16Float"
  | Rgba32Uint => "Rgba32Uint" | Rgba32Sint => "Rgba32Sint" | Rgba32Float => "Rgba32Float"
  | R16Unorm => "R16Unorm" | R16Snorm => "R16Snorm" | Rg16Unorm => "Rg16Unorm" | Rg16Snorm => "Rg16Snorm"
  | Rgba16Unorm => "Rgba16Unorm" | Rgba16Snorm => "Rgba16Snorm"
  end.

Definition r_bool (b : bool) : tok := T (if b then "true" else "false").

Definition r_view_dim (d : view_dim) : list tok :=
  lex "wgpu::TextureViewDimension::"
  ++ [T match d with VD1 => "D1" | VD2 => "D2" | VD2Array => "D2Array" | VDCube => "Cube"
              | VDCubeArray => "CubeArray" | VD3 => "D3" end].

Definition r_binding_ty (b : binding_ty) : list tok :=
  match b with
  | BTBuffer t dyn min =>
      lex "wgpu::BindingType::Buffer { ty:"
      ++ match t with
         | BufUniform => lex "wgpu::BufferBindingType::Uniform"
         | BufStorage ro => lex "wgpu::BufferBindingType::Storage { read_only:" ++ [r_bool ro; T "}"]
         end
      ++ lex ", has_dynamic_offset:" ++ [r_bool dyn] ++ lex ", min_binding_size:"
      ++ match min with None => [T "None"] | Some n => lex "Some(" ++ [num n; T ")"] end
      ++ lex ", }"
  | BTTexture s d multi =>
      lex "wgpu::BindingType::Texture { sample_type:"
      ++ match s with
         | STFloat f => lex "wgpu::TextureSampleType::Float { filterable:" ++ [r_bool f; T "}"]
         | STSint => lex "wgpu::TextureSampleType::Sint"
         | STUint => lex "wgpu::TextureSampleType::Uint"
         | STDepth => lex "wgpu::TextureSampleType::Depth"
         end
      ++ lex ", view_dimension:" ++ r_view_dim d ++ lex ", multisampled:" ++ [r_bool multi] ++ lex ", }"
  | BTStorageTexture a f d =>
      lex "wgpu::BindingType::StorageTexture { access: wgpu::StorageTextureAccess::"
      ++ [T match a with TAReadOnly => "ReadOnly" | TAWriteOnly => "WriteOnly" | TAReadWrite => "ReadWrite"
                  | TAAtomic => "Atomic" end]
      ++ lex ", format: wgpu::TextureFormat::" ++ [T (format_name f)]
      ++ lex ", view_dimension:" ++ r_view_dim d ++ lex ", }"
  | BTSampler s =>
      lex "wgpu::BindingType::Sampler(wgpu::SamplerBindingType::"
      ++ [T match s with SFiltering => "Filtering" | SNonFiltering => "NonFiltering" | SComparison => "Comparison" end]
      ++ [T ")"]
  end.

Definition r_layout_entry (e : out_entry) : list tok :=
  lex "wgpu::BindGroupLayoutEntry { binding:" ++ [num (oe_binding e)]
  ++ lex ", visibility:" ++ r_stages (oe_vis e) ++ lex ", ty:" ++ r_binding_ty (oe_ty e)
  ++ lex ", count:" ++ [T (if oe_count_none e then "None" else "Some")] ++ lex ", }".

Definition r_layout_field (f : string * res_kind) : list tok :=
  [T "pub"; T (fst f); T ":"]
  ++ match snd f with
     | RKBuffer => lex "wgpu::BufferBinding<'a>"
     | RKTexture => lex "&'a wgpu::TextureView"
     | RKSampler => lex "&'a wgpu::Sampler"
     end.

Definition r_bind_entry (e : out_bind_entry) : list tok :=
  lex "wgpu::BindGroupEntry { binding:" ++ [num (be_binding e)] ++ lex ", resource: wgpu::BindingResource::"
  ++ [T match be_kind e with RKBuffer => "Buffer" | RKTexture => "TextureView" | RKSampler => "Sampler" end]
  ++ lex "(bindings." ++ [T (be_field e)] ++ lex "), }".

Definition r_group (g : out_group) : list tok :=
  lex "#[derive(Debug)] pub struct" ++ [idn "BindGroup" (og_no g)] ++ lex "(wgpu::BindGroup);"
  (* bind_group_layout *)
  ++ lex "#[derive(Debug)] pub struct" ++ [idn "BindGroupLayout" (og_layout_struct_no g)] ++ lex "<'a> {"
  ++ comma_sep (map r_layout_field (og_layout_fields g)) ++ [T "}"]
  (* bind_group_layout_descriptor *)
  ++ [T "const"; idn "LAYOUT_DESCRIPTOR" (og_desc_no g)]
  ++ lex ": wgpu::BindGroupLayoutDescriptor = wgpu::BindGroupLayoutDescriptor { label: Some("
  ++ [TS (og_desc_label g)] ++ lex "), entries: &[" ++ comma_sep (map r_layout_entry (og_entries g)) ++ lex "], };"
  (* bind_group *)
  ++ [T "impl"; idn "BindGroup" (og_impl_no g)]
  ++ lex "{ pub fn get_bind_group_layout(device: &wgpu::Device) -> wgpu::BindGroupLayout { device.create_bind_group_layout(&"
  ++ [idn "LAYOUT_DESCRIPTOR" (og_get_layout_desc_no g)] ++ lex ") }"
  ++ lex "pub fn from_bindings(device: &wgpu::Device, bindings:" ++ [idn "BindGroupLayout" (og_from_param_no g)]
  ++ lex ") -> Self { let bind_group_layout = device.create_bind_group_layout(&"
  ++ [idn "LAYOUT_DESCRIPTOR" (og_from_desc_no g)]
  ++ lex "); let bind_group = device.create_bind_group(&wgpu::BindGroupDescriptor { layout: &bind_group_layout, entries: &["
  ++ comma_sep (map r_bind_entry (og_bind_entries g)) ++ lex "], label: Some(" ++ [TS (og_bg_label g)]
  ++ lex "), }); Self(bind_group) }"
  ++ lex "pub fn set<P: SetBindGroup>(&self, pass: &mut P) { pass.set_bind_group(" ++ [num (og_set_index g)]
  ++ lex ", &self.0, &[]); } }".

Definition set_bind_group_impl (pass : string) : list tok :=
  lex "impl SetBindGroup for wgpu::" ++ [T pass]
  ++ lex "<'_> { fn set_bind_group(&mut self, index: u32, bind_group: &wgpu::BindGroup, offsets: &[wgpu::DynamicOffset],) { self.set_bind_group(index, bind_group, offsets); } }".

Definition r_bind_groups (bg : out_bind_groups) : list tok :=
  lex "pub mod bind_groups {"
  ++ flat_map r_group (bg_groups bg)
  ++ lex "#[derive(Debug, Copy, Clone)] pub struct BindGroups<'a> {"
  ++ comma_sep (map (fun ab => [T "pub"; idn "bind_group" (fst ab)] ++ lex ": &'a" ++ [idn "BindGroup" (snd ab)])
                    (bg_struct_fields bg))
  ++ lex "} impl BindGroups<'_> { pub fn set<P: SetBindGroup>(&self, pass: &mut P) {"
  ++ flat_map (fun n => [T "self"; T "."; idn "bind_group" n] ++ lex ".set(pass);") (bg_struct_set bg)
  ++ lex "} }"
  ++ lex "pub trait SetBindGroup { fn set_bind_group(&mut self, index: u32, bind_group: &wgpu::BindGroup, offsets: &[wgpu::DynamicOffset],); }"
  ++ set_bind_group_impl "ComputePass" ++ set_bind_group_impl "RenderPass" ++ set_bind_group_impl "RenderBundleEncoder"
  ++ lex "}"
  ++ lex "pub fn set_bind_groups<P: bind_groups::SetBindGroup>(pass: &mut P,"
  ++ comma_sep (map (fun ab => [idn "bind_group" (fst ab)] ++ lex ": &bind_groups::" ++ [idn "BindGroup" (snd ab)])
                    (bg_fn_params bg))
  ++ lex ") {"
  ++ flat_map (fun n => [idn "bind_group" n] ++ lex ".set(pass);") (bg_fn_set bg)
  ++ lex "}".

(** ** entry.rs [vertex_struct_methods] *)
Definition r_vattr (a : out_vattr) : list tok :=
  lex "wgpu::VertexAttribute { format: wgpu::VertexFormat::" ++ [T (va_format a)]
  ++ lex ", offset: std::mem::offset_of!(" ++ [T (va_struct a); T ","; T (va_field a)]
  ++ lex ") as u64, shader_location:" ++ [num (va_location a)] ++ lex ", }".

Definition r_vstruct (v : out_vstruct) : list tok :=
  [T "impl"; T (vs_name v)] ++ lex "{ pub const VERTEX_ATTRIBUTES: [wgpu::VertexAttribute;" ++ [num (vs_count v)]
  ++ lex "] = [" ++ comma_sep (map r_vattr (vs_attrs v)) ++ lex "];"
  ++ lex "pub const fn vertex_buffer_layout(step_mode: wgpu::VertexStepMode) -> wgpu::VertexBufferLayout<'static> { wgpu::VertexBufferLayout { array_stride: std::mem::size_of::<"
  ++ [T (vs_stride_of v)] ++ lex ">() as u64, step_mode, attributes: &" ++ [T (vs_attrs_of v)]
  ++ lex "::VERTEX_ATTRIBUTES } } }".

(** ** lib.rs [compute_module] *)
Definition r_compute_entry (c : out_compute) : list tok :=
  let '(x, y, z) := cp_wg c in
  [T "pub"; T "const"; T (cp_wg_const c)] ++ lex ": [u32; 3] = [" ++ [num x; T ","; num y; T ","; num z] ++ lex "];"
  ++ [T "pub"; T "fn"; T (cp_fn c)]
  ++ lex "(device: &wgpu::Device) -> wgpu::ComputePipeline { let module = super::create_shader_module(device); let layout = super::create_pipeline_layout(device); device.create_compute_pipeline(&wgpu::ComputePipelineDescriptor { label: Some("
  ++ [TS (cp_label c)] ++ lex "), layout: Some(&layout), module: &module, entry_point: Some(" ++ [TS (cp_entry_lit c)]
  ++ lex "), compilation_options: Default::default(), cache: Default::default(), }) }".

Definition r_compute (cs : list out_compute) : list tok :=
  match cs with
  | [] => []
  | _ => lex "pub mod compute {" ++ flat_map r_compute_entry cs ++ lex "}"
  end.

(** ** entry.rs [entry_point_constants], [vertex_states], [fragment_states] *)
Definition r_entry_const (c : string * string) : list tok :=
  [T "pub"; T "const"; T (fst c)] ++ lex ": &str =" ++ [TS (snd c); T ";"].

Definition r_ov_param (b : bool) : list tok := if b then lex "overrides: &OverrideConstants" else [].
Definition r_ov_constants (b : bool) : list tok := if b then lex "overrides.constants()" else lex "Default::default()".

Definition r_ventry (v : out_ventry) : list tok :=
  [T "pub"; T "fn"; T (ve_fn v); T "("]
  ++ match ve_params v with
     | [] => r_ov_param (ve_ov_param v)
     | ps => comma_sep (map (fun p => [T p] ++ lex ": wgpu::VertexStepMode") ps) ++ [T ","] ++ r_ov_param (ve_ov_param v)
     end
  ++ lex ") -> VertexEntry<" ++ [num (ve_n v)] ++ lex "> { VertexEntry { entry_point:" ++ [T (ve_const v)]
  ++ lex ", buffers: ["
  ++ comma_sep (map (fun b => [T (fst b)] ++ lex "::vertex_buffer_layout(" ++ [T (snd b); T ")"]) (ve_buffers v))
  ++ lex "], constants:" ++ r_ov_constants (ve_ov_used v) ++ lex "} }".

Definition vertex_tpl : list tok :=
  lex "#[derive(Debug)] pub struct VertexEntry<const N: usize> { pub entry_point: &'static str, pub buffers: [wgpu::VertexBufferLayout<'static>; N], pub constants: std::collections::HashMap<String, f64>, }"
  ++ lex "pub fn vertex_state<'a, const N: usize>(module: &'a wgpu::ShaderModule, entry: &'a VertexEntry<N>,) -> wgpu::VertexState<'a> { wgpu::VertexState { module, entry_point: Some(entry.entry_point), buffers: &entry.buffers, compilation_options: wgpu::PipelineCompilationOptions { constants: &entry.constants, ..Default::default() }, } }".

Definition r_fentry (f : out_fentry) : list tok :=
  [T "pub"; T "fn"; T (fe_fn f)] ++ lex "(targets: [Option<wgpu::ColorTargetState>;" ++ [num (fe_targets f)] ++ lex "],"
  ++ r_ov_param (fe_ov_param f) ++ lex ") -> FragmentEntry<" ++ [num (fe_n f)]
  ++ lex "> { FragmentEntry { entry_point:" ++ [T (fe_const f)] ++ lex ", targets, constants:"
  ++ r_ov_constants (fe_ov_used f) ++ lex "} }".

Definition fragment_tpl : list tok :=
  lex "#[derive(Debug)] pub struct FragmentEntry<const N: usize> { pub entry_point: &'static str, pub targets: [Option<wgpu::ColorTargetState>; N], pub constants: std::collections::HashMap<String, f64>, }"
  ++ lex "pub fn fragment_state<'a, const N: usize>(module: &'a wgpu::ShaderModule, entry: &'a FragmentEntry<N>,) -> wgpu::FragmentState<'a> { wgpu::FragmentState { module, entry_point: Some(entry.entry_point), targets: &entry.targets, compilation_options: wgpu::PipelineCompilationOptions { constants: &entry.constants, ..Default::default() }, } }".

(** ** lib.rs: SOURCE / create_shader_module / PUSH_CONSTANT_STAGES / create_pipeline_layout *)
Definition source_head : list tok := lex "pub const SOURCE: &str =".
Definition r_source_item (s : out_source) : list tok :=
  match s with
  | SrcEmbedded v => [TS v]
  | SrcInclude p => lex "include_str!(" ++ [TS p; T ")"]
  end.
Definition source_tail : list tok :=
  lex "; pub fn create_shader_module(device: &wgpu::Device) -> wgpu::ShaderModule { let source = std::borrow::Cow::Borrowed(SOURCE); device.create_shader_module(wgpu::ShaderModuleDescriptor { label: None, source: wgpu::ShaderSource::Wgsl(source) }) }".

Definition r_pc_range (r : out_pc_range) : list tok :=
  lex "wgpu::PushConstantRange { stages:" ++ [T (if pr_stages_const r then "PUSH_CONSTANT_STAGES" else "?")]
  ++ lex ", range:" ++ [num (pr_start r); T "."; T "."; num (pr_end r)] ++ lex "}".

Definition r_pipeline_layout (o : out) : list tok :=
  lex "pub fn create_pipeline_layout(device: &wgpu::Device) -> wgpu::PipelineLayout { device.create_pipeline_layout(&wgpu::PipelineLayoutDescriptor { label: None, bind_group_layouts: &["
  ++ comma_sep (map (fun n => lex "&bind_groups::" ++ [idn "BindGroup" n] ++ lex "::get_bind_group_layout(device)") (o_pl_groups o))
  ++ lex "], push_constant_ranges: &[" ++ flat_map r_pc_range (o_pc_ranges o) ++ lex "], }) }".

(** ** the whole module, in the order of the final [quote!]:
    structs | everything up to SOURCE | SOURCE's initialiser | the rest *)
Definition render_mid (o : out) : list tok :=
  flat_map r_const (o_consts o)
  ++ match o_overrides o with Some ov => r_overrides ov | None => [] end
  ++ match o_bind_groups o with Some bg => r_bind_groups bg | None => [] end
  ++ flat_map r_vstruct (o_vstructs o)
  ++ r_compute (o_compute o)
  ++ flat_map r_entry_const (o_entry_consts o)
  ++ (if o_vertex_tpl o then vertex_tpl else []) ++ flat_map r_ventry (o_ventries o)
  ++ (if o_fragment_tpl o then fragment_tpl else []) ++ flat_map r_fentry (o_fentries o).

Definition render_post (o : out) : list tok :=
  source_tail
  ++ match o_pc_stages o with
     | Some s => lex "pub const PUSH_CONSTANT_STAGES: wgpu::ShaderStages =" ++ r_stages s ++ [T ";"]
     | None => []
     end
  ++ r_pipeline_layout o.

Definition render_rest (o : out) : list tok :=
  render_mid o ++ source_head ++ r_source_item (o_source o) ++ render_post o.

Definition render (o : out) : list tok := flat_map r_struct (o_structs o) ++ render_rest o.

Definition render_canon (o : out) : list tok := canon (render o).

(** first position at which two token lists differ (for the replay) *)
Fixpoint first_diff (a b : list tok) (i : N) : option (N * option tok * option tok) :=
  match a, b with
  | [], [] => None
  | x :: a', y :: b' => if tok_eqb x y then first_diff a' b' (i + 1) else Some (i, Some x, Some y)
  | x :: _, [] => Some (i, Some x, None)
  | [], y :: _ => Some (i, None, Some y)
  end.
