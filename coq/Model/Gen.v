(** The generator: lib.rs [create_shader_module_inner] from the parsed module to
    the assembled token stream (as an [out] value). Parsing, validation and the
    two pretty printers are in [Pipeline.v]. *)
From W2W Require Export GenEntry.

Definition gen_source (src : string) (include : option string) : out_source :=
  match include with
  | Some p => SrcInclude p
  | None => SrcEmbedded src
  end.

Definition gen (m : module) (src : string) (include : option string) (o : options) : result out :=
  do bgd <- get_bind_group_data m;
  let gs := global_shader_stages m in
  do ss <- structs m o;
  let cs := consts m in
  do bgm <- bind_groups_module bgd gs;
  do vmod <- vertex_struct_methods m;
  let cmod := compute_module m in
  let ecs := entry_point_constants m in
  do vst <- vertex_states m;
  let fst_ := fragment_states m in
  do pc <- push_constant_range_stages m gs;
  do ov <- pipeline_overridable_constants m;
  Ok (mkOut ss cs ov bgm vmod cmod ecs
        (match vst with [] => false | _ => true end) vst
        (match fst_ with [] => false | _ => true end) fst_
        (gen_source src include)
        (option_map snd pc)
        (map fst bgd)
        (match pc with Some (size, _) => [mkOutPcRange true 0%N size] | None => [] end)).
