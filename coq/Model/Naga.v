(** The part of the naga 24 IR ([naga::Module]) that the generator reads.
    Handles are [nat] indices into [list] arenas; numbers are [N].
    Everything the generator never reads (local variables, expression operands,
    spans, interpolation ...) is dropped. The serializer in /verif/harness/driver
    prints values of these types. *)
From W2W Require Export Base.

Inductive scalar_kind := SkSint | SkUint | SkFloat | SkBool | SkAbstractInt | SkAbstractFloat.
Record scalar := mkScalar { sk : scalar_kind; sw : N }.
Inductive vsize := Bi | Tri | Quad.
Definition vsize_n (v : vsize) : N := match v with Bi => 2 | Tri => 3 | Quad => 4 end.

Inductive array_size := ASConstant (n : N) | ASDynamic | ASPending.

Inductive image_dim := D1 | D2 | D3 | Cube.

(** [naga::StorageFormat], all 41 variants in declaration order. *)
Inductive storage_format :=
| R8Unorm | R8Snorm | R8Uint | R8Sint | R16Uint | R16Sint | R16Float
| Rg8Unorm | Rg8Snorm | Rg8Uint | Rg8Sint | R32Uint | R32Sint | R32Float
| Rg16Uint | Rg16Sint | Rg16Float | Rgba8Unorm | Rgba8Snorm | Rgba8Uint | Rgba8Sint
| Bgra8Unorm | Rgb10a2Uint | Rgb10a2Unorm | Rg11b10Ufloat | R64Uint
| Rg32Uint | Rg32Sint | Rg32Float | Rgba16Uint | Rgba16Sint | Rgba16Float
| Rgba32Uint | Rgba32Sint | Rgba32Float
| R16Unorm | R16Snorm | Rg16Unorm | Rg16Snorm | Rgba16Unorm | Rgba16Snorm.

(** [naga::StorageAccess] bit flags. *)
Record access := mkAccess { a_load : bool; a_store : bool; a_atomic : bool }.

Inductive image_class :=
| ICSampled (k : scalar_kind) (multi : bool)
| ICDepth (multi : bool)
| ICStorage (f : storage_format) (acc : access).

Inductive address_space :=
| SpFunction | SpPrivate | SpWorkGroup | SpUniform | SpStorage (acc : access)
| SpHandle | SpPushConstant.

Inductive binding :=
| BBuiltIn (which : string)
| BLocation (loc : N) (blend_src : bool).

Record member := mkMember {
  m_name : option string;
  m_ty : nat;
  m_binding : option binding;
  m_offset : N }.

Inductive type_inner :=
| TScalar (s : scalar)
| TVector (n : vsize) (s : scalar)
| TMatrix (cols rows : vsize) (s : scalar)
| TAtomic (s : scalar)
| TPointer (base : nat) (sp : address_space)
| TValuePointer
| TArray (base : nat) (sz : array_size) (stride : N)
| TStruct (members : list member) (span : N)
| TImage (dim : image_dim) (arrayed : bool) (class : image_class)
| TSampler (comparison : bool)
| TAccelerationStructure
| TRayQuery
| TBindingArray (base : nat) (sz : array_size).

(** A type together with the numbers naga's [Layouter] computes for it and the
    two derived strings the generator obtains from Unicode tables
    ([case::CaseExt::to_snake] of the name); those are inputs, see DESIGN.md §6. *)
Record ty := mkTy {
  t_name : option string;
  t_inner : type_inner;
  t_size : N;           (* Layouter: TypeLayout.size *)
  t_align : N;          (* Layouter: TypeLayout.alignment *)
  t_snake : option string }.

Record global := mkGlobal {
  g_name : option string;
  g_space : address_space;
  g_binding : option (N * N);      (* (group, binding) *)
  g_ty : nat }.

Inductive literal :=
| LF64 (bits : N) | LF32 (bits : N) | LU32 (v : N) | LI32 (v : Z) | LU64 (v : N) | LI64 (v : Z)
| LBool (b : bool) | LAbstractInt (v : Z) | LAbstractFloat (bits : N).

Inductive gexpr := GLiteral (l : literal) | GZero (* Expression::ZeroValue of the constant's type *) | GOther.

Record constant := mkConstant { c_name : option string; c_ty : nat; c_init : gexpr }.

Record override := mkOverride {
  od_name : option string; od_id : option N; od_ty : nat; od_has_init : bool }.

Inductive expr := EGlobal (g : nat) | ECallResult (f : nat) | EOther.

Inductive stmt :=
| SBlock (b : list stmt)
| SIf (accept reject : list stmt)
| SSwitch (cases : list (list stmt))
| SLoop (body continuing : list stmt)
| SCall (f : nat)
| SOther.

Record arg := mkArg { a_name : option string; a_ty : nat; a_binding : option binding }.

Record func := mkFunc {
  f_name : option string;
  f_args : list arg;
  f_result : option (nat * option binding);
  f_exprs : list expr;
  f_body : list stmt }.

Record entry := mkEntry {
  e_name : string;
  e_upper : string;                (* [str::to_uppercase] of the name: an input *)
  e_stage : stage;
  e_wg : N * N * N;
  e_wg_over : bool;                (* some dimension is an override expression *)
  e_fn : func }.

Record module := mkModule {
  types : list ty;
  constants : list constant;
  overrides : list override;
  globals : list global;
  functions : list func;
  entries : list entry;
  layouter_ok : bool }.            (* [Layouter::update] returned Ok *)

(** The write options ([WriteOptions]); [validate] and [rustfmt] do not reach the
    generator proper and live in [Pipeline.v]. *)
Inductive mv_types := MVRust | MVGlam | MVNalgebra.
Record options := mkOptions {
  w_bm_vertex : bool;
  w_bm_host : bool;
  w_encase : bool;
  w_serde : bool;
  w_mv : mv_types }.

(** * Decidable equalities used by the model and the checkers *)

Definition scalar_kind_eqb (a b : scalar_kind) : bool :=
  match a, b with
  | SkSint, SkSint | SkUint, SkUint | SkFloat, SkFloat | SkBool, SkBool
  | SkAbstractInt, SkAbstractInt | SkAbstractFloat, SkAbstractFloat => true
  | _, _ => false
  end.
Definition vsize_eqb (a b : vsize) : bool := N.eqb (vsize_n a) (vsize_n b).

Definition get_ty (m : module) (h : nat) : option ty := nth_error (types m) h.
Definition get_inner (m : module) (h : nat) : option type_inner :=
  option_map t_inner (get_ty m h).
Definition get_global (m : module) (h : nat) : option global := nth_error (globals m) h.
Definition get_func (m : module) (h : nat) : option func := nth_error (functions m) h.

Definition is_builtin (b : option binding) : bool :=
  match b with Some (BBuiltIn _) => true | _ => false end.
Definition is_location (b : option binding) : bool :=
  match b with Some (BLocation _ _) => true | _ => false end.

(** Induction principle for the nested inductive [stmt]. *)
Section stmt_ind'.
  Variable P : stmt -> Prop.
  Hypothesis HBlock : forall b, Forall P b -> P (SBlock b).
  Hypothesis HIf : forall a r, Forall P a -> Forall P r -> P (SIf a r).
  Hypothesis HSwitch : forall cs, Forall (Forall P) cs -> P (SSwitch cs).
  Hypothesis HLoop : forall b c, Forall P b -> Forall P c -> P (SLoop b c).
  Hypothesis HCall : forall f, P (SCall f).
  Hypothesis HOther : P SOther.

  Fixpoint stmt_ind' (s : stmt) : P s :=
    let blk := fix blk (l : list stmt) : Forall P l :=
      match l with
      | [] => Forall_nil P
      | x :: t => Forall_cons x (stmt_ind' x) (blk t)
      end in
    match s with
    | SBlock b => HBlock b (blk b)
    | SIf a r => HIf a r (blk a) (blk r)
    | SSwitch cs =>
        HSwitch cs ((fix cases (l : list (list stmt)) : Forall (Forall P) l :=
          match l with
          | [] => Forall_nil _
          | c :: t => Forall_cons c (blk c) (cases t)
          end) cs)
    | SLoop b c => HLoop b c (blk b) (blk c)
    | SCall f => HCall f
    | SOther => HOther
    end.
End stmt_ind'.
