(** Model of structs.rs ([structs], [rust_struct], [add_types_recursive],
    [struct_members], [struct_has_rts_array_member]) and of the type mapping of
    wgsl.rs ([rust_scalar_type], [rust_type] and the vector / matrix helpers). *)
From stdpp Require Import gmap.
From W2W Require Export GenStages.
Local Open Scope N_scope.

(** ** wgsl.rs: type mapping *)
Definition rust_scalar_type (s : scalar) : result rprim :=
  match sk s, sw s with
  | SkSint, 1 => Ok PI8
  | SkUint, 1 => Ok PU8
  | SkSint, 2 => Ok PI16
  | SkUint, 2 => Ok PU16
  | SkSint, 4 => Ok PI32
  | SkUint, 4 => Ok PU32
  | SkFloat, 4 => Ok PF32
  | SkFloat, 8 => Ok PF64
  | SkBool, _ => Ok PBool
  | _, _ => Panic "todo: scalar type"
  end.

Definition rust_matrix_type (rows cols : vsize) (width : N) : result rust_ty :=
  do p <- rust_scalar_type (mkScalar SkFloat width);
  Ok (RArr (RArr (RPrim p) (vsize_n cols)) (vsize_n rows)).

Definition glam_matrix_type (rows cols : vsize) (width : N) : result rust_ty :=
  match rows, cols, width with
  | Bi, Bi, 4 => Ok (RGlam GMat2)
  | Tri, Tri, 4 => Ok (RGlam GMat3)
  | Quad, Quad, 4 => Ok (RGlam GMat4)
  | Bi, Bi, 8 => Ok (RGlam GDMat2)
  | Tri, Tri, 8 => Ok (RGlam GDMat3)
  | Quad, Quad, 8 => Ok (RGlam GDMat4)
  | _, _, _ => rust_matrix_type rows cols width
  end.

Definition nalgebra_matrix_type (rows cols : vsize) (width : N) : result rust_ty :=
  do p <- rust_scalar_type (mkScalar SkFloat width);
  Ok (RNalgM p (vsize_n rows) (vsize_n cols)).

Definition rust_vector_type (n : vsize) (s : scalar) : result rust_ty :=
  do p <- rust_scalar_type s;
  Ok (RArr (RPrim p) (vsize_n n)).

Definition glam_vector_type (n : vsize) (s : scalar) : result rust_ty :=
  match n, sk s, sw s with
  | Bi, SkFloat, 4 => Ok (RGlam GVec2)
  | Tri, SkFloat, 4 => Ok (RGlam GVec3)
  | Quad, SkFloat, 4 => Ok (RGlam GVec4)
  | Bi, SkFloat, 8 => Ok (RGlam GDVec2)
  | Tri, SkFloat, 8 => Ok (RGlam GDVec3)
  | Quad, SkFloat, 8 => Ok (RGlam GDVec4)
  | Bi, SkUint, 4 => Ok (RGlam GUVec2)
  | Tri, SkUint, 4 => Ok (RGlam GUVec3)
  | Quad, SkUint, 4 => Ok (RGlam GUVec4)
  | Bi, SkSint, 4 => Ok (RGlam GIVec2)
  | Tri, SkSint, 4 => Ok (RGlam GIVec3)
  | Quad, SkSint, 4 => Ok (RGlam GIVec4)
  | _, _, _ => rust_vector_type n s
  end.

Definition nalgebra_vector_type (n : vsize) (s : scalar) : result rust_ty :=
  do p <- rust_scalar_type s;
  Ok (RNalgV p (vsize_n n)).

(** [rust_type]; recursion through array bases, fuel = number of types + 1 *)
Fixpoint rust_type (fuel : nat) (m : module) (t : ty) (mv : mv_types) : result rust_ty :=
  match fuel with
  | O => Panic "out of fuel"
  | S k =>
      match t_inner t with
      | TScalar s => rmap RPrim (rust_scalar_type s)
      | TVector n s =>
          match mv with
          | MVRust => rust_vector_type n s
          | MVGlam => glam_vector_type n s
          | MVNalgebra => nalgebra_vector_type n s
          end
      | TMatrix cols rows s =>
          match mv with
          | MVRust => rust_matrix_type rows cols (sw s)
          | MVGlam => glam_matrix_type rows cols (sw s)
          | MVNalgebra => nalgebra_matrix_type rows cols (sw s)
          end
      | TAtomic s => rmap RPrim (rust_scalar_type s)
      | TArray base (ASConstant n) _ =>
          match get_ty m base with
          | None => Panic "type handle out of range"
          | Some bt => do e <- rust_type k m bt mv; Ok (RArr e n)
          end
      | TArray _ ASDynamic _ => Panic "Runtime-sized arrays can only be used in variable declarations or as the last field of a struct."
      | TArray _ ASPending _ => Panic "todo"
      | TStruct _ _ =>
          match t_name t with
          | Some n => Ok (RNamed n)
          | None => Panic "unwrap: unnamed struct"
          end
      | _ => Panic "todo: unsupported member type"
      end
  end.

Definition type_fuel (m : module) : nat := S (length (types m)).

(** ** structs.rs [add_types_recursive] (with the early return): DFS over the type arena *)
Definition type_children (i : type_inner) : list nat :=
  match i with
  | TPointer base _ => [base]
  | TArray base _ _ => [base]
  | TStruct members _ => map m_ty members
  | TBindingArray base _ => [base]
  | _ => []
  end.

(** visited set, number of types expanded (the hook counter [TYPE_VISITS]) *)
Definition ystate := (gset nat * nat)%type.

Fixpoint add_types (fuel : nat) (m : module) (s : ystate) (h : nat) : ystate :=
  match fuel with
  | O => s
  | S k =>
      let '(V, w) := s in
      if decide (h ∈ V) then s
      else match get_inner m h with
           | Some i => fold_left (add_types k m) (type_children i) ({[h]} ∪ V, S w)
           | None => s                           (* Rust: index panic; excluded by [wf] *)
           end
  end.

Definition global_types_state (m : module) : ystate :=
  fold_left (fun s g => add_types (type_fuel m) m s (g_ty g)) (globals m) (∅, O).
Definition global_variable_types (m : module) : gset nat := fst (global_types_state m).
Definition type_visits (m : module) : nat := snd (global_types_state m).

(** ** [rust_struct] *)
Definition is_rts_array (m : module) (mem : member) : bool :=
  match get_inner m (m_ty mem) with
  | Some (TArray _ ASDynamic _) => true
  | _ => false
  end.

Definition struct_member (m : module) (o : options) (n_members : nat) (idx : nat) (mem : member)
  : result out_field :=
  match m_name mem with
  | None => Panic "unwrap: unnamed member"
  | Some name =>
      match get_ty m (m_ty mem) with
      | None => Panic "type handle out of range"
      | Some t =>
          match t_inner t with
          | TArray base ASDynamic _ =>
              if negb (Nat.eqb idx (n_members - 1)) then
                Panic "Only the last field of a struct can be a runtime-sized array"
              else
                match get_ty m base with
                | None => Panic "type handle out of range"
                | Some bt =>
                    do e <- rust_type (type_fuel m) m bt (w_mv o);
                    Ok (mkOutField name (RVec e) true)
                end
          | _ =>
              do e <- rust_type (type_fuel m) m t (w_mv o);
              Ok (mkOutField name e false)
          end
      end
  end.

Fixpoint struct_members_from (m : module) (o : options) (n : nat) (idx : nat) (ms : list member)
  : result (list out_field) :=
  match ms with
  | [] => Ok []
  | x :: t =>
      do f <- struct_member m o n idx x;
      do fs <- struct_members_from m o n (S idx) t;
      Ok (f :: fs)
  end.

Definition member_offset_assert (mem : member) : result (string * N) :=
  match m_name mem with
  | Some n => Ok (n, m_offset mem)
  | None => Panic "unwrap: unnamed member"
  end.

Definition rust_struct (m : module) (o : options) (gvt : gset nat) (h : nat) (t : ty)
    (members : list member) : result out_struct :=
  match t_name t with
  | None => Panic "unwrap: unnamed struct"
  | Some name =>
      let members := filter (fun mem => negb (is_builtin (m_binding mem))) members in
      do offsets <- rmapM member_offset_assert members;
      let has_rts := existsb (is_rts_array m) members in
      do fields <- struct_members_from m o (length members) 0%nat members;
      let host := bool_decide (h ∈ gvt) in
      if has_rts && negb (w_encase o) then
        Panic "Runtime-sized array fields are only supported with encase"
      else if w_bm_vertex o && negb host && has_rts then
        Panic "Runtime-sized array fields are not supported with bytemuck"
      else if w_bm_host o && host && has_rts then
        Panic "Runtime-sized array fields are not supported with bytemuck"
      else
        let derives :=
          ["Debug"] ++ (if has_rts then [] else ["Copy"]) ++ ["Clone"; "PartialEq"]
          ++ (if w_bm_vertex o && negb host then ["bytemuck::Pod"; "bytemuck::Zeroable"] else [])
          ++ (if w_bm_host o && host then ["bytemuck::Pod"; "bytemuck::Zeroable"] else [])
          ++ (if w_encase o && host then ["encase::ShaderType"] else [])
          ++ (if w_serde o then ["serde::Serialize"; "serde::Deserialize"] else []) in
        let asserts := w_bm_host o && host in
        Ok (mkOutStruct name (negb has_rts) derives fields
              (if asserts then Some (t_size t) else None)
              (if asserts then offsets else []))
  end.

(** the filter of [structs]: [!is_entry_result && is_entry_arg || host_shareable] *)
Definition is_entry_result (m : module) (h : nat) : bool :=
  existsb (fun e => match f_result (e_fn e) with
                    | Some (t, _) => Nat.eqb t h
                    | None => false
                    end) (entries m).
Definition is_entry_arg (m : module) (h : nat) : bool :=
  existsb (fun e => existsb (fun a => Nat.eqb (a_ty a) h) (f_args (e_fn e))) (entries m).

Definition struct_wanted (m : module) (gvt : gset nat) (h : nat) : bool :=
  (negb (is_entry_result m h) && is_entry_arg m h) || bool_decide (h ∈ gvt).

Fixpoint structs_from (m : module) (o : options) (gvt : gset nat) (h : nat) (ts : list ty)
  : result (list out_struct) :=
  match ts with
  | [] => Ok []
  | t :: rest =>
      match t_inner t with
      | TStruct members _ =>
          if struct_wanted m gvt h then
            do s <- rust_struct m o gvt h t members;
            do ss <- structs_from m o gvt (S h) rest;
            Ok (s :: ss)
          else structs_from m o gvt (S h) rest
      | _ => structs_from m o gvt (S h) rest
      end
  end.

Definition structs (m : module) (o : options) : result (list out_struct) :=
  if negb (layouter_ok m) then Panic "Layouter::update failed"
  else structs_from m o (global_variable_types m) 0%nat (types m).
