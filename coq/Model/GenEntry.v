(** Model of entry.rs ([fragment_target_count], [entry_point_constants],
    [vertex_states], [vertex_struct_methods], [fragment_states]), of the vertex
    input discovery and [vertex_format] of wgsl.rs, and of lib.rs [compute_module]. *)
From W2W Require Export GenConsts.
Local Open Scope N_scope.

(** ** [fragment_target_count] (after the fix: highest location + 1) *)
Definition location_of (b : option binding) : option N :=
  match b with Some (BLocation l _) => Some l | _ => None end.

Definition fragment_target_count (m : module) (f : func) : N :=
  match f_result f with
  | None => 0
  | Some (t, Some b) => match location_of (Some b) with Some l => l + 1 | None => 0 end
  | Some (t, None) =>
      match get_inner m t with
      | Some (TStruct members _) =>
          fold_left N.max (filter_map (fun mem => option_map (fun l => l + 1) (location_of (m_binding mem))) members) 0
      | _ => 0
      end
  end.

Definition entry_const_name (e : entry) : string := "ENTRY_" +s+ e_upper e.

Definition entry_point_constants (m : module) : list (string * string) :=
  map (fun e => (entry_const_name e, e_name e)) (entries m).

(** ** wgsl.rs [vertex_format] *)
Definition vertex_format (i : type_inner) : result string :=
  match i with
  | TScalar s =>
      match sk s, sw s with
      | SkSint, 4 => Ok "Sint32"
      | SkUint, 4 => Ok "Uint32"
      | SkFloat, 4 => Ok "Float32"
      | SkFloat, 8 => Ok "Float64"
      | _, _ => Panic "todo: vertex format"
      end
  | TVector Bi s =>
      match sk s, sw s with
      | SkSint, 1 => Ok "Sint8x2"
      | SkUint, 1 => Ok "Uint8x2"
      | SkSint, 2 => Ok "Sint16x2"
      | SkUint, 2 => Ok "Uint16x2"
      | SkUint, 4 => Ok "Uint32x2"
      | SkSint, 4 => Ok "Sint32x2"
      | SkFloat, 4 => Ok "Float32x2"
      | SkFloat, 8 => Ok "Float64x2"
      | _, _ => Panic "todo: vertex format"
      end
  | TVector Tri s =>
      match sk s, sw s with
      | SkUint, 4 => Ok "Uint32x3"
      | SkSint, 4 => Ok "Sint32x3"
      | SkFloat, 4 => Ok "Float32x3"
      | SkFloat, 8 => Ok "Float64x3"
      | _, _ => Panic "todo: vertex format"
      end
  | TVector Quad s =>
      match sk s, sw s with
      | SkSint, 1 => Ok "Sint8x4"
      | SkUint, 1 => Ok "Uint8x4"
      | SkSint, 2 => Ok "Sint16x4"
      | SkUint, 2 => Ok "Uint16x4"
      | SkUint, 4 => Ok "Uint32x4"
      | SkSint, 4 => Ok "Sint32x4"
      | SkFloat, 4 => Ok "Float32x4"
      | SkFloat, 8 => Ok "Float64x4"
      | _, _ => Panic "todo: vertex format"
      end
  | _ => Panic "todo: vertex format"
  end.

(** ** wgsl.rs [vertex_entry_structs] / [get_vertex_input_structs] *)
Record vertex_input := mkVI {
  vi_name : string;
  vi_snake : string;                         (* [to_snake] of the name (an input) *)
  vi_fields : list (N * member) }.

Definition vertex_field (mem : member) : result (option (N * member)) :=
  match m_binding mem with
  | None => Panic "unwrap: vertex input member without binding"
  | Some (BBuiltIn _) => Ok None
  | Some (BLocation l _) => Ok (Some (l, mem))
  end.

Fixpoint rfilter_map {A B} (f : A -> result (option B)) (l : list A) : result (list B) :=
  match l with
  | [] => Ok []
  | x :: t =>
      do y <- f x;
      do ys <- rfilter_map f t;
      Ok (match y with Some v => v :: ys | None => ys end)
  end.

Definition vertex_arg_struct (m : module) (a : arg) : result (option vertex_input) :=
  match a_binding a with
  | Some _ => Ok None
  | None =>
      match get_ty m (a_ty a) with
      | None => Panic "type handle out of range"
      | Some t =>
          match t_inner t with
          | TStruct members _ =>
              match t_name t, t_snake t with
              | Some n, Some sn =>
                  do fs <- rfilter_map vertex_field members;
                  Ok (Some (mkVI n sn fs))
              | _, _ => Panic "unwrap: unnamed struct"
              end
          | _ => Ok None
          end
      end
  end.

Definition vertex_entry_structs (m : module) (e : entry) : result (list vertex_input) :=
  rfilter_map (vertex_arg_struct m) (f_args (e_fn e)).

(** byte-wise lexicographic order of Rust's [String] *)
Definition str_leb (a b : string) : bool :=
  match String.compare a b with Gt => false | _ => true end.

(** stable sort by name ([sort_by_key]) as insertion sort *)
Fixpoint vi_insert (x : vertex_input) (l : list vertex_input) : list vertex_input :=
  match l with
  | [] => [x]
  | y :: t => if str_leb (vi_name y) (vi_name x) then y :: vi_insert x t else x :: l
  end.
Definition vi_sort (l : list vertex_input) : list vertex_input :=
  fold_left (fun acc x => vi_insert x acc) l [].

(** [dedup_by_key]: of each run of equal names keep the first element *)
Fixpoint vi_dedup_from (prev : vertex_input) (l : list vertex_input) : list vertex_input :=
  match l with
  | [] => []
  | y :: t =>
      if String.eqb (vi_name prev) (vi_name y) then vi_dedup_from prev t
      else y :: vi_dedup_from y t
  end.
Definition vi_dedup (l : list vertex_input) : list vertex_input :=
  match l with [] => [] | x :: t => x :: vi_dedup_from x t end.

Definition is_vertex (e : entry) : bool := stage_eqb (e_stage e) Vertex.
Definition is_fragment (e : entry) : bool := stage_eqb (e_stage e) Fragment.
Definition is_compute (e : entry) : bool := stage_eqb (e_stage e) Compute.

Definition get_vertex_input_structs (m : module) : result (list vertex_input) :=
  do ls <- rmapM (vertex_entry_structs m) (filter is_vertex (entries m));
  Ok (vi_dedup (vi_sort (concat ls))).

(** ** entry.rs [vertex_struct_methods] *)
Definition vertex_attr (m : module) (sname : string) (f : N * member) : result out_vattr :=
  let '(loc, mem) := f in
  match m_name mem with
  | None => Panic "unwrap: unnamed member"
  | Some fname =>
      match get_inner m (m_ty mem) with
      | None => Panic "type handle out of range"
      | Some i =>
          do fmt <- vertex_format i;
          Ok (mkOutVAttr fmt sname fname loc)
      end
  end.

Definition vertex_struct_impl (m : module) (vi : vertex_input) : result out_vstruct :=
  do attrs <- rmapM (vertex_attr m (vi_name vi)) (vi_fields vi);
  Ok (mkOutVStruct (vi_name vi) (N.of_nat (length (vi_fields vi))) attrs (vi_name vi) (vi_name vi)).

Definition vertex_struct_methods (m : module) : result (list out_vstruct) :=
  do vis <- get_vertex_input_structs m;
  rmapM (vertex_struct_impl m) vis.

(** ** entry.rs [vertex_states] *)
Definition has_overrides (m : module) : bool :=
  match overrides m with [] => false | _ => true end.

Definition vertex_entry (m : module) (e : entry) : result out_ventry :=
  do vis <- vertex_entry_structs m e;
  Ok (mkOutVEntry (e_name e +s+ "_entry") (entry_const_name e)
        (map vi_snake vis) (map (fun vi => (vi_name vi, vi_snake vi)) vis)
        (N.of_nat (length vis)) (has_overrides m) (has_overrides m)).

Definition vertex_states (m : module) : result (list out_ventry) :=
  rmapM (vertex_entry m) (filter is_vertex (entries m)).

(** ** entry.rs [fragment_states] *)
Definition fragment_entry (m : module) (e : entry) : out_fentry :=
  let n := fragment_target_count m (e_fn e) in
  mkOutFEntry (e_name e +s+ "_entry") (entry_const_name e) n n (has_overrides m) (has_overrides m).

Definition fragment_states (m : module) : list out_fentry :=
  map (fragment_entry m) (filter is_fragment (entries m)).

(** ** lib.rs [compute_module] *)
Definition compute_entry (e : entry) : out_compute :=
  mkOutCompute (e_upper e +s+ "_WORKGROUP_SIZE") (e_wg e)
    ("create_" +s+ e_name e +s+ "_pipeline") ("Compute Pipeline " +s+ e_name e) (e_name e).

Definition compute_module (m : module) : list out_compute :=
  map compute_entry (filter is_compute (entries m)).
