(** Model of consts.rs: [consts], [pipeline_overridable_constants], [override_key]. *)
From W2W Require Export GenStructs.

(** literal -> (declared type, literal token). After the f64 fix. *)
Definition const_type_and_value (l : literal) : rprim * literal :=
  match l with
  | LF64 v => (PF64, LF64 v)
  | LF32 v => (PF32, LF32 v)
  | LU32 v => (PU32, LU32 v)
  | LI32 v => (PI32, LI32 v)
  | LU64 v => (PU64, LU64 v)
  | LBool v => (PBool, LBool v)
  | LI64 v => (PI64, LI64 v)
  | LAbstractInt v => (PI64, LI64 v)
  | LAbstractFloat v => (PF64, LF64 v)
  end.

(** naga [Literal::zero] *)
Definition literal_zero (s : scalar) : option literal :=
  match sk s, sw s with
  | SkFloat, 8%N => Some (LF64 0)
  | SkFloat, 4%N => Some (LF32 0)
  | SkSint, 4%N => Some (LI32 0)
  | SkUint, 4%N => Some (LU32 0)
  | SkSint, 8%N => Some (LI64 0)
  | SkUint, 8%N => Some (LU64 0)
  | SkBool, _ => Some (LBool false)
  | _, _ => None
  end.

Definition gen_const (m : module) (c : constant) : option out_const :=
  match c_name c with
  | None => None
  | Some n =>
      match c_init c with
      | GLiteral l => let '(t, v) := const_type_and_value l in Some (mkOutConst n t v)
      | GZero =>
          match get_inner m (c_ty c) with
          | Some (TScalar s) =>
              match literal_zero s with
              | Some l => let '(t, v) := const_type_and_value l in Some (mkOutConst n t v)
              | None => None
              end
          | _ => None
          end
      | GOther => None
      end
  end.

Fixpoint filter_map {A B} (f : A -> option B) (l : list A) : list B :=
  match l with
  | [] => []
  | x :: t => match f x with Some y => y :: filter_map f t | None => filter_map f t end
  end.

Definition consts (m : module) : list out_const := filter_map (gen_const m) (constants m).

(** [override_key]. NB: Rust evaluates [o.name.clone().unwrap()] eagerly (it is the argument of
    [unwrap_or]), so an unnamed override panics even when it has an @id. *)
Definition override_key (o : override) : result string :=
  match od_name o with
  | None => Panic "unwrap: unnamed override"
  | Some n => match od_id o with Some i => Ok (N_to_string i) | None => Ok n end
  end.

Definition is_bool_scalar (m : module) (h : nat) : bool :=
  match get_inner m h with
  | Some (TScalar s) => match sk s with SkBool => true | _ => false end
  | _ => false
  end.

Definition override_field (m : module) (o : override) : result (string * rust_ty) :=
  match od_name o with
  | None => Panic "unwrap: unnamed override"
  | Some n =>
      match get_ty m (od_ty o) with
      | None => Panic "type handle out of range"
      | Some t =>
          do ty <- rust_type (type_fuel m) m t MVRust;
          Ok (n, if od_has_init o then ROption ty else ty)
      end
  end.

Definition override_entry (m : module) (o : override) : result out_ov_entry :=
  do key <- override_key o;
  match od_name o with
  | None => Panic "unwrap: unnamed override"
  | Some n => Ok (mkOvEntry key n (is_bool_scalar m (od_ty o)))
  end.

Definition pipeline_overridable_constants (m : module) : result (option out_overrides) :=
  do fields <- rmapM (override_field m) (overrides m);
  do req <- rmapM (override_entry m) (filter (fun o => negb (od_has_init o)) (overrides m));
  do opt <- rmapM (override_entry m) (filter od_has_init (overrides m));
  match fields with
  | [] => Ok None
  | _ => Ok (Some (mkOutOverrides fields req opt))
  end.
