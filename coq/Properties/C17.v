(** C17 - parse and validation failures come back as errors; validation only gates. *)
From W2W Require Import Wf NoErr.

Section C17.
  Variable parse : string -> option module.
  Variable validate : module -> bool.
  Let run := Pipeline.run parse validate.

  (** a source the front end rejects yields the parse error (and nothing else is attempted) *)
  Theorem C17_parse_error : forall src inc o v, parse src = None -> run src inc o v = Err ParseError.
  Proof. intros src inc o v H. unfold run, Pipeline.run. rewrite H. reflexivity. Qed.

  (** with validation requested a module the validator rejects yields the validation error *)
  Theorem C17_validation_error : forall src inc o m,
    parse src = Some m -> validate m = false -> run src inc o true = Err ValidationError.
  Proof. intros src inc o m Hp Hv. unfold run, Pipeline.run. rewrite Hp, Hv. reflexivity. Qed.

  (** for sources that pass, requesting validation changes nothing *)
  Theorem C17_validation_only_gates : forall src inc o m,
    parse src = Some m -> validate m = true -> run src inc o true = run src inc o false.
  Proof. intros src inc o m Hp Hv. unfold run, Pipeline.run. rewrite Hp, Hv. reflexivity. Qed.

  (** a parse / validation error can only come from the corresponding stage: the generator proper never
      produces these variants *)
  Theorem C17_error_origin : forall src inc o v,
    (run src inc o v = Err ParseError -> parse src = None) /\
    (run src inc o v = Err ValidationError -> v = true /\ exists m, parse src = Some m /\ validate m = false).
  Proof.
    intros src inc o v. unfold run, Pipeline.run. destruct (parse src) as [m|] eqn:Hp.
    - destruct (v && negb (validate m)) eqn:E.
      + split; [discriminate|]. intros _. apply andb_true_iff in E as [-> E]. apply negb_true_iff in E. eauto.
      + split; intros H; apply NoErr.gen_err_kind in H; destruct H as [H|[b H]]; discriminate.
    - split; [reflexivity|discriminate].
  Qed.

  (** no outcome of the pipeline before generation is a panic: panics can only originate in the generator
      proper (C01's domain) or inside naga (not modelled: searched for by the correspondence) *)
  Theorem C17_no_panic_before_generation : forall src inc o v w,
    run src inc o v = Panic w -> exists m, parse src = Some m /\ gen m src inc o = Panic w.
  Proof.
    intros src inc o v w. unfold run, Pipeline.run. destruct (parse src) as [m|]; [|discriminate].
    destruct (v && negb (validate m)); [discriminate|]. eauto.
  Qed.
End C17.

Check C17_parse_error. Check C17_validation_error. Check C17_validation_only_gates.
Print Assumptions C17_parse_error.
Print Assumptions C17_validation_error.
Print Assumptions C17_validation_only_gates.
Print Assumptions C17_error_origin.
Print Assumptions C17_no_panic_before_generation.
