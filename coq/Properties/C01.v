(** C01 - generated module is complete Rust that compiles against wgpu 24 (partial: see DESIGN.md). *)
From W2W Require Import Wf C15Spec C01Spec C01Proof.

(** PARTIAL. The full statement would be [names_ok m o -> gen m .. = Ok out -> rust_wf out = true]; what is
    proved so far is the literal-vs-declared-type clause of [rust_wf] (the other clauses are evaluated on every
    real output, and the whole module is compiled by rustc in every run). *)
Theorem C01_holds_partial : forall m src inc o out_,
  wf_consts m = true -> gen m src inc o = Ok out_ -> forallb const_wt (o_consts out_) = true.
Proof. exact consts_well_typed. Qed.
Print Assumptions C01_holds_partial.
