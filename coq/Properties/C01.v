(** C01 - generated module is complete Rust that compiles against wgpu 24 (partial: see DESIGN.md). *)
From W2W Require Import Wf C15Spec C06Spec C07Premise C12Spec C01Spec C01Proof C01More C01Full.

(** The literal-vs-declared-type clause of [rust_wf] on its own (the full statement is [C01_holds] below). *)
Theorem C01_holds_partial : forall m src inc o out_,
  wf_consts m = true -> gen m src inc o = Ok out_ -> forallb const_wt (o_consts out_) = true.
Proof. exact consts_well_typed. Qed.
Print Assumptions C01_holds_partial.


(** PARTIAL, second part: every type name the parametric parts of the output USE resolves to an item the output
    DEFINES - nested struct references, the struct behind every attribute table, the attribute table behind every
    buffer of a vertex entry helper - struct names are pairwise distinct and constants are well typed. These are
    five of the fifteen conjuncts of [rust_wf]; the name-space conjuncts (keywords, clashes with template items,
    derive bounds) are premises about the WGSL identifiers / types and are evaluated on every real output. *)
Theorem C01_holds_structure : forall m src inc o out_,
  wf m = true -> wf_consts m = true -> wf_io_structs m = true -> wf_vertex_inputs m = true ->
  gen m src inc o = Ok out_ ->
  forallb const_wt (o_consts out_) = true
  /\ str_nodup (map s_name (o_structs out_)) = true
  /\ forallb (fun s => forallb (fun f => forallb (fun n => existsb (String.eqb n) (map s_name (o_structs out_)))
                                                 (C01Spec.named_in (fd_ty f))) (s_fields s)) (o_structs out_) = true
  /\ forallb (fun v => existsb (String.eqb (vs_name v)) (map s_name (o_structs out_))) (o_vstructs out_) = true
  /\ forallb (fun v => forallb (fun b => existsb (fun vs => String.eqb (vs_name vs) (fst b)) (o_vstructs out_)) (ve_buffers v))
             (o_ventries out_) = true.
Proof. exact C01_structure. Qed.
Print Assumptions C01_holds_structure.

(** The statement of C01 over the model, complete relative to [rust_wf] (the fragment of rustc's rules the parametric
    parts of the output can violate; the fixed template text is compared token for token with Render.v and compiled for
    real in every run): for every wf module whose constants / IO structs / vertex inputs / overrides / member and override
    names are as naga's front end guarantees (all evaluated per case), and whose output is outside the known-finding
    classes [kf_any] - the conditions on the SHADER'S OWN identifiers and member types: Rust keywords, names clashing with
    generated items or template bindings or prelude names, derive bounds - the generated module is [rust_wf]: every
    remaining conjunct (distinct struct / field / override-field / bind-group-field / attribute-table names, literals of
    the declared type, every used type name resolving to a defined item) holds by construction of the generator. *)
Theorem C01_holds : forall m src inc o out_,
  wf m = true -> wf_consts m = true -> wf_io_structs m = true -> wf_vertex_inputs m = true ->
  wf_overrides m = true -> wf_member_names m = true -> wf_override_names m = true ->
  gen m src inc o = Ok out_ -> kf_any out_ = false -> rust_wf out_ = true.
Proof. exact C01_full. Qed.
Print Assumptions C01_holds.
