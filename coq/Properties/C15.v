(** C15 - module constants are exported with the WGSL type and exact value. *)
From W2W Require Import Wf Render C15Spec C15Proof IntLit IntLitProof.

(** For every module whose constant initialisers are what naga guarantees ([wf_consts]: a named scalar
    constant is initialised by a literal of its own type), the exported constants are exactly the named
    scalar constants in order, typed by the *declared* WGSL type, with the literal carried unchanged
    (integers by value, floats by bit pattern), and each literal token has the declared type. *)
Theorem C15_holds_bool : forall m src inc o out_,
  wf_consts m = true -> gen m src inc o = Ok out_ -> C15_ok m out_ = true.
Proof. exact C15_ok_gen. Qed.
Print Assumptions C15_holds_bool.

Definition ex_f64 := mkTy None (TScalar (mkScalar SkFloat 8)) 8 8 None.
Definition ex_v2 := mkTy None (TVector Bi (mkScalar SkFloat 4)) 8 8 None.
Definition ex_mod := mkModule [ex_f64; ex_v2]
  [mkConstant (Some "A") 0 (GLiteral (LF64 4609434218613702656)); mkConstant (Some "V") 1 GOther] [] [] [] [] true.
Example C15_nonvacuous :
  wf_consts ex_mod = true /\
  exists out_, gen ex_mod "" None (mkOptions false false false false MVRust) = Ok out_ /\
    o_consts out_ = [mkOutConst "A" PF64 (LF64 4609434218613702656)].
Proof. split; [reflexivity|]. eexists. split; vm_compute; reflexivity. Qed.

(** Reading direction, for integer and boolean constants: what rustc evaluates the printed tokens to
    ([Spec/IntLit.v]: an integer literal token is a maximal run of decimal digits followed by one of the suffixes
    i32 / u32 / i64 / u64, [overflowing_literals] rejects a value that does not fit, a leading [-] negates, [true] /
    [false] are the booleans). For every literal naga can hold ([lit_in_range]: a Rust value of its own type) the
    tokens [Render.r_literal] prints evaluate to exactly the WGSL value, with the suffix type - the decimal
    printing / lexing round trip is the standard library's [NilZero.usu] and [DecimalN.Unsigned.of_to]. Floats
    are outside this theorem: their tokens are compared by bit pattern (Render.v TF32 / TF64) and evaluated by
    rustc in the compiled batch. *)
Theorem C15_literal_tokens_roundtrip : forall l v,
  lit_in_range l = true -> wgsl_value l = Some v -> eval_const_tokens (r_literal l) = Some v.
Proof. exact literal_tokens_roundtrip. Qed.
Print Assumptions C15_literal_tokens_roundtrip.

(** ... lifted to the generator: every exported integer / boolean constant of every accepted module reads back
    as its value, and the type rustc gives the expression is the declared type of the item. *)
Theorem C15_tokens_read_back : forall m src inc o out_,
  consts_in_range m = true -> gen m src inc o = Ok out_ ->
  forall k, In k (o_consts out_) -> forall v, wgsl_value (k_lit k) = Some v ->
    eval_const_tokens (r_literal (k_lit k)) = Some v /\
    match v with RInt p _ => p = k_ty k | RBool _ => k_ty k = PBool end.
Proof. exact const_tokens_roundtrip. Qed.
Print Assumptions C15_tokens_read_back.

Example C15_tokens_nonvacuous :
  eval_const_tokens (r_literal (LI32 (-2147483648))) = Some (RInt PI32 (-2147483648)) /\
  eval_const_tokens (r_literal (LU64 18446744073709551615)) = Some (RInt PU64 18446744073709551615) /\
  eval_const_tokens [T "2147483648i32"] = None.
Proof. repeat split; vm_compute; reflexivity. Qed.
