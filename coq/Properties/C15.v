(** C15 - module constants are exported with the WGSL type and exact value. *)
From W2W Require Import Wf C15Spec C15Proof.

(** For every module whose constant initialisers are what naga guarantees ([wf_consts]: a named scalar
    constant is initialised by a literal of its own type), the exported constants are exactly the named
    scalar constants in order, typed by the *declared* WGSL type, with the literal carried unchanged
    (integers by value, floats by bit pattern), and each literal token has the declared type. *)
Theorem C15_holds_bool : forall m src inc o out_,
  wf_consts m = true -> gen m src inc o = Ok out_ -> C15_ok m out_ = true.
Proof. exact C15_ok_gen. Qed.
Print Assumptions C15_holds_bool.

Definition ex_f64 := mkTy None (TScalar (mkScalar SkFloat 8)) 8 8 None.
Definition ex_v2 := mkTy None (TVector Bi (mkScalar SkFloat 4)) 8 8 None.
Definition ex_mod := mkModule [ex_f64; ex_v2]
  [mkConstant (Some "A") 0 (GLiteral (LF64 4609434218613702656)); mkConstant (Some "V") 1 GOther] [] [] [] [] true.
Example C15_nonvacuous :
  wf_consts ex_mod = true /\
  exists out_, gen ex_mod "" None (mkOptions false false false false MVRust) = Ok out_ /\
    o_consts out_ = [mkOutConst "A" PF64 (LF64 4609434218613702656)].
Proof. split; [reflexivity|]. eexists. split; vm_compute; reflexivity. Qed.
