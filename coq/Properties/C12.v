(** C12 - override constants reach the pipeline under the right key and value (structure part). *)
From W2W Require Import Wf C12Spec C12Proof Overrides C12Resolve.

(** For every module whose overrides are named scalars with pairwise distinct keys: one field per override
    in order, of the matching scalar type, optional exactly when the declaration has a default; the
    required entries are the overrides without default, the optional ones those with default, each keyed
    by the decimal @id when given and by the name otherwise, booleans converted by the if/else form;
    keys pairwise distinct; entry helpers take / pass the constants exactly when the module has overrides. *)
Theorem C12_holds_bool : forall m src inc o out_,
  wf_overrides m = true -> gen m src inc o = Ok out_ -> C12_ok m out_ = true.
Proof. exact C12_ok_gen. Qed.
Print Assumptions C12_holds_bool.

Definition ex_b := mkTy None (TScalar (mkScalar SkBool 1)) 1 1 None.
Definition ex_f := mkTy None (TScalar (mkScalar SkFloat 4)) 4 4 None.
Definition ex_mod := mkModule [ex_b; ex_f] []
  [mkOverride (Some "flag") (Some 7%N) 0 false; mkOverride (Some "scale") None 1 true] [] [] [] true.
Example C12_nonvacuous :
  wf_overrides ex_mod = true /\
  exists out_, gen ex_mod "" None (mkOptions false false false false MVRust) = Ok out_ /\
    option_map (fun oo => (map ove_key (ov_required oo), map ove_key (ov_optional oo))) (o_overrides out_)
    = Some (["7"], ["scale"]).
Proof. split; [reflexivity|]. eexists. split; vm_compute; reflexivity. Qed.

(** Second half of the property: naga's override resolution accepts the map the generated [constants()] builds and
    sees exactly the values supplied. For ANY type [F] of f64 values with the conversions the generated code uses and
    ANY [lit_of] (naga's map_value_to_literal) that inverts those conversions on values of the field's own type (the
    five retraction premises - exact for bool / i32 / u32 / f32, identity for f64; validated per run against naga's real
    process_overrides): for every struct value [a] that is well typed for the module's overrides, the map is defined
    (every value expression type-checks), and looking up each override the way naga does - decimal @id if present, else
    the name - yields the assigned value, or falls back to the WGSL default exactly for the optional fields left None.
    No required override is ever missing, none resolves to another override's value. *)
Theorem C12_resolution :
  forall (F : Type) (one zero : F) (of_i32 : Z -> F) (of_u32 of_f32 of_f64 : N -> F) (lit_of : F -> rprim -> option oval),
  (forall b : bool, lit_of (if b then one else zero) PBool = Some (VBool b)) ->
  (forall z : Z, (-2147483648 <= z < 2147483648)%Z -> lit_of (of_i32 z) PI32 = Some (VI32 z)) ->
  (forall n : N, (n < 4294967296)%N -> lit_of (of_u32 n) PU32 = Some (VU32 n)) ->
  (forall b : N, (b < 4294967296)%N -> lit_of (of_f32 b) PF32 = Some (VF32 b)) ->
  (forall b : N, (b < 18446744073709551616)%N -> lit_of (of_f64 b) PF64 = Some (VF64 b)) ->
  forall m src inc o out_ oo (a : assignment),
  wf_overrides m = true -> gen m src inc o = Ok out_ -> o_overrides out_ = Some oo ->
  assignment_ok m a ->
  exists mp, constants_map F one zero of_i32 of_u32 of_f32 of_f64 oo a = Some mp /\
    forall ov n, In ov (overrides m) -> od_name ov = Some n ->
      naga_resolve F lit_of m ov mp = match a n with Some v => RValue v | None => RDefault end.
Proof.
  intros F one zero of_i32 of_u32 of_f32 of_f64 lit_of H1 H2 H3 H4 H5 m src inc o out_ oo a Hwf Hgen Hoo Ha.
  exact (C12_resolution_ok F one zero of_i32 of_u32 of_f32 of_f64 lit_of H1 H2 H3 H4 H5 m out_ oo a Hwf
           (C12_ok_gen m src inc o out_ Hwf Hgen) Hoo Ha).
Qed.
Print Assumptions C12_resolution.

(** non-vacuity: an instance of the premises ([F] := the value itself) and a well-typed assignment for [ex_mod];
    the map has the @id key for the required bool and no entry for the unset optional f32 *)
Definition ex_lit (f : oval) (p : rprim) : option oval := if rprim_eqb (oval_prim f) p then Some f else None.
Definition ex_assign : assignment := fun n => if String.eqb n "flag" then Some (VBool true) else None.
Example C12_resolution_nonvacuous :
  assignment_ok ex_mod ex_assign /\
  exists oo, option_map (fun x => x) (match gen ex_mod "" None (mkOptions false false false false MVRust) with Ok o => o_overrides o | _ => None end) = Some oo /\
    constants_map oval (VBool true) (VBool false) VI32 VU32 VF32 VF64 oo ex_assign = Some [("7", VBool true)].
Proof.
  split.
  - intros o n [<-|[<-|[]]] Hn; inversion Hn; subst n; cbn.
    + split; [intros _ H; discriminate H|]. intros v Hv. inversion Hv; subst v. split; [reflexivity|exact I].
    + split; [intros H; discriminate H|]. intros v Hv. discriminate Hv.
  - eexists. split; vm_compute; reflexivity.
Qed.
