(** C12 - override constants reach the pipeline under the right key and value (structure part). *)
From W2W Require Import Wf C12Spec C12Proof.

(** For every module whose overrides are named scalars with pairwise distinct keys: one field per override
    in order, of the matching scalar type, optional exactly when the declaration has a default; the
    required entries are the overrides without default, the optional ones those with default, each keyed
    by the decimal @id when given and by the name otherwise, booleans converted by the if/else form;
    keys pairwise distinct; entry helpers take / pass the constants exactly when the module has overrides. *)
Theorem C12_holds_bool : forall m src inc o out_,
  wf_overrides m = true -> gen m src inc o = Ok out_ -> C12_ok m out_ = true.
Proof. exact C12_ok_gen. Qed.
Print Assumptions C12_holds_bool.

Definition ex_b := mkTy None (TScalar (mkScalar SkBool 1)) 1 1 None.
Definition ex_f := mkTy None (TScalar (mkScalar SkFloat 4)) 4 4 None.
Definition ex_mod := mkModule [ex_b; ex_f] []
  [mkOverride (Some "flag") (Some 7%N) 0 false; mkOverride (Some "scale") None 1 true] [] [] [] true.
Example C12_nonvacuous :
  wf_overrides ex_mod = true /\
  exists out_, gen ex_mod "" None (mkOptions false false false false MVRust) = Ok out_ /\
    option_map (fun oo => (map ove_key (ov_required oo), map ove_key (ov_optional oo))) (o_overrides out_)
    = Some (["7"], ["scale"]).
Proof. split; [reflexivity|]. eexists. split; vm_compute; reflexivity. Qed.
