(** C16 - embedded shader source is byte-identical to the input. *)
From W2W Require Import Wf GenInv Escape Render StrLit StrLitProof.

(** the string literal printed for the source evaluates to exactly the source, for every string and every
    table of characters that escape_debug prints as \u{..} *)
Theorem C16_roundtrip : forall needs_unicode s, map unescape_tok (escape needs_unicode s) = s.
Proof. exact unescape_escape. Qed.
Print Assumptions C16_roundtrip.

Theorem C16_literal_wellformed : forall needs_unicode s, forallb raw_ok (escape needs_unicode s) = true.
Proof. exact escape_raw_ok. Qed.
Print Assumptions C16_literal_wellformed.

(** the generator puts the source (resp. the include path) into the output unchanged and nowhere else *)
Theorem C16_source_field : forall m src inc o out_,
  gen m src inc o = Ok out_ ->
  o_source out_ = match inc with Some p => SrcInclude p | None => SrcEmbedded src end.
Proof.
  intros m src inc o out_ H. destruct (gen_inv _ _ _ _ _ H) as [bgd pc _ _ _ _ _ _ _ _ _ _ _ Hs _ _ _ _ _].
  rewrite Hs. reflexivity.
Qed.
Print Assumptions C16_source_field.

(** the include variant differs from the embedded variant only in SOURCE *)
Theorem C16_include_only_source : forall m src p o a b,
  gen m src None o = Ok a -> gen m src (Some p) o = Ok b ->
  b = mkOut (o_structs a) (o_consts a) (o_overrides a) (o_bind_groups a) (o_vstructs a) (o_compute a)
            (o_entry_consts a) (o_vertex_tpl a) (o_ventries a) (o_fragment_tpl a) (o_fentries a)
            (SrcInclude p) (o_pc_stages a) (o_pl_groups a) (o_pc_ranges a).
Proof.
  intros m src p o a b Ha Hb. unfold gen in *.
  destruct (get_bind_group_data m); try discriminate. cbn [rbind] in *.
  destruct (structs m o); try discriminate. cbn [rbind] in *.
  destruct (bind_groups_module _ _); try discriminate. cbn [rbind] in *.
  destruct (vertex_struct_methods m); try discriminate. cbn [rbind] in *.
  destruct (vertex_states m); try discriminate. cbn [rbind] in *.
  destruct (push_constant_range_stages m _); try discriminate. cbn [rbind] in *.
  destruct (pipeline_overridable_constants m); try discriminate. cbn [rbind] in *.
  inversion Ha; subst a. inversion Hb; subst b. reflexivity.
Qed.
Print Assumptions C16_include_only_source.

(** ... at the level of the returned text: the embedded module is [pre ++ "pub const SOURCE: &str =" ++ the string
    literal whose VALUE is the input ++ post], the include variant is the same [pre] and [post] around
    [include_str!(<the given path>)]; nothing else differs *)
Theorem C16_text : forall m src p o a b,
  gen m src None o = Ok a -> gen m src (Some p) o = Ok b ->
  exists pre post,
    render a = pre ++ source_head ++ [TS src] ++ post /\
    render b = pre ++ source_head ++ (lex "include_str!(" ++ [TS p; T ")"]) ++ post.
Proof.
  intros m src p o a b Ha Hb.
  pose proof (C16_source_field _ _ _ _ _ Ha) as Hsa. cbn in Hsa.
  pose proof (C16_include_only_source _ _ _ _ _ _ Ha Hb) as Hb'. subst b.
  exists (flat_map r_struct (o_structs a) ++ render_mid a), (render_post a). split.
  - unfold render, render_rest. rewrite Hsa. rewrite <- app_assoc. reflexivity.
  - destruct a. unfold render, render_rest. rewrite <- app_assoc. reflexivity.
Qed.
Print Assumptions C16_text.

(** ... and character by character: for every source made of Unicode scalar values and every table of characters that
    escape_debug prints as \u{..}, rustc's unescaping (Spec/StrLit.v [unescape]: simple escapes, \xHH, \u{HEX}, no
    unescaped quote, no bare CR) of the characters proc-macro2 prints between the quotes ([literal_body]: each escape
    token rendered, \u{..} in lower-case hex without leading zeros) succeeds and yields exactly the source. *)
Theorem C16_roundtrip_chars : forall needs_unicode s,
  forallb valid_scalar s = true ->
  unescape (S (length (literal_body needs_unicode s))) (literal_body needs_unicode s) = Some s.
Proof. exact lex_roundtrip_fuel. Qed.
Print Assumptions C16_roundtrip_chars.

(** non-vacuity: quote, backslash, NUL followed by a digit, CR LF, a combining mark printed as \u{301}, a non-BMP character *)
Example C16_chars_example :
  let s := [34; 92; 0; 55; 13; 10; 769; 128512]%N in
  literal_body (fun c => N.eqb c 769) s
    = [92; 34; 92; 92; 92; 120; 48; 48; 55; 92; 114; 92; 110; 92; 117; 123; 51; 48; 49; 125; 128512]%N
  /\ unescape 30 (literal_body (fun c => N.eqb c 769) s) = Some s.
Proof. split; vm_compute; reflexivity. Qed.
