(** C13 - push constant range covers the variable, from offset 0, once. *)
From W2W Require Import Wf C03Spec C13Spec C13Proof Obs C13Obs Layout LayoutFacts C13Mult.

(** If and only if the module has a push constant variable the output has PUSH_CONSTANT_STAGES and exactly
    one range [0, size) using that constant, size = the Layouter (WGSL) size of the variable's type; the
    stage set is the set of stages statically using the variable (C03's relation), or all stages having
    an entry point when none does. *)
Theorem C13_holds_bool : forall m src inc o out_,
  wf m = true -> pc_size_agrees m = true -> gen m src inc o = Ok out_ -> C13_ok m out_ = true.
Proof. exact C13_ok_gen. Qed.
Print Assumptions C13_holds_bool.

Definition ex_v4 := mkTy None (TVector Quad (mkScalar SkFloat 4)) 16 16 None.
Definition ex_mod := mkModule [ex_v4] [] [] [mkGlobal (Some "pc") SpPushConstant None 0] []
  [mkEntry "fs" "FS" Fragment (1%N, 1%N, 1%N) false (mkFunc (Some "fs") [] None [] []);
   mkEntry "cs" "CS" Compute (1%N, 1%N, 1%N) false (mkFunc (Some "cs") [] None [EGlobal 0] [])] true.
Example C13_nonvacuous :
  wf ex_mod = true /\ pc_size_agrees ex_mod = true /\
  exists out_, gen ex_mod "" None (mkOptions false false false false MVRust) = Ok out_ /\
    o_pc_stages out_ = Some (st_of Compute) /\ o_pc_ranges out_ = [mkOutPcRange true 0 16].
Proof. split; [reflexivity|]. split; [reflexivity|]. eexists. split; [|split]; vm_compute; reflexivity. Qed.

(** The property as stated, over what the generated code DOES ([Spec/Obs.v]: the push constant ranges of the
    descriptor [create_pipeline_layout] hands to the device, with [PUSH_CONSTANT_STAGES] resolved to the exported
    constant's value). If the module has a push constant variable (the first one, [h]): the constant is exported with
    the stage set of the specification and the descriptor carries exactly one range, [0, WGSL size of the type), with
    that same stage set. If it has none: no constant and no range. *)
Theorem C13_holds : forall m src inc o out_,
  wf m = true -> pc_size_agrees m = true -> gen m src inc o = Ok out_ ->
  match find_pc_from (globals m) 0 with
  | None => o_pc_stages out_ = None /\ obs_pc_ranges out_ = Some []
  | Some h =>
      exists gl t, nth_error (globals m) h = Some gl /\ get_ty m (g_ty gl) = Some t /\
        o_pc_stages out_ = Some (pc_stage_spec m h) /\
        obs_pc_ranges out_ = Some [(pc_stage_spec m h, 0%N, t_size t)]
  end.
Proof. exact C13_obs_gen. Qed.
Print Assumptions C13_holds.

Example C13_obs_nonvacuous :
  exists out_, gen ex_mod "" None (mkOptions false false false false MVRust) = Ok out_ /\
    obs_pc_ranges out_ = Some [(st_of Compute, 0%N, 16%N)].
Proof. eexists. split; vm_compute; reflexivity. Qed.

(** "(a multiple of 4)": every size the WGSL layout rules of [Spec/Layout.v] assign - to 32-bit scalars, vectors,
    f32 matrices, fixed arrays and structs of those, nested to any depth - is a multiple of 4 ... *)
Theorem C13_wgsl_sizes_multiple_of_4 : forall t, (l_size t mod 4 = 0)%N.
Proof. exact l_size_multiple_of_4. Qed.
Print Assumptions C13_wgsl_sizes_multiple_of_4.

(** ... hence so is the length of the emitted range, which starts at 0. Premise [pc_layout_agrees] (evaluated on
    every case): the push constant's type is in the domain of [Layout.wgsl_lty] and naga's Layouter size is the
    size those rules give. *)
Theorem C13_length_multiple_of_4 : forall m src inc o out_,
  wf m = true -> pc_size_agrees m = true -> pc_layout_agrees m = true -> gen m src inc o = Ok out_ ->
  Forall (fun r => pr_start r = 0%N /\ (pr_end r mod 4 = 0)%N) (o_pc_ranges out_).
Proof. exact pc_range_multiple_of_4. Qed.
Print Assumptions C13_length_multiple_of_4.

Example C13_mult_nonvacuous : pc_layout_agrees ex_mod = true.
Proof. reflexivity. Qed.
