(** C14 - entry point metadata matches the shader's entry points. *)
From W2W Require Import Wf C14Spec C14Proof Obs C14Obs.

(** For every module: one ENTRY_ constant per entry point in order carrying its exact name; per compute
    entry a workgroup-size constant equal to the IR's workgroup size and a pipeline constructor targeting
    that entry; per fragment entry a helper asking for (highest written @location + 1) targets; per
    vertex entry a helper with one buffer per struct parameter; helpers refer to their own ENTRY_ constant. *)
Theorem C14_holds_bool : forall m src inc o out_,
  gen m src inc o = Ok out_ -> C14_ok m out_ = true.
Proof. exact C14_ok_gen. Qed.
Print Assumptions C14_holds_bool.

Theorem C14_target_count : forall m f, fragment_target_count m f = needed_targets m f.
Proof. exact fragment_target_count_needed. Qed.
Print Assumptions C14_target_count.

Definition ex_v4 := mkTy None (TVector Quad (mkScalar SkFloat 4)) 16 16 None.
Definition ex_out := mkTy (Some "Out")
  (TStruct [mkMember (Some "a") 0 (Some (BLocation 1 false)) 0; mkMember (Some "b") 0 (Some (BLocation 3 false)) 16] 32) 32 16 (Some "out").
Definition ex_mod := mkModule [ex_v4; ex_out] [] [] [] []
  [mkEntry "fs" "FS" Fragment (1%N, 1%N, 1%N) false (mkFunc (Some "fs") [] (Some (1, None)) [] [])] true.
Example C14_nonvacuous :
  exists out_, gen ex_mod "" None (mkOptions false false false false MVRust) = Ok out_ /\
    map fe_targets (o_fentries out_) = [4%N].
Proof. eexists. split; vm_compute; reflexivity. Qed.

(** The property as stated, over what the generated helpers DO ([Spec/Obs.v], names resolved like rustc resolves them).
    For every module the generator accepts in which no two entry points have names equal up to case and no vertex
    entry takes two struct parameters with one snake-case name (outside these the module does not compile - listed
    findings of C01):
    - one [ENTRY_] constant per entry point, in order, whose value is the exact WGSL name;
    - per compute entry, in order: [create_<e>_pipeline] hands the device a descriptor labelled "Compute Pipeline <e>"
      whose entry point is <e>, and [<E>_WORKGROUP_SIZE] is the entry's workgroup size;
    - per fragment entry, in order: [<e>_entry] takes and forwards exactly (highest written @location + 1) targets and
      names entry point <e>;
    - per vertex entry, in order: [<e>_entry] names entry point <e> and builds one buffer layout per struct parameter,
      in parameter order, the k-th from the k-th parameter's struct with the k-th step mode argument;
    - the [vertex_state] / [fragment_state] templates are present exactly when such entries exist. *)
Theorem C14_holds : forall m src inc o out_,
  gen m src inc o = Ok out_ -> entry_consts_distinct m = true -> vertex_params_distinct m = true ->
  o_entry_consts out_ = map (fun e => (const_of e, e_name e)) (entries m) /\
  map obs_compute (o_compute out_)
    = map (fun e => (("create_" +s+ e_name e +s+ "_pipeline")%string, ("Compute Pipeline " +s+ e_name e)%string, e_name e)) (of_stage Compute m) /\
  map obs_workgroup (o_compute out_) = map (fun e => ((e_upper e +s+ "_WORKGROUP_SIZE")%string, e_wg e)) (of_stage Compute m) /\
  omapM (obs_fragment_entry out_) (o_fentries out_)
    = Some (map (fun e => ((e_name e +s+ "_entry")%string, e_name e, needed_targets m (e_fn e))) (of_stage Fragment m)) /\
  omapM (obs_vertex_entry out_) (o_ventries out_)
    = Some (map (fun e => ((e_name e +s+ "_entry")%string, e_name e, enumerate (struct_param_names m (e_fn e)) 0%N)) (of_stage Vertex m)) /\
  o_vertex_tpl out_ = nonempty (of_stage Vertex m) /\ o_fragment_tpl out_ = nonempty (of_stage Fragment m).
Proof. exact C14_obs_gen. Qed.
Print Assumptions C14_holds.

Definition ex_vin := mkTy (Some "VIn") (TStruct [mkMember (Some "p") 0 (Some (BLocation 0 false)) 0] 16) 16 16 (Some "v_in").
Definition ex_inst := mkTy (Some "Inst") (TStruct [mkMember (Some "q") 0 (Some (BLocation 1 false)) 0] 16) 16 16 (Some "inst").
Definition ex_mod2 := mkModule [ex_v4; ex_vin; ex_inst] [] [] [] []
  [mkEntry "vs" "VS" Vertex (1%N, 1%N, 1%N) false
     (mkFunc (Some "vs") [mkArg (Some "a") 1 None; mkArg (Some "i") 0 (Some (BBuiltIn "vertex_index")); mkArg (Some "b") 2 None] None [] []);
   mkEntry "fs" "FS" Fragment (1%N, 1%N, 1%N) false (mkFunc (Some "fs") [] (Some (0, Some (BLocation 2 false))) [] [])] true.
Example C14_obs_nonvacuous :
  entry_consts_distinct ex_mod2 = true /\ vertex_params_distinct ex_mod2 = true /\
  exists out_, gen ex_mod2 "" None (mkOptions false false false false MVRust) = Ok out_ /\
    omapM (obs_vertex_entry out_) (o_ventries out_) = Some [("vs_entry", "vs", [("VIn", 0%N); ("Inst", 1%N)])] /\
    omapM (obs_fragment_entry out_) (o_fentries out_) = Some [("fs_entry", "fs", 3%N)].
Proof. split; [reflexivity|]. split; [reflexivity|]. eexists. split; [|split]; vm_compute; reflexivity. Qed.
