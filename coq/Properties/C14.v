(** C14 - entry point metadata matches the shader's entry points. *)
From W2W Require Import Wf C14Spec C14Proof.

(** For every module: one ENTRY_ constant per entry point in order carrying its exact name; per compute
    entry a workgroup-size constant equal to the IR's workgroup size and a pipeline constructor targeting
    that entry; per fragment entry a helper asking for (highest written @location + 1) targets; per
    vertex entry a helper with one buffer per struct parameter; helpers refer to their own ENTRY_ constant. *)
Theorem C14_holds_bool : forall m src inc o out_,
  gen m src inc o = Ok out_ -> C14_ok m out_ = true.
Proof. exact C14_ok_gen. Qed.
Print Assumptions C14_holds_bool.

Theorem C14_target_count : forall m f, fragment_target_count m f = needed_targets m f.
Proof. exact fragment_target_count_needed. Qed.
Print Assumptions C14_target_count.

Definition ex_v4 := mkTy None (TVector Quad (mkScalar SkFloat 4)) 16 16 None.
Definition ex_out := mkTy (Some "Out")
  (TStruct [mkMember (Some "a") 0 (Some (BLocation 1 false)) 0; mkMember (Some "b") 0 (Some (BLocation 3 false)) 16] 32) 32 16 (Some "out").
Definition ex_mod := mkModule [ex_v4; ex_out] [] [] [] []
  [mkEntry "fs" "FS" Fragment (1%N, 1%N, 1%N) false (mkFunc (Some "fs") [] (Some (1, None)) [] [])] true.
Example C14_nonvacuous :
  exists out_, gen ex_mod "" None (mkOptions false false false false MVRust) = Ok out_ /\
    map fe_targets (o_fentries out_) = [4%N].
Proof. eexists. split; vm_compute; reflexivity. Qed.
