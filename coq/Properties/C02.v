(** C02 - bind group layouts pass wgpu's shader-interface validation. *)
From W2W Require Import Wf C03Spec WgpuValid C02Spec C02Proof C02Features C02FeaturesProof.

(** For every wf module the generator accepts whose resources are well-formed ([wf_resources]), for any
    per-entry-point use lists that are sound w.r.t. static access ([uses_sound]) and well-formed sampling pairs,
    OUTSIDE the two known-finding classes: every used resource has a layout entry at its (group, binding) that
    is visible to the stage and passes wgpu-core's [check_binding_use]; every texture-sampler pair passes the
    filtering rule; every emitted entry passes the feature-independent rules of [create_bind_group_layout]. *)
Theorem C02_holds_bool : forall m src inc o out_ uses sampling,
  wf m = true -> gen m src inc o = Ok out_ ->
  wf_resources m = true -> uses_sound m uses = true -> wf_sampling m sampling = true ->
  length sampling = length (entries m) ->
  kf_ms_float m = false -> kf_int_sampling m sampling = false ->
  C02_ok m out_ uses sampling = true.
Proof. intros. eapply C02_ok_gen; eauto. Qed.
Print Assumptions C02_holds_bool.

(** Layout creation and optional features: an emitted entry needs VERTEX_WRITABLE_STORAGE (writable storage visible to the
    vertex stage) only when a vertex entry point of the shader statically accesses the variable - a shader that needs
    the feature itself. *)
Theorem C02_no_spurious_feature : forall m src inc o out_,
  wf m = true -> gen m src inc o = Ok out_ -> C02_features_ok m out_ = true.
Proof. exact C02_features_ok_gen. Qed.
Print Assumptions C02_no_spurious_feature.

(** the binding type synthesised for any supported resource variable is accepted by [check_binding_use]
    (all 41 storage formats x 4 accesses x dimensions, all sampled / depth / multisampled classes, buffers) *)
Theorem C02_compatible : forall m gl x ty,
  wf_resource m gl = true -> g_binding gl <> None ->
  get_inner m (g_ty gl) = Some (gb_inner x) -> gb_space x = g_space gl ->
  binding_type_of x = Ok ty ->
  check_binding_use (resource_ty (gb_inner x)) (g_space gl) ty = true.
Proof. exact binding_type_compatible. Qed.
Print Assumptions C02_compatible.

(** Known finding 1: the full statement is false of the model for a multisampled float texture. *)
Definition kf1_tex := mkTy None (TImage D2 false (ICSampled SkFloat true)) 0 1 None.
Definition kf1_mod := mkModule [kf1_tex] [] [] [mkGlobal (Some "t") SpHandle (Some (0%N, 0%N)) 0] []
  [mkEntry "main" "MAIN" Fragment (1%N, 1%N, 1%N) false (mkFunc None [] None [EGlobal 0] [])] true.
Theorem C02_refuted_ms_float : exists m out_,
  wf m = true /\ wf_resources m = true /\ gen m "" None (mkOptions false false false false MVRust) = Ok out_ /\
  C02_bgl_ok out_ = false /\ kf_ms_float m = true.
Proof. exists kf1_mod. eexists. repeat split; vm_compute; reflexivity. Qed.
Print Assumptions C02_refuted_ms_float.

(** Known finding 2: an integer texture paired with the (always Filtering) sampler. *)
Definition kf2_tex := mkTy None (TImage D2 false (ICSampled SkSint false)) 0 1 None.
Definition kf2_smp := mkTy None (TSampler false) 0 1 None.
Definition kf2_mod := mkModule [kf2_tex; kf2_smp] [] []
  [mkGlobal (Some "t") SpHandle (Some (0%N, 0%N)) 0; mkGlobal (Some "s") SpHandle (Some (0%N, 1%N)) 1] []
  [mkEntry "main" "MAIN" Fragment (1%N, 1%N, 1%N) false (mkFunc None [] None [EGlobal 0; EGlobal 1] [])] true.
Theorem C02_refuted_int_gather : exists m out_,
  wf m = true /\ wf_resources m = true /\ gen m "" None (mkOptions false false false false MVRust) = Ok out_ /\
  C02_stage_ok m out_ [[0; 1]] [[(0, 1)]] = false /\ kf_int_sampling m [[(0, 1)]] = true.
Proof. exists kf2_mod. eexists. repeat split; vm_compute; reflexivity. Qed.
Print Assumptions C02_refuted_int_gather.
