(** C10 - encase + glam structs serialise every field at its WGSL offset. *)
From W2W Require Import Wf Layout StructSpec C10Spec C10Proof C10Comp.

(** For every member type built from 32-bit scalars, vec2-4, atomics, SQUARE f32 matrices and fixed arrays of
    those: the Rust type the generator chooses under the glam representation is one to which encase assigns
    exactly the WGSL layout type (vector for vectors, matrix for matrices, array for arrays) - hence the same
    alignment, size, array stride and matrix column stride (the rules of [Layout.v] are the same function on
    both sides). The composition over nested structs ([C10_ok]) is evaluated on every real output and the
    byte image written by the real encase is compared with the WGSL offsets in the compiled batch. *)
Theorem C10_member_types : forall m e fuel t r l,
  rust_type fuel m t MVGlam = Ok r -> wgsl_lty fuel m t = Some l ->
  has_nonsquare l = false -> no_struct l = true ->
  encase_lty e r = Some l.
Proof. exact encase_rust_type. Qed.
Print Assumptions C10_member_types.

(** Composition over whole structs, nested to any depth: for every wf module the generator accepts under the glam
    representation, OUTSIDE the known-finding class (a non-square matrix somewhere in an emitted struct) and with
    no @builtin member in a host-shareable struct, every emitted struct deriving ShaderType has - with nested
    structs looked up by name among the emitted structs, as rustc resolves them - exactly the WGSL layout type as
    its encase layout type ([C10_ok]): same size, same offset of every field, same strides at every level. *)
Theorem C10_holds : forall m src inc o out_,
  wf m = true -> w_mv o = MVGlam -> kf_nonsquare_encase m = false -> host_no_builtins m = true ->
  gen m src inc o = Ok out_ -> C10_ok m out_ = true.
Proof. exact C10_ok_gen. Qed.
Print Assumptions C10_holds.

(** equal layout types have equal sizes, alignments and member offsets (the reading of [C10_ok]) *)
Theorem C10_equal_layout_numbers : forall n fs gs,
  lty_eqb (LStruct n fs) (LStruct n gs) = true ->
  l_size (LStruct n fs) = l_size (LStruct n gs) /\ l_align (LStruct n fs) = l_align (LStruct n gs)
  /\ l_offsets fs 0 = l_offsets gs 0.
Proof. intros n fs gs H. apply lty_eqb_eq in H. inversion H; subst. auto. Qed.
Print Assumptions C10_equal_layout_numbers.

(** non-vacuity: a module with a nested struct, an array of vec3 and a matrix meets every premise, is accepted,
    and its two structs derive ShaderType *)
Definition nv_f32 := mkTy None (TScalar (mkScalar SkFloat 4)) 4 4 None.
Definition nv_v3 := mkTy None (TVector Tri (mkScalar SkFloat 4)) 12 16 None.
Definition nv_m4 := mkTy None (TMatrix Quad Quad (mkScalar SkFloat 4)) 64 16 None.
Definition nv_arr := mkTy None (TArray 1 (ASConstant 3) 16) 48 16 None.
Definition nv_inner := mkTy (Some "Inner") (TStruct [mkMember (Some "a") 0 None 0; mkMember (Some "vs") 3 None 16] 64) 64 16 (Some "inner").
Definition nv_outer := mkTy (Some "Outer") (TStruct [mkMember (Some "x") 0 None 0; mkMember (Some "i") 4 None 16; mkMember (Some "mm") 2 None 80] 144) 144 16 (Some "outer").
Definition nv_mod := mkModule [nv_f32; nv_v3; nv_m4; nv_arr; nv_inner; nv_outer] [] []
  [mkGlobal (Some "u") (SpStorage (mkAccess true true false)) (Some (0%N, 0%N)) 5] [] [] true.
Definition nv_opts := mkOptions false false true false MVGlam.
Example C10_premises_satisfiable : exists out_,
  wf nv_mod = true /\ kf_nonsquare_encase nv_mod = false /\ host_no_builtins nv_mod = true /\
  gen nv_mod "" None nv_opts = Ok out_ /\
  map (fun s => has_derive s "encase::ShaderType") (o_structs out_) = [true; true] /\
  lenv_get (encase_env (o_structs out_) []) "Outer" =
    Some (LStruct "Outer" [LScalar; LStruct "Inner" [LScalar; LArr (LVec 3) 3]; LMat 4 4]).
Proof. eexists. repeat split; vm_compute; reflexivity. Qed.

(** Outside the theorem (known finding): a non-square matrix under glam falls back to nested arrays, which
    encase lays out as an array of arrays. *)
Definition kf_t := mkTy None (TMatrix Quad Tri (mkScalar SkFloat 4)) 64 16 None.
Theorem C10_refuted_nonsquare : exists m t r l,
  rust_type 2 m t MVGlam = Ok r /\ wgsl_lty 2 m t = Some l /\ encase_lty [] r <> Some l /\
  option_map l_size (encase_lty [] r) = Some 48%N /\ l_size l = 64%N.
Proof.
  exists (mkModule [kf_t] [] [] [] [] [] true), kf_t. eexists. eexists.
  split; [reflexivity|]. split; [reflexivity|]. split; [discriminate|]. split; reflexivity.
Qed.
Print Assumptions C10_refuted_nonsquare.
