(** C10 - encase + glam structs serialise every field at its WGSL offset (partial: see DESIGN.md). *)
From W2W Require Import Wf Layout C10Spec C10Proof.

(** For every member type built from 32-bit scalars, vec2-4, atomics, SQUARE f32 matrices and fixed arrays of
    those: the Rust type the generator chooses under the glam representation is one to which encase assigns
    exactly the WGSL layout type (vector for vectors, matrix for matrices, array for arrays) - hence the same
    alignment, size, array stride and matrix column stride (the rules of [Layout.v] are the same function on
    both sides). The composition over nested structs ([C10_ok]) is evaluated on every real output and the
    byte image written by the real encase is compared with the WGSL offsets in the compiled batch. *)
Theorem C10_member_types : forall m e fuel t r l,
  rust_type fuel m t MVGlam = Ok r -> wgsl_lty fuel m t = Some l ->
  has_nonsquare l = false -> no_struct l = true ->
  encase_lty e r = Some l.
Proof. exact encase_rust_type. Qed.
Print Assumptions C10_member_types.

(** Outside the theorem (known finding): a non-square matrix under glam falls back to nested arrays, which
    encase lays out as an array of arrays. *)
Definition kf_t := mkTy None (TMatrix Quad Tri (mkScalar SkFloat 4)) 64 16 None.
Theorem C10_refuted_nonsquare : exists m t r l,
  rust_type 2 m t MVGlam = Ok r /\ wgsl_lty 2 m t = Some l /\ encase_lty [] r <> Some l /\
  option_map l_size (encase_lty [] r) = Some 48%N /\ l_size l = 64%N.
Proof.
  exists (mkModule [kf_t] [] [] [] [] [] true), kf_t. eexists. eexists.
  split; [reflexivity|]. split; [reflexivity|]. split; [discriminate|]. split; reflexivity.
Qed.
Print Assumptions C10_refuted_nonsquare.
