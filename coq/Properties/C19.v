(** C19 - formatter choice and formatter failure never change the program. *)
From W2W Require Import Pipeline.

(** the complete decision table of [pretty_print_rustfmt] (after the repair): for EVERY outcome of spawning /
    feeding / waiting for the external formatter the function returns (there is no panicking outcome in the
    model: [use_formatted] is total), and it returns the formatter's output exactly when the process was
    spawned, accepted all input, exited with status 0 and printed non-blank valid UTF-8; in every other case
    it returns the unformatted token text. *)
Theorem C19_decision : forall f,
  use_formatted f = true <-> f = Ran WOk Exit0 true false.
Proof.
  intros f. split.
  - destruct f as [|w st u b]; cbn; [discriminate|]. destruct w, st, u, b; cbn; try discriminate; reflexivity.
  - intros ->. reflexivity.
Qed.
Print Assumptions C19_decision.

(** each of the listed faults falls back *)
Theorem C19_faults_fall_back :
  use_formatted SpawnErr = false /\
  (forall u b, use_formatted (Ran WOk ExitN u b) = false) /\          (* exits with failure after reading *)
  (forall st u b, use_formatted (Ran WErr st u b) = false) /\         (* exits before reading its input *)
  (forall w u b, use_formatted (Ran w Signal u b) = false) /\         (* killed *)
  (forall u, use_formatted (Ran WOk Exit0 u true) = false) /\         (* prints nothing *)
  (forall b, use_formatted (Ran WOk Exit0 false b) = false).          (* prints invalid UTF-8 *)
Proof. repeat split; intros; try reflexivity; try (destruct w; reflexivity); try (destruct u; reflexivity); destruct st; reflexivity. Qed.
Print Assumptions C19_faults_fall_back.
