(** C05 - bytemuck layout checks make a compiling struct match the WGSL layout. *)
From W2W Require Import Wf GenInv StructSpec StructProof C05Proof.
Local Open Scope N_scope.

(** 1. With bytemuck host-shareable derives, every emitted host-shareable struct carries a size assertion with
    the Layouter size of the struct and one offset assertion per (non-builtin) member, in order, with the
    member's WGSL offset; no other struct carries assertions (that part is C09). *)
Theorem C05_holds_bool : forall m src inc o out_,
  wf m = true -> gen m src inc o = Ok out_ -> C05_ok m o out_ = true.
Proof. exact C05_ok_gen. Qed.
Print Assumptions C05_holds_bool.

(** 2. Soundness of the emitted check, for an ARBITRARY Rust layout (no assumption about rustc): the
    assertions pass iff the Rust struct has exactly the asserted size and field offsets. Hence a compiling
    struct has the WGSL numbers of part 1, and a differing layout is rejected at compile time. *)
Theorem C05_check_sound : forall m o e s rl,
  struct_asserts_ok m o e s = true ->
  w_bm_host o && host_shareable_b m (fst (fst e)) = true ->
  forall t, get_ty m (fst (fst e)) = Some t ->
  (asserts_pass s rl <->
   rl_size rl = t_size t /\
   Forall (fun mem => forall n, m_name mem = Some n -> rl_offset rl n = m_offset mem)
          (filter (fun mem => existsb (fun a => match m_name mem with Some n => String.eqb (fst a) n | None => false end)
                                      (s_assert_offsets s)) (user_members (snd e))) /\
   length (s_assert_offsets s) = length (user_members (snd e))).
Proof. exact check_sound. Qed.
Print Assumptions C05_check_sound.

(** 3. Parts 1 and 2 composed - the property as stated: with the bytemuck host-shareable switch on, for every
    emitted host-shareable struct and ANY Rust layout under which its compile-time checks pass (i.e. whenever the
    module compiles), the Rust struct has the WGSL size of the struct and the WGSL offset of every (non-builtin)
    field. *)
Theorem C05_holds : forall m src inc o out_,
  wf m = true -> w_bm_host o = true -> gen m src inc o = Ok out_ ->
  forall e s rl t, In (e, s) (combine (emitted_structs m) (o_structs out_)) ->
    host_shareable_b m (fst (fst e)) = true -> get_ty m (fst (fst e)) = Some t ->
    asserts_pass s rl ->
    rl_size rl = t_size t /\
    Forall (fun mem => forall n, m_name mem = Some n -> rl_offset rl n = m_offset mem) (user_members (snd e)).
Proof. exact compiling_struct_matches. Qed.
Print Assumptions C05_holds.
