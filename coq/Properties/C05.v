(** C05 - bytemuck layout checks make a compiling struct match the WGSL layout. *)
From W2W Require Import Wf GenInv StructSpec StructProof.
Local Open Scope N_scope.

(** 1. With bytemuck host-shareable derives, every emitted host-shareable struct carries a size assertion with
    the Layouter size of the struct and one offset assertion per (non-builtin) member, in order, with the
    member's WGSL offset; no other struct carries assertions (that part is C09). *)
Theorem C05_holds_bool : forall m src inc o out_,
  wf m = true -> gen m src inc o = Ok out_ -> C05_ok m o out_ = true.
Proof.
  intros m src inc o out_ Hwf Hgen. destruct (gen_inv _ _ _ _ _ Hgen) as [bgd pc _ Hss _ _ _ _ _ _ _ _ _ _ _ _ _ _ _].
  exact (C05_ok_structs m o (o_structs out_) Hwf Hss).
Qed.
Print Assumptions C05_holds_bool.

(** 2. Soundness of the emitted check, for an ARBITRARY Rust layout (no assumption about rustc): the
    assertions pass iff the Rust struct has exactly the asserted size and field offsets. Hence a compiling
    struct has the WGSL numbers of part 1, and a differing layout is rejected at compile time. *)
Record rust_layout := { rl_size : N; rl_offset : string -> N }.

Definition asserts_pass (s : out_struct) (rl : rust_layout) : Prop :=
  (forall n, s_assert_size s = Some n -> rl_size rl = n) /\
  (forall f n, In (f, n) (s_assert_offsets s) -> rl_offset rl f = n).

Theorem C05_check_sound : forall m o e s rl,
  struct_asserts_ok m o e s = true ->
  w_bm_host o && host_shareable_b m (fst (fst e)) = true ->
  forall t, get_ty m (fst (fst e)) = Some t ->
  (asserts_pass s rl <->
   rl_size rl = t_size t /\
   Forall (fun mem => forall n, m_name mem = Some n -> rl_offset rl n = m_offset mem)
          (filter (fun mem => existsb (fun a => match m_name mem with Some n => String.eqb (fst a) n | None => false end)
                                      (s_assert_offsets s)) (user_members (snd e))) /\
   length (s_assert_offsets s) = length (user_members (snd e))).
Proof.
  intros m o [[h n] ms] s rl Hok Hhost t Ht. cbn [fst snd] in *.
  unfold struct_asserts_ok in Hok. rewrite Hhost, Ht in Hok.
  apply andb_true_iff in Hok as [Hsz Hoffs].
  assert (Hsize : s_assert_size s = Some (t_size t)).
  { destruct (s_assert_size s) as [x|]; cbn in Hsz; [|discriminate]. apply N.eqb_eq in Hsz. congruence. }
  assert (Hrel : Forall2 (fun mem a => m_name mem = Some (fst a) /\ snd a = m_offset mem) (user_members ms) (s_assert_offsets s)).
  { clear -Hoffs. revert Hoffs. generalize (s_assert_offsets s) as offs. induction (user_members ms) as [|mem l IH]; intros [|a offs] H; cbn in H; try discriminate; [constructor|].
    apply andb_true_iff in H as [Ha Hr]. destruct (m_name mem) as [nm|] eqn:E; [|discriminate].
    apply andb_true_iff in Ha as [Hn Ho]. apply String.eqb_eq in Hn. apply N.eqb_eq in Ho. constructor; [split; congruence|apply IH; exact Hr]. }
  unfold asserts_pass. rewrite Hsize. split.
  - intros [Hs Ho]. split; [apply Hs; reflexivity|]. split.
    + apply Forall_forall. intros mem Hmem nm Hnm. apply filter_In in Hmem as [Hmem _].
      clear -Hrel Ho Hmem Hnm. induction Hrel as [|x a l l' [Hx Hoff] _ IH]; [contradiction|].
      destruct Hmem as [<-|Hmem].
      * rewrite Hnm in Hx. inversion Hx; subst nm. rewrite <- Hoff. apply Ho. left. destruct a; reflexivity.
      * apply IH; [|exact Hmem]. intros f k Hin. apply Ho. right. exact Hin.
    + symmetry. clear -Hrel. induction Hrel; cbn; congruence.
  - intros (Hs & Hall & _). split; [intros k Hk; inversion Hk; subst; exact Hs|].
    intros f k Hin. rewrite Forall_forall in Hall.
    clear Hsz Hoffs Hsize. induction Hrel as [|x a l l' [Hx Hoff] Hrel IH]; [contradiction|].
    destruct Hin as [->|Hin].
    + cbn in Hx, Hoff. subst k. apply (Hall x); [|exact Hx].
      apply filter_In. split; [left; reflexivity|]. cbn. rewrite Hx. cbn. rewrite String.eqb_refl. reflexivity.
    + apply IH; [|exact Hin]. intros mem Hmem nm Hnm. apply (Hall mem); [|exact Hnm].
      apply filter_In in Hmem as [Hmem Hex]. apply filter_In. split; [right; exact Hmem|].
      cbn. rewrite Hex. apply orb_true_r.
Qed.
Print Assumptions C05_check_sound.
