(** C07 - vertex buffer layouts mirror the vertex input structs. *)
From W2W Require Import Wf RustLayout C07Spec C07Proof.

(** Structure, for every module the generator accepts: one attribute table per distinct struct taken by a vertex
    entry (sorted by name, first occurrence), with exactly one attribute per @location member in order - its
    location, its field name for offset_of!, a vertex format with the component type and count of the WGSL type -
    stride and attribute list referring to the same struct; every vertex entry helper lists one buffer per struct
    parameter in parameter order, each with its own step-mode parameter. *)
Theorem C07_holds_structure : forall m src inc o out_,
  gen m src inc o = Ok out_ -> C07_struct_ok m out_ = true.
Proof. exact C07_struct_gen. Qed.
Print Assumptions C07_holds_structure.

(** Format table, exhaustively. *)
Theorem C07_format_table : forall i fmt, vertex_format i = Ok fmt ->
  exists x, format_info fmt = Some x /\ wgsl_components i = Some x.
Proof. exact vertex_format_components. Qed.
Print Assumptions C07_format_table.

(** wgpu's vertex buffer rules follow from repr(C) for any struct whose fields have sizes and alignments that
    are multiples of 4: stride multiple of 4, every attribute inside the stride at an offset that is a multiple
    of 4 (>= min(4, size)), attribute ranges in increasing, non-overlapping order. *)
Theorem C07_layout_rules : forall fields, Forall leaf4 fields ->
  let '(offs, size, al) := repr_c fields in
  (fields <> [] -> size mod 4 = 0)%N /\
  (forall i s a off, nth_error fields i = Some (s, a) -> nth_error offs i = Some off ->
     (off + s <= size)%N /\ (off mod 4 = 0)%N) /\
  (forall i j s a off off', (i < j)%nat -> nth_error fields i = Some (s, a) -> nth_error offs i = Some off ->
     nth_error offs j = Some off' -> (off + s <= off')%N).
Proof. exact layout_rules. Qed.
Print Assumptions C07_layout_rules.

(** ... and every 32/64-bit scalar or vector member has such a field type under Rust / Glam / Nalgebra. *)
Theorem C07_leaf_layouts : forall m mv fuel t r e,
  rust_type fuel m t mv = Ok r ->
  (match t_inner t with
   | TScalar s | TVector _ s => (sw s =? 4)%N || (sw s =? 8)%N
   | _ => false
   end) = true ->
  match sk (match t_inner t with TScalar s | TVector _ s => s | _ => mkScalar SkBool 1 end) with SkBool => False | _ => True end ->
  exists l, ty_layout e r = Some l /\ leaf4 l.
Proof. exact vertex_leaf_layout. Qed.
Print Assumptions C07_leaf_layouts.
