(** C07 - vertex buffer layouts mirror the vertex input structs. *)
From W2W Require Import Wf RustLayout C07Spec C07Premise C07Proof C07Comp.

(** Structure, for every module the generator accepts: one attribute table per distinct struct taken by a vertex
    entry (sorted by name, first occurrence), with exactly one attribute per @location member in order - its
    location, its field name for offset_of!, a vertex format with the component type and count of the WGSL type -
    stride and attribute list referring to the same struct; every vertex entry helper lists one buffer per struct
    parameter in parameter order, each with its own step-mode parameter. *)
Theorem C07_holds_structure : forall m src inc o out_,
  gen m src inc o = Ok out_ -> C07_struct_ok m out_ = true.
Proof. exact C07_struct_gen. Qed.
Print Assumptions C07_holds_structure.

(** Format table, exhaustively. *)
Theorem C07_format_table : forall i fmt, vertex_format i = Ok fmt ->
  exists x, format_info fmt = Some x /\ wgsl_components i = Some x.
Proof. exact vertex_format_components. Qed.
Print Assumptions C07_format_table.

(** wgpu's vertex buffer rules follow from repr(C) for any struct whose fields have sizes and alignments that
    are multiples of 4: stride multiple of 4, every attribute inside the stride at an offset that is a multiple
    of 4 (>= min(4, size)), attribute ranges in increasing, non-overlapping order. *)
Theorem C07_layout_rules : forall fields, Forall leaf4 fields ->
  let '(offs, size, al) := repr_c fields in
  (fields <> [] -> size mod 4 = 0)%N /\
  (forall i s a off, nth_error fields i = Some (s, a) -> nth_error offs i = Some off ->
     (off + s <= size)%N /\ (off mod 4 = 0)%N) /\
  (forall i j s a off off', (i < j)%nat -> nth_error fields i = Some (s, a) -> nth_error offs i = Some off ->
     nth_error offs j = Some off' -> (off + s <= off')%N).
Proof. exact layout_rules. Qed.
Print Assumptions C07_layout_rules.

(** ... and every 32/64-bit scalar or vector member has such a field type under Rust / Glam / Nalgebra. *)
Theorem C07_leaf_layouts : forall m mv fuel t r e,
  rust_type fuel m t mv = Ok r ->
  (match t_inner t with
   | TScalar s | TVector _ s => (sw s =? 4)%N || (sw s =? 8)%N
   | _ => false
   end) = true ->
  match sk (match t_inner t with TScalar s | TVector _ s => s | _ => mkScalar SkBool 1 end) with SkBool => False | _ => True end ->
  exists l, ty_layout e r = Some l /\ leaf4 l.
Proof. exact vertex_leaf_layout. Qed.
Print Assumptions C07_leaf_layouts.

(** The full statement: structure AND wgpu's vertex-buffer rules on the repr(C) layout of the emitted struct, for every
    wf module the generator accepts whose vertex input structs are emitted and have 32/64-bit numeric scalar / vector
    members with distinct names ([wf_vertex_inputs], a WGSL rule evaluated on every case; it excludes exactly the
    known-finding class "struct of a vertex parameter that is also an entry point result"). The attribute offsets are
    the offsets of the Rust fields (offset_of!), the stride is the Rust struct's size: every attribute lies inside the
    stride at an offset aligned to min(4, size), attribute ranges are disjoint, the stride is a multiple of 4. *)
Theorem C07_holds : forall m src inc o out_,
  wf m = true -> wf_vertex_inputs m = true -> gen m src inc o = Ok out_ -> C07_ok m out_ = true.
Proof. exact C07_ok_gen. Qed.
Print Assumptions C07_holds.

(** non-vacuity: a module with two vertex structs (one with an interleaved builtin, unordered locations) meets the
    premises and is accepted *)
Definition nv7_f32 := mkTy None (TScalar (mkScalar SkFloat 4)) 4 4 None.
Definition nv7_u32 := mkTy None (TScalar (mkScalar SkUint 4)) 4 4 None.
Definition nv7_v3 := mkTy None (TVector Tri (mkScalar SkFloat 4)) 12 16 None.
Definition nv7_v4 := mkTy None (TVector Quad (mkScalar SkFloat 4)) 16 16 None.
Definition nv7_a := mkTy (Some "VertexIn") (TStruct [mkMember (Some "pos") 2 (Some (BLocation 3 false)) 0;
                                                     mkMember (Some "vi") 1 (Some (BBuiltIn "vertex_index")) 12;
                                                     mkMember (Some "w") 0 (Some (BLocation 0 false)) 16] 32) 32 16 (Some "vertex_in").
Definition nv7_b := mkTy (Some "Inst") (TStruct [mkMember (Some "color") 3 (Some (BLocation 5 false)) 0] 16) 16 16 (Some "inst").
Definition nv7_fn := mkFunc (Some "vs_main") [mkArg (Some "a") 4 None; mkArg (Some "ii") 1 (Some (BBuiltIn "instance_index")); mkArg (Some "b") 5 None]
                            (Some (3%nat, Some (BBuiltIn "position"))) [] [].
Definition nv7_mod := mkModule [nv7_f32; nv7_u32; nv7_v3; nv7_v4; nv7_a; nv7_b] [] [] [] []
  [mkEntry "vs_main" "VS_MAIN" Vertex (1, 1, 1)%N false nv7_fn] true.
Example C07_premises_satisfiable : exists out_,
  wf nv7_mod = true /\ wf_vertex_inputs nv7_mod = true /\
  gen nv7_mod "" None (mkOptions true false false false MVGlam) = Ok out_ /\
  map (fun v => (vs_name v, map (fun a => (va_location a, va_format a, va_field a)) (vs_attrs v))) (o_vstructs out_) =
    [("Inst", [(5%N, "Float32x4", "color")]); ("VertexIn", [(3%N, "Float32x3", "pos"); (0%N, "Float32", "w")])] /\
  C07_layout_ok out_ = true.
Proof. eexists. repeat split; vm_compute; reflexivity. Qed.
