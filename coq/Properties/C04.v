(** C04 - named bind group fields reach their own slot; groups bind at own index (structure). *)
From W2W Require Import Wf C04Spec C04Proof Obs C04Obs.

(** For every wf module the generator accepts: each group N has exactly one field per variable of the
    group, in declaration order, named after it and typed by kind, names pairwise distinct;
    from_bindings supplies exactly one entry per variable, passing field x at the @binding of variable x,
    with exactly the binding indices of the layout entries and using layout N; set() binds at index N;
    BindGroups / set_bind_groups / the pipeline layout list groups 0..n-1 in order. *)
Theorem C04_holds_bool : forall m src inc o out_,
  wf m = true -> gen m src inc o = Ok out_ -> C04_ok m out_ = true.
Proof. exact C04_ok_gen. Qed.
Print Assumptions C04_holds_bool.

Definition ex_ty := mkTy None (TScalar (mkScalar SkFloat 4)) 4 4 None.
Definition ex_smp := mkTy None (TSampler false) 0 1 None.
Definition ex_mod := mkModule [ex_ty; ex_smp] [] []
  [mkGlobal (Some "b") SpUniform (Some (1%N, 9%N)) 0; mkGlobal (Some "s") SpHandle (Some (0%N, 4%N)) 1;
   mkGlobal (Some "a") SpUniform (Some (1%N, 2%N)) 0] [] [] true.
Example C04_nonvacuous :
  wf ex_mod = true /\
  exists out_, gen ex_mod "" None (mkOptions false false false false MVRust) = Ok out_ /\
    map (fun og => map (fun e => (be_binding e, be_field e)) (og_bind_entries og)) (C03Spec.groups_of out_)
    = [[(4%N, "s")]; [(9%N, "b"); (2%N, "a")]].
Proof. split; [reflexivity|]. eexists. split; vm_compute; reflexivity. Qed.

(** The property as stated, over what the generated code DOES ([Spec/Obs.v]: the descriptors handed to the device and the
    [set_bind_group] calls, with index-named items resolved the way rustc resolves them). For every wf module the
    generator accepts and that has resource variables, with groups [0 .. n-1]:
    - the groups of the output are exactly 0 .. n-1, in order;
    - for group N: [BindGroupLayoutN] has one field per variable of the group, in declaration order, named after it and
      typed by its resource kind, names pairwise distinct; [from_bindings] hands the device one entry per variable,
      passing the value of FIELD x at the @binding index of VARIABLE x, the indices supplied are exactly those of the
      layout it creates, and that layout is group N's own; [set] makes one call [set_bind_group(N, group N's bind
      group, [])];
    - [BindGroups::set] and [set_bind_groups] make exactly the calls (0, group 0), .., (n-1, group n-1), in that order;
    - the pipeline layout lists, in slot k, the layout of group k (the one with group k's binding indices). *)
Theorem C04_holds : forall m src inc o out_ bg,
  wf m = true -> gen m src inc o = Ok out_ -> o_bind_groups out_ = Some bg ->
  let idx := N_range 0 (length (bg_groups bg)) in
  map og_no (bg_groups bg) = idx /\
  (forall og, In og (bg_groups bg) ->
     obs_from_bindings bg og = Some (map (fun x => fst (fst x)) (named_vars m (og_no og)), named_vars m (og_no og)) /\
     length (named_vars m (og_no og)) = length (group_vars m (og_no og)) /\
     map (fun v => (fst (fst v), snd (fst v))) (group_vars m (og_no og))
       = map (fun f : string * res_kind => (Some (fst f), Some (snd f))) (og_layout_fields og) /\
     str_nodup (map fst (og_layout_fields og)) = true /\
     obs_set og = (og_no og, og_no og)) /\
  obs_bindgroups_set bg = Some (map (fun k => (k, k)) idx) /\
  obs_set_bind_groups bg = Some (map (fun k => (k, k)) idx) /\
  obs_pipeline_layout out_ = Some (map (fun k => (k, map (fun x => fst (fst x)) (named_vars m k))) idx).
Proof.
  intros m src inc o out_ bg Hwf Hgen Hbg idx.
  pose proof (C04_ok_gen m src inc o out_ Hwf Hgen) as Hok.
  split; [destruct (parts m out_ bg Hok Hbg) as (_ & H & _); exact H|].
  split; [intros og Hin; destruct (from_bindings_obs m out_ bg Hok Hbg og Hin) as (H1 & H2 & H3 & H4);
          repeat split; try assumption; apply (set_obs m out_ bg Hok Hbg og Hin)|].
  split; [apply (bindgroups_set_obs m out_ bg Hok Hbg)|].
  split; [apply (set_bind_groups_obs m out_ bg Hok Hbg)|apply (pipeline_layout_obs m out_ bg Hok Hbg)].
Qed.
Print Assumptions C04_holds.

(** modules without resource variables get no bind_groups module and an empty pipeline layout *)
Theorem C04_holds_none : forall m src inc o out_,
  wf m = true -> gen m src inc o = Ok out_ -> o_bind_groups out_ = None ->
  has_bound m = false /\ obs_pipeline_layout out_ = Some [].
Proof.
  intros m src inc o out_ Hwf Hgen Hbg. pose proof (C04_ok_gen m src inc o out_ Hwf Hgen) as Hok.
  unfold C04_ok in Hok. rewrite Hbg in Hok. apply andb_true_iff in Hok as [Hb Hpl].
  split; [destruct (has_bound m); [discriminate|reflexivity]|].
  unfold obs_pipeline_layout. rewrite Hbg. destruct (o_pl_groups out_); [reflexivity|discriminate].
Qed.
Print Assumptions C04_holds_none.

Example C04_obs_nonvacuous :
  exists out_ bg, gen ex_mod "" None (mkOptions false false false false MVRust) = Ok out_ /\ o_bind_groups out_ = Some bg /\
    map (obs_from_bindings bg) (bg_groups bg)
      = [Some ([4%N], [(4%N, "s", RKSampler)]); Some ([9%N; 2%N], [(9%N, "b", RKBuffer); (2%N, "a", RKBuffer)])] /\
    obs_set_bind_groups bg = Some [(0%N, 0%N); (1%N, 1%N)] /\
    obs_pipeline_layout out_ = Some [(0%N, [4%N]); (1%N, [9%N; 2%N])].
Proof. eexists. eexists. repeat split; vm_compute; reflexivity. Qed.
