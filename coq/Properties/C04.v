(** C04 - named bind group fields reach their own slot; groups bind at own index (structure). *)
From W2W Require Import Wf C04Spec C04Proof.

(** For every wf module the generator accepts: each group N has exactly one field per variable of the
    group, in declaration order, named after it and typed by kind, names pairwise distinct;
    from_bindings supplies exactly one entry per variable, passing field x at the @binding of variable x,
    with exactly the binding indices of the layout entries and using layout N; set() binds at index N;
    BindGroups / set_bind_groups / the pipeline layout list groups 0..n-1 in order. *)
Theorem C04_holds_bool : forall m src inc o out_,
  wf m = true -> gen m src inc o = Ok out_ -> C04_ok m out_ = true.
Proof. exact C04_ok_gen. Qed.
Print Assumptions C04_holds_bool.

Definition ex_ty := mkTy None (TScalar (mkScalar SkFloat 4)) 4 4 None.
Definition ex_smp := mkTy None (TSampler false) 0 1 None.
Definition ex_mod := mkModule [ex_ty; ex_smp] [] []
  [mkGlobal (Some "b") SpUniform (Some (1%N, 9%N)) 0; mkGlobal (Some "s") SpHandle (Some (0%N, 4%N)) 1;
   mkGlobal (Some "a") SpUniform (Some (1%N, 2%N)) 0] [] [] true.
Example C04_nonvacuous :
  wf ex_mod = true /\
  exists out_, gen ex_mod "" None (mkOptions false false false false MVRust) = Ok out_ /\
    map (fun og => map (fun e => (be_binding e, be_field e)) (og_bind_entries og)) (C03Spec.groups_of out_)
    = [[(4%N, "s")]; [(9%N, "b"); (2%N, "a")]].
Proof. split; [reflexivity|]. eexists. split; vm_compute; reflexivity. Qed.
