(** C11 - group numbering contract: dense groups, unique slots, or a typed error. *)
From W2W Require Import Wf C11Proof C11Spec C11Link.

(** Boolean form: the executable checker holds of whatever the generator returns. *)
Theorem C11_holds_bool : forall m src inc o,
  wf_global_types m = true -> C11_ok m false (gen m src inc o) = true.
Proof. exact C11_ok_gen. Qed.
Print Assumptions C11_holds_bool.

(** Success exactly when pairs are unique and the groups are 0..n-1. *)
Theorem C11_success_iff : forall m, wf_global_types m = true ->
  (exists gs, get_bind_group_data m = Ok gs) <-> NoDup (map pair_of (bvars m)) /\ dense (bvars m).
Proof. exact gbd_ok_iff. Qed.
Print Assumptions C11_success_iff.

(** On success: keys 0..n-1 ascending, and group g holds exactly the variables bound to g,
    in declaration order, each with its own index. *)
Theorem C11_success_content : forall m, wf_global_types m = true -> forall gs,
  get_bind_group_data m = Ok gs ->
  map fst gs = N_seq 0 (length gs) /\
  Sorted.StronglySorted N.lt (map fst gs) /\
  (forall g, find g gs = match bindings_of g (bvars m) with [] => None | l => Some l end).
Proof. exact gbd_ok_content. Qed.
Print Assumptions C11_success_content.

(** Duplicate error: exactly for the first variable repeating an earlier pair, with its index. *)
Theorem C11_duplicate_iff : forall m, wf_global_types m = true -> forall b,
  get_bind_group_data m = Err (DuplicateBinding b) <->
  exists vs1 x vs2, bvars m = vs1 ++ x :: vs2 /\ b = gb_index (bv_gb x) /\
    In (pair_of x) (map pair_of vs1) /\ NoDup (map pair_of vs1).
Proof. exact gbd_duplicate_iff. Qed.
Print Assumptions C11_duplicate_iff.

Theorem C11_nonconsecutive_iff : forall m, wf_global_types m = true ->
  get_bind_group_data m = Err NonConsecutiveBindGroups <->
  NoDup (map pair_of (bvars m)) /\ ~ dense (bvars m).
Proof. exact gbd_nonconsecutive_iff. Qed.
Print Assumptions C11_nonconsecutive_iff.

(** The only typed errors the generator can return are those of this stage. *)
Theorem C11_errors_only_from_this_stage : forall m src inc o e,
  gen m src inc o = Err e -> get_bind_group_data m = Err e.
Proof. exact NoErr.gen_err_only_from_bind_group_data. Qed.
Print Assumptions C11_errors_only_from_this_stage.

(** Non-vacuity: a module with two groups, out-of-order declarations, sparse bindings. *)
Definition ex_ty := mkTy None (TScalar (mkScalar SkFloat 4)) 4 4 None.
Definition ex_glob (g b : N) := mkGlobal (Some "v") SpUniform (Some (g, b)) 0.
Definition ex_mod := mkModule [ex_ty] [] [] [ex_glob 1 7; ex_glob 0 3; ex_glob 1 0] [] [] true.
Example C11_nonvacuous :
  wf_global_types ex_mod = true /\
  (exists gs, get_bind_group_data ex_mod = Ok gs /\ map fst gs = [0%N; 1%N]).
Proof. split; [reflexivity|]. eexists. split; [vm_compute; reflexivity|reflexivity]. Qed.
