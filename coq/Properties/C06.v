(** C06 - struct fields keep WGSL order, names and element types. *)
From W2W Require Import Wf StructSpec C06Spec C06Proof C06Named C06Repr C06ReprProof.

(** For every wf module the generator accepts and every option set: each emitted struct lists the
    non-builtin members in order under the same names; a trailing runtime-sized array becomes a
    [Vec] marked runtime-sized; and - OUTSIDE the known-finding class [kf_nonsquare] - each field type
    denotes exactly the scalar kind, width and element counts of the WGSL member type (vectors, matrices
    column by column, fixed arrays with their length, atomics as their scalar, nested structs by name),
    under plain arrays, glam (with array fall-back) and nalgebra. *)
Theorem C06_holds_fields : forall m src inc o out_,
  wf m = true -> kf_nonsquare m o = false -> gen m src inc o = Ok out_ -> C06_fields_ok false m o out_ = true.
Proof. intros m src inc o out_ Hwf Hkf Hgen. apply (C06_fields_gen m src inc o out_ Hwf Hgen). exact Hkf. Qed.
Print Assumptions C06_holds_fields.

(** Inside the class the only deviation is the transposition of the two dimensions of the matrix. *)
Theorem C06_holds_fields_kf : forall m src inc o out_,
  wf m = true -> gen m src inc o = Ok out_ -> C06_fields_ok true m o out_ = true.
Proof. intros m src inc o out_ Hwf Hgen. apply (C06_fields_gen m src inc o out_ Hwf Hgen). Qed.
Print Assumptions C06_holds_fields_kf.

(** Nested structs refer to an emitted struct of the same name. Premise [wf_io_structs] (a WGSL rule, evaluated
    on every case): a struct emitted only because it is an entry-point parameter has no struct-typed member. *)
Theorem C06_holds_named : forall m src inc o out_,
  wf m = true -> wf_io_structs m = true -> gen m src inc o = Ok out_ -> C06_named_ok out_ = true.
Proof. exact C06_named_gen. Qed.
Print Assumptions C06_holds_named.

(** The full statement, outside the known-finding class. *)
Theorem C06_holds : forall m src inc o out_,
  wf m = true -> wf_io_structs m = true -> kf_nonsquare m o = false -> gen m src inc o = Ok out_ ->
  C06_ok m o out_ = true.
Proof.
  intros m src inc o out_ Hwf Hio Hkf Hgen. unfold C06_ok.
  rewrite (C06_holds_fields m src inc o out_ Hwf Hkf Hgen), (C06_named_gen m src inc o out_ Hwf Hio Hgen). reflexivity.
Qed.
Print Assumptions C06_holds.

(** The full statement is FALSE of the (faithful) model: known finding, witness mat2x4<f32> under plain
    arrays is emitted as [[f32; 2]; 4] (element counts transposed w.r.t. the WGSL column order). *)
Definition kf_v4 := mkTy None (TVector Quad (mkScalar SkFloat 4)) 16 16 None.
Definition kf_mat := mkTy None (TMatrix Bi Quad (mkScalar SkFloat 4)) 32 16 None.
Definition kf_s := mkTy (Some "S") (TStruct [mkMember (Some "m") 1 None 0] 32) 32 16 (Some "s").
Definition kf_mod := mkModule [kf_v4; kf_mat; kf_s] [] [] [mkGlobal (Some "u") SpUniform (Some (0%N, 0%N)) 2] [] [] true.
Definition kf_opts := mkOptions false false false false MVRust.
Theorem C06_refuted : exists m o out_,
  wf m = true /\ gen m "" None o = Ok out_ /\ C06_ok m o out_ = false /\ kf_nonsquare m o = true
  /\ map (fun s => map fd_ty (s_fields s)) (o_structs out_) = [[RArr (RArr (RPrim PF32) 2) 4]].
Proof. exists kf_mod, kf_opts. eexists. split; [reflexivity|]. split; [vm_compute; reflexivity|]. split; [|split]; vm_compute; reflexivity. Qed.
Print Assumptions C06_refuted.

(** Leaf table, exhaustively: every vector / matrix type the generator maps has the right shape unless it
    is a non-square matrix under Rust / Glam. *)
Theorem C06_leaf_table : forall m mv fuel t r,
  rust_type fuel m t mv = Ok r ->
  exists s, wgsl_shape fuel m t = Some s /\
    (if is_nonsquare_matrix m fuel t && not_nalgebra mv then denote r = transpose_mats s else denote r = s).
Proof. exact rust_type_shape. Qed.
Print Assumptions C06_leaf_table.

(** "Under the selected representation": every field is written in the family of types the options select - plain arrays
    only; glam types exactly where glam has a type of the member's shape (falling back to plain arrays elsewhere); nalgebra
    SVector / SMatrix for every vector / matrix - through arrays and runtime-sized arrays, whatever the derive switches
    and whatever the struct is used for. With the shape theorem above this fixes each field's type. *)
Theorem C06_holds_repr : forall m src inc o out_,
  wf m = true -> gen m src inc o = Ok out_ -> C06_repr_ok m o out_ = true.
Proof. exact C06_repr_gen. Qed.
Print Assumptions C06_holds_repr.

(** the predicate discriminates: under glam a vec4<f32> member written as [f32; 4] (same shape) is rejected, a mat2x3<f32>
    member (no glam equivalent) must be plain arrays *)
Example C06_repr_discriminates :
  leaf_repr_ok MVGlam (SArr 4 (SScalar PF32)) (RArr (RPrim PF32) 4) = false /\
  leaf_repr_ok MVGlam (SArr 4 (SScalar PF32)) (RGlam GVec4) = true /\
  leaf_repr_ok MVGlam (SArr 2 (SArr 3 (SScalar PF32))) (RArr (RArr (RPrim PF32) 2) 3) = true /\
  leaf_repr_ok MVRust (SArr 4 (SScalar PF32)) (RGlam GVec4) = false /\
  leaf_repr_ok MVNalgebra (SArr 4 (SScalar PF32)) (RArr (RPrim PF32) 4) = false.
Proof. repeat split; vm_compute; reflexivity. Qed.
