(** C03 - binding visibility equals exactly the stages that statically use the variable. *)
From stdpp Require Import gmap.
From W2W Require Import Wf Traversal C03Spec C03Link.

(** The traversal marks exactly the statically accessed globals - for every call graph (any depth,
    fan-out, sharing), every placement of calls in nested control flow, and value-returning calls. *)
Theorem C03_traversal : forall m e g, wf_calls m = true -> In e (entries m) ->
  g ∈ entry_marks m e <-> static_access m e g.
Proof. exact entry_marks_static_access. Qed.
Print Assumptions C03_traversal.

(** Boolean form: the executable checker holds of every output of the generator. *)
Theorem C03_holds_bool : forall m src inc o out_,
  wf m = true -> gen m src inc o = Ok out_ -> C03_ok m out_ = true.
Proof. exact C03_ok_gen. Qed.
Print Assumptions C03_holds_bool.

(** Relational form: every emitted layout entry belongs to a variable bound at its (group, binding),
    and its visibility contains stage s iff some entry point of stage s statically accesses that
    variable; the same for the push constant stages when some entry point uses the push constant. *)
Theorem C03_holds : forall m src inc o out_,
  wf m = true -> gen m src inc o = Ok out_ ->
  (forall og e, In og (groups_of out_) -> In e (og_entries og) ->
     exists h gl, nth_error (globals m) h = Some gl /\
       g_binding gl = Some (og_no og, oe_binding e) /\
       forall s, st_has (oe_vis e) s = true <-> uses_stage m h s) /\
  (forall h gl, nth_error (globals m) h = Some gl -> g_space gl = SpPushConstant ->
     (forall h' gl', h' < h -> nth_error (globals m) h' = Some gl' -> g_space gl' <> SpPushConstant) ->
     (exists s, uses_stage m h s) ->
     exists v, o_pc_stages out_ = Some v /\ forall s, st_has v s = true <-> uses_stage m h s).
Proof.
  intros m src inc o out_ Hwf Hgen. apply C03_ok_sound; [|eapply C03_ok_gen; eauto].
  apply wf_proj in Hwf as (_ & Hc & _). exact Hc.
Qed.
Print Assumptions C03_holds.

(** The executable closure used by the checker is the relation of the specification. *)
Theorem C03_static_access_b_spec : forall m e g, wf_calls m = true -> In e (entries m) ->
  static_access_b m e g = true <-> static_access m e g.
Proof. exact static_access_b_spec. Qed.
Print Assumptions C03_static_access_b_spec.

(** Non-vacuity: a fragment entry calling helper 1 (in a loop's continuing block), which calls
    helper 0 through a value-returning call; helper 0 reads global 0. *)
Definition ex_f0 := mkFunc (Some "h0") [] None [EGlobal 0] [].
Definition ex_f1 := mkFunc (Some "h1") [] None [ECallResult 0] [].
Definition ex_main := mkFunc (Some "main") [] None [] [SLoop [] [SIf [] [SCall 1]]].
Definition ex_ty := mkTy None (TScalar (mkScalar SkFloat 4)) 4 4 None.
Definition ex_mod := mkModule [ex_ty] [] []
  [mkGlobal (Some "u") SpUniform (Some (0%N, 5%N)) 0] [ex_f0; ex_f1]
  [mkEntry "main" "MAIN" Fragment (1%N, 1%N, 1%N) false ex_main] true.
Example C03_nonvacuous :
  wf ex_mod = true /\
  exists out_, gen ex_mod "" None (mkOptions false false false false MVRust) = Ok out_ /\
    map (fun e => oe_vis e) (flat_map og_entries (groups_of out_)) = [st_of Fragment].
Proof. split; [reflexivity|]. eexists. split; vm_compute; reflexivity. Qed.
