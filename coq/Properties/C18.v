(** C18 - output is a pure function of source and options. *)
From stdpp Require Import gmap.
From W2W Require Import Wf.

(** The model is a Gallina function, so equal arguments give equal results; what this theorem adds is that the
    only unordered collection of the code (the HashSet of host-shareable types, structs.rs) reaches the output
    through membership alone: any two sets with the same elements give the same structs, whatever their
    internal order or hash seed. All other iteration in the model is over arenas (lists) and the key-sorted
    association list that stands for the BTreeMap. *)
Theorem C18_set_by_membership_only : forall m o (s1 s2 : gset nat) h ts,
  (forall x, x ∈ s1 <-> x ∈ s2) -> structs_from m o s1 h ts = structs_from m o s2 h ts.
Proof. intros m o s1 s2 h ts H. assert (s1 = s2) as -> by (apply set_eq; exact H). reflexivity. Qed.
Print Assumptions C18_set_by_membership_only.

(** the per-entry visited set of [update_stages] likewise: the stage map depends on the marks as a set *)
Theorem C18_marks_by_membership_only : forall m (a b : gset nat) st M,
  (forall x, x ∈ a <-> x ∈ b) ->
  fold_left (apply_mark m st) (elements a) M = fold_left (apply_mark m st) (elements b) M.
Proof. intros m a b st M H. assert (a = b) as -> by (apply set_eq; exact H). reflexivity. Qed.
Print Assumptions C18_marks_by_membership_only.
