(** C08 - exactly the host-visible structs are emitted, once each. *)
From stdpp Require Import gmap.
From W2W Require Import Wf GenInv StructSpec StructProof.

(** For every wf module the generator accepts: the emitted structs are, in arena order, exactly the struct
    types that are reachable from the type of a module-scope variable (through members, arrays, pointers)
    or are taken as an entry point parameter without being an entry point result; names pairwise distinct. *)
Theorem C08_holds_bool : forall m src inc o out_,
  wf m = true -> gen m src inc o = Ok out_ -> C08_ok m out_ = true.
Proof.
  intros m src inc o out_ Hwf Hgen. destruct (gen_inv _ _ _ _ _ Hgen) as [bgd pc _ Hss _ _ _ _ _ _ _ _ _ _ _ _ _ _ _].
  unfold C08_ok. destruct (C08_ok_structs m o (o_structs out_) Hwf Hss) as [H1 H2]. rewrite H1, H2. reflexivity.
Qed.
Print Assumptions C08_holds_bool.

(** the boolean reachability of the checker is the inductive relation of the specification, and it is
    the set the memoised traversal computes *)
Theorem C08_host_shareable_spec : forall m h, wf_types m = true -> wf_global_types m = true ->
  host_shareable_b m h = true <-> host_shareable m h.
Proof.
  intros m h Ht Hg. rewrite (host_shareable_b_spec m h Ht Hg).
  destruct (TypeDfs.global_types_spec m (C20Proof.wf_types_wfT m Ht) (fun g => C20Proof.wf_global_types_lt m g Hg)) as [H _].
  rewrite H. unfold host_shareable. split; intros (g & Hin & Hr); exists g; (split; [exact Hin|]); apply reach_ty_treach; exact Hr.
Qed.
Print Assumptions C08_host_shareable_spec.

Definition ex_f := mkTy None (TScalar (mkScalar SkFloat 4)) 4 4 None.
Definition ex_inner := mkTy (Some "Inner") (TStruct [mkMember (Some "x") 0 None 0] 4) 4 4 (Some "inner").
Definition ex_outer := mkTy (Some "Outer") (TStruct [mkMember (Some "i") 1 None 0] 4) 4 4 (Some "outer").
Definition ex_arr := mkTy None (TArray 2 (ASConstant 2) 4) 8 4 None.
Definition ex_unused := mkTy (Some "Unused") (TStruct [mkMember (Some "x") 0 None 0] 4) 4 4 (Some "unused").
Definition ex_mod := mkModule [ex_f; ex_inner; ex_outer; ex_arr; ex_unused] [] []
  [mkGlobal (Some "g") SpUniform (Some (0%N, 0%N)) 3] [] [] true.
Example C08_nonvacuous :
  wf ex_mod = true /\
  exists out_, gen ex_mod "" None (mkOptions false false false false MVRust) = Ok out_ /\
    map s_name (o_structs out_) = ["Inner"; "Outer"].
Proof. split; [reflexivity|]. eexists. split; vm_compute; reflexivity. Qed.
