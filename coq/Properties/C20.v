(** C20 - generation cost stays polynomial: the two recursive traversals are linear. *)
From W2W Require Import Wf C20Spec C20Proof OutSize GroupSize.

(** every entry point walks its own body and each helper function's body at most once *)
Theorem C20_stage_walks : forall m, wf_calls m = true ->
  stage_walks m <= length (entries m) * S (length (functions m)).
Proof. exact stage_walks_bound. Qed.
Print Assumptions C20_stage_walks.

(** every type is expanded at most once, however many variables / members refer to it *)
Theorem C20_type_visits : forall m, wf_types m = true -> wf_global_types m = true ->
  type_visits m <= length (types m).
Proof. exact type_visits_bound. Qed.
Print Assumptions C20_type_visits.

Theorem C20_holds_bool : forall m, wf m = true ->
  C20_ok m (N.of_nat (stage_walks m)) (N.of_nat (type_visits m)) = true.
Proof. exact C20_ok_model. Qed.
Print Assumptions C20_holds_bool.

(** The non-recursive rest of the generator: the number of items in the sections of the output made from the arenas
    directly (structs with their fields and offset assertions, constants, entry point constants, compute / vertex /
    fragment helpers, push constant range) is at most the size of the module ([module_size]: structs counted with
    twice their members, constants, four times the entry points) - linear, whatever options are selected. The bind
    group sections have one field / entry per bound variable (C04 / C11). Together with the two traversal bounds above
    no part of the generator's work depends on call depth, sharing or nesting. *)
Theorem C20_output_items_linear : forall m src inc o out_,
  gen m src inc o = Ok out_ -> out_items out_ <= module_size m.
Proof. exact out_items_linear. Qed.
Print Assumptions C20_output_items_linear.

(** ... and the bind group sections: the groups hold, together, at most one binding per module-scope variable (the
    keys of the group map are distinct, so they select disjoint parts of the variable list - C11's content theorem),
    every generated group has one layout field, one layout entry and one bind group entry per binding, and the lists of
    [BindGroups], [set_bind_groups] and the pipeline layout have one element per group: at most 8 items per variable. *)
Theorem C20_bind_group_items_linear : forall m src inc o out_,
  wf_global_types m = true -> gen m src inc o = Ok out_ ->
  bind_group_items out_ <= 8 * length (globals m) /\ length (o_pl_groups out_) <= length (globals m).
Proof. exact bind_group_items_linear. Qed.
Print Assumptions C20_bind_group_items_linear.

(** Non-vacuity and tightness: a chain of 12 value-returning helpers is walked 13 times
    (the un-memoised traversal walked it 2^13 times). *)
Definition chain_fn (i : nat) : func :=
  mkFunc None [] None (match i with O => [EGlobal 0] | S j => [ECallResult j] end)
         (match i with O => [] | S j => [SCall j] end).
Definition chain_mod (n : nat) : module :=
  mkModule [mkTy None (TScalar (mkScalar SkFloat 4)) 4 4 None] [] []
    [mkGlobal (Some "u") SpUniform (Some (0%N, 0%N)) 0] (map chain_fn (seq 0 n))
    [mkEntry "main" "MAIN" Compute (1%N, 1%N, 1%N) false (mkFunc None [] None [ECallResult (n - 1)] [SCall (n - 1)])] true.
Example C20_nonvacuous : wf (chain_mod 12) = true /\ stage_walks (chain_mod 12) = 13.
Proof. split; vm_compute; reflexivity. Qed.
