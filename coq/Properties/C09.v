(** C09 - derives and repr follow the write options exactly. *)
From W2W Require Import Wf GenInv StructSpec StructProof Render.

(** Table: every emitted struct derives Debug, Clone, PartialEq; Copy and repr(C) unless it ends in a
    runtime-sized array; Pod/Zeroable exactly when (host-shareable and the host switch) or (not
    host-shareable and the vertex switch); ShaderType exactly on host-shareable structs with the encase
    switch; Serialize/Deserialize exactly with the serde switch; layout assertions exactly with bytemuck
    host-shareable on host-shareable structs. *)
Theorem C09_holds_bool : forall m src inc o out_,
  wf m = true -> gen m src inc o = Ok out_ -> C09_ok m o out_ = true.
Proof.
  intros m src inc o out_ Hwf Hgen. destruct (gen_inv _ _ _ _ _ Hgen) as [bgd pc _ Hss _ _ _ _ _ _ _ _ _ _ _ _ _ _ _].
  exact (C09_ok_structs m o (o_structs out_) Hwf Hss).
Qed.
Print Assumptions C09_holds_bool.

Definition strip (o : out) : out :=
  mkOut [] (o_consts o) (o_overrides o) (o_bind_groups o) (o_vstructs o) (o_compute o) (o_entry_consts o)
        (o_vertex_tpl o) (o_ventries o) (o_fragment_tpl o) (o_fentries o) (o_source o) (o_pc_stages o)
        (o_pl_groups o) (o_pc_ranges o).

(** No option changes any part of the output other than the structs. *)
Theorem C09_non_interference : forall m src inc o o' a b,
  gen m src inc o = Ok a -> gen m src inc o' = Ok b -> strip a = strip b.
Proof.
  intros m src inc o o' a b Ha Hb.
  destruct (gen_inv _ _ _ _ _ Ha) as [bgd pc A1 A2 A3 A4 A5 A6 A7 A8 A9 A10 A11 A12 A13 A14 A15 A16 A17].
  destruct (gen_inv _ _ _ _ _ Hb) as [bgd' pc' B1 B2 B3 B4 B5 B6 B7 B8 B9 B10 B11 B12 B13 B14 B15 B16 B17].
  assert (bgd' = bgd) by congruence. subst bgd'. assert (pc' = pc) by congruence. subst pc'.
  assert (Hv : o_ventries a = o_ventries b) by congruence.
  assert (Hf : o_fentries a = o_fentries b) by congruence.
  rewrite Hv in A9. rewrite Hf in A11.
  destruct a, b. unfold strip. cbn in *. f_equal; congruence.
Qed.
Print Assumptions C09_non_interference.

(** the struct section depends on the option record only through its five fields: equal options give equal
    structs (trivial), and the field list of each struct depends only on the matrix/vector representation *)
Theorem C09_fields_only_mv : forall m o o' ss ss',
  w_mv o = w_mv o' -> structs m o = Ok ss -> structs m o' = Ok ss' ->
  map s_fields ss = map s_fields ss'.
Proof.
  intros m o o' ss ss' Hmv. unfold structs. destruct (negb (layouter_ok m)); [discriminate|].
  generalize (global_variable_types m) as gvt. generalize 0%nat as h0. revert ss ss'.
  induction (types m) as [|t rest IH]; intros ss ss' h0 gvt H H'; cbn [structs_from] in *.
  - inversion H; inversion H'. reflexivity.
  - destruct (t_inner t) eqn:Hi; try (eapply IH; eassumption).
    destruct (struct_wanted m gvt h0); [|eapply IH; eassumption].
    apply rbind_ok in H as (s & Hs & H). apply rbind_ok in H as (r & Hr & H). inversion H; subst ss.
    apply rbind_ok in H' as (s' & Hs' & H'). apply rbind_ok in H' as (r' & Hr' & H'). inversion H'; subst ss'.
    cbn [map]. f_equal; [|eapply IH; eassumption].
    unfold rust_struct in Hs, Hs'. destruct (t_name t); [|discriminate].
    apply rbind_ok in Hs as (offs & _ & Hs). apply rbind_ok in Hs as (fs & Hfs & Hs).
    apply rbind_ok in Hs' as (offs' & _ & Hs'). apply rbind_ok in Hs' as (fs' & Hfs' & Hs').
    assert (fs = fs').
    { clear -Hmv Hfs Hfs'. revert fs fs' Hfs Hfs'. generalize 0%nat as idx.
      generalize (length (filter (fun mem => negb (is_builtin (m_binding mem))) members)) as n.
      induction (filter (fun mem => negb (is_builtin (m_binding mem))) members) as [|x l IHl]; intros n idx fs fs' Hfs Hfs'; cbn in *.
      - congruence.
      - apply rbind_ok in Hfs as (f & Hf & Hfs). apply rbind_ok in Hfs as (r & Hr & Hfs). inversion Hfs; subst fs.
        apply rbind_ok in Hfs' as (f' & Hf' & Hfs'). apply rbind_ok in Hfs' as (r' & Hr' & Hfs'). inversion Hfs'; subst fs'.
        f_equal; [|eapply IHl; eassumption]. unfold struct_member in Hf, Hf'. rewrite Hmv in Hf. congruence. }
    subst fs'.
    repeat match type of Hs with (if ?c then _ else _) = _ => destruct c; [discriminate|] end.
    repeat match type of Hs' with (if ?c then _ else _) = _ => destruct c; [discriminate|] end.
    inversion Hs; inversion Hs'. reflexivity.
Qed.
Print Assumptions C09_fields_only_mv.

(** ... and at the level of the returned text ([Render.render] = the token stream of the module): under any two option
    records the generated programs are the struct section of each followed by one and the same token sequence - no
    option changes any token outside the struct definitions *)
Theorem C09_non_interference_text : forall m src inc o o' a b,
  gen m src inc o = Ok a -> gen m src inc o' = Ok b ->
  exists rest, render a = flat_map r_struct (o_structs a) ++ rest /\ render b = flat_map r_struct (o_structs b) ++ rest.
Proof.
  intros m src inc o o' a b Ha Hb. pose proof (C09_non_interference m src inc o o' a b Ha Hb) as H.
  exists (render_rest (strip a)). split.
  - destruct a; reflexivity.
  - rewrite H. destruct b; reflexivity.
Qed.
Print Assumptions C09_non_interference_text.
