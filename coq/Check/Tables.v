(** Exhaustive correspondence of the leaf tables. The driver evaluates the real functions ([rust_scalar_type],
    [rust_type] on leaf types, [vertex_format], [buffer_binding_type], [storage_access], [quote_shader_stages]) through
    the verification hooks on every input listed here and prints the results ([driver tables]); [*_table_ok] checks
    that the inputs are exactly the enumerations below, in order, and that the model's function agrees on each.
    The lemmas [*_complete] show that the enumerations are the WHOLE domain (scalar widths 1, 2, 4, 8 are the only ones
    naga has): for these functions the correspondence is an equivalence on the domain, not a sample. *)
From W2W Require Export Wf.
Local Open Scope N_scope.

Definition all_kinds : list scalar_kind := [SkSint; SkUint; SkFloat; SkBool; SkAbstractInt; SkAbstractFloat].
Definition all_widths : list N := [1; 2; 4; 8].
Definition all_scalars : list scalar := flat_map (fun k => map (mkScalar k) all_widths) all_kinds.
Definition all_sizes : list vsize := [Bi; Tri; Quad].
Definition all_leaf_inners : list type_inner :=
  map TScalar all_scalars
  ++ flat_map (fun n => map (TVector n) all_scalars) all_sizes
  ++ flat_map (fun c => flat_map (fun r => map (TMatrix c r) all_scalars) all_sizes) all_sizes
  ++ map TAtomic all_scalars.
Definition all_mvs : list mv_types := [MVRust; MVGlam; MVNalgebra].
Definition all_bools : list bool := [false; true].
Definition all_accesses : list access :=
  (* bit 0 = LOAD, bit 1 = STORE, bit 2 = ATOMIC, in the order of the bit patterns 0..7 *)
  flat_map (fun a => flat_map (fun s => map (fun l => mkAccess l s a) all_bools) all_bools) all_bools.
Definition all_spaces : list address_space :=
  [SpFunction; SpPrivate; SpWorkGroup; SpUniform; SpHandle; SpPushConstant] ++ map SpStorage all_accesses.
Definition all_stages : list stages :=
  flat_map (fun c => flat_map (fun f => map (fun v => mkStages v f c) all_bools) all_bools) all_bools.

Lemma all_kinds_complete k : In k all_kinds.
Proof. destruct k; cbn; auto 10. Qed.
Lemma all_scalars_complete s : In (sw s) all_widths -> In s all_scalars.
Proof.
  destruct s as [k w]. cbn [sw]. intros Hw. unfold all_scalars. apply in_flat_map. exists k. split; [apply all_kinds_complete|].
  apply in_map. exact Hw.
Qed.
Lemma all_bools_complete b : In b all_bools.
Proof. destruct b; cbn; auto. Qed.
Lemma all_accesses_complete a : In a all_accesses.
Proof. destruct a as [[] [] []]; cbn; auto 10. Qed.
Lemma all_spaces_complete sp : In sp all_spaces.
Proof.
  destruct sp; try (cbn; auto 10; fail). unfold all_spaces. apply in_or_app. right. apply in_map. apply all_accesses_complete.
Qed.
Lemma all_stages_complete s : In s all_stages.
Proof. destruct s as [[] [] []]; cbn; auto 10. Qed.
Lemma all_sizes_complete n : In n all_sizes.
Proof. destruct n; cbn; auto. Qed.
Lemma all_mvs_complete mv : In mv all_mvs.
Proof. destruct mv; cbn; auto. Qed.

(** every scalar / vector / matrix / atomic type over a scalar of a possible width is listed *)
Definition leaf_scalar (i : type_inner) : option scalar :=
  match i with TScalar s | TVector _ s | TMatrix _ _ s | TAtomic s => Some s | _ => None end.
Lemma all_leaf_inners_complete i s : leaf_scalar i = Some s -> In (sw s) all_widths -> In i all_leaf_inners.
Proof.
  intros Hi Hw. pose proof (all_scalars_complete s Hw) as Hs. unfold all_leaf_inners.
  destruct i; cbn in Hi; try discriminate; inversion Hi; subst.
  - apply in_or_app. left. apply in_map. exact Hs.
  - apply in_or_app. right. apply in_or_app. left. apply in_flat_map. exists n. split; [apply all_sizes_complete|apply in_map; exact Hs].
  - apply in_or_app. right. apply in_or_app. right. apply in_or_app. left.
    apply in_flat_map. exists cols. split; [apply all_sizes_complete|].
    apply in_flat_map. exists rows. split; [apply all_sizes_complete|apply in_map; exact Hs].
  - do 3 (apply in_or_app; right). apply in_map. exact Hs.
Qed.

(** ** comparisons *)
Definition res_agree {A} (eqb : A -> A -> bool) (a b : result A) : bool :=
  match a, b with
  | Ok x, Ok y => eqb x y
  | Panic _, Panic _ => true           (* the model documents the panic; messages are not compared *)
  | _, _ => false
  end.

Definition kind_idx (k : scalar_kind) : N :=
  match k with SkSint => 0 | SkUint => 1 | SkFloat => 2 | SkBool => 3 | SkAbstractInt => 4 | SkAbstractFloat => 5 end.
Definition scalar_eqb' (a b : scalar) : bool := (kind_idx (sk a) =? kind_idx (sk b)) && (sw a =? sw b).
Definition vsize_eqb' (a b : vsize) : bool := vsize_n a =? vsize_n b.
Definition leaf_inner_eqb (a b : type_inner) : bool :=
  match a, b with
  | TScalar s, TScalar s' => scalar_eqb' s s'
  | TVector n s, TVector n' s' => vsize_eqb' n n' && scalar_eqb' s s'
  | TMatrix c r s, TMatrix c' r' s' => vsize_eqb' c c' && vsize_eqb' r r' && scalar_eqb' s s'
  | TAtomic s, TAtomic s' => scalar_eqb' s s'
  | _, _ => false
  end.
Definition mv_eqb' (a b : mv_types) : bool :=
  match a, b with MVRust, MVRust | MVGlam, MVGlam | MVNalgebra, MVNalgebra => true | _, _ => false end.
Definition access_eqb' (a b : access) : bool :=
  Bool.eqb (a_load a) (a_load b) && Bool.eqb (a_store a) (a_store b) && Bool.eqb (a_atomic a) (a_atomic b).
Definition space_eqb' (a b : address_space) : bool :=
  match a, b with
  | SpFunction, SpFunction | SpPrivate, SpPrivate | SpWorkGroup, SpWorkGroup | SpUniform, SpUniform
  | SpHandle, SpHandle | SpPushConstant, SpPushConstant => true
  | SpStorage x, SpStorage y => access_eqb' x y
  | _, _ => false
  end.
Definition buf_ty_eqb' (a b : buf_ty) : bool :=
  match a, b with BufUniform, BufUniform => true | BufStorage x, BufStorage y => Bool.eqb x y | _, _ => false end.
Definition tex_access_eqb' (a b : tex_access) : bool :=
  match a, b with TAReadOnly, TAReadOnly | TAWriteOnly, TAWriteOnly | TAReadWrite, TAReadWrite | TAAtomic, TAAtomic => true | _, _ => false end.

Definition leaf_ty (i : type_inner) : ty := mkTy None i 0 0 None.
Definition empty_module : module := mkModule [] [] [] [] [] [] true.

Definition scalar_table_ok (t : list (scalar * result rprim)) : bool :=
  list_eqb scalar_eqb' (map fst t) all_scalars
  && forallb (fun p => res_agree rprim_eqb (rust_scalar_type (fst p)) (snd p)) t.

Definition rust_type_table_ok (t : list (mv_types * type_inner * result rust_ty)) : bool :=
  list_eqb (pair_eqb mv_eqb' leaf_inner_eqb) (map fst t) (flat_map (fun mv => map (pair mv) all_leaf_inners) all_mvs)
  && forallb (fun p => res_agree rust_ty_eqb (rust_type 2 empty_module (leaf_ty (snd (fst p))) (fst (fst p))) (snd p)) t.

Definition vertex_format_table_ok (t : list (type_inner * result string)) : bool :=
  list_eqb leaf_inner_eqb (map fst t)
           (map TScalar all_scalars ++ flat_map (fun n => map (TVector n) all_scalars) all_sizes)
  && forallb (fun p => res_agree String.eqb (vertex_format (fst p)) (snd p)) t.

Definition buffer_binding_table_ok (t : list (address_space * buf_ty)) : bool :=
  list_eqb space_eqb' (map fst t) all_spaces
  && forallb (fun p => buf_ty_eqb' (buffer_binding_type (fst p)) (snd p)) t.

Definition storage_access_table_ok (t : list (access * result tex_access)) : bool :=
  list_eqb access_eqb' (map fst t) all_accesses
  && forallb (fun p => res_agree tex_access_eqb' (storage_access (fst p)) (snd p)) t.

(** [quote_shader_stages] is modelled as the identity on stage sets: the real expression must evaluate to its input *)
Definition stages_table_ok (t : list (stages * stages)) : bool :=
  list_eqb st_eqb (map fst t) all_stages && forallb (fun p => st_eqb (fst p) (snd p)) t.
