(** Observations of the compiled generated module (recording shim) compared, inside Coq, with the meaning the
    specifications give to the extracted output. Ties the "what the generated code does" definitions
    ([Overrides.constants_map]) to what rustc-compiled code actually did. *)
From W2W Require Export Out C12Spec Overrides.
Local Open Scope N_scope.

Definition oval_eqb (a b : oval) : bool :=
  match a, b with
  | VBool x, VBool y => Bool.eqb x y
  | VI32 x, VI32 y => Z.eqb x y
  | VU32 x, VU32 y => N.eqb x y
  | VF32 x, VF32 y => N.eqb x y
  | VF64 x, VF64 y => N.eqb x y
  | _, _ => false
  end.

(** a struct value as an association list (field name, value or None) *)
Definition assign_of (l : list (string * option oval)) : string -> option oval :=
  fun n => match find (fun p => String.eqb (fst p) n) l with Some p => snd p | None => None end.

Definition kv_eqb (p q : string * oval) : bool := String.eqb (fst p) (fst q) && oval_eqb (snd p) (snd q).
Definition same_set (a b : list (string * oval)) : bool :=
  Nat.eqb (length a) (length b) && forallb (fun x => existsb (kv_eqb x) b) a && forallb (fun x => existsb (kv_eqb x) a) b.

(** the value domain is instantiated with the values themselves ([x as f64] and back is the identity on them) *)
Definition sem_constants_map (oo : out_overrides) (a : string -> option oval) : option (list (string * oval)) :=
  constants_map oval (VBool true) (VBool false) VI32 VU32 VF32 VF64 oo a.

(** the map the compiled [OverrideConstants::constants()] returned for struct value [a] is the one the
    specification computes from the extracted output *)
Definition obs_constants_ok (r : result out) (a : list (string * option oval)) (observed : list (string * oval)) : bool :=
  match r with
  | Ok o =>
      match o_overrides o with
      | Some oo => match sem_constants_map oo (assign_of a) with Some mp => same_set mp observed | None => false end
      | None => match observed with [] => true | _ => false end
      end
  | _ => true
  end.
