(** Observations of the compiled generated module (recording shim) compared, inside Coq, with the meaning the
    specifications give to the extracted output. Ties the "what the generated code does" definitions
    ([Overrides.constants_map]) to what rustc-compiled code actually did. *)
From W2W Require Export Out C12Spec Overrides C04Spec Obs.
Local Open Scope N_scope.

Definition oval_eqb (a b : oval) : bool :=
  match a, b with
  | VBool x, VBool y => Bool.eqb x y
  | VI32 x, VI32 y => Z.eqb x y
  | VU32 x, VU32 y => N.eqb x y
  | VF32 x, VF32 y => N.eqb x y
  | VF64 x, VF64 y => N.eqb x y
  | _, _ => false
  end.

(** a struct value as an association list (field name, value or None) *)
Definition assign_of (l : list (string * option oval)) : string -> option oval :=
  fun n => match find (fun p => String.eqb (fst p) n) l with Some p => snd p | None => None end.

Definition kv_eqb (p q : string * oval) : bool := String.eqb (fst p) (fst q) && oval_eqb (snd p) (snd q).
Definition same_set (a b : list (string * oval)) : bool :=
  Nat.eqb (length a) (length b) && forallb (fun x => existsb (kv_eqb x) b) a && forallb (fun x => existsb (kv_eqb x) a) b.

(** the value domain is instantiated with the values themselves ([x as f64] and back is the identity on them) *)
Definition sem_constants_map (oo : out_overrides) (a : string -> option oval) : option (list (string * oval)) :=
  constants_map oval (VBool true) (VBool false) VI32 VU32 VF32 VF64 oo a.

(** the map the compiled [OverrideConstants::constants()] returned for struct value [a] is the one the
    specification computes from the extracted output *)
Definition obs_constants_ok (r : result out) (a : list (string * option oval)) (observed : list (string * oval)) : bool :=
  match r with
  | Ok o =>
      match o_overrides o with
      | Some oo => match sem_constants_map oo (assign_of a) with Some mp => same_set mp observed | None => false end
      | None => match observed with [] => true | _ => false end
      end
  | _ => true
  end.

(** * C04: the recorded device calls of the compiled module against [Spec/Obs.v] on the extracted output *)
Definition nsk_eqb (a b : N * string * res_kind) : bool :=
  N.eqb (fst (fst a)) (fst (fst b)) && String.eqb (snd (fst a)) (snd (fst b)) && res_kind_eqb (snd a) (snd b).

(** [built]: per group (number, binding indices of the layout the bind group was created with, entries
    (binding, field whose tagged value arrived, kind)) as recorded when [from_bindings] ran *)
Definition obs_built_ok (r : result out) (built : list (N * list N * list (N * string * res_kind))) : bool :=
  match r with
  | Ok o =>
      match o_bind_groups o with
      | Some bg =>
          Nat.eqb (length built) (length (bg_groups bg))
          && forallb (fun b =>
               match find_group bg (fst (fst b)) with
               | Some og =>
                   match obs_from_bindings bg og with
                   | Some (lay, ents) => list_eqb N.eqb lay (snd (fst b)) && list_eqb nsk_eqb ents (snd b)
                   | None => false
                   end
               | None => false
               end) built
      | None => match built with [] => true | _ => false end
      end
  | _ => true
  end.

(** recorded [set_bind_group(index, bind group of group g, [])] sequences: each group's own [set] (three pass kinds),
    [BindGroups::set], [set_bind_groups] *)
Definition obs_sets_ok (r : result out) (single : list (N * list (N * N))) (all_struct all_fn : list (list (N * N))) : bool :=
  match r with
  | Ok o =>
      match o_bind_groups o with
      | Some bg =>
          forallb (fun s => match find_group bg (fst s) with
                            | Some og => list_eqb nn_eqb [obs_set og] (snd s)
                            | None => false end) single
          && match obs_bindgroups_set bg with Some l => forallb (list_eqb nn_eqb l) all_struct | None => false end
          && match obs_set_bind_groups bg with Some l => forallb (list_eqb nn_eqb l) all_fn | None => false end
      | None => match single, all_struct, all_fn with [], [], [] => true | _, _, _ => false end
      end
  | _ => true
  end.

(** recorded pipeline layout: per slot the group whose layout descriptor was used and its binding indices *)
Definition obs_pl_ok (r : result out) (pl : list (N * list N)) : bool :=
  match r with
  | Ok o => match obs_pipeline_layout o with
            | Some l => list_eqb (pair_eqb N.eqb (list_eqb N.eqb)) l pl
            | None => false end
  | _ => true
  end.

(** * C13: the recorded pipeline layout descriptor and the value of [PUSH_CONSTANT_STAGES] (wgpu's ShaderStages bits:
    VERTEX = 1, FRAGMENT = 2, COMPUTE = 4) against [obs_pc_ranges] on the extracted output *)
Definition stage_bits (s : stages) : N :=
  (if st_v s then 1 else 0) + (if st_f s then 2 else 0) + (if st_c s then 4 else 0).

Definition obs_pc_ok (r : result out) (const_bits : option N) (ranges : list (N * N * N)) : bool :=
  match r with
  | Ok o =>
      option_eqb N.eqb (option_map stage_bits (o_pc_stages o)) const_bits
      && match obs_pc_ranges o with
         | Some l => list_eqb n3_eqb (map (fun x => (stage_bits (fst (fst x)), snd (fst x), snd x)) l) ranges
         | None => false
         end
  | _ => true
  end.

(** * C14: what the compiled helpers returned / recorded, against the readings of [Spec/Obs.v] on the extracted output *)
Definition sss_eqb (a b : string * string * string) : bool :=
  String.eqb (fst (fst a)) (fst (fst b)) && String.eqb (snd (fst a)) (snd (fst b)) && String.eqb (snd a) (snd b).
Definition sn3_eqb (a b : string * (N * N * N)) : bool := String.eqb (fst a) (fst b) && n3_eqb (snd a) (snd b).
Definition ssn_eqb (a b : string * string * N) : bool :=
  String.eqb (fst (fst a)) (fst (fst b)) && String.eqb (snd (fst a)) (snd (fst b)) && N.eqb (snd a) (snd b).

(** every recorded item is one the output yields and there are as many *)
Definition same_items {A} (eqb : A -> A -> bool) (model recorded : list A) : bool :=
  Nat.eqb (length model) (length recorded) && forallb (fun x => existsb (eqb x) model) recorded.

(** per vertex helper: (function, entry point of the returned VertexEntry, per buffer (step mode is Instance, the
    @location numbers of its attributes)); the probe passes Vertex, Instance, Vertex, .. in parameter order *)
Definition vbuf_eqb (a b : bool * list N) : bool := Bool.eqb (fst a) (fst b) && list_eqb N.eqb (snd a) (snd b).
Definition ventry_obs_eqb (a b : string * string * list (bool * list N)) : bool :=
  String.eqb (fst (fst a)) (fst (fst b)) && String.eqb (snd (fst a)) (snd (fst b)) && list_eqb vbuf_eqb (snd a) (snd b).

Definition vstruct_locations (o : out) (s : string) : option (list N) :=
  option_map (fun vs => map va_location (vs_attrs vs)) (find (fun vs => String.eqb (vs_name vs) s) (o_vstructs o)).

Definition ventry_reading (o : out) (v : out_ventry) : option (string * string * list (bool * list N)) :=
  match obs_vertex_entry o v with
  | Some (fn, ep, bufs) =>
      option_map (fun bs => (fn, ep, bs))
        (omapM (fun b : string * N => option_map (fun locs => (N.odd (snd b), locs)) (vstruct_locations o (fst b))) bufs)
  | None => None
  end.

Definition obs_entries_ok (r : result out)
    (consts : list (string * string))                        (* every ENTRY_ constant and its value *)
    (computes : list (string * string * string))             (* create_<e>_pipeline: label, entry point of the recorded descriptor *)
    (wgs : list (string * (N * N * N)))                      (* <E>_WORKGROUP_SIZE values *)
    (frags : list (string * string * N))                     (* <e>_entry: entry point, targets.len() *)
    (verts : list (string * string * list (bool * list N))) : bool :=
  match r with
  | Ok o =>
      same_items ss_eqb (o_entry_consts o) consts
      && same_items sss_eqb (map obs_compute (o_compute o)) computes
      && same_items sn3_eqb (map obs_workgroup (o_compute o)) wgs
      && match omapM (obs_fragment_entry o) (o_fentries o) with Some l => same_items ssn_eqb l frags | None => false end
      && match omapM (ventry_reading o) (o_ventries o) with Some l => same_items ventry_obs_eqb l verts | None => false end
  | _ => true
  end.

(** * C15: the constants of the compiled module (declared type; value: integers as numbers, floats as [to_bits], bools
    as 0 / 1) against the extracted output *)
Definition lit_value (l : literal) : option Z :=
  match l with
  | LF64 x | LF32 x | LU32 x | LU64 x => Some (Z.of_N x)
  | LI32 z | LI64 z => Some z
  | LBool b => Some (if b then 1 else 0)%Z
  | _ => None                                     (* abstract literals are never exported *)
  end.
Definition cobs_eqb (a b : string * rprim * Z) : bool :=
  String.eqb (fst (fst a)) (fst (fst b)) && rprim_eqb (snd (fst a)) (snd (fst b)) && Z.eqb (snd a) (snd b).
Definition obs_consts_ok (r : result out) (recorded : list (string * rprim * Z)) : bool :=
  match r with
  | Ok o =>
      match omapM (fun k => option_map (fun v => (k_name k, k_ty k, v)) (lit_value (k_lit k))) (o_consts o) with
      | Some l => same_items cobs_eqb l recorded
      | None => false
      end
  | _ => true
  end.
