(** Comparison of the IR-level specifications with the ground truth that the case
    generators computed at the WGSL level (ties the specs to the wording of the
    properties and cross-checks naga's lowering and the IR serializer). *)
From W2W Require Import Wf C03Spec.
Local Open Scope N_scope.

Definition truth_vis_ok (m : module) (t : list (N * N * stages)) : bool :=
  forallb (fun x => let '(grp, b, s) := x in
                    match find_global m grp b with
                    | Some h => st_eqb (vis_spec m h) s
                    | None => false
                    end) t.

Definition truth_pc_ok (m : module) (s : stages) : bool :=
  match find_pc_from (globals m) 0 with
  | Some h => st_eqb (vis_spec m h) s
  | None => false
  end.
