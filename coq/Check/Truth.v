(** Comparison of the IR-level specifications with the ground truth that the case
    generators computed at the WGSL level (ties the specs to the wording of the
    properties and cross-checks naga's lowering and the IR serializer). *)
From W2W Require Import Wf C03Spec.
Local Open Scope N_scope.

Definition truth_vis_ok (m : module) (t : list (N * N * stages)) : bool :=
  forallb (fun x => let '(grp, b, s) := x in
                    match find_global m grp b with
                    | Some h => st_eqb (vis_spec m h) s
                    | None => false
                    end) t.

Definition truth_pc_ok (m : module) (s : stages) : bool :=
  match find_pc_from (globals m) 0 with
  | Some h => st_eqb (vis_spec m h) s
  | None => false
  end.

(** ** ground truth for constants, overrides and entry points: compared with the *real* output *)
From W2W Require Import Out.
Definition truth_consts_ok (o : out) (t : list out_const) : bool := list_eqb const_eqb (o_consts o) t.
Definition truth_overrides_ok (o : out) (t : option out_overrides) : bool :=
  option_eqb overrides_eqb (o_overrides o) t.
Definition truth_entries_ok (o : out) (names : list string) (comp : list (string * (N * N * N)))
    (frag : list (string * N)) (vert : list (string * list string)) : bool :=
  list_eqb String.eqb (map snd (o_entry_consts o)) names
  && list_eqb (pair_eqb String.eqb n3_eqb) (map (fun c => (cp_entry_lit c, cp_wg c)) (o_compute o)) comp
  && list_eqb (pair_eqb String.eqb N.eqb) (map (fun f => (fe_fn f, fe_targets f)) (o_fentries o)) frag
  && list_eqb (pair_eqb String.eqb (list_eqb String.eqb))
              (map (fun v => (ve_fn v, map fst (ve_buffers v))) (o_ventries o)) vert.
Definition on_ok (r : result out) (f : out -> bool) : bool := match r with Ok o => f o | _ => false end.

Definition truth_pc_out_ok (o : out) (t : option (N * stages)) : bool :=
  match t with
  | None => match o_pc_stages o, o_pc_ranges o with None, [] => true | _, _ => false end
  | Some (size, st) =>
      match o_pc_stages o, o_pc_ranges o with
      | Some s, [r] => st_eqb s st && pr_stages_const r && N.eqb (pr_start r) 0 && N.eqb (pr_end r) size
      | _, _ => false
      end
  end.

(** C04 ground truth: per group, in declaration order, (field name, kind, binding) *)
Definition truth_groups_ok (o : out) (t : list (N * list (string * res_kind * N))) : bool :=
  list_eqb (pair_eqb N.eqb (list_eqb (pair_eqb (pair_eqb String.eqb res_kind_eqb) N.eqb)))
    (map (fun g => (og_no g, map (fun e => (be_field e, be_kind e, be_binding e)) (og_bind_entries g))) (C03Spec.groups_of o)) t
  && list_eqb (pair_eqb N.eqb (list_eqb (pair_eqb String.eqb res_kind_eqb)))
    (map (fun g => (og_no g, og_layout_fields g)) (C03Spec.groups_of o))
    (map (fun x => (fst x, map fst (snd x))) t).

(** structs ground truth: (name, derives, repr(C), size assert, offset asserts) per emitted struct *)
Fixpoint list_rel {A B} (f : A -> B -> bool) (l : list A) (l' : list B) : bool :=
  match l, l' with
  | [], [] => true
  | x :: t, y :: t' => f x y && list_rel f t t'
  | _, _ => false
  end.
Definition truth_structs_ok (o : out)
    (t : list (string * list string * bool * option N * list (string * N))) : bool :=
  list_rel (fun s x => let '(n, d, r, sz, offs) := x in
                       String.eqb (s_name s) n && list_eqb String.eqb (s_derives s) d
                       && Bool.eqb (s_repr_c s) r && option_eqb N.eqb (s_assert_size s) sz
                       && list_eqb str_n_eqb (s_assert_offsets s) offs)
           (o_structs o) t.

(** C06 ground truth: per emitted struct, (field name, shape) in order *)
From W2W Require Import C06Spec.
Definition truth_shapes_ok (o : out) (t : list (string * list (string * shape))) : bool :=
  list_rel (fun s x => String.eqb (s_name s) (fst x)
                       && list_rel (fun f y => String.eqb (fd_name f) (fst y) && shape_eqb (denote (fd_ty f)) (snd y))
                                   (s_fields s) (snd x))
           (o_structs o) t.

(** C07: offsets / stride observed in the compiled module (rustc) against RustLayout on the extracted struct *)
From W2W Require Import RustLayout C07Spec.
Definition obs_vertex_ok (o : out) (x : string * list (N * N) * N) : bool :=
  let '(name, attrs, stride) := x in
  match List.find (fun v => String.eqb (vs_name v) name) (o_vstructs o),
        List.find (fun s => String.eqb (s_name s) name) (o_structs o) with
  | Some v, Some s =>
      match struct_layout (struct_env (o_structs o) []) s with
      | Some (offs, size, _) =>
          N.eqb size stride
          && list_eqb (pair_eqb N.eqb N.eqb) (map (fun a => (va_location a, fst (attr_range s offs a))) (vs_attrs v)) attrs
      | None => false
      end
  | _, _ => false
  end.

(** a vertex entry takes a bare @location argument (no struct): outside what the generator covers *)
Definition kf_bare_location_arg (m : module) : bool :=
  existsb (fun e => stage_eqb (e_stage e) Vertex
                    && existsb (fun a => match a_binding a with Some (BLocation _ _) => true | _ => false end) (f_args (e_fn e)))
          (entries m).
