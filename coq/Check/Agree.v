(** Comparison of the model's outcome with the real outcome on the part of the
    output a property reads ("projection (a)" of DESIGN.md §2). *)
From W2W Require Export Wf Render.

Definition agree_res (agree : out -> out -> bool) (a b : result out) : bool :=
  match a, b with
  | Ok x, Ok y => agree x y
  | Err e, Err e' => error_eqb e e'
  | Panic _, Panic _ => true
  | _, _ => false
  end.

(** C11 reads: group numbers, the binding indices of layout entries and bind entries, pipeline order *)
Definition proj_group_C11 (g : out_group) : N * list N * list N :=
  (og_no g, map oe_binding (og_entries g), map be_binding (og_bind_entries g)).
Definition groups_of' (o : out) : list out_group :=
  match o_bind_groups o with Some bg => bg_groups bg | None => [] end.
Definition agree_C11 (a b : out) : bool :=
  list_eqb (pair_eqb (pair_eqb N.eqb (list_eqb N.eqb)) (list_eqb N.eqb))
           (map proj_group_C11 (groups_of' a)) (map proj_group_C11 (groups_of' b))
  && list_eqb N.eqb (o_pl_groups a) (o_pl_groups b).

(** C03 reads: per group the (binding, visibility) list, and the push constant stages *)
Definition proj_group_C03 (g : out_group) : N * list (N * stages) :=
  (og_no g, map (fun e => (oe_binding e, oe_vis e)) (og_entries g)).
Definition agree_C03 (a b : out) : bool :=
  list_eqb (pair_eqb N.eqb (list_eqb (pair_eqb N.eqb st_eqb)))
           (map proj_group_C03 (groups_of' a)) (map proj_group_C03 (groups_of' b))
  && option_eqb st_eqb (o_pc_stages a) (o_pc_stages b).

(** C15 / C14 / C13 / C12 read whole sections *)
Definition agree_C15 (a b : out) : bool := list_eqb const_eqb (o_consts a) (o_consts b).
Definition agree_C14 (a b : out) : bool :=
  list_eqb ss_eqb (o_entry_consts a) (o_entry_consts b)
  && list_eqb compute_eqb (o_compute a) (o_compute b)
  && list_eqb fentry_eqb (o_fentries a) (o_fentries b)
  && list_eqb ventry_eqb (o_ventries a) (o_ventries b)
  && Bool.eqb (o_vertex_tpl a) (o_vertex_tpl b) && Bool.eqb (o_fragment_tpl a) (o_fragment_tpl b).
Definition agree_C13 (a b : out) : bool :=
  option_eqb st_eqb (o_pc_stages a) (o_pc_stages b) && list_eqb pc_range_eqb (o_pc_ranges a) (o_pc_ranges b).
Definition agree_C12 (a b : out) : bool :=
  option_eqb overrides_eqb (o_overrides a) (o_overrides b)
  && list_eqb (pair_eqb Bool.eqb Bool.eqb) (map (fun v => (ve_ov_param v, ve_ov_used v)) (o_ventries a))
                                           (map (fun v => (ve_ov_param v, ve_ov_used v)) (o_ventries b))
  && list_eqb (pair_eqb Bool.eqb Bool.eqb) (map (fun v => (fe_ov_param v, fe_ov_used v)) (o_fentries a))
                                           (map (fun v => (fe_ov_param v, fe_ov_used v)) (o_fentries b)).

(** C04 reads the whole bind_groups section and the pipeline group list *)
Definition agree_C04 (a b : out) : bool :=
  option_eqb bind_groups_eqb
    (option_map (fun bg => mkOutBindGroups
       (map (fun g => mkOutGroup (og_no g) (og_layout_struct_no g) (og_layout_fields g) (og_desc_no g) (og_desc_label g)
                        (map (fun e => mkOutEntry (oe_binding e) st_none (BTSampler SFiltering) true) (og_entries g))
                        (og_impl_no g) (og_get_layout_desc_no g) (og_from_param_no g) (og_from_desc_no g)
                        (og_bind_entries g) (og_bg_label g) (og_set_index g)) (bg_groups bg))
       (bg_struct_fields bg) (bg_struct_set bg) (bg_fn_params bg) (bg_fn_set bg)) (o_bind_groups a))
    (option_map (fun bg => mkOutBindGroups
       (map (fun g => mkOutGroup (og_no g) (og_layout_struct_no g) (og_layout_fields g) (og_desc_no g) (og_desc_label g)
                        (map (fun e => mkOutEntry (oe_binding e) st_none (BTSampler SFiltering) true) (og_entries g))
                        (og_impl_no g) (og_get_layout_desc_no g) (og_from_param_no g) (og_from_desc_no g)
                        (og_bind_entries g) (og_bg_label g) (og_set_index g)) (bg_groups bg))
       (bg_struct_fields bg) (bg_struct_set bg) (bg_fn_params bg) (bg_fn_set bg)) (o_bind_groups b))
  && list_eqb N.eqb (o_pl_groups a) (o_pl_groups b).

(** C08 reads the struct names; C09 names + derives + repr + presence of asserts; C05 the asserts *)
Definition agree_C08 (a b : out) : bool :=
  list_eqb String.eqb (map s_name (o_structs a)) (map s_name (o_structs b)).
Definition agree_C09 (a b : out) : bool :=
  list_eqb (fun x y => String.eqb (s_name x) (s_name y) && list_eqb String.eqb (s_derives x) (s_derives y)
                       && Bool.eqb (s_repr_c x) (s_repr_c y)
                       && Bool.eqb (match s_assert_size x with Some _ => true | None => false end)
                                   (match s_assert_size y with Some _ => true | None => false end))
           (o_structs a) (o_structs b).
Definition agree_C05 (a b : out) : bool :=
  list_eqb (fun x y => String.eqb (s_name x) (s_name y)
                       && option_eqb N.eqb (s_assert_size x) (s_assert_size y)
                       && list_eqb str_n_eqb (s_assert_offsets x) (s_assert_offsets y))
           (o_structs a) (o_structs b).

(** C06 reads the field lists *)
Definition agree_C06 (a b : out) : bool :=
  list_eqb (fun x y => String.eqb (s_name x) (s_name y) && list_eqb field_eqb (s_fields x) (s_fields y))
           (o_structs a) (o_structs b).

Definition on_out (r : result out) (f : out -> bool) : bool := match r with Ok o => f o | _ => false end.

(** everything except SOURCE (include variant vs embedded variant) *)
Definition agree_but_source (a b : out) : bool :=
  out_eqb (mkOut (o_structs a) (o_consts a) (o_overrides a) (o_bind_groups a) (o_vstructs a) (o_compute a)
                 (o_entry_consts a) (o_vertex_tpl a) (o_ventries a) (o_fragment_tpl a) (o_fentries a)
                 (SrcInclude "") (o_pc_stages a) (o_pl_groups a) (o_pc_ranges a))
          (mkOut (o_structs b) (o_consts b) (o_overrides b) (o_bind_groups b) (o_vstructs b) (o_compute b)
                 (o_entry_consts b) (o_vertex_tpl b) (o_ventries b) (o_fragment_tpl b) (o_fentries b)
                 (SrcInclude "") (o_pc_stages b) (o_pl_groups b) (o_pc_ranges b)).

(** C07 reads the vertex struct impls and the vertex entry helpers *)
Definition agree_C07 (a b : out) : bool :=
  list_eqb vstruct_eqb (o_vstructs a) (o_vstructs b) && list_eqb ventry_eqb (o_ventries a) (o_ventries b).

(** whole-text correspondence: the canonical token stream of the text the real crate returned equals the
    rendering of the model's output ([Render.v]); [None] = the returned text did not tokenise *)
Definition tokens_agree (r : result out) (toks : option (list tok)) : bool :=
  match r, toks with
  | Ok o, Some ts => list_eqb tok_eqb (render_canon o) (canon ts)
  | Ok _, None => false
  | _, _ => true
  end.
Definition tokens_diff (r : result out) (toks : option (list tok)) : option (N * option tok * option tok) :=
  match r, toks with
  | Ok o, Some ts => first_diff (render_canon o) (canon ts) 0
  | _, _ => None
  end.

(** the model behind a call with validation requested: validation only gates ([Pipeline.gate]) *)
Definition genv (requested valid : bool) (m : module) (src : string) (inc : option string) (o : options) : result out :=
  if requested && negb valid then Err ValidationError else gen m src inc o.
