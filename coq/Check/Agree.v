(** Comparison of the model's outcome with the real outcome on the part of the
    output a property reads ("projection (a)" of DESIGN.md §2). *)
From W2W Require Export Wf.

Definition agree_res (agree : out -> out -> bool) (a b : result out) : bool :=
  match a, b with
  | Ok x, Ok y => agree x y
  | Err e, Err e' => error_eqb e e'
  | Panic _, Panic _ => true
  | _, _ => false
  end.

(** C11 reads: group numbers, the binding indices of layout entries and bind entries, pipeline order *)
Definition proj_group_C11 (g : out_group) : N * list N * list N :=
  (og_no g, map oe_binding (og_entries g), map be_binding (og_bind_entries g)).
Definition groups_of' (o : out) : list out_group :=
  match o_bind_groups o with Some bg => bg_groups bg | None => [] end.
Definition agree_C11 (a b : out) : bool :=
  list_eqb (pair_eqb (pair_eqb N.eqb (list_eqb N.eqb)) (list_eqb N.eqb))
           (map proj_group_C11 (groups_of' a)) (map proj_group_C11 (groups_of' b))
  && list_eqb N.eqb (o_pl_groups a) (o_pl_groups b).

(** C03 reads: per group the (binding, visibility) list, and the push constant stages *)
Definition proj_group_C03 (g : out_group) : N * list (N * stages) :=
  (og_no g, map (fun e => (oe_binding e, oe_vis e)) (og_entries g)).
Definition agree_C03 (a b : out) : bool :=
  list_eqb (pair_eqb N.eqb (list_eqb (pair_eqb N.eqb st_eqb)))
           (map proj_group_C03 (groups_of' a)) (map proj_group_C03 (groups_of' b))
  && option_eqb st_eqb (o_pc_stages a) (o_pc_stages b).
