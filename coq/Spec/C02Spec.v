(** C02 - the generated bind group layouts pass wgpu's shader-interface validation. *)
From W2W Require Import Out WgpuValid.
Local Open Scope N_scope.

Definition groups_of (o : out) : list out_group :=
  match o_bind_groups o with Some bg => bg_groups bg | None => [] end.

(** the layout entry at (group, binding), in pipeline-layout order *)
Definition find_entry (o : out) (grp b : N) : option out_entry :=
  match List.find (fun g => og_no g =? grp) (groups_of o) with
  | Some g => List.find (fun e => oe_binding e =? b) (og_entries g)
  | None => None
  end.

(** one resource [h] used by an entry point of stage [s] *)
Definition resource_ok (m : module) (o : out) (s : stage) (h : nat) : bool :=
  match nth_error (globals m) h with
  | Some gl =>
      match g_binding gl, get_inner m (g_ty gl) with
      | Some (grp, b), Some i =>
          match find_entry o grp b with
          | Some e => st_has (oe_vis e) s                                          (* not Invisible *)
                      && check_binding_use (resource_ty i) (g_space gl) (oe_ty e)   (* compatible *)
          | None => false                                                           (* Missing *)
          end
      | None, _ => true           (* not a bound resource (private / workgroup / push constant) *)
      | _, None => false
      end
  | None => false
  end.

Definition pair_ok (m : module) (o : out) (p : nat * nat) : bool :=
  match nth_error (globals m) (fst p), nth_error (globals m) (snd p) with
  | Some t, Some s =>
      match g_binding t, g_binding s with
      | Some (gt, bt), Some (gs, bs) =>
          match find_entry o gt bt, find_entry o gs bs with
          | Some et, Some es => filtering_ok (oe_ty et) (oe_ty es)
          | _, _ => false
          end
      | _, _ => false
      end
  | _, _ => false
  end.

Fixpoint forallb2 {A B} (f : A -> B -> bool) (l : list A) (l' : list B) : bool :=
  match l, l' with
  | [], [] => true
  | x :: t, y :: t' => f x y && forallb2 f t t'
  | _, _ => false
  end.

(** [uses] / [sampling]: per entry point, the global variables it uses and its texture-sampler pairs, as
    reported by naga's ModuleInfo (oracle input) *)
Definition C02_stage_ok (m : module) (o : out) (uses : list (list nat)) (sampling : list (list (nat * nat))) : bool :=
  forallb2 (fun e us => forallb (resource_ok m o (e_stage e)) us) (entries m) uses
  && forallb2 (fun e ps => forallb (pair_ok m o) ps) (entries m) sampling.

Definition C02_bgl_ok (o : out) : bool :=
  forallb (fun g => forallb bgl_entry_ok (og_entries g)) (groups_of o).

Definition C02_ok (m : module) (o : out) uses sampling : bool := C02_stage_ok m o uses sampling && C02_bgl_ok o.

(** ** known-finding classes *)
(** a multisampled float texture is emitted as filterable (rejected by create_bind_group_layout);
    pinned by the snapshot test bind_groups_module_vertex_fragment *)
Definition kf_ms_float (m : module) : bool :=
  existsb (fun gl => match g_binding gl, get_inner m (g_ty gl) with
                     | Some _, Some (TImage _ _ (ICSampled SkFloat true)) => true
                     | _, _ => false
                     end) (globals m).

(** an integer texture sampled through a (always Filtering) sampler: textureGather on texture_2d<i32/u32> *)
Definition kf_int_sampling (m : module) (sampling : list (list (nat * nat))) : bool :=
  existsb (existsb (fun p => match nth_error (globals m) (fst p), nth_error (globals m) (snd p) with
                             | Some t, Some s =>
                                 match get_inner m (g_ty t), get_inner m (g_ty s) with
                                 | Some (TImage _ _ (ICSampled k _)), Some (TSampler false) =>
                                     match k with SkSint | SkUint => true | _ => false end
                                 | _, _ => false
                                 end
                             | _, _ => false
                             end)) sampling.

(** ** premises about the module (naga / WGSL guarantees, evaluated per case) *)
(** bound buffer variables are uniform or storage with LOAD and without ATOMIC; storage textures have one of
    the four WGSL access modes in naga's flag encoding *)
Definition wf_access (a : access) : bool :=
  (a_load a && negb (a_atomic a)) || (negb (a_load a) && a_store a && negb (a_atomic a))
  || (a_load a && a_store a && a_atomic a).
Definition wf_resource (m : module) (gl : global) : bool :=
  match g_binding gl, get_inner m (g_ty gl) with
  | Some _, Some (TImage d arrayed (ICStorage _ a)) =>
      wf_access a && match d with Cube => false | _ => true end       (* WGSL has no storage cube textures *)
  | Some _, Some (TImage d arrayed (ICSampled _ multi)) | Some _, Some (TImage d arrayed (ICDepth multi)) =>
      negb multi || (match d with D2 => true | _ => false end && negb arrayed)   (* multisampled => 2d *)
  | Some _, Some (TSampler _) => true
  | Some _, Some _ =>
      match g_space gl with
      | SpUniform => true
      | SpStorage a => a_load a && negb (a_atomic a)
      | _ => false
      end
  | _, _ => true
  end.
Definition wf_resources (m : module) : bool := forallb (wf_resource m) (globals m).

(** sampling pairs are (sampled or depth texture, sampler) *)
Definition wf_pair (m : module) (p : nat * nat) : bool :=
  match nth_error (globals m) (fst p), nth_error (globals m) (snd p) with
  | Some t, Some s =>
      match g_binding t, g_binding s, get_inner m (g_ty t), get_inner m (g_ty s) with
      | Some _, Some _, Some (TImage _ _ (ICSampled _ _)), Some (TSampler _)
      | Some _, Some _, Some (TImage _ _ (ICDepth _)), Some (TSampler _) => true
      | _, _, _, _ => false
      end
  | _, _ => false
  end.
Definition wf_sampling (m : module) (sampling : list (list (nat * nat))) : bool :=
  forallb (forallb (wf_pair m)) sampling.
