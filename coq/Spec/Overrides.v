(** C12, second half: "so that the shader compiler's override resolution accepts the map and sees the values
    supplied".

    [constants_map]: what the generated [OverrideConstants::constants()] computes for a struct value (an
    assignment of field values), read off the template in consts.rs: [HashMap::from] of the required
    entries, then one [insert] per optional field that is [Some].
    [naga_resolve]: the lookup naga's [process_overrides] performs for one override
    (naga-24.0.0/src/back/pipeline_constants.rs: key = decimal @id if present else the name; a present value
    goes through [map_value_to_literal] for the override's scalar type; an absent one falls back to the
    WGSL initialiser or is the error [MissingValue]).

    f64 arithmetic is not modelled: the f64 values are an abstract type [F] with the conversions the
    generated code uses ([x as f64], [1.0], [0.0]) and naga's [map_value_to_literal] as Section variables;
    the only facts assumed about them are the retractions "converting a value of the field's own type to
    f64 and back yields that value" (exact for bool / i32 / u32 / f32, identity for f64) - validated per run
    by handing the maps produced by the compiled module to naga's real [process_overrides]. *)
From W2W Require Import Out C12Spec.
Local Open Scope N_scope.

Inductive oval := VBool (b : bool) | VI32 (z : Z) | VU32 (n : N) | VF32 (bits : N) | VF64 (bits : N).

Definition oval_prim (v : oval) : rprim :=
  match v with VBool _ => PBool | VI32 _ => PI32 | VU32 _ => PU32 | VF32 _ => PF32 | VF64 _ => PF64 end.

(** the values a Rust field of that type can hold *)
Definition oval_in_range (v : oval) : Prop :=
  match v with
  | VBool _ => True
  | VI32 z => (-2147483648 <= z < 2147483648)%Z
  | VU32 n => n < 4294967296
  | VF32 b => b < 4294967296
  | VF64 b => b < 18446744073709551616
  end.

Inductive resolution := RValue (v : oval) | RDefault | RMissing | RBadValue.

Section Resolve.
  Variable F : Type.
  Variables (one zero : F) (of_i32 : Z -> F) (of_u32 : N -> F) (of_f32 : N -> F) (of_f64 : N -> F).
  (** naga [map_value_to_literal] *)
  Variable lit_of : F -> rprim -> option oval.

  (** the value expression of one entry: [if x { 1.0 } else { 0.0 }] for a bool override, [x as f64] otherwise;
      [None]: the expression does not type-check for that field value *)
  Definition entry_value (is_bool : bool) (v : oval) : option F :=
    if is_bool then match v with VBool b => Some (if b then one else zero) | _ => None end
    else match v with
         | VI32 z => Some (of_i32 z) | VU32 n => Some (of_u32 n)
         | VF32 b => Some (of_f32 b) | VF64 b => Some (of_f64 b)
         | VBool _ => None
         end.

  (** an assignment of the struct's fields: [None] = an optional field left [None] *)
  Definition assignment := string -> option oval.

  Fixpoint req_entries (es : list out_ov_entry) (a : assignment) : option (list (string * F)) :=
    match es with
    | [] => Some []
    | e :: t =>
        match a (ove_field e) with
        | None => None                                   (* a required field has no value: not a struct value *)
        | Some v =>
            match entry_value (ove_is_bool e) v, req_entries t a with
            | Some f, Some r => Some ((ove_key e, f) :: r)
            | _, _ => None
            end
        end
    end.

  Fixpoint opt_entries (es : list out_ov_entry) (a : assignment) : option (list (string * F)) :=
    match es with
    | [] => Some []
    | e :: t =>
        match a (ove_field e) with
        | None => opt_entries t a                        (* [if let Some(value) = self.f] not taken *)
        | Some v =>
            match entry_value (ove_is_bool e) v, opt_entries t a with
            | Some f, Some r => Some ((ove_key e, f) :: r)
            | _, _ => None
            end
        end
    end.

  (** insertion order: the required entries ([HashMap::from]), then the inserts *)
  Definition constants_map (oo : out_overrides) (a : assignment) : option (list (string * F)) :=
    match req_entries (ov_required oo) a, opt_entries (ov_optional oo) a with
    | Some r, Some p => Some (r ++ p)
    | _, _ => None
    end.

  (** [HashMap::get] after those insertions: the last insertion of a key wins *)
  Fixpoint assoc (k : string) (l : list (string * F)) : option F :=
    match l with
    | [] => None
    | (k', f) :: t => if String.eqb k' k then Some f else assoc k t
    end.
  Definition map_get (k : string) (l : list (string * F)) : option F := assoc k (rev l).

  Definition naga_resolve (m : module) (o : override) (mp : list (string * F)) : resolution :=
    match ov_key o with
    | None => RMissing
    | Some k =>
        match map_get k mp with
        | Some f =>
            match ov_prim m o with
            | Some p => match lit_of f p with Some v => RValue v | None => RBadValue end
            | None => RBadValue
            end
        | None => if od_has_init o then RDefault else RMissing
        end
    end.

  (** the struct value is well typed: every override's field holds a value of the field's type (in range),
      and required fields hold one *)
  Definition assignment_ok (m : module) (a : assignment) : Prop :=
    forall o n, In o (overrides m) -> od_name o = Some n ->
      (od_has_init o = false -> a n <> None) /\
      (forall v, a n = Some v -> ov_prim m o = Some (oval_prim v) /\ oval_in_range v).
End Resolve.
