(** C14 - entry point metadata matches the shader's entry points. *)
From W2W Require Import Out.
Local Open Scope N_scope.

Definition loc_of (b : option binding) : list N :=
  match b with Some (BLocation l _) => [l] | _ => [] end.

(** the @location numbers a fragment entry point writes *)
Definition output_locations (m : module) (f : func) : list N :=
  match f_result f with
  | None => []
  | Some (t, Some b) => loc_of (Some b)
  | Some (t, None) =>
      match get_inner m t with
      | Some (TStruct ms _) => flat_map (fun mem => loc_of (m_binding mem)) ms
      | _ => []
      end
  end.

(** as many colour targets as are needed to address every location: highest location + 1 *)
Definition needed_targets (m : module) (f : func) : N :=
  match output_locations m f with
  | [] => 0
  | locs => 1 + fold_right N.max 0 locs
  end.

(** parameters of a vertex entry that are vertex input structs *)
Definition struct_params (m : module) (f : func) : list arg :=
  filter (fun a => match a_binding a, get_inner m (a_ty a) with
                   | None, Some (TStruct _ _) => true
                   | _, _ => false
                   end) (f_args f).

Definition of_stage (s : stage) (m : module) : list entry :=
  filter (fun e => stage_eqb (e_stage e) s) (entries m).

Definition const_of (e : entry) : string := "ENTRY_" +s+ e_upper e.

Definition compute_ok (e : entry) (c : out_compute) : bool :=
  String.eqb (cp_wg_const c) (e_upper e +s+ "_WORKGROUP_SIZE")
  && n3_eqb (cp_wg c) (e_wg e)
  && String.eqb (cp_fn c) ("create_" +s+ e_name e +s+ "_pipeline")
  && String.eqb (cp_entry_lit c) (e_name e)
  && String.eqb (cp_label c) ("Compute Pipeline " +s+ e_name e).

Definition fragment_ok (m : module) (e : entry) (f : out_fentry) : bool :=
  String.eqb (fe_fn f) (e_name e +s+ "_entry")
  && String.eqb (fe_const f) (const_of e)
  && (fe_targets f =? needed_targets m (e_fn e))
  && (fe_n f =? fe_targets f).

Definition vertex_ok (m : module) (e : entry) (v : out_ventry) : bool :=
  String.eqb (ve_fn v) (e_name e +s+ "_entry")
  && String.eqb (ve_const v) (const_of e)
  && (ve_n v =? N.of_nat (length (struct_params m (e_fn e))))
  && Nat.eqb (length (ve_buffers v)) (length (struct_params m (e_fn e)))
  && Nat.eqb (length (ve_params v)) (length (struct_params m (e_fn e))).

Fixpoint forallb2 {A B} (f : A -> B -> bool) (l : list A) (l' : list B) : bool :=
  match l, l' with
  | [], [] => true
  | x :: t, y :: t' => f x y && forallb2 f t t'
  | _, _ => false
  end.

Definition nonempty {A} (l : list A) : bool := match l with [] => false | _ => true end.

Definition C14_ok (m : module) (o : out) : bool :=
  list_eqb ss_eqb (o_entry_consts o) (map (fun e => (const_of e, e_name e)) (entries m))
  && forallb2 compute_ok (of_stage Compute m) (o_compute o)
  && forallb2 (fragment_ok m) (of_stage Fragment m) (o_fentries o)
  && forallb2 (vertex_ok m) (of_stage Vertex m) (o_ventries o)
  && Bool.eqb (o_vertex_tpl o) (nonempty (of_stage Vertex m))
  && Bool.eqb (o_fragment_tpl o) (nonempty (of_stage Fragment m)).

(** ** The statement over what the helpers do ([Spec/Obs.v]) *)
(** names / snake-case names of the struct parameters of an entry point, in parameter order *)
Definition struct_param_tys (m : module) (f : func) : list ty :=
  flat_map (fun a => match a_binding a, get_ty m (a_ty a) with
                     | None, Some t => match t_inner t with TStruct _ _ => [t] | _ => [] end
                     | _, _ => []
                     end) (f_args f).
Definition opt_str (o : option string) : string := match o with Some s => s | None => "" end.
Definition struct_param_names (m : module) (f : func) : list string := map (fun t => opt_str (t_name t)) (struct_param_tys m f).
Definition struct_param_snakes (m : module) (f : func) : list string := map (fun t => opt_str (t_snake t)) (struct_param_tys m f).

Fixpoint enumerate (l : list string) (i : N) : list (string * N) :=
  match l with [] => [] | x :: t => (x, i) :: enumerate t (i + 1) end.

Fixpoint str_distinct (l : list string) : bool :=
  match l with
  | [] => true
  | x :: t => negb (existsb (String.eqb x) t) && str_distinct t
  end.

(** no two entry points have names equal up to case (the exported constants would clash: a listed finding of C01) *)
Definition entry_consts_distinct (m : module) : bool := str_distinct (map e_upper (entries m)).
(** no vertex entry takes two struct parameters whose snake-case names coincide (two parameters of one name) *)
Definition vertex_params_distinct (m : module) : bool :=
  forallb (fun e => str_distinct (struct_param_snakes m (e_fn e))) (of_stage Vertex m).
