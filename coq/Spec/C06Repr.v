(** C06, "under the selected representation": which family of Rust types a field is written in.
    Plain arrays: no glam / nalgebra type anywhere. Glam: a vector / matrix member is a glam type exactly when glam has
    a type of that shape (one of the 18 glam types the output can name, [glam_shape]) and falls back to plain arrays
    otherwise. Nalgebra: every vector is an SVector, every matrix an SMatrix. Arrays are arrays of the element's
    representation; scalars, atomics and structs leave no choice. Together with [denote] = the WGSL shape (C06Spec) this
    fixes the field type. *)
From W2W Require Import Out StructSpec C06Spec.
Local Open Scope N_scope.

Definition all_glam : list glam_ty :=
  [GVec2; GVec3; GVec4; GDVec2; GDVec3; GDVec4; GUVec2; GUVec3; GUVec4; GIVec2; GIVec3; GIVec4;
   GMat2; GMat3; GMat4; GDMat2; GDMat3; GDMat4].
(** glam has an equivalent of shape [s] *)
Definition glam_has (s : shape) : bool := existsb (fun g => shape_eqb (glam_shape g) s) all_glam.

Fixpoint plain (r : rust_ty) : bool :=
  match r with RPrim _ => true | RArr e _ => plain e | _ => false end.
Definition is_glam (r : rust_ty) : bool := match r with RGlam _ => true | _ => false end.
Definition is_nalgebra (r : rust_ty) : bool := match r with RNalgV _ _ | RNalgM _ _ _ => true | _ => false end.

Definition leaf_repr_ok (mv : mv_types) (s : shape) (r : rust_ty) : bool :=
  match mv with
  | MVRust => plain r
  | MVGlam => if glam_has s then is_glam r else plain r
  | MVNalgebra => is_nalgebra r
  end.

Fixpoint repr_ok (mv : mv_types) (fuel : nat) (m : module) (t : ty) (r : rust_ty) : bool :=
  match fuel with
  | O => false
  | S k =>
      match t_inner t with
      | TVector _ _ | TMatrix _ _ _ =>
          match wgsl_shape (S k) m t with Some s => leaf_repr_ok mv s r | None => false end
      | TArray base (ASConstant _) _ =>
          match r, get_ty m base with
          | RArr e _, Some bt => repr_ok mv k m bt e
          | _, _ => false
          end
      | _ => true
      end
  end.

Definition member_repr_ok (m : module) (w : options) (mem : member) (f : out_field) : bool :=
  match get_ty m (m_ty mem) with
  | Some t =>
      let fuel := S (length (types m)) in
      match t_inner t with
      | TArray base ASDynamic _ =>
          match fd_ty f, get_ty m base with
          | RVec e, Some bt => repr_ok (w_mv w) fuel m bt e
          | _, _ => false
          end
      | _ => repr_ok (w_mv w) fuel m t (fd_ty f)
      end
  | None => false
  end.

Definition struct_repr_ok (m : module) (w : options) (e : nat * option string * list member) (s : out_struct) : bool :=
  forallb2 (member_repr_ok m w) (user_members (snd e)) (s_fields s).

Definition C06_repr_ok (m : module) (w : options) (o : out) : bool :=
  forallb2 (struct_repr_ok m w) (emitted_structs m) (o_structs o).
