(** Model of the parts of wgpu-core 24.0.5 that judge the generated layouts:
    [Resource::check_binding_use] (validation.rs:394-564), the visibility / missing / filtering rules of
    [Interface::check_stage] (validation.rs:1052-1150) and the unconditional per-entry rules of
    [Device::create_bind_group_layout] (device/resource.rs:1715-1880) under the documented feature
    assumption (all features enabled). Modelled, not verified: validated on every case against the real
    [wgpu_core::validation::Interface::check_stage]. *)
From W2W Require Import Out.
Local Open Scope N_scope.

(** the shader-side view of a bound variable ([Interface::new]) *)
Inductive res_ty :=
| ResBuffer
| ResSampler (comparison : bool)
| ResTexture (dim : image_dim) (arrayed : bool) (class : image_class).

Definition resource_ty (i : type_inner) : res_ty :=
  match i with
  | TImage d a c => ResTexture d a c
  | TSampler c => ResSampler c
  | _ => ResBuffer
  end.

Definition access_eqb (a b : access) : bool :=
  Bool.eqb (a_load a) (a_load b) && Bool.eqb (a_store a) (a_store b) && Bool.eqb (a_atomic a) (a_atomic b).

Definition space_eqb (a b : address_space) : bool :=
  match a, b with
  | SpFunction, SpFunction | SpPrivate, SpPrivate | SpWorkGroup, SpWorkGroup | SpUniform, SpUniform
  | SpHandle, SpHandle | SpPushConstant, SpPushConstant => true
  | SpStorage x, SpStorage y => access_eqb x y
  | _, _ => false
  end.

Definition dim_eqb (a b : image_dim) : bool :=
  match a, b with D1, D1 | D2, D2 | D3, D3 | Cube, Cube => true | _, _ => false end.

Definition class_eqb (a b : image_class) : bool :=
  match a, b with
  | ICSampled k m, ICSampled k' m' => scalar_kind_eqb k k' && Bool.eqb m m'
  | ICDepth m, ICDepth m' => Bool.eqb m m'
  | ICStorage f a, ICStorage f' a' => sf_eqb f f' && access_eqb a a'
  | _, _ => false
  end.

(** the address space a buffer layout entry stands for *)
Definition space_of_buf (t : buf_ty) : address_space :=
  match t with
  | BufUniform => SpUniform
  | BufStorage ro => SpStorage (mkAccess true (negb ro) false)
  end.

Definition view_dim_ok (d : image_dim) (arrayed : bool) (v : view_dim) : bool :=
  if arrayed then match d, v with D2, VD2Array | Cube, VDCubeArray => true | _, _ => false end
  else match d, v with D1, VD1 | D2, VD2 | D3, VD3 | Cube, VDCube => true | _, _ => false end.

Definition access_of_tex (a : tex_access) : access :=
  match a with
  | TAReadOnly => mkAccess true false false
  | TAWriteOnly => mkAccess false true false
  | TAReadWrite => mkAccess true true false
  | TAAtomic => mkAccess true true true
  end.

(** the image class a texture layout entry stands for *)
Definition class_of_entry (t : binding_ty) : option image_class :=
  match t with
  | BTTexture s _ multi =>
      Some (match s with
            | STFloat _ => ICSampled SkFloat multi
            | STSint => ICSampled SkSint multi
            | STUint => ICSampled SkUint multi
            | STDepth => ICDepth multi
            end)
  | BTStorageTexture a f _ => Some (ICStorage f (access_of_tex a))
  | _ => None
  end.

(** [check_binding_use] *)
Definition check_binding_use (r : res_ty) (sp : address_space) (e : binding_ty) : bool :=
  match r with
  | ResBuffer =>
      match e with
      | BTBuffer t _ _ => space_eqb sp (space_of_buf t)      (* min_binding_size is None: no size check *)
      | _ => false
      end
  | ResSampler comparison =>
      match e with
      | BTSampler s => Bool.eqb (sampler_ty_eqb s SComparison) comparison
      | _ => false
      end
  | ResTexture d arrayed class =>
      match e with
      | BTTexture _ v _ | BTStorageTexture _ _ v =>
          view_dim_ok d arrayed v
          && match class_of_entry e with Some c => class_eqb class c | None => false end
      | _ => false
      end
  end.

(** texture / sampler pair rule of [check_stage] *)
Definition filtering_ok (tex smp : binding_ty) : bool :=
  match smp, tex with
  | BTSampler SFiltering, BTTexture (STFloat false) _ _ => false
  | BTSampler SFiltering, BTTexture STSint _ _ => false
  | BTSampler SFiltering, BTTexture STUint _ _ => false
  | BTSampler _, BTTexture _ _ _ => true
  | _, _ => false
  end.

(** per-entry rules of [create_bind_group_layout] that do not depend on optional features *)
Definition bgl_entry_ok (e : out_entry) : bool :=
  oe_count_none e
  && match oe_ty e with
     | BTTexture (STFloat true) _ true => false                 (* SampleTypeFloatFilterableBindingMultisampled *)
     | BTTexture _ v true => view_dim_eqb v VD2                 (* Non2DMultisampled *)
     | BTStorageTexture _ _ v => negb (view_dim_eqb v VDCube || view_dim_eqb v VDCubeArray)
     | _ => true
     end.
