(** C02, layout creation: which optional device feature an emitted entry needs. wgpu-core's
    [create_bind_group_layout] (resource.rs 1857-1868) requires VERTEX_WRITABLE_STORAGE for an entry that is writable
    storage (a read-write storage buffer, a storage texture with write / read-write / atomic access) AND visible to the
    vertex stage. A shader whose vertex stage really writes storage needs that feature anyway (naga's validator demands
    it); the generated layout must not need it for any other shader. *)
From W2W Require Import Out C03Spec.
Local Open Scope N_scope.

Definition writable_ty (t : binding_ty) : bool :=
  match t with
  | BTBuffer (BufStorage ro) _ _ => negb ro
  | BTStorageTexture TAReadOnly _ _ => false
  | BTStorageTexture _ _ _ => true
  | _ => false
  end.

(** the entry needs the feature only if a vertex entry point of the shader statically accesses the variable *)
Definition vertex_writable_ok (m : module) (grp : N) (e : out_entry) : bool :=
  if st_v (oe_vis e) && writable_ty (oe_ty e)
  then match find_global m grp (oe_binding e) with
       | Some h => existsb (fun en => stage_eqb (e_stage en) Vertex && static_access_b m en h) (entries m)
       | None => false
       end
  else true.

Definition C02_features_ok (m : module) (o : out) : bool :=
  forallb (fun og => forallb (vertex_writable_ok m (og_no og)) (og_entries og)) (groups_of o).
