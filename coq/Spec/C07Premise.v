(** C07 - premises of the layout composition, evaluated on every case: the structs taken by vertex entry points
    are emitted, and their non-builtin members are 32/64-bit numeric scalars or vectors with distinct names
    (WGSL's rules for vertex inputs, enforced by naga's validator). *)
From W2W Require Import Out StructSpec RustLayout C07Spec.
Local Open Scope N_scope.

Definition vertex_leaf_ty (t : ty) : bool :=
  match t_inner t with
  | TScalar s | TVector _ s =>
      ((sw s =? 4) || (sw s =? 8)) && match sk s with SkBool => false | _ => true end
  | _ => false
  end.

Definition vertex_leaf (m : module) (mem : member) : bool :=
  match get_ty m (m_ty mem) with Some t => vertex_leaf_ty t | None => false end.

Definition struct_param_handles (m : module) (f : func) : list nat :=
  flat_map (fun a => match a_binding a, get_ty m (a_ty a) with
                     | None, Some t =>
                         match t_inner t, t_name t, t_snake t with
                         | TStruct _ _, Some _, Some _ => [a_ty a]
                         | _, _, _ => []
                         end
                     | _, _ => []
                     end) (f_args f).

Definition vertex_struct_ok (m : module) (h : nat) : bool :=
  emit_b m h &&
  match get_ty m h with
  | Some t =>
      match t_inner t with
      | TStruct ms _ =>
          forallb (vertex_leaf m) (user_members ms)
          && str_nodup (flat_map (fun mem => match m_name mem with Some n => [n] | None => [] end) (user_members ms))
      | _ => false
      end
  | None => false
  end.

Definition wf_vertex_inputs (m : module) : bool :=
  forallb (fun e => forallb (vertex_struct_ok m) (struct_param_handles m (e_fn e))) (vertex_entries m).

(** the class of the known finding KF-C07-struct-not-emitted / KF-C01-vertex-struct-not-emitted, stated on the SHADER
    (its cause) rather than on the output (its symptom): a struct parameter of a vertex entry point that the emit rule of
    C08 excludes - i.e. one that is also an entry point result and not reachable from a module-scope variable. A struct
    missing from the output for any other reason is a violation, not this finding. *)
Definition kf_vertex_struct_is_result (m : module) : bool :=
  existsb (fun e => existsb (fun h => negb (emit_b m h)) (struct_param_handles m (e_fn e))) (vertex_entries m).
