(** What the generated bind group code DOES, read off the templates of bindgroup.rs / lib.rs as functions of the
    abstract output: the descriptors handed to the device and the [set_bind_group] calls made on a pass.
    (Pass kind does not matter: the three [SetBindGroup] impls forward [index, bind_group, offsets] unchanged -
    fixed template text, compared token for token in C01 and executed on the recording shim.)

    Index-named items are resolved the way rustc resolves them: [LAYOUT_DESCRIPTOR<j>] is the constant defined
    by the group whose descriptor carries number [j]; field [bind_group<a>] of [BindGroups] (parameter
    [bind_group<a>] of [set_bind_groups]) has type [BindGroup<b>] as declared, and calling [.set(pass)] on it runs
    the [set] of the group numbered [b]. *)
From W2W Require Import Out C04Spec.
Local Open Scope N_scope.

Definition groups_of_bg (bg : out_bind_groups) : list out_group := bg_groups bg.

Definition find_group (bg : out_bind_groups) (n : N) : option out_group :=
  find (fun g => og_no g =? n) (bg_groups bg).
(** the group that defines [const LAYOUT_DESCRIPTOR<j>] *)
Definition find_desc (bg : out_bind_groups) (j : N) : option out_group :=
  find (fun g => og_desc_no g =? j) (bg_groups bg).

(** [BindGroup<N>::from_bindings(device, bindings)]: the bind group descriptor handed to the device:
    the binding indices of the layout it was created with, and per entry (binding index, the FIELD of
    [bindings] whose value is passed, resource kind) *)
Definition obs_from_bindings (bg : out_bind_groups) (og : out_group) : option (list N * list (N * string * res_kind)) :=
  match find_desc bg (og_from_desc_no og) with
  | Some d => Some (map oe_binding (og_entries d), map (fun e => (be_binding e, be_field e, be_kind e)) (og_bind_entries og))
  | None => None                                    (* the constant does not exist: rustc rejects the module *)
  end.

(** [BindGroup<N>::set(&self, pass)]: one call [pass.set_bind_group(index, &self.0, &[])]: (index, whose bind group) *)
Definition obs_set (og : out_group) : N * N := (og_set_index og, og_no og).

Fixpoint omapM {A B} (f : A -> option B) (l : list A) : option (list B) :=
  match l with
  | [] => Some []
  | x :: t => match f x, omapM f t with Some y, Some ys => Some (y :: ys) | _, _ => None end
  end.

(** [x.set(pass)] for each listed field / parameter [bind_group<a>], declared with type [BindGroup<b>] *)
Definition obs_set_via (bg : out_bind_groups) (decls : list (N * N)) (calls : list N) : option (list (N * N)) :=
  omapM (fun a => match find (fun p => fst p =? a) decls with
                  | Some p => option_map obs_set (find_group bg (snd p))
                  | None => None
                  end) calls.
Definition obs_bindgroups_set (bg : out_bind_groups) := obs_set_via bg (bg_struct_fields bg) (bg_struct_set bg).
Definition obs_set_bind_groups (bg : out_bind_groups) := obs_set_via bg (bg_fn_params bg) (bg_fn_set bg).

(** [create_pipeline_layout]: per slot, the binding indices of the layout [BindGroup<n>::get_bind_group_layout] creates *)
Definition obs_pipeline_layout (o : out) : option (list (N * list N)) :=
  match o_bind_groups o with
  | None => match o_pl_groups o with [] => Some [] | _ => None end
  | Some bg =>
      omapM (fun n => match find_group bg n with
                      | Some g => match find_desc bg (og_get_layout_desc_no g) with
                                  | Some d => Some (og_no d, map oe_binding (og_entries d))
                                  | None => None
                                  end
                      | None => None
                      end) (o_pl_groups o)
  end.

(** the variables of group [g] that have a name and a resource kind (all of them, for accepted modules) *)
Definition named_vars (m : module) (g : N) : list (N * string * res_kind) :=
  flat_map (fun v => match v with (Some n, Some k, b) => [(b, n, k)] | _ => [] end) (group_vars m g).
