(** What the generated bind group code DOES, read off the templates of bindgroup.rs / lib.rs as functions of the
    abstract output: the descriptors handed to the device and the [set_bind_group] calls made on a pass.
    (Pass kind does not matter: the three [SetBindGroup] impls forward [index, bind_group, offsets] unchanged -
    fixed template text, compared token for token in C01 and executed on the recording shim.)

    Index-named items are resolved the way rustc resolves them: [LAYOUT_DESCRIPTOR<j>] is the constant defined
    by the group whose descriptor carries number [j]; field [bind_group<a>] of [BindGroups] (parameter
    [bind_group<a>] of [set_bind_groups]) has type [BindGroup<b>] as declared, and calling [.set(pass)] on it runs
    the [set] of the group numbered [b]. *)
From W2W Require Import Out C04Spec.
Local Open Scope N_scope.

Definition groups_of_bg (bg : out_bind_groups) : list out_group := bg_groups bg.

Definition find_group (bg : out_bind_groups) (n : N) : option out_group :=
  find (fun g => og_no g =? n) (bg_groups bg).
(** the group that defines [const LAYOUT_DESCRIPTOR<j>] *)
Definition find_desc (bg : out_bind_groups) (j : N) : option out_group :=
  find (fun g => og_desc_no g =? j) (bg_groups bg).

(** [BindGroup<N>::from_bindings(device, bindings)]: the bind group descriptor handed to the device:
    the binding indices of the layout it was created with, and per entry (binding index, the FIELD of
    [bindings] whose value is passed, resource kind) *)
Definition obs_from_bindings (bg : out_bind_groups) (og : out_group) : option (list N * list (N * string * res_kind)) :=
  match find_desc bg (og_from_desc_no og) with
  | Some d => Some (map oe_binding (og_entries d), map (fun e => (be_binding e, be_field e, be_kind e)) (og_bind_entries og))
  | None => None                                    (* the constant does not exist: rustc rejects the module *)
  end.

(** [BindGroup<N>::set(&self, pass)]: one call [pass.set_bind_group(index, &self.0, &[])]: (index, whose bind group) *)
Definition obs_set (og : out_group) : N * N := (og_set_index og, og_no og).

Fixpoint omapM {A B} (f : A -> option B) (l : list A) : option (list B) :=
  match l with
  | [] => Some []
  | x :: t => match f x, omapM f t with Some y, Some ys => Some (y :: ys) | _, _ => None end
  end.

(** [x.set(pass)] for each listed field / parameter [bind_group<a>], declared with type [BindGroup<b>] *)
Definition obs_set_via (bg : out_bind_groups) (decls : list (N * N)) (calls : list N) : option (list (N * N)) :=
  omapM (fun a => match find (fun p => fst p =? a) decls with
                  | Some p => option_map obs_set (find_group bg (snd p))
                  | None => None
                  end) calls.
Definition obs_bindgroups_set (bg : out_bind_groups) := obs_set_via bg (bg_struct_fields bg) (bg_struct_set bg).
Definition obs_set_bind_groups (bg : out_bind_groups) := obs_set_via bg (bg_fn_params bg) (bg_fn_set bg).

(** [create_pipeline_layout]: per slot, the binding indices of the layout [BindGroup<n>::get_bind_group_layout] creates *)
Definition obs_pipeline_layout (o : out) : option (list (N * list N)) :=
  match o_bind_groups o with
  | None => match o_pl_groups o with [] => Some [] | _ => None end
  | Some bg =>
      omapM (fun n => match find_group bg n with
                      | Some g => match find_desc bg (og_get_layout_desc_no g) with
                                  | Some d => Some (og_no d, map oe_binding (og_entries d))
                                  | None => None
                                  end
                      | None => None
                      end) (o_pl_groups o)
  end.

(** the variables of group [g] that have a name and a resource kind (all of them, for accepted modules) *)
Definition named_vars (m : module) (g : N) : list (N * string * res_kind) :=
  flat_map (fun v => match v with (Some n, Some k, b) => [(b, n, k)] | _ => [] end) (group_vars m g).

(** * C13: the push constant ranges of the descriptor [create_pipeline_layout] hands to the device.
    [stages: PUSH_CONSTANT_STAGES] is resolved like rustc does: the value of the exported constant (no such constant:
    the module does not compile). A range written with anything else than that constant has no reading here. *)
Definition obs_pc_ranges (o : out) : option (list (stages * N * N)) :=
  omapM (fun r => if pr_stages_const r
                  then option_map (fun s => (s, pr_start r, pr_end r)) (o_pc_stages o)
                  else None) (o_pc_ranges o).

(** * C14: what the entry point helpers do.
    [ENTRY_X] used in a helper is the value of the one constant of that name (none or several: rustc rejects). *)
Definition const_value (o : out) (c : string) : option string :=
  match filter (fun p => String.eqb (fst p) c) (o_entry_consts o) with
  | [p] => Some (snd p)
  | _ => None
  end.

(** [create_<e>_pipeline(device)]: (function name, label and entry point of the descriptor handed to the device);
    layout and module are the module's own [create_pipeline_layout(device)] / [create_shader_module(device)]
    (fixed template text). *)
Definition obs_compute (c : out_compute) : string * string * string := (cp_fn c, cp_label c, cp_entry_lit c).
(** [pub const <E>_WORKGROUP_SIZE: [u32; 3]] *)
Definition obs_workgroup (c : out_compute) : string * (N * N * N) := (cp_wg_const c, cp_wg c).

(** [<e>_entry(targets: [Option<ColorTargetState>; k]) -> FragmentEntry<n>]: (function name, entry point, number of
    targets); [k <> n] does not type check. *)
Definition obs_fragment_entry (o : out) (f : out_fentry) : option (string * string * N) :=
  if fe_targets f =? fe_n f
  then option_map (fun e => (fe_fn f, e, fe_n f)) (const_value o (fe_const f))
  else None.

Fixpoint index_of (s : string) (l : list string) (i : N) : option N :=
  match l with
  | [] => None
  | x :: t => if String.eqb x s then Some i else index_of s t (i + 1)
  end.

Fixpoint str_nodup_b (l : list string) : bool :=
  match l with
  | [] => true
  | x :: t => negb (existsb (String.eqb x) t) && str_nodup_b t
  end.

(** [<e>_entry(p1: VertexStepMode, .., pk: VertexStepMode) -> VertexEntry<n>]: (function name, entry point, per buffer in
    order: the struct whose [vertex_buffer_layout] is called and the POSITION of the step mode parameter it is given).
    Two parameters of one name, an unknown parameter, or [n] different from the number of buffers do not compile. *)
Definition obs_vertex_entry (o : out) (v : out_ventry) : option (string * string * list (string * N)) :=
  if str_nodup_b (ve_params v) && (N.of_nat (length (ve_buffers v)) =? ve_n v)
  then match const_value o (ve_const v), omapM (fun b => option_map (fun i => (fst b, i)) (index_of (snd b) (ve_params v) 0)) (ve_buffers v) with
       | Some e, Some bs => Some (ve_fn v, e, bs)
       | _, _ => None
       end
  else None.
