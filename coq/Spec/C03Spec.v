(** C03 - binding visibility equals exactly the stages that statically use the
    variable. Relational statement ([static_access]) and an executable checker
    ([C03_ok]) over an arbitrary output. Does not mention [gen]. *)
From W2W Require Import Out.

(** ** Static access (WGSL: "statically accessed") *)

(** a call statement to [f] occurs somewhere in the statement tree *)
Inductive call_in : stmt -> nat -> Prop :=
| ci_call f : call_in (SCall f) f
| ci_block b s f : In s b -> call_in s f -> call_in (SBlock b) f
| ci_if_accept a r s f : In s a -> call_in s f -> call_in (SIf a r) f
| ci_if_reject a r s f : In s r -> call_in s f -> call_in (SIf a r) f
| ci_switch cs c s f : In c cs -> In s c -> call_in s f -> call_in (SSwitch cs) f
| ci_loop_body b c s f : In s b -> call_in s f -> call_in (SLoop b c) f
| ci_loop_continuing b c s f : In s c -> call_in s f -> call_in (SLoop b c) f.

(** function [f] calls the arena function [c]: by a call statement anywhere in its body, or by a
    value-returning call inside an expression *)
Definition fn_calls (f : func) (c : nat) : Prop :=
  (exists s, In s (f_body f) /\ call_in s c) \/ In (ECallResult c) (f_exprs f).

(** function [f] refers to global variable [g] *)
Definition fn_refs (f : func) (g : nat) : Prop := In (EGlobal g) (f_exprs f).

(** chains of calls between arena functions *)
Inductive hreach (m : module) : nat -> nat -> Prop :=
| hr_refl c g : get_func m c = Some g -> hreach m c c
| hr_step c g d x : get_func m c = Some g -> fn_calls g d -> hreach m d x -> hreach m c x.

(** entry point [e] statically accesses global [g]: directly or through any chain of calls *)
Definition static_access (m : module) (e : entry) (g : nat) : Prop :=
  fn_refs (e_fn e) g \/
  exists c x f, fn_calls (e_fn e) c /\ hreach m c x /\ get_func m x = Some f /\ fn_refs f g.

(** the stages owning an entry point that statically accesses [g] *)
Definition uses_stage (m : module) (g : nat) (s : stage) : Prop :=
  exists e, In e (entries m) /\ e_stage e = s /\ static_access m e g.

(** ** Executable version: bottom-up table over the function arena
    (callees precede callers, so one pass in arena order suffices) *)
Fixpoint stmt_calls_l (s : stmt) : list nat :=
  let blk := fix blk (l : list stmt) : list nat :=
    match l with [] => [] | x :: t => stmt_calls_l x ++ blk t end in
  match s with
  | SBlock b => blk b
  | SIf a r => blk a ++ blk r
  | SSwitch cs =>
      (fix cases (l : list (list stmt)) : list nat :=
         match l with [] => [] | c :: t => blk c ++ cases t end) cs
  | SLoop b c => blk b ++ blk c
  | SCall f => [f]
  | SOther => []
  end.

Definition callees_l (f : func) : list nat :=
  flat_map stmt_calls_l (f_body f)
  ++ flat_map (fun e => match e with ECallResult c => [c] | _ => [] end) (f_exprs f).
Definition refs_l (f : func) : list nat :=
  flat_map (fun e => match e with EGlobal g => [g] | _ => [] end) (f_exprs f).

(** globals referenced by [f] or by anything it (transitively) calls, given the table for the
    functions before it *)
Definition refs_step (tbl : list (list nat)) (f : func) : list nat :=
  nodup Nat.eq_dec (refs_l f ++ flat_map (fun c => nth c tbl []) (callees_l f)).   (* as a set: deep call chains stay small *)

Definition refs_table (fs : list func) : list (list nat) :=
  fold_left (fun tbl f => tbl ++ [refs_step tbl f]) fs [].

Definition static_access_b (m : module) (e : entry) (g : nat) : bool :=
  existsb (Nat.eqb g) (refs_step (refs_table (functions m)) (e_fn e)).

Definition vis_spec (m : module) (g : nat) : stages :=
  fold_left (fun acc e => if static_access_b m e g then st_union acc (st_of (e_stage e)) else acc)
            (entries m) st_none.

(** ** The checker *)
Local Open Scope N_scope.

(** handle of the first global bound at (group, binding) *)
Fixpoint find_global_from (gs : list global) (h : nat) (grp b : N) : option nat :=
  match gs with
  | [] => None
  | g :: t =>
      match g_binding g with
      | Some (grp', b') => if (grp' =? grp) && (b' =? b) then Some h else find_global_from t (S h) grp b
      | None => find_global_from t (S h) grp b
      end
  end.
Definition find_global (m : module) (grp b : N) : option nat := find_global_from (globals m) 0 grp b.

Definition entry_vis_ok (m : module) (grp : N) (e : out_entry) : bool :=
  match find_global m grp (oe_binding e) with
  | Some h => st_eqb (oe_vis e) (vis_spec m h)
  | None => false
  end.

Definition groups_of (o : out) : list out_group :=
  match o_bind_groups o with Some bg => bg_groups bg | None => [] end.

Definition is_pc (g : global) : bool := match g_space g with SpPushConstant => true | _ => false end.
Fixpoint find_pc_from (gs : list global) (h : nat) : option nat :=
  match gs with
  | [] => None
  | g :: t => if is_pc g then Some h else find_pc_from t (S h)
  end.

(** push constant: when some entry point uses the variable the stage set is exactly those stages *)
Definition pc_vis_ok (m : module) (o : out) : bool :=
  match find_pc_from (globals m) 0 with
  | None => true
  | Some h =>
      let v := vis_spec m h in
      if st_eqb v st_none then true
      else match o_pc_stages o with Some s => st_eqb s v | None => false end
  end.

Definition C03_ok (m : module) (o : out) : bool :=
  forallb (fun og => forallb (entry_vis_ok m (og_no og)) (og_entries og)) (groups_of o)
  && pc_vis_ok m o.
