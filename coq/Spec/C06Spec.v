(** C06 - struct fields keep WGSL order, names and element types. *)
From W2W Require Import Out StructSpec.
Local Open Scope N_scope.

(** shape = scalar kind and width (as the Rust primitive of that kind/width) with element counts,
    outermost dimension first, in WGSL memory order (a matCxR is C columns of R components) *)
Inductive shape :=
| SScalar (p : rprim)
| SArr (n : N) (s : shape)
| SNamed (n : string)
| SVecOf (s : shape).

Fixpoint shape_eqb (a b : shape) : bool :=
  match a, b with
  | SScalar p, SScalar q => rprim_eqb p q
  | SArr n s, SArr k t => (n =? k) && shape_eqb s t
  | SNamed x, SNamed y => String.eqb x y
  | SVecOf s, SVecOf t => shape_eqb s t
  | _, _ => false
  end.

Definition prim_of (s : scalar) : option rprim :=
  match sk s, sw s with
  | SkSint, 1 => Some PI8 | SkUint, 1 => Some PU8
  | SkSint, 2 => Some PI16 | SkUint, 2 => Some PU16
  | SkSint, 4 => Some PI32 | SkUint, 4 => Some PU32
  | SkFloat, 4 => Some PF32 | SkFloat, 8 => Some PF64
  | SkBool, _ => Some PBool
  | _, _ => None
  end.

Fixpoint wgsl_shape (fuel : nat) (m : module) (t : ty) : option shape :=
  match fuel with
  | O => None
  | S k =>
      match t_inner t with
      | TScalar s | TAtomic s => option_map SScalar (prim_of s)
      | TVector n s => option_map (fun p => SArr (vsize_n n) (SScalar p)) (prim_of s)
      | TMatrix cols rows s =>
          option_map (fun p => SArr (vsize_n cols) (SArr (vsize_n rows) (SScalar p)))
                     (prim_of (mkScalar SkFloat (sw s)))
      | TArray base (ASConstant n) _ =>
          match get_ty m base with
          | Some bt => option_map (SArr n) (wgsl_shape k m bt)
          | None => None
          end
      | TStruct _ _ => option_map SNamed (t_name t)
      | _ => None
      end
  end.

Definition glam_shape (g : glam_ty) : shape :=
  let v n p := SArr n (SScalar p) in
  let mt n p := SArr n (SArr n (SScalar p)) in
  match g with
  | GVec2 => v 2 PF32 | GVec3 => v 3 PF32 | GVec4 => v 4 PF32
  | GDVec2 => v 2 PF64 | GDVec3 => v 3 PF64 | GDVec4 => v 4 PF64
  | GUVec2 => v 2 PU32 | GUVec3 => v 3 PU32 | GUVec4 => v 4 PU32
  | GIVec2 => v 2 PI32 | GIVec3 => v 3 PI32 | GIVec4 => v 4 PI32
  | GMat2 => mt 2 PF32 | GMat3 => mt 3 PF32 | GMat4 => mt 4 PF32
  | GDMat2 => mt 2 PF64 | GDMat3 => mt 3 PF64 | GDMat4 => mt 4 PF64
  end.

(** what a Rust field type denotes; nalgebra's SMatrix<T, R, C> is column-major: C columns of R *)
Fixpoint denote (t : rust_ty) : shape :=
  match t with
  | RPrim p => SScalar p
  | RArr t n => SArr n (denote t)
  | RGlam g => glam_shape g
  | RNalgV p n => SArr n (SScalar p)
  | RNalgM p r c => SArr c (SArr r (SScalar p))
  | RNamed s => SNamed s
  | RVec t => SVecOf (denote t)
  | ROption t => denote t
  end.

(** known finding: a non-square matrix under plain arrays (also the glam fall-back) is emitted as
    [[T; C]; R] - element counts transposed with respect to the WGSL column order *)
Fixpoint transpose_mats (s : shape) : shape :=
  match s with
  | SArr a (SArr b (SScalar p)) => SArr b (SArr a (SScalar p))
  | SArr n s' => SArr n (transpose_mats s')
  | SVecOf s' => SVecOf (transpose_mats s')
  | _ => s
  end.

Definition is_nonsquare_matrix (m : module) (fuel : nat) : ty -> bool :=
  (fix go (fuel : nat) (t : ty) : bool :=
     match fuel with
     | O => false
     | S k =>
         match t_inner t with
         | TMatrix cols rows _ => negb (vsize_n cols =? vsize_n rows)
         | TArray base _ _ => match get_ty m base with Some bt => go k bt | None => false end
         | _ => false
         end
     end) fuel.

(** the shape of a member: a runtime-sized array (only allowed as the type of the last member) is a
    growable vector of its element shape *)
Definition member_type_shape (m : module) (t : ty) : option shape * bool :=
  let fuel := S (length (types m)) in
  match t_inner t with
  | TArray base ASDynamic _ =>
      match get_ty m base with
      | Some bt => (option_map SVecOf (wgsl_shape fuel m bt), is_nonsquare_matrix m fuel bt)
      | None => (None, false)
      end
  | _ => (wgsl_shape fuel m t, is_nonsquare_matrix m fuel t)
  end.

Definition member_shape_ok (allow_kf : bool) (m : module) (w : options) (mem : member) (f : out_field) : bool :=
  match m_name mem, get_ty m (m_ty mem) with
  | Some n, Some t =>
      String.eqb (fd_name f) n
      && Bool.eqb (fd_runtime f) (is_rts m mem)
      && match member_type_shape m t with
         | (Some s, nonsq) =>
             shape_eqb (denote (fd_ty f)) s
             || (allow_kf && negb (match w_mv w with MVNalgebra => true | _ => false end)
                 && nonsq && shape_eqb (denote (fd_ty f)) (transpose_mats s))
         | (None, _) => false
         end
  | _, _ => false
  end.

Definition struct_fields_ok (allow_kf : bool) (m : module) (w : options) (names : list string)
    (e : nat * option string * list member) (s : out_struct) : bool :=
  forallb2 (member_shape_ok allow_kf m w) (user_members (snd e)) (s_fields s).

Fixpoint named_in (t : rust_ty) : list string :=
  match t with
  | RNamed s => [s]
  | RArr t _ | RVec t | ROption t => named_in t
  | _ => []
  end.

(** fields: order, names, runtime marker, element shapes *)
Definition C06_fields_ok (allow_kf : bool) (m : module) (w : options) (o : out) : bool :=
  let names := map s_name (o_structs o) in
  forallb2 (struct_fields_ok allow_kf m w names) (emitted_structs m) (o_structs o).

(** nested structs refer to an emitted struct of that name *)
Definition C06_named_ok (o : out) : bool :=
  let names := map s_name (o_structs o) in
  forallb (fun s => forallb (fun f => forallb (fun n => existsb (String.eqb n) names) (named_in (fd_ty f)))
                            (s_fields s)) (o_structs o).

Definition C06_ok (m : module) (w : options) (o : out) : bool := C06_fields_ok false m w o && C06_named_ok o.
(** the statement with the known-finding class tolerated *)
Definition C06_ok_kf (m : module) (w : options) (o : out) : bool := C06_fields_ok true m w o && C06_named_ok o.

(** the class of the known finding *)
Definition kf_nonsquare (m : module) (w : options) : bool :=
  negb (match w_mv w with MVNalgebra => true | _ => false end)
  && existsb (fun e => existsb (fun mem => match get_ty m (m_ty mem) with
                                           | Some t => snd (member_type_shape m t)
                                           | None => false
                                           end) (user_members (snd e))) (emitted_structs m).

(** * premise of the nested-struct clause *)
Fixpoint has_struct (m : module) (fuel : nat) (t : ty) : bool :=
  match fuel with
  | O => true
  | S k =>
      match t_inner t with
      | TStruct _ _ => true
      | TArray base _ _ => match get_ty m base with Some bt => has_struct m k bt | None => false end
      | _ => false
      end
  end.

(** premise (WGSL rule, evaluated per case): a struct that is emitted only because it is an entry point
    parameter (an IO struct) has no struct-typed members *)
Definition wf_io_structs (m : module) : bool :=
  forallb (fun e => host_shareable_b m (fst (fst e))
                    || forallb (fun mem => match get_ty m (m_ty mem) with
                                           | Some t => negb (has_struct m (S (length (types m))) t)
                                           | None => true
                                           end) (user_members (snd e)))
          (emitted_structs m).

