(** Shared definitions of the struct properties C05 / C06 / C08 / C09: which structs are
    host-shareable / emitted, written against the property texts (independent of [gen]). *)
From W2W Require Import Out.
Local Open Scope N_scope.

Definition children (i : type_inner) : list nat :=
  match i with
  | TPointer base _ => [base]
  | TArray base _ _ => [base]
  | TStruct members _ => map m_ty members
  | TBindingArray base _ => [base]
  | _ => []
  end.

(** [h] is reachable from type [c] through members, array elements, pointers *)
Inductive reach_ty (m : module) : nat -> nat -> Prop :=
| rty_here c i : get_inner m c = Some i -> reach_ty m c c
| rty_step c i d h : get_inner m c = Some i -> In d (children i) -> reach_ty m d h -> reach_ty m c h.

(** host-shareable: reachable from the type of a module-scope variable *)
Definition host_shareable (m : module) (h : nat) : Prop :=
  exists g, In g (globals m) /\ reach_ty m (g_ty g) h.

(** executable version (fuel = number of types; bases have smaller handles) *)
Fixpoint reach_ty_b (fuel : nat) (m : module) (c h : nat) : bool :=
  match get_inner m c with
  | None => false
  | Some i =>
      Nat.eqb c h ||
      match fuel with
      | O => false
      | S k => existsb (fun d => reach_ty_b k m d h) (children i)
      end
  end.
Definition host_shareable_b (m : module) (h : nat) : bool :=
  existsb (fun g => reach_ty_b (length (types m)) m (g_ty g) h) (globals m).

Definition is_entry_arg_b (m : module) (h : nat) : bool :=
  existsb (fun e => existsb (fun a => Nat.eqb (a_ty a) h) (f_args (e_fn e))) (entries m).
Definition is_entry_result_b (m : module) (h : nat) : bool :=
  existsb (fun e => match f_result (e_fn e) with Some (t, _) => Nat.eqb t h | None => false end) (entries m).

(** a struct a host program has to fill *)
Definition emit_b (m : module) (h : nat) : bool :=
  host_shareable_b m h || (is_entry_arg_b m h && negb (is_entry_result_b m h)).

Fixpoint indexed {A} (l : list A) (i : nat) : list (nat * A) :=
  match l with [] => [] | x :: t => (i, x) :: indexed t (S i) end.

(** the struct types to emit, in arena order: (handle, name, members) *)
Definition emitted_structs (m : module) : list (nat * option string * list member) :=
  flat_map (fun p => match t_inner (snd p) with
                     | TStruct ms _ => if emit_b m (fst p) then [(fst p, t_name (snd p), ms)] else []
                     | _ => []
                     end) (indexed (types m) 0).

Definition user_members (ms : list member) : list member :=
  filter (fun mem => match m_binding mem with Some (BBuiltIn _) => false | _ => true end) ms.

Definition is_rts (m : module) (mem : member) : bool :=
  match get_inner m (m_ty mem) with Some (TArray _ ASDynamic _) => true | _ => false end.

(** "ends in a runtime-sized array" *)
Definition ends_in_rts (m : module) (ms : list member) : bool :=
  match rev (user_members ms) with
  | last :: _ => is_rts m last
  | [] => false
  end.

Fixpoint str_nodup (l : list string) : bool :=
  match l with
  | [] => true
  | x :: t => negb (existsb (String.eqb x) t) && str_nodup t
  end.

Fixpoint forallb2 {A B} (f : A -> B -> bool) (l : list A) (l' : list B) : bool :=
  match l, l' with
  | [], [] => true
  | x :: t, y :: t' => f x y && forallb2 f t t'
  | _, _ => false
  end.

(** ** C08: exactly the host-visible structs, once each, in arena order *)
Definition C08_ok (m : module) (o : out) : bool :=
  forallb2 (fun e s => match snd (fst e) with Some n => String.eqb (s_name s) n | None => false end)
           (emitted_structs m) (o_structs o)
  && str_nodup (map s_name (o_structs o)).

(** ** C09: derives and repr follow the options *)
Definition expected_derives (w : options) (rts host : bool) : list string :=
  ["Debug"] ++ (if rts then [] else ["Copy"]) ++ ["Clone"; "PartialEq"]
  ++ (if (w_bm_host w && host) || (w_bm_vertex w && negb host) then ["bytemuck::Pod"; "bytemuck::Zeroable"] else [])
  ++ (if w_encase w && host then ["encase::ShaderType"] else [])
  ++ (if w_serde w then ["serde::Serialize"; "serde::Deserialize"] else []).

Definition struct_derives_ok (m : module) (w : options) (e : nat * option string * list member) (s : out_struct) : bool :=
  let '(h, _, ms) := e in
  let rts := ends_in_rts m ms in
  let host := host_shareable_b m h in
  list_eqb String.eqb (s_derives s) (expected_derives w rts host)
  && Bool.eqb (s_repr_c s) (negb rts)
  && Bool.eqb (match s_assert_size s with Some _ => true | None => false end) (w_bm_host w && host)
  && (if w_bm_host w && host then true else match s_assert_offsets s with [] => true | _ => false end).

Definition C09_ok (m : module) (w : options) (o : out) : bool :=
  forallb2 (struct_derives_ok m w) (emitted_structs m) (o_structs o).

(** ** C05: the compile-time checks of host-shareable structs carry the WGSL numbers *)
Definition struct_asserts_ok (m : module) (w : options) (e : nat * option string * list member) (s : out_struct) : bool :=
  let '(h, _, ms) := e in
  if w_bm_host w && host_shareable_b m h then
    match get_ty m h with
    | Some t =>
        option_eqb N.eqb (s_assert_size s) (Some (t_size t))
        && forallb2 (fun mem a => match m_name mem with
                                  | Some n => String.eqb (fst a) n && (snd a =? m_offset mem)
                                  | None => false
                                  end) (user_members ms) (s_assert_offsets s)
    | None => false
    end
  else true.

Definition C05_ok (m : module) (w : options) (o : out) : bool :=
  forallb2 (struct_asserts_ok m w) (emitted_structs m) (o_structs o).
