(** C07 - vertex buffer layouts mirror the vertex input structs. *)
From W2W Require Import Out RustLayout.
Local Open Scope N_scope.

(** wgpu::VertexFormat: (component type, component count) *)
Definition format_info (f : string) : option (rprim * N) :=
  let mk p n := Some (p, n) in
  if String.eqb f "Float32" then mk PF32 1 else if String.eqb f "Float32x2" then mk PF32 2
  else if String.eqb f "Float32x3" then mk PF32 3 else if String.eqb f "Float32x4" then mk PF32 4
  else if String.eqb f "Sint32" then mk PI32 1 else if String.eqb f "Sint32x2" then mk PI32 2
  else if String.eqb f "Sint32x3" then mk PI32 3 else if String.eqb f "Sint32x4" then mk PI32 4
  else if String.eqb f "Uint32" then mk PU32 1 else if String.eqb f "Uint32x2" then mk PU32 2
  else if String.eqb f "Uint32x3" then mk PU32 3 else if String.eqb f "Uint32x4" then mk PU32 4
  else if String.eqb f "Float64" then mk PF64 1 else if String.eqb f "Float64x2" then mk PF64 2
  else if String.eqb f "Float64x3" then mk PF64 3 else if String.eqb f "Float64x4" then mk PF64 4
  else if String.eqb f "Sint8x2" then mk PI8 2 else if String.eqb f "Sint8x4" then mk PI8 4
  else if String.eqb f "Uint8x2" then mk PU8 2 else if String.eqb f "Uint8x4" then mk PU8 4
  else if String.eqb f "Sint16x2" then mk PI16 2 else if String.eqb f "Sint16x4" then mk PI16 4
  else if String.eqb f "Uint16x2" then mk PU16 2 else if String.eqb f "Uint16x4" then mk PU16 4
  else None.

Definition format_size (f : string) : option N :=
  match format_info f with Some (p, n) => Some (n * prim_size p) | None => None end.

Definition scalar_prim (s : scalar) : option rprim :=
  match sk s, sw s with
  | SkSint, 1 => Some PI8 | SkUint, 1 => Some PU8 | SkSint, 2 => Some PI16 | SkUint, 2 => Some PU16
  | SkSint, 4 => Some PI32 | SkUint, 4 => Some PU32 | SkFloat, 4 => Some PF32 | SkFloat, 8 => Some PF64
  | _, _ => None
  end.

(** the (component type, count) of a WGSL vertex input type *)
Definition wgsl_components (i : type_inner) : option (rprim * N) :=
  match i with
  | TScalar s => option_map (fun p => (p, 1)) (scalar_prim s)
  | TVector n s => option_map (fun p => (p, vsize_n n)) (scalar_prim s)
  | _ => None
  end.

Definition pn_eqb (a b : rprim * N) : bool := rprim_eqb (fst a) (fst b) && (snd a =? snd b).

(** the @location members of a struct, in order *)
Definition location_members (ms : list member) : list (N * member) :=
  flat_map (fun mem => match m_binding mem with Some (BLocation l _) => [(l, mem)] | _ => [] end) ms.

Definition attr_ok (m : module) (sname : string) (lm : N * member) (a : out_vattr) : bool :=
  match m_name (snd lm), get_inner m (m_ty (snd lm)) with
  | Some fname, Some i =>
      String.eqb (va_field a) fname && String.eqb (va_struct a) sname && (va_location a =? fst lm)
      && match format_info (va_format a), wgsl_components i with
         | Some x, Some y => pn_eqb x y
         | _, _ => false
         end
  | _, _ => false
  end.

Fixpoint forallb2 {A B} (f : A -> B -> bool) (l : list A) (l' : list B) : bool :=
  match l, l' with
  | [], [] => true
  | x :: t, y :: t' => f x y && forallb2 f t t'
  | _, _ => false
  end.

(** struct parameters of a vertex entry: (struct name, snake name, members) in parameter order *)
Definition struct_params (m : module) (f : func) : list (string * string * list member) :=
  flat_map (fun a => match a_binding a, get_ty m (a_ty a) with
                     | None, Some t =>
                         match t_inner t, t_name t, t_snake t with
                         | TStruct ms _, Some n, Some sn => [(n, sn, ms)]
                         | _, _, _ => []
                         end
                     | _, _ => []
                     end) (f_args f).

Definition vertex_entries (m : module) : list entry :=
  filter (fun e => stage_eqb (e_stage e) Vertex) (entries m).

(** stable sort by name, then one per name (the first) *)
Definition leb_name (a b : string * string * list member) : bool :=
  match String.compare (fst (fst a)) (fst (fst b)) with Gt => false | _ => true end.
Fixpoint insert_by_name (x : string * string * list member) (l : list (string * string * list member)) :=
  match l with
  | [] => [x]
  | y :: t => if leb_name y x then y :: insert_by_name x t else x :: l
  end.
Definition sort_by_name l := fold_left (fun acc x => insert_by_name x acc) l [].
Fixpoint dedup_from (prev : string) (l : list (string * string * list member)) :=
  match l with
  | [] => []
  | y :: t => if String.eqb prev (fst (fst y)) then dedup_from prev t else y :: dedup_from (fst (fst y)) t
  end.
Definition dedup_by_name l :=
  match l with [] => [] | x :: t => x :: dedup_from (fst (fst x)) t end.

Definition vertex_input_structs (m : module) : list (string * string * list member) :=
  dedup_by_name (sort_by_name (flat_map (fun e => struct_params m (e_fn e)) (vertex_entries m))).

Definition vstruct_ok (m : module) (vi : string * string * list member) (v : out_vstruct) : bool :=
  let '(n, _, ms) := vi in
  String.eqb (vs_name v) n && String.eqb (vs_stride_of v) n && String.eqb (vs_attrs_of v) n
  && (vs_count v =? N.of_nat (length (location_members ms)))
  && forallb2 (attr_ok m n) (location_members ms) (vs_attrs v).

Definition ventry_ok (m : module) (e : entry) (v : out_ventry) : bool :=
  let ps := struct_params m (e_fn e) in
  list_eqb ss_eqb (ve_buffers v) (map (fun p => (fst (fst p), snd (fst p))) ps)
  && list_eqb String.eqb (ve_params v) (map (fun p => snd (fst p)) ps)
  && (ve_n v =? N.of_nat (length ps)).

(** structure: attribute tables and per-entry buffer lists *)
Definition C07_struct_ok (m : module) (o : out) : bool :=
  forallb2 (vstruct_ok m) (vertex_input_structs m) (o_vstructs o)
  && forallb2 (ventry_ok m) (vertex_entries m) (o_ventries o).

(** ** wgpu's vertex buffer layout rules (create_render_pipeline, resource.rs:2925-2975) on the Rust layout *)
Fixpoint index_of (n : string) (fs : list out_field) (i : nat) : option nat :=
  match fs with
  | [] => None
  | f :: t => if String.eqb (fd_name f) n then Some i else index_of n t (S i)
  end.

Definition attr_layout_ok (s : out_struct) (offs : list N) (stride : N) (a : out_vattr) : bool :=
  match index_of (va_field a) (s_fields s) 0, format_size (va_format a) with
  | Some i, Some fsz =>
      match nth_error offs i with
      | Some off => (off + fsz <=? stride) && (off mod (N.min fsz 4) =? 0)
      | None => false
      end
  | _, _ => false
  end.

Fixpoint ranges_disjoint (l : list (N * N)) : bool :=
  match l with
  | [] => true
  | (o1, s1) :: t => forallb (fun r => (o1 + s1 <=? fst r) || (fst r + snd r <=? o1)) t && ranges_disjoint t
  end.

Definition attr_range (s : out_struct) (offs : list N) (a : out_vattr) : N * N :=
  match index_of (va_field a) (s_fields s) 0, format_size (va_format a) with
  | Some i, Some fsz => (nth i offs 0, fsz)
  | _, _ => (0, 0)
  end.

Definition vstruct_layout_ok (o : out) (v : out_vstruct) : bool :=
  match List.find (fun s => String.eqb (s_name s) (vs_name v)) (o_structs o) with
  | None => false
  | Some s =>
      match struct_layout (struct_env (o_structs o) []) s with
      | Some (offs, size, _) =>
          (size mod 4 =? 0)
          && forallb (attr_layout_ok s offs size) (vs_attrs v)
          && ranges_disjoint (map (attr_range s offs) (vs_attrs v))
      | None => false
      end
  end.

Definition C07_layout_ok (o : out) : bool := forallb (vstruct_layout_ok o) (o_vstructs o).

Definition C07_ok (m : module) (o : out) : bool := C07_struct_ok m o && C07_layout_ok o.

(** known finding (shared with C01): the struct of a vertex parameter that is also an entry point result is
    not emitted at all *)
Definition kf_vertex_struct_missing (o : out) : bool :=
  negb (forallb (fun v => existsb (fun s => String.eqb (s_name s) (vs_name v)) (o_structs o)) (o_vstructs o)).
