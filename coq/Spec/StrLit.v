(** C16 at the level of characters: the text proc-macro2 prints for the SOURCE literal, and rustc's reading of it.

    [render_tok]: the characters of each escape token of [Escape.escape] (proc-macro2 [escape_utf8]: \t \n \r, escaped backslash and double quote,
    \0 \x00 and, through [char::escape_debug], \u{HEX} with lower-case digits and no leading zeros).
    [unescape]: rustc's string-literal unescaping (rustc_lexer::unescape), as far as [escape] can reach it: the
    simple escapes, \xHH (<= 0x7f), \u{HEX} (a scalar value), no unescaped quote, no bare CR; a backslash followed
    by anything else is an error (line continuations are never produced). The six-digit limit of \u{..} is not
    enforced by this model (a scalar value has at most six hex digits; not proved here). *)
From Coq Require Import List NArith Bool Lia Hexadecimal HexadecimalN.
From W2W Require Import Escape.
Import ListNotations.
Local Open Scope N_scope.

Fixpoint render_hex (u : Hexadecimal.uint) : list N :=
  match u with
  | Nil => []
  | D0 u => 48 :: render_hex u | D1 u => 49 :: render_hex u | D2 u => 50 :: render_hex u | D3 u => 51 :: render_hex u
  | D4 u => 52 :: render_hex u | D5 u => 53 :: render_hex u | D6 u => 54 :: render_hex u | D7 u => 55 :: render_hex u
  | D8 u => 56 :: render_hex u | D9 u => 57 :: render_hex u | Da u => 97 :: render_hex u | Db u => 98 :: render_hex u
  | Dc u => 99 :: render_hex u | Dd u => 100 :: render_hex u | De u => 101 :: render_hex u | Df u => 102 :: render_hex u
  end.

Definition render_tok (t : etok) : list N :=
  match t with
  | ERaw c => [c]
  | ETab => [92; 116] | ENl => [92; 110] | ECr => [92; 114] | EBackslash => [92; 92] | EDquote => [92; 34]
  | ENul => [92; 48] | EX00 => [92; 120; 48; 48]
  | EUni c => [92; 117; 123] ++ render_hex (N.to_hex_uint c) ++ [125]
  end.

(** the characters between the quotes of the printed literal *)
Definition literal_body (needs_unicode : N -> bool) (s : list N) : list N :=
  flat_map render_tok (escape needs_unicode s).

(** ** rustc's side *)
Definition hex_val (c : N) : option (Hexadecimal.uint -> Hexadecimal.uint) :=
  if c =? 48 then Some D0 else if c =? 49 then Some D1 else if c =? 50 then Some D2 else if c =? 51 then Some D3
  else if c =? 52 then Some D4 else if c =? 53 then Some D5 else if c =? 54 then Some D6 else if c =? 55 then Some D7
  else if c =? 56 then Some D8 else if c =? 57 then Some D9
  else if (c =? 97) || (c =? 65) then Some Da else if (c =? 98) || (c =? 66) then Some Db
  else if (c =? 99) || (c =? 67) then Some Dc else if (c =? 100) || (c =? 68) then Some Dd
  else if (c =? 101) || (c =? 69) then Some De else if (c =? 102) || (c =? 70) then Some Df
  else None.

Fixpoint parse_hex (l : list N) : Hexadecimal.uint * list N :=
  match l with
  | [] => (Nil, [])
  | c :: t => match hex_val c with
              | Some d => let '(u, r) := parse_hex t in (d u, r)
              | None => (Nil, l)
              end
  end.

Definition valid_scalar (c : N) : bool := (c <? 1114112) && negb ((55296 <=? c) && (c <=? 57343)).

Definition ocons (c : N) (o : option (list N)) : option (list N) := option_map (cons c) o.

Fixpoint unescape (fuel : nat) (l : list N) : option (list N) :=
  match fuel with
  | O => None
  | S k =>
      match l with
      | [] => Some []
      | c :: t =>
          if c =? 92 then
            match t with
            | e :: t' =>
                if e =? 110 then ocons 10 (unescape k t')
                else if e =? 114 then ocons 13 (unescape k t')
                else if e =? 116 then ocons 9 (unescape k t')
                else if e =? 92 then ocons 92 (unescape k t')
                else if e =? 34 then ocons 34 (unescape k t')
                else if e =? 39 then ocons 39 (unescape k t')
                else if e =? 48 then ocons 0 (unescape k t')
                else if e =? 120 then
                  match t' with
                  | h1 :: h2 :: t'' =>
                      match parse_hex [h1; h2] with
                      | (u, []) => let v := N.of_hex_uint u in if v <=? 127 then ocons v (unescape k t'') else None
                      | _ => None
                      end
                  | _ => None
                  end
                else if e =? 117 then
                  match t' with
                  | b :: t'' =>
                      if b =? 123 then
                        match parse_hex t'' with
                        | (Nil, _) => None
                        | (u, r) =>
                            match r with
                            | cl :: r' => if (cl =? 125) && valid_scalar (N.of_hex_uint u)
                                          then ocons (N.of_hex_uint u) (unescape k r') else None
                            | [] => None
                            end
                        end
                      else None
                  | [] => None
                  end
                else None
            | [] => None
            end
          else if c =? 34 then None          (* an unescaped quote ends the literal early *)
          else if c =? 13 then None          (* bare CR *)
          else ocons c (unescape k t)
      end
  end.
