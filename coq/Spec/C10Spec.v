(** C10 - encase + glam structs serialise every field at its WGSL offset. *)
From W2W Require Import Out RustLayout Layout StructSpec.
Local Open Scope N_scope.

Definition lenv := list (string * lty).
Fixpoint lenv_get (e : lenv) (n : string) : option lty :=
  match e with [] => None | (k, v) :: t => if String.eqb k n then Some v else lenv_get t n end.

(** the layout type encase 0.10 gives to a field type (impls for primitives, glam vectors / matrices via the
    `glam` feature, arrays, Vec as runtime-sized array, derived structs) *)
Fixpoint encase_lty (e : lenv) (t : rust_ty) : option lty :=
  match t with
  | RPrim PF32 | RPrim PI32 | RPrim PU32 => Some LScalar
  | RGlam g =>
      match g with
      | GVec2 | GIVec2 | GUVec2 => Some (LVec 2)
      | GVec3 | GIVec3 | GUVec3 => Some (LVec 3)
      | GVec4 | GIVec4 | GUVec4 => Some (LVec 4)
      | GMat2 => Some (LMat 2 2) | GMat3 => Some (LMat 3 3) | GMat4 => Some (LMat 4 4)
      | _ => None                                   (* no f64 impls in encase 0.10 *)
      end
  | RArr t n => option_map (fun x => LArr x n) (encase_lty e t)
  | RVec t => option_map LRts (encase_lty e t)
  | RNamed n => lenv_get e n
  | _ => None
  end.

Fixpoint encase_fields (e : lenv) (fs : list out_field) : option (list lty) :=
  match fs with
  | [] => Some []
  | f :: r =>
      match encase_lty e (fd_ty f), encase_fields e r with
      | Some x, Some xs => Some (x :: xs)
      | _, _ => None
      end
  end.

(** environment of the emitted structs, in order *)
Fixpoint encase_env (ss : list out_struct) (e : lenv) : lenv :=
  match ss with
  | [] => e
  | s :: t =>
      match encase_fields e (s_fields s) with
      | Some fs => encase_env t (e ++ [(s_name s, LStruct (s_name s) fs)])
      | None => encase_env t e
      end
  end.

Definition has_derive (s : out_struct) (d : string) : bool := existsb (String.eqb d) (s_derives s).

(** for every emitted struct deriving ShaderType whose WGSL type is in the glam-representable domain and has
    no builtin members: encase's layout type of the Rust struct = the WGSL layout type (hence same size,
    same offset of every field, same array strides, same matrix column strides) *)
Definition struct_encase_ok (m : module) (o : out) (e : nat * option string * list member) (s : out_struct) : bool :=
  if has_derive s "encase::ShaderType" then
    match get_ty m (fst (fst e)) with
    | Some t =>
        match wgsl_lty (S (length (types m))) m t with
        | Some l =>
            if Nat.eqb (length (user_members (snd e))) (length (snd e)) then
              match lenv_get (encase_env (o_structs o) []) (s_name s) with
              | Some l' => lty_eqb l' l
              | None => false
              end
            else true
        | None => true                     (* outside the domain (f64, non-32-bit scalars ...) *)
        end
    | None => false
    end
  else true.

Definition C10_ok (m : module) (o : out) : bool :=
  forallb2 (struct_encase_ok m o) (emitted_structs m) (o_structs o).

(** premise, per case: naga's member offsets / spans / strides are what the WGSL rules give for the layout
    type (ties [Layout.v] to naga's lowering; fails e.g. for explicit @size / @align attributes) *)
Definition type_layout_agrees (m : module) (t : ty) : bool :=
  match wgsl_lty (S (length (types m))) m t with
  | None => true
  | Some l =>
      (t_size t =? l_size l)
      && match t_inner t, l with
         | TStruct ms span, LStruct _ fs =>
             (span =? l_size l) && list_eqb N.eqb (map m_offset ms) (l_offsets fs 0)
         | TArray _ _ stride, LArr e _ | TArray _ _ stride, LRts e => stride =? l_stride e
         | _, _ => true
         end
  end.
Definition layout_agrees (m : module) : bool := forallb (type_layout_agrees m) (types m).

(** known-finding class: a non-square matrix under glam falls back to nested Rust arrays, which encase lays
    out as an array of arrays (no column padding) *)
Fixpoint has_nonsquare (l : lty) : bool :=
  match l with
  | LMat c r => negb (c =? r)
  | LArr t _ | LRts t => has_nonsquare t
  | LStruct _ fs => existsb has_nonsquare fs
  | _ => false
  end.
Definition kf_nonsquare_encase (m : module) : bool :=
  existsb (fun e => match get_ty m (fst (fst e)) with
                    | Some t => match wgsl_lty (S (length (types m))) m t with Some l => has_nonsquare l | None => false end
                    | None => false
                    end) (emitted_structs m).

(** premise (evaluated per case): a host-shareable struct has no @builtin members (those are dropped from the Rust
    struct, so the Rust struct could not mirror the WGSL layout) *)
Definition host_no_builtins (m : module) : bool :=
  forallb (fun e => negb (host_shareable_b m (fst (fst e)))
                    || forallb (fun mem => negb (is_builtin (m_binding mem))) (snd e)) (emitted_structs m).
