(** C12 - override constants: fields, keys, required / optional entries. *)
From W2W Require Import Out C15Spec.
Local Open Scope N_scope.

Definition ov_prim (m : module) (o : override) : option rprim :=
  match get_inner m (od_ty o) with
  | Some (TScalar s) =>
      match sk s, sw s with
      | SkBool, _ => Some PBool
      | SkSint, 4 => Some PI32
      | SkUint, 4 => Some PU32
      | SkFloat, 4 => Some PF32
      | SkFloat, 8 => Some PF64
      | _, _ => None
      end
  | _ => None
  end.

(** keyed by the decimal @id when one is given and by the name otherwise *)
Definition ov_key (o : override) : option string :=
  match od_id o with
  | Some i => Some (N_to_string i)
  | None => od_name o
  end.

Definition ov_field_ok (m : module) (o : override) (f : string * rust_ty) : bool :=
  match od_name o, ov_prim m o with
  | Some n, Some p =>
      String.eqb (fst f) n
      && rust_ty_eqb (snd f) (if od_has_init o then ROption (RPrim p) else RPrim p)
  | _, _ => false
  end.

Definition ov_entry_ok (m : module) (o : override) (e : out_ov_entry) : bool :=
  match od_name o, ov_key o, ov_prim m o with
  | Some n, Some k, Some p =>
      String.eqb (ove_key e) k && String.eqb (ove_field e) n
      && Bool.eqb (ove_is_bool e) (rprim_eqb p PBool)
  | _, _, _ => false
  end.

Fixpoint forallb2 {A B} (f : A -> B -> bool) (l : list A) (l' : list B) : bool :=
  match l, l' with
  | [], [] => true
  | x :: t, y :: t' => f x y && forallb2 f t t'
  | _, _ => false
  end.

Fixpoint str_nodup (l : list string) : bool :=
  match l with
  | [] => true
  | x :: t => negb (existsb (String.eqb x) t) && str_nodup t
  end.

Definition nonempty' {A} (l : list A) : bool := match l with [] => false | _ => true end.

Definition C12_ok (m : module) (o : out) : bool :=
  match overrides m, o_overrides o with
  | [], None => true
  | [], Some _ => false
  | _ :: _, None => false
  | ovs, Some oo =>
      forallb2 (ov_field_ok m) ovs (ov_fields oo)
      && forallb2 (ov_entry_ok m) (filter (fun o => negb (od_has_init o)) ovs) (ov_required oo)
      && forallb2 (ov_entry_ok m) (filter od_has_init ovs) (ov_optional oo)
      && str_nodup (map ove_key (ov_required oo ++ ov_optional oo))
  end
  && forallb (fun v => Bool.eqb (ve_ov_param v) (nonempty' (overrides m))
                       && Bool.eqb (ve_ov_used v) (nonempty' (overrides m))) (o_ventries o)
  && forallb (fun f => Bool.eqb (fe_ov_param f) (nonempty' (overrides m))
                       && Bool.eqb (fe_ov_used f) (nonempty' (overrides m))) (o_fentries o).

(** premises (naga / WGSL guarantees, evaluated on every case): overrides are named scalars of a
    supported type and their keys are pairwise distinct (an @id prints as digits, an identifier
    never starts with a digit, names and ids are unique) *)
Definition wf_override (m : module) (o : override) : bool :=
  match od_name o, ov_prim m o with Some _, Some _ => true | _, _ => false end.
Definition ov_keys (m : module) : list string :=
  flat_map (fun o => match ov_key o with Some k => [k] | None => [] end)
           (filter (fun o => negb (od_has_init o)) (overrides m) ++ filter od_has_init (overrides m)).
Definition wf_overrides (m : module) : bool :=
  forallb (wf_override m) (overrides m) && str_nodup (ov_keys m).
