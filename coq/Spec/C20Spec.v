(** C20 - cost of the two recursive traversals, as operation counts. *)
From W2W Require Import Naga.
Local Open Scope N_scope.

(** [walks]: number of function bodies walked by [update_stages] (hook counter STAGE_WALKS);
    [visits]: number of types expanded by [add_types_recursive] (hook counter TYPE_VISITS). *)
Definition walks_bound (m : module) : N :=
  N.of_nat (length (entries m)) * (N.of_nat (length (functions m)) + 1).
Definition visits_bound (m : module) : N := N.of_nat (length (types m)).

Definition C20_ok (m : module) (walks visits : N) : bool :=
  (walks <=? walks_bound m) && (visits <=? visits_bound m).
