(** The repr(C) layout algorithm (Rust reference, "The C representation") and the size / alignment of the
    leaf types the generator uses (primitives, arrays, glam 0.29 with default features on x86-64, the
    nalgebra stub). Modelled, not verified: validated against rustc (size_of / align_of / offset_of of the
    compiled structs) in the compiled batch. *)
From W2W Require Import Out.
From Coq Require Import ZifyN ZifyBool.
Local Open Scope N_scope.
Ltac Zify.zify_post_hook ::= Z.div_mod_to_equations.

Definition round_up (a n : N) : N := ((n + a - 1) / a) * a.

Definition prim_size (p : rprim) : N :=
  match p with
  | PI8 | PU8 | PBool => 1
  | PI16 | PU16 => 2
  | PI32 | PU32 | PF32 => 4
  | PI64 | PU64 | PF64 => 8
  end.

(** glam 0.29, default features (SSE2 on x86-64): (size, align) *)
Definition glam_layout (g : glam_ty) : N * N :=
  match g with
  | GVec2 => (8, 4) | GVec3 => (12, 4) | GVec4 => (16, 16)
  | GDVec2 => (16, 8) | GDVec3 => (24, 8) | GDVec4 => (32, 8)
  | GUVec2 => (8, 4) | GUVec3 => (12, 4) | GUVec4 => (16, 4)
  | GIVec2 => (8, 4) | GIVec3 => (12, 4) | GIVec4 => (16, 4)
  | GMat2 => (16, 16) | GMat3 => (36, 4) | GMat4 => (64, 16)
  | GDMat2 => (32, 8) | GDMat3 => (72, 8) | GDMat4 => (128, 8)
  end.

Definition env := list (string * (N * N)).
Fixpoint env_get (e : env) (n : string) : option (N * N) :=
  match e with [] => None | (k, v) :: t => if String.eqb k n then Some v else env_get t n end.

(** (size, align) of a field type; [None] for types without a fixed layout (Vec) or unknown structs *)
Fixpoint ty_layout (e : env) (t : rust_ty) : option (N * N) :=
  match t with
  | RPrim p => Some (prim_size p, prim_size p)
  | RArr t n => match ty_layout e t with Some (s, a) => Some (n * s, a) | None => None end
  | RGlam g => Some (glam_layout g)
  | RNalgV p n => Some (n * prim_size p, prim_size p)
  | RNalgM p r c => Some (r * c * prim_size p, prim_size p)
  | RNamed n => env_get e n
  | RVec _ | ROption _ => None
  end.

(** repr(C): running offset; returns the offsets, the final cursor and the max alignment *)
Fixpoint place (fields : list (N * N)) (cur : N) (al : N) : list N * N * N :=
  match fields with
  | [] => ([], cur, al)
  | (s, a) :: t =>
      let off := round_up a cur in
      let '(offs, cur', al') := place t (off + s) (N.max al a) in
      (off :: offs, cur', al')
  end.

Definition repr_c (fields : list (N * N)) : list N * N * N :=
  let '(offs, cur, al) := place fields 0 1 in (offs, round_up al cur, al).

Fixpoint field_layouts (e : env) (fs : list out_field) : option (list (N * N)) :=
  match fs with
  | [] => Some []
  | f :: t =>
      match ty_layout e (fd_ty f), field_layouts e t with
      | Some l, Some r => Some (l :: r)
      | _, _ => None
      end
  end.

Definition struct_layout (e : env) (s : out_struct) : option (list N * N * N) :=
  option_map repr_c (field_layouts e (s_fields s)).

(** environment of all emitted structs, in order (a struct may only refer to earlier ones) *)
Fixpoint struct_env (ss : list out_struct) (e : env) : env :=
  match ss with
  | [] => e
  | s :: t =>
      match struct_layout e s with
      | Some (_, size, al) => struct_env t (e ++ [(s_name s, (size, al))])
      | None => struct_env t e
      end
  end.

(** * Properties of the algorithm *)
Lemma round_up_ge a n : 0 < a -> n <= round_up a n.
Proof. unfold round_up. intros. nia. Qed.

Lemma round_up_mod a n : 0 < a -> round_up a n mod a = 0.
Proof. unfold round_up. intros. apply N.mod_mul. lia. Qed.

Lemma round_up_mod4 a n : a mod 4 = 0 -> 0 < a -> round_up a n mod 4 = 0.
Proof.
  unfold round_up. intros H Ha. set (q := (n + a - 1) / a).
  assert (a = 4 * (a / 4)) by (pose proof (N.div_mod a 4); lia).
  rewrite H0. replace (q * (4 * (a / 4))) with ((q * (a / 4)) * 4) by lia. apply N.mod_mul. lia.
Qed.

(** every field lies inside the struct, at an offset aligned for it, after the previous field *)
Lemma place_spec fields : forall cur al,
  Forall (fun f => 0 < snd f) fields ->
  let '(offs, cur', al') := place fields cur al in
  length offs = length fields /\ cur <= cur' /\ al <= al' /\
  Forall (fun f => snd f <= al') fields /\
  (forall i s a off, nth_error fields i = Some (s, a) -> nth_error offs i = Some off ->
     cur <= off /\ off mod a = 0 /\ off + s <= cur') /\
  (forall i j s a off off', (i < j)%nat -> nth_error fields i = Some (s, a) -> nth_error offs i = Some off ->
     nth_error offs j = Some off' -> off + s <= off').
Proof.
  induction fields as [|[s a] t IH]; intros cur al Hpos; cbn [place].
  - split; [reflexivity|]. split; [lia|]. split; [lia|]. split; [constructor|]. split.
    + intros [|i] ? ? ? H; discriminate.
    + intros [|i] j ? ? ? ? _ H; discriminate.
  - inversion Hpos as [|? ? Ha Ht]; subst. cbn in Ha.
    specialize (IH (round_up a cur + s) (N.max al a) Ht).
    destruct (place t (round_up a cur + s) (N.max al a)) as [[offs cur'] al'].
    destruct IH as (Hlen & Hcur & Hal & Hall & Hfield & Hmono).
    pose proof (round_up_ge a cur Ha). pose proof (round_up_mod a cur Ha).
    split; [cbn; lia|]. split; [lia|]. split; [lia|]. split; [|split].
    + constructor; [cbn; lia|exact Hall].
    + intros [|i] s0 a0 off Hf Ho; cbn in Hf, Ho.
      * inversion Hf; inversion Ho; subst. repeat split; lia.
      * destruct (Hfield i s0 a0 off Hf Ho) as (H1 & H2 & H3). repeat split; lia.
    + intros [|i] [|j] s0 a0 off off' Hlt Hf Ho Ho'; cbn in Hf, Ho, Ho'; try lia.
      * inversion Hf; inversion Ho; subst.
        assert (exists s1 a1, nth_error t j = Some (s1, a1)) as (s1 & a1 & Hj).
        { assert (Hj : (j < length t)%nat) by (rewrite <- Hlen; apply nth_error_Some; congruence).
          destruct (nth_error t j) as [[s1 a1]|] eqn:E; [eauto|apply nth_error_None in E; lia]. }
        destruct (Hfield j s1 a1 off' Hj Ho') as (H1 & _). lia.
      * apply (Hmono i j s0 a0 off off'); auto. lia.
Qed.
