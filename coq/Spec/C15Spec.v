(** C15 - module constants are exported with the WGSL type and exact value. *)
From W2W Require Import Out.
Local Open Scope N_scope.

(** the Rust type corresponding to a WGSL scalar type, from the *declared type* of the constant *)
Definition prim_of_scalar (s : scalar) : option rprim :=
  match sk s, sw s with
  | SkSint, 4 => Some PI32
  | SkUint, 4 => Some PU32
  | SkFloat, 4 => Some PF32
  | SkFloat, 8 => Some PF64
  | SkSint, 8 => Some PI64
  | SkUint, 8 => Some PU64
  | SkBool, _ => Some PBool
  | SkAbstractInt, _ => Some PI64
  | SkAbstractFloat, _ => Some PF64
  | _, _ => None
  end.

(** the exported literal token: same value; abstract literals are printed as i64 / f64 *)
Definition concrete (l : literal) : literal :=
  match l with
  | LAbstractInt v => LI64 v
  | LAbstractFloat b => LF64 b
  | _ => l
  end.

(** type of a literal token *)
Definition lit_prim (l : literal) : rprim :=
  match l with
  | LF64 _ => PF64 | LF32 _ => PF32 | LU32 _ => PU32 | LI32 _ => PI32 | LU64 _ => PU64 | LI64 _ => PI64
  | LBool _ => PBool | LAbstractInt _ => PI64 | LAbstractFloat _ => PF64
  end.

Inductive expect := ENone | ESome (k : out_const) | EMissing.

(** what the property demands for one constant *)
Definition expected_const (m : module) (c : constant) : expect :=
  match c_name c with
  | None => ENone                                   (* unnamed: not a module-scope declaration *)
  | Some n =>
      match get_inner m (c_ty c) with
      | Some (TScalar s) =>
          match prim_of_scalar s, c_init c with
          | Some p, GLiteral l => ESome (mkOutConst n p (concrete l))
          | Some p, GZero =>                         (* zero value constructor: the zero of the declared type *)
              match p with
              | PF64 => ESome (mkOutConst n p (LF64 0)) | PF32 => ESome (mkOutConst n p (LF32 0))
              | PI32 => ESome (mkOutConst n p (LI32 0)) | PU32 => ESome (mkOutConst n p (LU32 0))
              | PI64 => ESome (mkOutConst n p (LI64 0)) | PU64 => ESome (mkOutConst n p (LU64 0))
              | PBool => ESome (mkOutConst n p (LBool false))
              | _ => EMissing
              end
          | _, _ => EMissing                        (* a scalar constant that cannot be exported *)
          end
      | _ => ENone                                  (* non-scalar: skipped *)
      end
  end.

Fixpoint expected_consts (m : module) (cs : list constant) : option (list out_const) :=
  match cs with
  | [] => Some []
  | c :: t =>
      match expected_const m c, expected_consts m t with
      | ENone, r => r
      | ESome k, Some r => Some (k :: r)
      | _, _ => None
      end
  end.

Definition const_wt (k : out_const) : bool := rprim_eqb (k_ty k) (lit_prim (k_lit k)).

(** same names, order, types, values; each literal token has the declared type *)
Definition C15_ok (m : module) (o : out) : bool :=
  match expected_consts m (constants m) with
  | Some l => list_eqb const_eqb (o_consts o) l && forallb const_wt (o_consts o)
  | None => false
  end.

(** naga's guarantee used by the theorem (evaluated on every case): the initialiser of a named
    scalar constant is a literal of the constant's type; non-scalar constants have no literal
    initialiser *)
Definition lit_matches (l : literal) (s : scalar) : bool :=
  match l, sk s, sw s with
  | LF64 _, SkFloat, 8 | LF32 _, SkFloat, 4 | LU32 _, SkUint, 4 | LI32 _, SkSint, 4
  | LU64 _, SkUint, 8 | LI64 _, SkSint, 8 | LBool _, SkBool, _
  | LAbstractInt _, SkAbstractInt, _ | LAbstractFloat _, SkAbstractFloat, _ => true
  | _, _, _ => false
  end.

Definition wf_const (m : module) (c : constant) : bool :=
  match c_name c with
  | None => true
  | Some _ =>
      match get_inner m (c_ty c), c_init c with
      | Some (TScalar s), GLiteral l => lit_matches l s
      | Some (TScalar s), GZero =>
          match sk s with SkAbstractInt | SkAbstractFloat => false | _ => match prim_of_scalar s with Some _ => true | None => false end end
      | Some (TScalar s), GOther => false
      | Some _, GLiteral _ => false
      | Some _, _ => true
      | None, _ => false
      end
  end.
Definition wf_consts (m : module) : bool := forallb (wf_const m) (constants m).
