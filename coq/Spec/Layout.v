(** The host-shareable memory layout rules (WGSL spec 13.4.x: AlignOf / SizeOf / member offsets / array
    stride), written once over an abstract layout type [lty]. They are used twice:
    - [wgsl_lty]: the layout type of a WGSL type of the IR (compared with naga's own offsets / spans /
      strides on every case: premise [layout_agrees]);
    - [encase_lty]: the layout type encase 0.10 assigns to a Rust field type (vectors and matrices for glam
      types, arrays for Rust arrays, derived structs), whose metadata follows the same rules (validated
      against the bytes the real encase writes, in the compiled batch). *)
From W2W Require Import Out RustLayout.
Local Open Scope N_scope.

Inductive lty :=
| LScalar                       (* 4-byte scalar: f32 / i32 / u32 / atomic *)
| LVec (n : N)
| LMat (cols rows : N)          (* f32 columns *)
| LArr (t : lty) (n : N)
| LStruct (name : string) (fields : list lty)
| LRts (t : lty).               (* runtime-sized array *)

Fixpoint l_align (t : lty) : N :=
  match t with
  | LScalar => 4
  | LVec n => if n =? 2 then 8 else 16
  | LMat _ rows => if rows =? 2 then 8 else 16
  | LArr t _ | LRts t => l_align t
  | LStruct _ fs => fold_right (fun f a => N.max (l_align f) a) 1 fs
  end.

Fixpoint l_size (t : lty) : N :=
  match t with
  | LScalar => 4
  | LVec n => 4 * n
  | LMat cols rows => cols * (if rows =? 2 then 8 else 16)
  | LArr t n => n * round_up (l_align t) (l_size t)
  | LRts t => round_up (l_align t) (l_size t)          (* one element (minimum binding size) *)
  | LStruct _ fs =>
      let fix go (fs : list lty) (cur : N) : N :=
        match fs with
        | [] => cur
        | f :: r => go r (round_up (l_align f) cur + l_size f)
        end in
      round_up (fold_right (fun f a => N.max (l_align f) a) 1 fs) (go fs 0)
  end.

Fixpoint l_offsets (fs : list lty) (cur : N) : list N :=
  match fs with
  | [] => []
  | f :: r => let off := round_up (l_align f) cur in off :: l_offsets r (off + l_size f)
  end.

Definition l_stride (t : lty) : N := round_up (l_align t) (l_size t).

Fixpoint lty_eqb (a b : lty) : bool :=
  match a, b with
  | LScalar, LScalar => true
  | LVec n, LVec k => n =? k
  | LMat c r, LMat c' r' => (c =? c') && (r =? r')
  | LArr t n, LArr u k => lty_eqb t u && (n =? k)
  | LRts t, LRts u => lty_eqb t u
  | LStruct n fs, LStruct k gs =>
      String.eqb n k &&
      (fix go (l l' : list lty) : bool :=
         match l, l' with
         | [], [] => true
         | x :: t, y :: t' => lty_eqb x y && go t t'
         | _, _ => false
         end) fs gs
  | _, _ => false
  end.

(** ** the layout type of a WGSL type (glam-representable domain: 32-bit scalars, vectors, f32 matrices) *)
Definition is32 (s : scalar) : bool :=
  (sw s =? 4) && match sk s with SkFloat | SkSint | SkUint => true | _ => false end.

Fixpoint wgsl_lty (fuel : nat) (m : module) (t : ty) : option lty :=
  match fuel with
  | O => None
  | S k =>
      match t_inner t with
      | TScalar s | TAtomic s => if is32 s then Some LScalar else None
      | TVector n s => if is32 s then Some (LVec (vsize_n n)) else None
      | TMatrix cols rows s => if (sw s =? 4) then Some (LMat (vsize_n cols) (vsize_n rows)) else None
      | TArray base (ASConstant n) _ =>
          match get_ty m base with Some bt => option_map (fun e => LArr e n) (wgsl_lty k m bt) | None => None end
      | TArray base ASDynamic _ =>
          match get_ty m base with Some bt => option_map LRts (wgsl_lty k m bt) | None => None end
      | TStruct ms _ =>
          match t_name t with
          | None => None
          | Some n =>
              option_map (LStruct n)
                ((fix go (ms : list member) : option (list lty) :=
                    match ms with
                    | [] => Some []
                    | mem :: r =>
                        match get_ty m (m_ty mem), go r with
                        | Some mt, Some fs => option_map (fun f => f :: fs) (wgsl_lty k m mt)
                        | _, _ => None
                        end
                    end) ms)
          end
      | _ => None
      end
  end.
