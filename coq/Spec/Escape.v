(** C16 - string literal escaping of the embedded source.
    [escape] models proc-macro2's fallback [Literal::string] ([escape_utf8], fallback.rs:1186) at the level of
    escape *tokens*; [unescape_tok] is the meaning rustc gives to each token in a string literal. The table of
    characters that [char::escape_debug] prints as \u{..} (grapheme extenders, non-printable) is a Section
    variable: the round trip holds for ANY such table. The character-level rendering of a token (\u{HEX} etc.)
    is validated by rustc itself in the compiled batch (SOURCE == include_bytes!). *)
From Coq Require Import List NArith Bool Lia.
Import ListNotations.
Local Open Scope N_scope.

Inductive etok :=
| ERaw (c : N)          (* the character itself *)
| ETab | ENl | ECr      (* \t \n \r *)
| EBackslash | EDquote  (* escaped backslash, escaped double quote *)
| ENul                  (* \0 *)
| EX00                  (* \x00 : NUL followed by an octal digit *)
| EUni (c : N).         (* \u{..} *)

Section Escape.
  Variable needs_unicode : N -> bool.

  Definition is_octal (c : N) : bool := (48 <=? c) && (c <=? 55).

  Definition escape_char (c : N) (rest : list N) : etok :=
    if c =? 0 then match rest with n :: _ => if is_octal n then EX00 else ENul | [] => ENul end
    else if c =? 39 then ERaw c            (* ' is left alone *)
    else if c =? 9 then ETab
    else if c =? 13 then ECr
    else if c =? 10 then ENl
    else if c =? 92 then EBackslash
    else if c =? 34 then EDquote
    else if needs_unicode c then EUni c
    else ERaw c.

  Fixpoint escape (s : list N) : list etok :=
    match s with
    | [] => []
    | c :: t => escape_char c t :: escape t
    end.

  Definition unescape_tok (t : etok) : N :=
    match t with
    | ERaw c => c | ETab => 9 | ENl => 10 | ECr => 13 | EBackslash => 92 | EDquote => 34
    | ENul => 0 | EX00 => 0 | EUni c => c
    end.

  Lemma unescape_escape_char c rest : unescape_tok (escape_char c rest) = c.
  Proof.
    unfold escape_char.
    destruct (N.eqb_spec c 0) as [->|_]; [destruct rest as [|n r]; [reflexivity|destruct (is_octal n); reflexivity]|].
    destruct (N.eqb_spec c 39) as [->|_]; [reflexivity|].
    destruct (N.eqb_spec c 9) as [->|_]; [reflexivity|].
    destruct (N.eqb_spec c 13) as [->|_]; [reflexivity|].
    destruct (N.eqb_spec c 10) as [->|_]; [reflexivity|].
    destruct (N.eqb_spec c 92) as [->|_]; [reflexivity|].
    destruct (N.eqb_spec c 34) as [->|_]; [reflexivity|].
    destruct (needs_unicode c); reflexivity.
  Qed.

  (** the literal evaluates to exactly the input, whatever it contains *)
  Theorem unescape_escape : forall s, map unescape_tok (escape s) = s.
  Proof. induction s as [|c t IH]; [reflexivity|]. cbn. rewrite unescape_escape_char, IH. reflexivity. Qed.

  (** no raw character can terminate the literal, start an escape, or be a bare CR; and a \0 escape is never
      followed by an octal digit *)
  Definition raw_ok (t : etok) : bool :=
    match t with ERaw c => negb (c =? 34) && negb (c =? 92) && negb (c =? 13) && negb (c =? 0) | _ => true end.

  Theorem escape_raw_ok : forall s, forallb raw_ok (escape s) = true.
  Proof.
    induction s as [|c t IH]; [reflexivity|]. cbn [escape forallb]. rewrite IH, andb_true_r.
    unfold escape_char.
    destruct (N.eqb_spec c 0) as [->|H0]; [destruct t as [|n r]; [reflexivity|destruct (is_octal n); reflexivity]|].
    destruct (N.eqb_spec c 39) as [->|_]; [reflexivity|].
    destruct (N.eqb_spec c 9) as [->|_]; [reflexivity|].
    destruct (N.eqb_spec c 13) as [->|H13]; [reflexivity|].
    destruct (N.eqb_spec c 10) as [->|_]; [reflexivity|].
    destruct (N.eqb_spec c 92) as [->|H92]; [reflexivity|].
    destruct (N.eqb_spec c 34) as [->|H34]; [reflexivity|].
    destruct (needs_unicode c); [reflexivity|]. cbn.
    destruct (N.eqb_spec c 34); [contradiction|]. destruct (N.eqb_spec c 92); [contradiction|].
    destruct (N.eqb_spec c 13); [contradiction|]. destruct (N.eqb_spec c 0); [contradiction|]. reflexivity.
  Qed.

  Fixpoint nul_ok (l : list etok) : bool :=
    match l with
    | ENul :: ((ERaw c :: _) as t) => negb (is_octal c) && nul_ok t
    | _ :: t => nul_ok t
    | [] => true
    end.

  Theorem escape_nul_ok : (forall c, is_octal c = true -> needs_unicode c = false) -> forall s, nul_ok (escape s) = true.
  Proof.
    intros Hoct. induction s as [|c t IH]; [reflexivity|]. cbn [escape].
    destruct (escape_char c t) eqn:E; cbn [nul_ok]; try exact IH.
    (* ENul: the next source character is not an octal digit *)
    unfold escape_char in E. destruct (N.eqb_spec c 0) as [->|H0].
    - destruct t as [|n r]; [reflexivity|]. destruct (is_octal n) eqn:En; [discriminate|].
      cbn [escape] in IH |- *. destruct (escape_char n r) eqn:E2; cbn [nul_ok] in IH |- *; try exact IH.
      assert (c = n).
      { pose proof (unescape_escape_char n r) as Hu. rewrite E2 in Hu. exact Hu. }
      subst c. rewrite En. exact IH.
    - repeat match type of E with (if ?b then _ else _) = _ => destruct b; try discriminate end.
  Qed.
End Escape.
