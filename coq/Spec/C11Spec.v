(** C11 - executable statement of the property over an arbitrary outcome of the
    generator. Written against the property text; does not mention [gen]. *)
From W2W Require Import Out.
Local Open Scope N_scope.

(** the bound resource variables in declaration order: (group, binding, name) *)
Definition bound_globals (m : module) : list (N * N * option string) :=
  flat_map (fun g => match g_binding g with
                     | Some (grp, b) => [(grp, b, g_name g)]
                     | None => []
                     end) (globals m).

Definition pairs (m : module) : list (N * N) := map fst (bound_globals m).

(** binding index of the first variable that repeats an earlier (group, binding) pair *)
Fixpoint first_dup (seen : list (N * N)) (l : list (N * N)) : option N :=
  match l with
  | [] => None
  | p :: t => if existsb (nn_eqb p) seen then Some (snd p) else first_dup (seen ++ [p]) t
  end.

Fixpoint N_range (start : N) (len : nat) : list N :=
  match len with O => [] | S k => start :: N_range (start + 1) k end.

(** the groups used are exactly 0..n-1 for some n *)
Definition dense_b (gs : list N) : bool :=
  existsb (fun n => forallb (fun g => g <? N.of_nat n) gs
                    && forallb (fun k => existsb (N.eqb k) gs) (N_range 0 n))
          (seq 0 (S (length gs))).

Definition group_count (gs : list N) : nat :=
  length (filter (fun n => forallb (fun k => existsb (N.eqb k) gs) (N_range 0 (S n))) (seq 0 (length gs))).

(** binding indices of group [g] in declaration order *)
Definition bindings_in (m : module) (g : N) : list N :=
  map (fun x => snd (fst x)) (filter (fun x => fst (fst x) =? g) (bound_globals m)).

Definition group_ok (m : module) (g : out_group) : bool :=
  list_eqb N.eqb (map oe_binding (og_entries g)) (bindings_in m (og_no g))
  && list_eqb N.eqb (map be_binding (og_bind_entries g)) (bindings_in m (og_no g)).

Definition groups_of (o : out) : list out_group :=
  match o_bind_groups o with Some bg => bg_groups bg | None => [] end.

(** [preempt]: validation was requested and naga's validator rejects the module *)
Definition C11_ok (m : module) (preempt : bool) (r : result out) : bool :=
  match r with
  | Err ValidationError => preempt
  | Err ParseError => false
  | _ =>
    match first_dup [] (pairs m) with
    | Some b => match r with Err (DuplicateBinding b') => b =? b' | _ => false end
    | None =>
        if negb (dense_b (map fst (pairs m))) then
          match r with Err NonConsecutiveBindGroups => true | _ => false end
        else
          match r with
          | Ok o =>
              let n := length (groups_of o) in
              list_eqb N.eqb (map og_no (groups_of o)) (N_range 0 n)
              && list_eqb N.eqb (o_pl_groups o) (N_range 0 n)
              && forallb (group_ok m) (groups_of o)
              && forallb (fun g => existsb (fun og => og_no og =? g) (groups_of o)) (map fst (pairs m))
          | Panic _ => true    (* a panic for a reason outside this contract (unsupported type): C01 *)
          | Err _ => false
          end
    end
  end.
