(** C15 - the other direction of the constant tokens: what rustc reads back from the tokens [Render.r_literal]
    prints for an integer / boolean constant. Model of the fragment of rustc's literal lexing and constant
    evaluation the generated [pub const NAME: ty = <tokens>;] items use:

      - an integer literal token is a maximal run of decimal digits followed by a type suffix
        (i32 / u32 / i64 / u64); its value is the decimal value of the digits;
      - the deny-by-default lint [overflowing_literals] rejects a literal whose value does not fit the
        suffix type (for a literal under a unary minus the *negated* value must fit);
      - [true] / [false] are the boolean literals;
      - a leading [-] token negates.

    Floats are not modelled here: their tokens are compared by bit pattern (Render.v [TF32] / [TF64]). *)
From W2W Require Import Render C15Spec.
From Coq Require Import Ascii DecimalString DecimalN.
Local Open Scope N_scope.

Definition is_digit (c : ascii) : bool := let n := N_of_ascii c in (48 <=? n) && (n <=? 57).

(** the maximal run of digits at the front of the token, and the rest (the suffix) *)
Fixpoint split_digits (s : string) : string * string :=
  match s with
  | EmptyString => (EmptyString, EmptyString)
  | String c r =>
      if is_digit c then let (d, rest) := split_digits r in (String c d, rest)
      else (EmptyString, s)
  end.

Definition int_suffix (s : string) : option rprim :=
  if String.eqb s "i32" then Some PI32 else if String.eqb s "u32" then Some PU32
  else if String.eqb s "i64" then Some PI64 else if String.eqb s "u64" then Some PU64 else None.

(** magnitude and suffix type of an integer literal token *)
Definition lex_int_lit (s : string) : option (N * rprim) :=
  let (d, suf) := split_digits s in
  match NilZero.uint_of_string d, int_suffix suf with
  | Some u, Some p => Some (N.of_uint u, p)
  | _, _ => None
  end.

(** [overflowing_literals]: the value (after the optional negation) must fit the type *)
Definition fits (p : rprim) (v : Z) : bool :=
  match p with
  | PI32 => ((-2147483648 <=? v) && (v <=? 2147483647))%Z
  | PU32 => ((0 <=? v) && (v <=? 4294967295))%Z
  | PI64 => ((-9223372036854775808 <=? v) && (v <=? 9223372036854775807))%Z
  | PU64 => ((0 <=? v) && (v <=? 18446744073709551615))%Z
  | _ => false
  end.

Inductive rvalue := RInt (p : rprim) (v : Z) | RBool (b : bool).

(** value of the initialiser expression of a generated constant item (integers and booleans) *)
Definition eval_const_tokens (ts : list tok) : option rvalue :=
  match ts with
  | [T s] =>
      if String.eqb s "true" then Some (RBool true) else if String.eqb s "false" then Some (RBool false)
      else match lex_int_lit s with
           | Some (v, p) => if fits p (Z.of_N v) then Some (RInt p (Z.of_N v)) else None
           | None => None
           end
  | [T m; T s] =>
      if String.eqb m "-" then
        match lex_int_lit s with
        | Some (v, p) => if fits p (- Z.of_N v) then Some (RInt p (- Z.of_N v)) else None
        | None => None
        end
      else None
  | _ => None
  end.

(** the WGSL value of an integer / boolean literal, as a Rust value of the type of C15's table *)
Definition wgsl_value (l : literal) : option rvalue :=
  match l with
  | LU32 v => Some (RInt PU32 (Z.of_N v))
  | LU64 v => Some (RInt PU64 (Z.of_N v))
  | LI32 v => Some (RInt PI32 v)
  | LI64 v => Some (RInt PI64 v)
  | LAbstractInt v => Some (RInt PI64 v)
  | LBool b => Some (RBool b)
  | _ => None
  end.

(** naga's literals are Rust values of their type: in range (evaluated per case on the IR dump) *)
Definition lit_in_range (l : literal) : bool :=
  match l with
  | LU32 v => fits PU32 (Z.of_N v)
  | LU64 v => fits PU64 (Z.of_N v)
  | LI32 v => fits PI32 v
  | LI64 v | LAbstractInt v => fits PI64 v
  | _ => true
  end.

Definition consts_in_range (m : module) : bool :=
  forallb (fun c => match c_init c with GLiteral l => lit_in_range l | _ => true end) (constants m).

(** ** tie to rustc: per compiled module, what rustc reports for each exported integer / boolean constant
    (declared type, value; booleans as 0 / 1) against this model's reading of the tokens of the real output *)
Definition rvalue_matches (v : option rvalue) (p : rprim) (z : Z) : bool :=
  match v with
  | Some (RInt q x) => rprim_eqb q p && Z.eqb x z
  | Some (RBool b) => rprim_eqb p PBool && Z.eqb z (if b then 1 else 0)
  | None => false
  end.
Definition is_float_prim (p : rprim) : bool := match p with PF32 | PF64 => true | _ => false end.
Definition obs_consts_read_back (r : result out) (recorded : list (string * rprim * Z)) : bool :=
  match r with
  | Ok o =>
      forallb (fun rc : string * rprim * Z =>
                 let '(n, p, z) := rc in
                 if is_float_prim p then true
                 else match List.find (fun k => String.eqb (k_name k) n) (o_consts o) with
                      | Some k => rvalue_matches (eval_const_tokens (r_literal (k_lit k))) p z
                      | None => false
                      end) recorded
  | _ => true
  end.
