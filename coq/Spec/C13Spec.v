(** C13 - push constant range covers the variable, from offset 0, once. *)
From W2W Require Import Out C03Spec.
Local Open Scope N_scope.

Definition all_entry_stages (m : module) : stages :=
  mkStages (existsb (fun e => stage_eqb (e_stage e) Vertex) (entries m))
           (existsb (fun e => stage_eqb (e_stage e) Fragment) (entries m))
           (existsb (fun e => stage_eqb (e_stage e) Compute) (entries m)).

(** the stages using the variable, or all stages that have an entry point when nothing uses it *)
Definition pc_stage_spec (m : module) (h : nat) : stages :=
  if st_eqb (vis_spec m h) st_none then all_entry_stages m else vis_spec m h.

Definition C13_ok (m : module) (o : out) : bool :=
  match find_pc_from (globals m) 0 with
  | None =>
      match o_pc_stages o, o_pc_ranges o with
      | None, [] => true
      | _, _ => false
      end
  | Some h =>
      match nth_error (globals m) h with
      | None => false
      | Some gl =>
          match get_ty m (g_ty gl), o_pc_stages o, o_pc_ranges o with
          | Some t, Some s, [r] =>
              st_eqb s (pc_stage_spec m h)
              && pr_stages_const r                   (* the range uses the exported constant *)
              && (pr_start r =? 0) && (pr_end r =? t_size t)
          | _, _, _ => false
          end
      end
  end.

