(** C04 - named bind group fields reach their own slot; groups bind at own index (structure part). *)
From W2W Require Import Out.
Local Open Scope N_scope.

Definition kind_of (i : type_inner) : option res_kind :=
  match i with
  | TStruct _ _ | TArray _ _ _ | TScalar _ | TVector _ _ | TMatrix _ _ _ => Some RKBuffer
  | TImage _ _ _ => Some RKTexture
  | TSampler _ => Some RKSampler
  | _ => None
  end.

(** the variables of group [g] in declaration order: (name, kind, binding) *)
Definition group_vars (m : module) (g : N) : list (option string * option res_kind * N) :=
  flat_map (fun gl => match g_binding gl with
                      | Some (grp, b) =>
                          if grp =? g
                          then [(g_name gl, match get_inner m (g_ty gl) with Some i => kind_of i | None => None end, b)]
                          else []
                      | None => []
                      end) (globals m).

Fixpoint str_nodup (l : list string) : bool :=
  match l with
  | [] => true
  | x :: t => negb (existsb (String.eqb x) t) && str_nodup t
  end.

Definition field_matches (v : option string * option res_kind * N) (f : string * res_kind) : bool :=
  match v with
  | (Some n, Some k, _) => String.eqb (fst f) n && res_kind_eqb (snd f) k
  | _ => false
  end.
Definition bind_entry_matches (v : option string * option res_kind * N) (e : out_bind_entry) : bool :=
  match v with
  | (Some n, Some k, b) => String.eqb (be_field e) n && res_kind_eqb (be_kind e) k && (be_binding e =? b)
  | _ => false
  end.

Fixpoint forallb2 {A B} (f : A -> B -> bool) (l : list A) (l' : list B) : bool :=
  match l, l' with
  | [], [] => true
  | x :: t, y :: t' => f x y && forallb2 f t t'
  | _, _ => false
  end.

(** group N: one field per variable of the group, named after it, typed by kind; building the group passes
    field x to the binding of variable x and supplies exactly the indices of the layout; every index-named
    item of the group carries N; set() binds at N *)
Definition group_ok (m : module) (og : out_group) : bool :=
  let vars := group_vars m (og_no og) in
  forallb2 field_matches vars (og_layout_fields og)
  && str_nodup (map fst (og_layout_fields og))
  && forallb2 bind_entry_matches vars (og_bind_entries og)
  && list_eqb N.eqb (map oe_binding (og_entries og)) (map be_binding (og_bind_entries og))
  && (og_layout_struct_no og =? og_no og) && (og_desc_no og =? og_no og) && (og_impl_no og =? og_no og)
  && (og_get_layout_desc_no og =? og_no og) && (og_from_param_no og =? og_no og)
  && (og_from_desc_no og =? og_no og) && (og_set_index og =? og_no og)
  && String.eqb (og_desc_label og) ("LayoutDescriptor" +s+ N_to_string (og_no og))
  && String.eqb (og_bg_label og) ("BindGroup" +s+ N_to_string (og_no og)).

Fixpoint N_range (start : N) (len : nat) : list N :=
  match len with O => [] | S k => start :: N_range (start + 1) k end.

Definition has_bound (m : module) : bool :=
  existsb (fun gl => match g_binding gl with Some _ => true | None => false end) (globals m).

Definition C04_ok (m : module) (o : out) : bool :=
  match o_bind_groups o with
  | None => negb (has_bound m) && match o_pl_groups o with [] => true | _ => false end
  | Some bg =>
      let n := length (bg_groups bg) in
      let idx := N_range 0 n in
      has_bound m
      && forallb (group_ok m) (bg_groups bg)
      && list_eqb N.eqb (map og_no (bg_groups bg)) idx
      && list_eqb nn_eqb (bg_struct_fields bg) (map (fun k => (k, k)) idx)
      && list_eqb N.eqb (bg_struct_set bg) idx
      && list_eqb nn_eqb (bg_fn_params bg) (map (fun k => (k, k)) idx)
      && list_eqb N.eqb (bg_fn_set bg) idx
      && list_eqb N.eqb (o_pl_groups o) idx
  end.
