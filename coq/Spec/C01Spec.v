(** C01 - the generated module compiles against wgpu 24.
    [rust_wf]: the fragment of rustc's rules that the *parametric* parts of the output can violate
    (the fixed template text is compiled for real in every run). [names_ok]: the IR-level premise
    = absence of the known-finding classes. *)
From W2W Require Import Out C15Spec.
Local Open Scope N_scope.

Fixpoint str_nodup (l : list string) : bool :=
  match l with
  | [] => true
  | x :: t => negb (existsb (String.eqb x) t) && str_nodup t
  end.

(** Rust keywords that WGSL / naga accept as identifiers (measured: every other Rust keyword is rejected
    by naga's front end) *)
Definition rust_keywords : list string := ["in"; "dyn"; "box"].
Definition is_keyword (s : string) : bool := existsb (String.eqb s) rust_keywords.

(** ** identifiers occurring in the output *)
Definition struct_idents (s : out_struct) : list string := s_name s :: map fd_name (s_fields s).
Definition group_idents (g : out_group) : list string := map fst (og_layout_fields g).
Definition out_idents (o : out) : list string :=
  flat_map struct_idents (o_structs o)
  ++ map k_name (o_consts o)
  ++ match o_overrides o with Some ov => map fst (ov_fields ov) | None => [] end
  ++ match o_bind_groups o with Some bg => flat_map group_idents (bg_groups bg) | None => [] end
  ++ flat_map (fun v => vs_name v :: map va_field (vs_attrs v)) (o_vstructs o)
  ++ flat_map (fun c => [cp_wg_const c; cp_fn c]) (o_compute o)
  ++ map fst (o_entry_consts o)
  ++ flat_map (fun v => ve_fn v :: ve_params v ++ map fst (ve_buffers v)) (o_ventries o)
  ++ map fe_fn (o_fentries o).

(** ** name spaces of the top level *)
Definition nonempty {A} (l : list A) : bool := match l with [] => false | _ => true end.
Definition is_some {A} (o : option A) : bool := match o with Some _ => true | None => false end.

Definition type_names (o : out) : list string :=
  map s_name (o_structs o)
  ++ (if is_some (o_overrides o) then ["OverrideConstants"] else [])
  ++ (if is_some (o_bind_groups o) then ["bind_groups"] else [])
  ++ (if nonempty (o_compute o) then ["compute"] else [])
  ++ (if o_vertex_tpl o then ["VertexEntry"] else [])
  ++ (if o_fragment_tpl o then ["FragmentEntry"] else []).

Definition value_names (o : out) : list string :=
  map k_name (o_consts o)
  ++ map fst (o_entry_consts o)
  ++ (if is_some (o_bind_groups o) then ["set_bind_groups"] else [])
  ++ (if o_vertex_tpl o then ["vertex_state"] else []) ++ map ve_fn (o_ventries o)
  ++ (if o_fragment_tpl o then ["fragment_state"] else []) ++ map fe_fn (o_fentries o)
  ++ ["SOURCE"; "create_shader_module"; "create_pipeline_layout"]
  ++ (if is_some (o_pc_stages o) then ["PUSH_CONSTANT_STAGES"] else []).

(** names the fixed template text uses unqualified: a user type of that name would capture them *)
Definition prelude_names : list string := ["Option"; "Some"; "None"; "Vec"; "String"; "Default"; "Self"; "Copy"; "Clone"; "Debug"; "PartialEq"].

(** ** derive bounds: which field types implement which derived trait *)
Fixpoint ty_has (p : rust_ty -> bool) (t : rust_ty) : bool :=
  p t || match t with RArr t' _ | RVec t' | ROption t' => ty_has p t' | _ => false end.
Definition is_bool_ty (t : rust_ty) : bool := match t with RPrim PBool => true | _ => false end.
Definition is_f64_ty (t : rust_ty) : bool :=
  match t with
  | RPrim PF64 | RNalgV PF64 _ | RNalgM PF64 _ _ => true
  | RGlam g => match g with GDVec2 | GDVec3 | GDVec4 | GDMat2 | GDMat3 | GDMat4 => true | _ => false end
  | _ => false
  end.
Definition is_nalgebra_ty (t : rust_ty) : bool := match t with RNalgV _ _ | RNalgM _ _ _ => true | _ => false end.
Definition is_long_array (t : rust_ty) : bool := match t with RArr _ n => 32 <? n | _ => false end.
Definition is_small_int (t : rust_ty) : bool :=
  match t with RPrim PI8 | RPrim PU8 | RPrim PI16 | RPrim PU16 | RPrim PI64 | RPrim PU64 => true | _ => false end.

Definition derives (s : out_struct) (d : string) : bool := existsb (String.eqb d) (s_derives s).

Definition struct_bounds_ok (s : out_struct) : bool :=
  forallb (fun f =>
    let t := fd_ty f in
    (negb (derives s "bytemuck::Pod") || negb (ty_has is_bool_ty t || ty_has (fun t => match t with RVec _ => true | _ => false end) t))
    && (negb (derives s "encase::ShaderType")
        || negb (ty_has is_bool_ty t || ty_has is_f64_ty t || ty_has is_small_int t))
    && (negb (derives s "serde::Serialize") || negb (ty_has is_long_array t))
    && (negb (derives s "Copy") || negb (ty_has (fun t => match t with RVec _ => true | _ => false end) t)))
    (s_fields s).

Fixpoint named_in (t : rust_ty) : list string :=
  match t with
  | RNamed s => [s]
  | RArr t _ | RVec t | ROption t => named_in t
  | _ => []
  end.

(** identifiers the fixed template text *binds* at the top level of the module (function parameters, [let] and
    [if let] patterns): a [pub const] of the same name turns the binding into a constant pattern (E0308 / E0005) *)
Definition root_binders (o : out) : list string :=
  ["device"; "source"]
  ++ (match o_bind_groups o with
      | Some bg => "pass" :: map (fun ab => "bind_group" +s+ N_to_string (fst ab)) (bg_fn_params bg)
      | None => [] end)
  ++ (if o_vertex_tpl o || o_fragment_tpl o then ["module"; "entry"] else [])
  ++ (match o_fentries o with [] => [] | _ => ["targets"] end)
  ++ (match o_overrides o with Some _ => ["overrides"; "entries"; "value"] | None => [] end)
  ++ (match o_vstructs o with [] => [] | _ => ["step_mode"] end)
  ++ flat_map ve_params (o_ventries o).
Definition const_captures_binder (o : out) : bool :=
  existsb (fun k => existsb (String.eqb (k_name k)) (root_binders o)) (o_consts o).

Definition rust_wf (o : out) : bool :=
  negb (existsb is_keyword (out_idents o))
  && negb (const_captures_binder o)
  && str_nodup (type_names o)
  && str_nodup (value_names o)
  && negb (existsb (fun n => existsb (String.eqb n) prelude_names) (map s_name (o_structs o)))
  && forallb (fun s => str_nodup (map fd_name (s_fields s))) (o_structs o)
  && match o_overrides o with Some ov => str_nodup (map fst (ov_fields ov)) | None => true end
  && match o_bind_groups o with Some bg => forallb (fun g => str_nodup (map fst (og_layout_fields g))) (bg_groups bg) | None => true end
  && str_nodup (flat_map (fun c => [cp_wg_const c; cp_fn c]) (o_compute o))
  && forallb (fun v => str_nodup (ve_params v ++ (if ve_ov_param v then ["overrides"] else []))) (o_ventries o)
  && forallb const_wt (o_consts o)
  && forallb (fun s => forallb (fun f => forallb (fun n => existsb (String.eqb n) (map s_name (o_structs o)))
                                                 (named_in (fd_ty f))) (s_fields s)) (o_structs o)
  && str_nodup (map vs_name (o_vstructs o))
  && forallb (fun v => existsb (String.eqb (vs_name v)) (map s_name (o_structs o))) (o_vstructs o)
  && forallb (fun v => forallb (fun b => existsb (fun vs => String.eqb (vs_name vs) (fst b)) (o_vstructs o)) (ve_buffers v)) (o_ventries o)
  && forallb struct_bounds_ok (o_structs o).

(** the IR-level form of the keyword class (used when the returned text cannot even be parsed back) *)
Definition opt_kw (o : option string) : bool := match o with Some s => is_keyword s | None => false end.
Definition ir_has_keyword (m : module) : bool :=
  existsb (fun t => opt_kw (t_name t) || opt_kw (t_snake t)
                    || match t_inner t with TStruct ms _ => existsb (fun mem => opt_kw (m_name mem)) ms | _ => false end)
          (types m)
  || existsb (fun g => opt_kw (g_name g)) (globals m)
  || existsb (fun c => opt_kw (c_name c)) (constants m)
  || existsb (fun o => opt_kw (od_name o)) (overrides m)
  || existsb (fun e => is_keyword (e_name e)) (entries m).

(** * the statement of C01 over the model: outside the known-finding classes the output is [rust_wf] *)
(** the known-finding classes that are conditions on the WGSL identifiers / member types, decided on the output
    (the same predicates the check evaluates on every real output; KF-C01-vertex-struct-not-emitted is excluded by
    the premise [wf_vertex_inputs] instead) *)
Definition kf_any (o : out) : bool :=
  existsb is_keyword (out_idents o)
  || negb (str_nodup (type_names o)) || negb (str_nodup (value_names o))
  || negb (str_nodup (flat_map (fun c => [cp_wg_const c; cp_fn c]) (o_compute o)))
  || negb (forallb (fun v => str_nodup (ve_params v ++ (if ve_ov_param v then ["overrides"] else []))) (o_ventries o))
  || negb (forallb struct_bounds_ok (o_structs o))
  || existsb (fun n => existsb (String.eqb n) prelude_names) (map s_name (o_structs o))
  || const_captures_binder o.

(** premises WGSL guarantees (evaluated per case): member names are distinct within a struct, override names are distinct *)
Definition member_names (ms : list member) : list string :=
  flat_map (fun mem => match m_name mem with Some n => [n] | None => [] end) ms.
Definition wf_member_names (m : module) : bool :=
  forallb (fun t => match t_inner t with TStruct ms _ => str_nodup (member_names ms) | _ => true end) (types m).
Definition wf_override_names (m : module) : bool :=
  str_nodup (flat_map (fun o => match od_name o with Some n => [n] | None => [] end) (overrides m)).
