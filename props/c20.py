"""C20 - generation cost stays polynomial (operation counts of the two recursive traversals)."""
from common import coq_options, HOOKS

ID = "C20"
ENV_RERUN = 40          # cases repeated from a cargo build-script environment (lib/runner.py with_build_env)
REQUIRES = ["Wf", "C20Spec"]
THEOREM_REQUIRES = ["C20"]
THEOREMS = ["C20_stage_walks", "C20_type_visits", "C20_holds_bool", "C20_output_items_linear", "C20_bind_group_items_linear"]
PROOF_FILES = ["Proofs/Traversal.v", "Proofs/TypeDfs.v", "Proofs/C20Proof.v", "Proofs/OutSize.v", "Proofs/GroupSize.v", "Properties/C20.v"]
RULE = ("call-graph families (value-returning chains, statement chains, diamonds h_i{h_{i-1};h_{i-1}}, wide fan-out "
        "to shared helpers, random DAGs) and type families (struct diamonds S_k{a:S_{k-1},b:S_{k-1}}, arrays of "
        "structs, many globals sharing one struct) of growing depth, in two stages (depth<=16 first, then up to 64 "
        "/ 300 functions, the second only if the first holds, under a hard timeout); compared: hook counters of the "
        "real code <= model count (a) and <= proved bound (b); non-trivial = depth >= 4; distinct = distinct IR")
ASSUMPTIONS = ["cost is measured as the two hook counters (function bodies walked, types expanded); constant "
               "factors and wall-clock are observed only (gen_us in the evidence), not modelled"]
DRIVER_TIMEOUT = 180
VERDICT_FIELDS = ["wf", "a_real_counts_le_model_counts", "b_real_counts_le_proved_bound"]


def chain(depth, form, stages):
    """h0 reads u; h_i calls h_{i-1}; entries call h_{depth-1}."""
    out = ["@group(0) @binding(0) var<uniform> u: vec4<f32>;"]
    for i in range(depth):
        if form == "value":
            body = "return u.x;" if i == 0 else "return h%d();" % (i - 1)
            out.append("fn h%d() -> f32 { %s }" % (i, body))
        elif form == "stmt":
            body = "_ = u.x;" if i == 0 else "h%d();" % (i - 1)
            out.append("fn h%d() { %s }" % (i, body))
        elif form == "diamond":
            body = "_ = u.x;" if i == 0 else "h%d(); h%d();" % (i - 1, i - 1)
            out.append("fn h%d() { %s }" % (i, body))
        elif form == "diamond_value":
            body = "return u.x;" if i == 0 else "return h%d() + h%d();" % (i - 1, i - 1)
            out.append("fn h%d() -> f32 { %s }" % (i, body))
        elif form == "pure_diamond":
            # helpers that touch no binding at all (pure math), shared through two call sites per level
            body = "return x * 0.5;" if i == 0 else "return h%d(x) + h%d(x + 1.0);" % (i - 1, i - 1)
            out.append("fn h%d(x: f32) -> f32 { %s }" % (i, body))
        elif form == "split_diamond":
            # sharing through two distinct intermediate functions per level
            if i == 0:
                out.append("fn h0() -> f32 { return 1.0; }")
            else:
                out.append("fn l%d() -> f32 { return h%d(); }" % (i, i - 1))
                out.append("fn r%d() -> f32 { return h%d() * 2.0; }" % (i, i - 1))
                out.append("fn h%d() -> f32 { return l%d() + r%d(); }" % (i, i, i))
        elif form == "ptr_diamond":
            # helpers taking a pointer parameter, each level calling the next one twice
            body = "*p = *p + u.x;" if i == 0 else "h%d(p); h%d(p);" % (i - 1, i - 1)
            out.append("fn h%d(p: ptr<function, f32>) { %s }" % (i, body))
    if form == "ptr_diamond":
        call = ("var acc: f32 = 0.0; h%d(&acc);" % (depth - 1)) if depth else "_ = u.x;"
    elif form == "pure_diamond":
        call = ("_ = h%d(u.x);" % (depth - 1)) if depth else "_ = u.x;"
    elif form == "split_diamond":
        call = ("_ = h%d() + u.x;" % (depth - 1)) if depth else "_ = u.x;"
    else:
        call = ("_ = h%d();" if form in ("value", "diamond_value") else "h%d();") % (depth - 1) if depth else "_ = u.x;"
    for k, st in enumerate(stages):
        if st == "vertex":
            out.append("@vertex fn e%d() -> @builtin(position) vec4<f32> { %s return vec4<f32>(0.0); }" % (k, call))
        elif st == "fragment":
            out.append("@fragment fn e%d() { %s }" % (k, call))
        else:
            out.append("@compute @workgroup_size(1) fn e%d() { %s }" % (k, call))
    return "\n".join(out) + "\n"


def fanout(n_helpers, n_shared, rng):
    out = ["@group(0) @binding(0) var<uniform> u: vec4<f32>;"]
    for i in range(n_shared):
        out.append("fn s%d() -> f32 { return u.x + %d.0; }" % (i, i))
    for i in range(n_helpers):
        calls = " + ".join("s%d()" % rng.randrange(n_shared) for _ in range(4))
        prev = (" + h%d()" % rng.randrange(i)) if i > 0 and rng.random() < 0.7 else ""
        out.append("fn h%d() -> f32 { return %s%s; }" % (i, calls, prev))
    body = " ".join("_ = h%d();" % i for i in range(n_helpers))
    out.append("@compute @workgroup_size(1) fn main() { %s }" % body)
    out.append("@fragment fn fs() { %s }" % body)
    return "\n".join(out) + "\n"


def struct_diamond(depth, nglobals):
    out = ["struct S0 { a: vec4<f32>, b: vec4<f32> }"]
    for i in range(1, depth + 1):
        out.append("struct S%d { a: S%d, b: S%d, c: array<S%d, 2> }" % (i, i - 1, i - 1, i - 1) if i <= 3 else
                   "struct S%d { a: S%d, b: S%d }" % (i, i - 1, i - 1))
    # nesting doubles the byte size; keep sizes small by sharing through pointers is impossible in WGSL, so cap depth
    for g in range(nglobals):
        out.append("@group(0) @binding(%d) var<storage, read> g%d: S%d;" % (g, g, depth))
    out.append("@compute @workgroup_size(1) fn main() { _ = g0.a; }")
    return "\n".join(out) + "\n"


def struct_tower(depth):
    out = ["struct T0 { a: f32 }"]
    for i in range(1, depth + 1):
        out.append("struct T%d { a: T%d, b: T%d }" % (i, i - 1, i - 1))
    out.append("@group(0) @binding(0) var<storage, read> g0: T%d;" % depth)
    out.append("struct VIn { @location(0) p: vec4<f32> }")
    out.append("@vertex fn vs(v: VIn) -> @builtin(position) vec4<f32> { return v.p; }")
    out.append("@compute @workgroup_size(1) fn main() { _ = g0.a; }")
    return "\n".join(out) + "\n"


def wide_struct(nmembers, nglobals):
    out = ["struct Leaf { x: vec4<f32> }", "struct Mid { a: Leaf, b: Leaf, c: array<Leaf, 4> }"]
    out.append("struct Wide { %s }" % ", ".join("m%d: Mid" % i for i in range(nmembers)))
    for g in range(nglobals):
        out.append("@group(0) @binding(%d) var<uniform> g%d: Wide;" % (g, g))
    out.append("@fragment fn main() { _ = g0.m0.a.x; }")
    return "\n".join(out) + "\n"


def pc_unused_diamond(depth, where):
    """a push constant, and an entry point that reaches a deep diamond of helpers none of which touches it"""
    out = ["var<push_constant> pc: vec4<f32>;", "@group(0) @binding(0) var<uniform> u: vec4<f32>;"]
    for i in range(depth):
        body = "return u.x;" if i == 0 else "return h%d() + h%d();" % (i - 1, i - 1)
        out.append("fn h%d() -> f32 { %s }" % (i, body))
    call = "_ = h%d();" % (depth - 1)
    if where == "vertex_only":
        out.append("@vertex fn vs() -> @builtin(position) vec4<f32> { return pc; }")
        out.append("@fragment fn fs() { %s }" % call)
    else:
        out.append("@compute @workgroup_size(1) fn cs() { %s }" % call)
    return "\n".join(out) + "\n"


def override_ladder(depth, use):
    """override tile_i = tile_{i-1} * tile_{i-1} (base 1: nothing overflows); used as a workgroup size / in a body / not at all"""
    out = ["override tile_0: u32 = 1u;"]
    for i in range(1, depth + 1):
        out.append("override tile_%d: u32 = tile_%d * tile_%d;" % (i, i - 1, i - 1))
    if use == "workgroup_size":
        out.append("@compute @workgroup_size(tile_%d) fn main() { }" % depth)
    elif use == "body":
        out.append("@compute @workgroup_size(1) fn main() { _ = tile_%d; }" % depth)
    else:
        out.append("@compute @workgroup_size(1) fn main() { }")
    return "\n".join(out) + "\n"


def nested_control(depth, form):
    """one function whose control flow is nested `depth` levels deep (if / else-if ladder / loop / switch / mixed); the
    binding is touched at the innermost level: the walk over the statement tree is linear in its size"""
    inner = "_ = u.x;"
    if form == "else_if_ladder":
        body = "if (c == 0) { _ = u.y; }" + "".join(" else if (c == %d) { _ = u.y; }" % k for k in range(1, depth)) + " else { %s }" % inner
    else:
        body = inner
        for k in range(depth):
            kind = form if form != "mixed" else ["if", "loop", "switch", "block", "else"][k % 5]
            if kind == "if":
                body = "if (c > %d) { %s }" % (k, body)
            elif kind == "else":
                body = "if (c > %d) { } else { %s }" % (k, body)
            elif kind == "loop":
                body = "loop { %s if (c > %d) { break; } }" % (body, k)
            elif kind == "switch":
                body = "switch (c) { case %d: { %s } default: { } }" % (k, body)
            else:
                body = "{ %s }" % body
    return ("@group(0) @binding(0) var<uniform> u: vec4<f32>;\nfn work(c: i32) { %s }\n"
            "@compute @workgroup_size(1) fn main() { work(1); }\n@fragment fn fs() { work(2); }\n" % body)


def struct_diamond_two_spaces(depth, buffer_first):
    """the struct diamond used by a buffer variable AND by a private variable (in either declaration order)"""
    out = ["struct S0 { a: vec4<f32>, b: vec4<f32> }"]
    for i in range(1, depth + 1):
        out.append("struct S%d { a: S%d, b: S%d }" % (i, i - 1, i - 1))
    decls = ["@group(0) @binding(0) var<storage, read> g0: S%d;" % depth, "var<private> cache: S%d;" % depth]
    if not buffer_first:
        decls.reverse()
    out += decls + ["var<workgroup> shared_copy: S%d;" % max(0, depth - 1)]
    out.append("@compute @workgroup_size(1) fn main() { _ = g0.a; }")
    return "\n".join(out) + "\n"


def mk(wgsl, family, depth):
    return {"wgsl": wgsl, "family": family, "opts": {}, "depth": depth}


def stages(rng, tier):
    s1, s2 = [], []
    forms = ["value", "stmt", "diamond", "diamond_value", "pure_diamond", "split_diamond", "ptr_diamond"]
    for d in [1, 2, 3, 4, 6, 8, 10, 12, 14, 16]:
        for f in forms:
            s1.append(mk(chain(d, f, rng.choice([["compute"], ["vertex", "fragment"], ["fragment", "fragment", "compute"]])), "chain_" + f, d))
    for d in [2, 4, 8, 12, 16]:
        s1.append(mk(struct_diamond(d, 3), "struct_diamond", d))
    for d in [8, 12, 14]:
        s1.append(mk(struct_tower(d), "struct_tower", d))
    for d in [4, 8, 16]:
        for where in ("vertex_only", "unused"):
            s1.append(mk(pc_unused_diamond(d, where), "pc_unused_diamond_" + where, d))
    for d in [4, 8, 16]:
        for use in ("workgroup_size", "body", "unused"):
            s1.append(mk(override_ladder(d, use), "override_ladder_" + use, d))
    for d in [4, 8, 12]:
        for form in ("if", "mixed", "else_if_ladder"):
            s1.append(mk(nested_control(d, form), "nested_control_" + form, d))
        s1.append(mk(struct_diamond_two_spaces(d, d % 8 == 0), "struct_diamond_two_spaces", d))
    s1.append(mk(fanout(12, 3, rng), "fanout", 12))
    s1.append(mk(wide_struct(20, 6), "wide_struct", 20))
    deep = [20, 24, 32, 48, 64] if tier != "thorough" else [20, 24, 28, 32, 40, 48, 56, 64, 96, 128]
    for d in deep:
        for f in forms:
            s2.append(mk(chain(d, f, ["vertex", "fragment", "compute"]), "chain_" + f, d))
    for d in [24, 48, 64]:
        for where in ("vertex_only", "unused"):
            s2.append(mk(pc_unused_diamond(d, where), "pc_unused_diamond_" + where, d))
    for d in [24, 48, 64]:
        for use in ("workgroup_size", "body"):
            s2.append(mk(override_ladder(d, use), "override_ladder_" + use, d))
    for d in [18, 20, 22]:
        s2.append(mk(struct_diamond(d, 4), "struct_diamond", d))
    for d in [18, 22, 26, 28]:
        s2.append(mk(struct_tower(d), "struct_tower", d))
    for d, form in ((32, "if"), (48, "if"), (40, "else_if_ladder"), (30, "mixed"), (38, "mixed"), (100, "else_if_ladder")):
        s2.append(mk(nested_control(d, form), "nested_control_" + form, d))
    for d, bf in ((18, True), (20, False), (22, True)):
        s2.append(mk(struct_diamond_two_spaces(d, bf), "struct_diamond_two_spaces", d))
    for (nh, ns) in [(50, 5), (150, 10), (300, 20)]:
        s2.append(mk(fanout(nh, ns, rng), "fanout", nh))
    s2.append(mk(wide_struct(200, 16), "wide_struct", 200))
    return [s1, s2]


def cases(rng, tier):
    st = stages(rng, tier)
    return st[0] + st[1]


def verdict_expr(c, r, ir, real):
    if r.get("counters") is None and r.get("result") == "ok":
        # the hooks are not compiled in (the tree does not build with the guard on): the counters cannot be compared
        slow = r.get("gen_us", 0) > 2_000_000
        c["note"] = "no counters: " + HOOKS.get("note", "")[:300]
        return "[wf %s; false; %s]" % (ir, "false" if slow else "true")
    walks, visits = (r.get("counters") or [0, 0])
    # 'well under a second': the unchanged code needs ~10 ms for every case of these families; the counters decide for the two
    # modelled traversals, wall-clock catches super-linear behaviour anywhere else in the generator
    slow = r.get("gen_us", 0) > 2_000_000
    # (a): the real traversals do at most the work of the model's (fewer = better memoisation is fine), and the hooks are
    # alive: a counter of 0 where the model walks something means the hook calls are gone
    alive = "(negb (%d =? 0)%%N || (N.of_nat (stage_walks %s) =? 0)%%N) && (negb (%d =? 0)%%N || (N.of_nat (type_visits %s) =? 0)%%N)" % (walks, ir, visits, ir)
    return ('[wf %s; (%d <=? N.of_nat (stage_walks %s))%%N && (%d <=? N.of_nat (type_visits %s))%%N && %s; '
            'C20_ok %s %d%%N %d%%N && %s]'
            % (ir, walks, ir, visits, ir, alive, ir, walks, visits, "false" if slow else "true"))


def nontrivial(c, r):
    return c.get("depth", 0) >= 4 and r.get("result") == "ok"


def extra_coverage(recs):
    t = sorted((r["res"].get("gen_us", 0), r["case"].get("family"), r["case"].get("depth")) for r in recs)
    return {"slowest_generation_us": t[-3:], "max_counters": [max((r["res"].get("counters") or [0, 0])[i] for r in recs) for i in (0, 1)]}
