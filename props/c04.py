"""C04 - named bind group fields reach their own slot; groups bind at own index."""
import itertools
from common import coq_options, coq_string
import obs

ID = "C04"
ENV_RERUN = 40          # cases repeated from a cargo build-script environment (lib/runner.py with_build_env)
REQUIRES = ["ObsCheck", "Agree", "C04Spec", "Truth"]
THEOREM_REQUIRES = ["C04"]
THEOREMS = ["C04_holds_bool", "C04_holds", "C04_holds_none"]
PROOF_FILES = ["Proofs/GenInv.v", "Proofs/C11Proof.v", "Proofs/C11Link.v", "Proofs/C04Proof.v", "Proofs/C04Obs.v", "Properties/C04.v"]
RULE = ("1..8 groups with 1..12 variables each, binding indices a random injection into sparse ranges, declaration "
        "order a random interleaving across groups, all resource kinds mixed (uniform/storage buffers of struct, "
        "array, scalar, vector, matrix; sampled/depth/storage textures; samplers); bounded-exhaustive part: all "
        "orders x index assignments from {0,1,2,7} for <= 3 variables in <= 2 groups; ground truth (per group: "
        "field name, kind, binding in declaration order) compared with the real output; non-trivial = some group has "
        ">= 2 variables; distinct = distinct IR dumps")
ASSUMPTIONS = ["what from_bindings / set / set_bind_groups *do* with these parameters on a device is fixed template "
               "text, compared token-for-token by the extractor and executed against the recording shim in C01's batch"]

KINDS = [
    ("var<uniform> {n}: vec4<f32>;", "RKBuffer"), ("var<uniform> {n}: U;", "RKBuffer"),
    ("var<storage, read> {n}: array<f32>;", "RKBuffer"), ("var<storage, read_write> {n}: array<vec4<u32>, 4>;", "RKBuffer"),
    ("var<uniform> {n}: mat3x3<f32>;", "RKBuffer"), ("var<storage, read_write> {n}: u32;", "RKBuffer"),
    ("var {n}: texture_2d<f32>;", "RKTexture"), ("var {n}: texture_depth_cube;", "RKTexture"),
    ("var {n}: texture_storage_2d<rgba8unorm, write>;", "RKTexture"), ("var {n}: texture_multisampled_2d<u32>;", "RKTexture"),
    ("var {n}: sampler;", "RKSampler"), ("var {n}: sampler_comparison;", "RKSampler"),
]
NAMES = ["camera", "lights", "tex", "smp", "data", "out_buf", "params", "Δ", "x", "y", "albedo", "normal_map",
         "shadow", "env", "weights", "indices", "u_time", "cfg", "bones", "dst", "src", "a", "b", "c", "d", "e",
         # names a case conversion would change or merge: the field must be named exactly like the variable
         "baseColor", "lightDir", "light_dir", "LightDir", "tex2D", "Tex", "TEX", "uTime", "_private", "x1", "X1",
         "normalMap", "HDR", "rgbaOut", "gr\u00f6\u00dfe",
         # names as naga_oil writes them for imported items: the field is named like the variable, decoration included
         # words that are (or may become) keywords in SOME Rust edition but are plain identifiers in the edition of the
         # generated module: the field is named exactly like the variable
         "gen", "raw", "safe", "dyn_", "r_gen", "try_",
         "camX_naga_oil_mod_XMNXW23LPNYX", "camX_naga_oil_mod_XOBRHEX", "cam", "lightsX_naga_oil_mod_XMNXW23LPNYX"]


UNBOUND = ["var<private> scratch_{k}: f32;", "var<workgroup> wg_tile_{k}: array<u32, 4>;", "var<private> state{k}: vec4<f32>;"]


def render(decls, rng):
    lines = ["struct U { a: vec4<f32>, b: f32 }"]
    for (g, b, name, kind) in decls:
        lines.append("@group(%d) @binding(%s) %s" % (g, ("%du" % b) if b >= 2 ** 31 else str(b), KINDS[kind][0].format(n=name)))
    if rng.random() < 0.35:
        # module-scope variables WITHOUT a binding (private / workgroup / push constant) before, between and after the
        # resources: they are no resources and must not end, shift or shadow the resource list
        extra = [rng.choice(UNBOUND).format(k=k) for k in range(rng.randint(1, 3))]
        if rng.random() < 0.5:
            extra.append("var<push_constant> pc_block: vec4<f32>;")
        for e in extra:
            lines.insert(rng.choice([1, 1, rng.randint(1, len(lines))]), e)
    lines.append("@compute @workgroup_size(1) fn main() {}")
    return "\n".join(lines) + "\n"


def truth_of(decls):
    groups = {}
    for (g, b, name, kind) in decls:
        groups.setdefault(g, []).append((name, KINDS[kind][1], b))
    return [(g, groups[g]) for g in sorted(groups)]


def cases(rng, tier):
    out = []
    # bounded exhaustive: <= 3 variables, <= 2 groups, indices from {0,1,2,7}
    small = []
    for nvars in (1, 2, 3):
        for gs in itertools.product((0, 1), repeat=nvars):
            if set(gs) not in ({0}, {0, 1}):
                continue
            for bs in itertools.product((0, 1, 2, 7), repeat=nvars):
                if len({(g, b) for g, b in zip(gs, bs)}) < nvars:
                    continue
                small.append(list(zip(gs, bs)))
    if tier != "thorough":
        small = rng.sample(small, 150 if tier == "quick" else 300)
    for pairs in small:
        names = rng.sample(NAMES, len(pairs))
        decls = [(g, b, n, rng.randrange(len(KINDS))) for (g, b), n in zip(pairs, names)]
        out.append({"wgsl": render(decls, rng), "family": "bounded_exhaustive", "opts": {}, "truth": truth_of(decls)})
    n = {"quick": 350, "search": 800, "thorough": 3000}[tier]
    for i in range(n):
        ng = rng.randint(1, 8)
        decls = []
        pool = list(NAMES) + ["v%d" % k for k in range(80)]
        rng.shuffle(pool)
        for g in range(ng):
            nb = rng.choice([1, 1, 2, 3, 5, 12])
            idx = rng.sample(range(0, rng.choice([12, 40, 1000])), nb)
            if rng.random() < 0.15:
                # the ends of the index range and powers of two: any u32 is a binding index
                idx = list(dict.fromkeys(idx[: max(0, nb - 2)] + rng.sample([4294967295, 4294967294, 2147483648, 2147483647, 65536, 65535, 64, 63, 256], 2)))
            for b in idx:
                decls.append((g, b, pool.pop(), rng.randrange(len(KINDS))))
        rng.shuffle(decls)
        out.append({"wgsl": render(decls, rng), "family": "random", "opts": {"rustfmt": i % 15 == 0}, "truth": truth_of(decls)})
    # two-digit group numbers (BindGroup10 sorts before BindGroup2 as text)
    for i in range({"quick": 6, "search": 12, "thorough": 40}[tier]):
        ng = rng.randint(11, 14)
        pool = list(NAMES) + ["v%d" % k for k in range(80)]
        rng.shuffle(pool)
        decls = [(g, rng.choice([0, 1, 3]), pool.pop(), rng.randrange(len(KINDS))) for g in range(ng)]
        rng.shuffle(decls)
        out.append({"wgsl": render(decls, rng), "family": "many_groups", "opts": {}, "truth": truth_of(decls)})
    # groups that look alike: same binding indices and WGSL types, different address space / access
    twins = [(0, "var<uniform> {n}: U;"), (1, "var<storage, read> {n}: U;"), (2, "var<storage, read_write> {n}: U;"),
             (3, "var<uniform> {n}: vec4<f32>;"), (4, "var<storage, read_write> {n}: vec4<f32>;")]
    for i in range({"quick": 6, "search": 12, "thorough": 30}[tier]):
        k = rng.randint(2, 4)
        chosen = rng.sample(twins[:3], min(k, 3)) if rng.random() < 0.6 else twins[3:]
        b = rng.choice([0, 2])
        lines = ["struct U { a: vec4<f32>, b: f32 }"]
        truth = []
        for g, (_, decl) in enumerate(chosen):
            n = "p%d" % g
            lines.append("@group(%d) @binding(%d) %s" % (g, b, decl.format(n=n)))
            truth.append((g, [(n, "RKBuffer", b)]))
        use = " ".join("_ = p%d%s;" % (g, ".a" if "U;" in d else "") for g, (_, d) in enumerate(chosen)) if rng.random() < 0.5 else ""
        lines.append("@compute @workgroup_size(1) fn main() { %s }" % use)
        out.append({"wgsl": "\n".join(lines) + "\n", "family": "lookalike_groups", "opts": {}, "truth": truth})
    # resource types the generator has no binding for (it panics): every variable still has to be accounted for - a module
    # the generator returns must have a field and an entry for it
    for i in range({"quick": 6, "search": 12, "thorough": 30}[tier]):
        pool = list(NAMES)
        rng.shuffle(pool)
        decls = [(g, b, pool.pop(), rng.randrange(len(KINDS))) for g in range(rng.randint(1, 3)) for b in range(rng.randint(1, 2))]
        lines = ["struct U { a: vec4<f32>, b: f32 }"]
        g_, b_ = rng.choice([(0, 5), (len({d[0] for d in decls}), 0), (0, 9)])      # in an existing group, or alone in the last group
        bad = "@group(%d) @binding(%d) %s" % (g_, b_, rng.choice(["var<storage, read_write> counter: atomic<u32>;",
                                                                   "var table: binding_array<texture_2d<f32>, 4>;"]))
        body = ["@group(%d) @binding(%d) %s" % (g, b, KINDS[k][0].format(n=n)) for (g, b, n, k) in decls]
        body.insert(rng.randrange(len(body) + 1), bad)
        lines += body + ["@compute @workgroup_size(1) fn main() {}"]
        out.append({"wgsl": "\n".join(lines) + "\n", "family": "unsupported_resource", "opts": {}, "truth": truth_of(decls)})
    # two variables sharing one slot, used by entry points of different stages: the generator rejects the module; if a
    # module comes back, every variable still has to have its field and its entry
    for i in range({"quick": 4, "search": 8, "thorough": 16}[tier]):
        g_, b_ = rng.choice([(0, 0), (0, 3), (1, 1)])
        lines = ["struct U { a: vec4<f32>, b: f32 }"]
        if g_ == 1:
            lines.append("@group(0) @binding(0) var<uniform> base: U;")
        lines.append("@group(%d) @binding(%d) var<uniform> first: vec4<f32>;" % (g_, b_))
        lines.append("@group(%d) @binding(%d) var<uniform> second: vec4<f32>;" % (g_, b_))
        lines.append("@vertex fn vs_main() -> @builtin(position) vec4<f32> { return first; }")
        lines.append("@fragment fn fs_main() -> @location(0) vec4<f32> { return second; }")
        out.append({"wgsl": "\n".join(lines) + "\n", "family": "shared_slot_disjoint_stages", "opts": {"validate": i % 2 == 0},
                    "truth": [(0, [("base", "RKBuffer", 0)])] if g_ == 1 else []})
    # shaders generated one after the other whose groups have the same variable names, types and order but different @binding
    # indices (a camera / light / material group shared by many shaders): each module carries ITS indices
    for rep in range({"quick": 2, "search": 3, "thorough": 6}[tier]):
        shape = [("camera", 1), ("light", 1), ("albedo", 6), ("smp", 10)]
        for idxs in ([0, 1, 2, 3], [4, 2, 9, 0], [1, 0, 3, 7], [0, 1, 2, 3]):
            decls = [(0, b, n, k) for (n, k), b in zip(shape[:2], idxs[:2])] + [(1, b, n, k) for (n, k), b in zip(shape[2:], idxs[2:])]
            out.append({"wgsl": render(decls, rng), "family": "same_names_other_indices", "opts": {}, "truth": truth_of(decls)})
    # the special families first: they must be among the modules that are compiled and run on the shim
    out.sort(key=lambda c: 0 if c["family"] in ("lookalike_groups", "many_groups", "same_names_other_indices") else 1)
    # a call the generator answers with its documented panic is followed, ON THE SAME WORKER THREAD (the driver hands out
    # chunks of four consecutive cases), by accepted shaders: whatever the failed call left behind, they get their own fields
    special = [c for c in out if c["family"] in ("lookalike_groups", "many_groups", "same_names_other_indices")]
    rest = [c for c in out if c not in special]
    bad = [c for c in rest if c["family"] == "unsupported_resource"]
    good = [c for c in rest if c["family"] != "unsupported_resource"]
    while len(special) % 4 and good:
        special.append(good.pop())
    blocks = []
    for b_ in bad:
        if len(good) < 3:
            blocks.append(b_)
            continue
        blocks += [good.pop(), b_, good.pop(), good.pop()]
    return special + blocks + good


def run_cases(plain, cases_, workdir, tag):
    return obs.attach(plain, cases_, workdir, tag, lambda c: True, 40 if "search" not in tag else 0)


RK = {"Buffer": "RKBuffer", "TextureView": "RKTexture", "Sampler": "RKSampler"}


def coq_obs_clause(r, real):
    """Coq-evaluated: Spec/Obs.v on the extracted output = the device calls the compiled module made on the shim"""
    dl = r["obs"]["device_log"]
    built = []
    for b in dl.get("bind_groups", []):
        fb = b["from_bindings"]
        if not fb.get("layout_is_own", True):
            return "false"
        ents = "; ".join("(%d%%N, %s, %s)" % (e["binding"], coq_string(e["field"]), RK.get(e["kind"], "RKBuffer")) for e in fb["entries"])
        lay = "; ".join("%d%%N" % e["binding"] for e in fb["layout_entries"])
        built.append("(%d%%N, [%s], [%s])" % (b["group"], lay, ents))
    single, all_struct, all_fn = [], [], []
    for s_ in dl.get("set", []):
        calls = "[" + "; ".join("(%d%%N, %d%%N)" % (c_["index"], c_["bind_group_tag_group"]) for c_ in s_["calls"]) + "]"
        if any(c_["offsets"] for c_ in s_["calls"]):
            return "false"
        how = s_["how"]
        if how.startswith("BindGroups"):
            all_struct.append(calls)
        elif how.startswith("BindGroup") and how.endswith("::set"):
            single.append("(%d%%N, %s)" % (int(how[len("BindGroup"):].split(":")[0]), calls))
        else:
            all_fn.append(calls)
    pl = dl.get("pipeline_layout") or {}
    if not pl.get("layouts_are_own", True):
        return "false"
    pls = []
    for x in pl.get("bind_group_layouts", []):
        lab = x.get("label") or ""
        if not lab.startswith("LayoutDescriptor") or not lab[len("LayoutDescriptor"):].isdigit():
            return "false"
        pls.append("(%s%%N, [%s])" % (lab[len("LayoutDescriptor"):], "; ".join("%d%%N" % e["binding"] for e in x.get("entries", []))))
    return ("obs_built_ok %s [%s] && obs_sets_ok %s [%s] [%s] [%s] && obs_pl_ok %s [%s]"
            % (real, "; ".join(built), real, "; ".join(single), "; ".join(all_struct), "; ".join(all_fn), real, "; ".join(pls)))


def verdict_expr(c, r, ir, real):
    ob = "true"
    if "obs" in r and r.get("result") == "ok":
        ok, why = obs.check_c04(c["truth"], r) if obs.usable(r) else (False, "module did not build / run on the shim: %s" % str(r.get("obs"))[:300])
        c["note"] = why
        ob = "true" if ok else "false"
        if obs.usable(r):
            ob += " && " + coq_obs_clause(r, real)
    if c["family"] == "shared_slot_disjoint_stages" and r.get("result") == "err":
        return '[wf %s; agree_res agree_C04 (gen %s ""%%string None %s) %s; true]' % (ir, ir, coq_options(c["opts"]), real)
    if c["family"] == "unsupported_resource" and r.get("result") == "panic":
        # not an accepted shader: the property says nothing (the model must agree that the generator gives up)
        return '[wf %s; agree_res agree_C04 (gen %s ""%%string None %s) %s; true]' % (ir, ir, coq_options(c["opts"]), real)
    return _verdict(c, r, ir, real).replace("OBS", ob)


def _verdict(c, r, ir, real):
    t = "[" + "; ".join("(%d%%N, [%s])" % (g, "; ".join("(%s, %s, %d%%N)" % (coq_string(n), k, b) for n, k, b in vs))
                        for g, vs in c["truth"]) + "]"
    return ('[wf %s; agree_res agree_C04 (gen %s ""%%string None %s) %s; '
            'on_ok %s (fun o => C04_ok %s o && truth_groups_ok o %s) && OBS]'
            % (ir, ir, coq_options(c["opts"]), real, real, ir, t))


def verdict_expr_noout(c, r, ir):
    # the returned text does not match the templates any more: decide (b) by what the compiled module does
    ob = "true"
    if "obs" in r and r.get("result") == "ok":
        ok, why = obs.check_c04(c["truth"], r) if obs.usable(r) else (False, "module did not build / run on the shim: %s" % str(r.get("obs"))[:300])
        c["note"] = "extraction failed (%s); behaviour: %s" % (r.get("extract_err"), why)
        ob = "true" if ok else "false"
    return "[true; false; %s]" % ob


def nontrivial(c, r):
    return any(len(vs) >= 2 for _, vs in c["truth"]) and r.get("result") == "ok"
