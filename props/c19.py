"""C19 - formatter choice and formatter failure never change the program."""
import json
import os
import random
import stat
import subprocess

from common import *  # noqa
import sink
import wgslgen as W

ID = "C19"
THEOREM_REQUIRES = ["C19"]
THEOREMS = ["C19_decision", "C19_faults_fall_back"]
PROOF_FILES = ["Properties/C19.v"]
RULE = ("shaders whose generated text is below and above the 64 KiB pipe buffer x formatter behaviours injected as a stub "
        "`rustfmt` first on PATH {real rustfmt, absent, exit 1 after reading, exit 1 without reading, killed by SIGKILL "
        "before / after reading, exit 0 printing nothing, exit 0 printing invalid UTF-8, slow} under a hard timeout; "
        "checked: the call returns Ok, the returned text extracts to the same `out` value (token-level comparison of "
        "the parametric parts and token-for-token comparison of the fixed templates) as with rustfmt off, and whether "
        "the formatter's output or the fall-back was used agrees with the model's decision table; non-trivial = a "
        "fault (not the real formatter); distinct = (shader, fault)")
ASSUMPTIONS = ["the mapping from an injected fault to the model's fmt_outcome (e.g. exit-without-reading + output larger "
               "than the pipe buffer => write error) is the harness's reading of POSIX pipes",
               "that rustfmt / prettyplease preserve the token stream is observed (extracted `out` equal), not proved",
               "pipe capacities and scheduling are the OS's; timing is explored with a 'slow' stub only"]

REAL_RUSTFMT = None

STUBS = {
    "real": None,
    "absent": "",
    "exit1_after_reading": "#!/bin/sh\ncat >/dev/null\nexit 1\n",
    "exit1_without_reading": "#!/bin/sh\nexit 1\n",
    "killed_before_reading": "#!/bin/sh\nkill -9 $$\n",
    "killed_after_reading": "#!/bin/sh\ncat >/dev/null\nkill -9 $$\n",
    "empty_output": "#!/bin/sh\ncat >/dev/null\nexit 0\n",
    "blank_output": "#!/bin/sh\ncat >/dev/null\nprintf '\\n  \\n'\nexit 0\n",
    "invalid_utf8": "#!/bin/sh\ncat >/dev/null\nprintf 'pub fn x() {} \\377\\376'\nexit 0\n",
    "slow": "#!/bin/sh\nsleep 0.4\nexec %s \"$@\"\n",
    "exit0_without_reading": "#!/bin/sh\nexit 0\n",
    "killed_after_partial_output": "#!/bin/sh\nhead -c 300\ncat >/dev/null\nkill -9 $$\n",
    "exit1_after_partial_output": "#!/bin/sh\nhead -c 300\ncat >/dev/null\nexit 1\n",
    "killed_partial_without_reading_all": "#!/bin/sh\nhead -c 300\nkill -9 $$\n",
    # exits before reading (all of) its input, having echoed the first 4 KiB, with status 0: for inputs larger than the
    # pipe buffer the write fails; the truncated echo must not be taken for the formatted program
    "exit0_partial_without_reading_all": "#!/bin/sh\nhead -c 4096\nexit 0\n",
    # a failing formatter that explains itself on stderr (several lines, as rustfmt does)
    "exit1_with_diagnostics": "#!/bin/sh\ncat >/dev/null\nprintf 'error: expected item\\n --> <stdin>:1:1\\n  |\\n1 | oops\\n' >&2\nexit 1\n",
    "status1_complete_garbage": "#!/bin/sh\ncat >/dev/null\nprintf 'pub fn unrelated() {}\\n'\nexit 1\n",
    # a working formatter with another house style: a banner comment and deep indentation - the same program, but several
    # times longer than its one-line input (and, for big modules, far more than a pipe buffer longer)
    "verbose_style": "#!/bin/sh\ni=0; while [ $i -lt 300 ]; do echo '// generated file - do not edit - formatted with the house style'; i=$((i+1)); done\n"
                     "%s \"$@\" | sed 's/^/                                /'\n",
    # tool-selection variables other programs honour (RUSTFMT, as bindgen / cargo fmt read it) name a formatter that fails
    # after printing part of its output, while the formatter on PATH works: the result is the program, nothing else
    "envvar_RUSTFMT_fails_after_partial_output": "#!/bin/sh\nhead -c 300\ncat >/dev/null\nexit 1\n",
    "envvar_RUSTFMT_killed_after_partial_output": "#!/bin/sh\nhead -c 500\ncat >/dev/null\nkill -9 $$\n",
}
ONLY_BIG = {"exit0_partial_without_reading_all"}     # for small inputs the whole input fits the pipe: the stub is then a lying formatter, outside the property
# model outcome per fault: (constructor term for small output, for big output), expected use_formatted
MODEL = {
    "real": ("Ran WOk Exit0 true false",) * 2,
    "absent": ("SpawnErr",) * 2,
    "exit1_after_reading": ("Ran WOk ExitN true true",) * 2,
    "exit1_without_reading": ("Ran WOk ExitN true true", "Ran WErr ExitN true true"),
    "killed_before_reading": ("Ran WOk Signal true true", "Ran WErr Signal true true"),
    "killed_after_reading": ("Ran WOk Signal true true",) * 2,
    "empty_output": ("Ran WOk Exit0 true true",) * 2,
    "blank_output": ("Ran WOk Exit0 true true",) * 2,
    "invalid_utf8": ("Ran WOk Exit0 false false",) * 2,
    "slow": ("Ran WOk Exit0 true false",) * 2,
    "exit0_without_reading": ("Ran WOk Exit0 true true", "Ran WErr Exit0 true true"),
    "killed_after_partial_output": ("Ran WOk Signal true false",) * 2,
    "exit1_after_partial_output": ("Ran WOk ExitN true false",) * 2,
    "killed_partial_without_reading_all": ("Ran WOk Signal true false", "Ran WErr Signal true false"),
    "exit0_partial_without_reading_all": ("Ran WOk Exit0 true false", "Ran WErr Exit0 true false"),
    "exit1_with_diagnostics": ("Ran WOk ExitN true true",) * 2,
    "status1_complete_garbage": ("Ran WOk ExitN true false",) * 2,
    "verbose_style": ("Ran WOk Exit0 true false",) * 2,
    "envvar_RUSTFMT_fails_after_partial_output": ("Ran WOk Exit0 true false",) * 2,      # the variable is not an input: the PATH formatter runs
    "envvar_RUSTFMT_killed_after_partial_output": ("Ran WOk Exit0 true false",) * 2,
}


def big_shader(n):
    lines = ["struct U { a: vec4<f32>, b: mat4x4<f32> }"]
    for i in range(n):
        lines.append("@group(%d) @binding(%d) var<uniform> some_rather_long_binding_name_%d: U;" % (i // 64, i % 64, i))
    lines.append("@compute @workgroup_size(1) fn main() {}")
    return "\n".join(lines) + "\n"


def shaders(rng, tier):
    out = [("small_sink", sink.sink(rng)["wgsl"]), ("small_graph", W.random_program(rng).render()),
           ("fixture", open(REPO + "/wgsl_to_wgpu/src/data/bindgroup/vertex_fragment.wgsl").read()),
           ("big_300", big_shader(300)), ("big_150", big_shader(150))]
    if tier == "thorough":
        out += [("sink_%d" % i, sink.sink(rng)["wgsl"]) for i in range(10)] + [("big_600", big_shader(600))]
    return out


def run(tier, seed, replay):
    global REAL_RUSTFMT
    rng = random.Random(seed)
    workdir = os.path.join(WORK, ID)
    os.makedirs(workdir, exist_ok=True)
    rc, out = sh("command -v rustfmt")
    REAL_RUSTFMT = out.strip().split("\n")[-1] if rc == 0 else None
    shs = shaders(rng, tier)
    # the other switches vary with the shader: the formatter must not change the program under any of them
    derive_sets = [{}, {"serde": True, "bm_vertex": True}, {"serde": True, "mv": "Glam"}, {"bm_vertex": True, "mv": "Nalgebra"}, {"serde": True}]
    base_cases = [{"id": i, "wgsl": w, "include": None, "opts": dict(derive_sets[i % len(derive_sets)], rustfmt=False), "want_text": True}
                  for i, (_, w) in enumerate(shs)]
    # one source, one option set, three ways of naming the source (embedded, two include paths), generated in ONE process one
    # after the other: each call's text is ITS program (with the formatter on as with it off)
    twin_src = shs[1][1]
    for inc in (None, "a.wgsl", "other/path.wgsl", None, "a.wgsl"):
        shs.append(("same_source_%s" % (inc or "embedded"), twin_src))
        base_cases.append({"id": len(base_cases), "wgsl": twin_src, "include": inc, "opts": {"rustfmt": False}, "want_text": True})
    base = run_driver(base_cases, workdir, "base")
    fmt_cases = [dict(c, opts=dict(c["opts"], rustfmt=True)) for c in base_cases]
    violations, broken, evals, samples, dist = [], [], 0, [], {}
    coq_items = []
    for fault, script in STUBS.items():
        if (fault in ("real", "slow", "verbose_style") or fault.startswith("envvar_")) and not REAL_RUSTFMT:
            continue
        stubdir = os.path.join(workdir, "stub_" + fault)
        sh(["rm", "-rf", stubdir])
        os.makedirs(stubdir)
        extra_env = {}
        if script is None:
            path_env = os.path.dirname(REAL_RUSTFMT) + ":/usr/bin:/bin"
        elif fault.startswith("envvar_"):
            p = os.path.join(stubdir, "preferred-rustfmt")
            open(p, "w").write(script)
            os.chmod(p, os.stat(p).st_mode | stat.S_IXUSR | stat.S_IXGRP | stat.S_IXOTH)
            path_env = os.path.dirname(REAL_RUSTFMT) + ":/usr/bin:/bin"
            extra_env = {"RUSTFMT": p}
        else:
            if script:
                p = os.path.join(stubdir, "rustfmt")
                open(p, "w").write(script % REAL_RUSTFMT if "%s" in script else script)
                os.chmod(p, os.stat(p).st_mode | stat.S_IXUSR | stat.S_IXGRP | stat.S_IXOTH)
            path_env = stubdir + ":/usr/bin:/bin" if fault != "absent" else stubdir
        cin = os.path.join(workdir, "fmt_%s.jsonl" % fault)
        cout = os.path.join(workdir, "fmt_%s.results.jsonl" % fault)
        with open(cin, "w") as f:
            for c in fmt_cases:
                f.write(json.dumps(c) + "\n")
        try:
            p = subprocess.run([DRIVER, "gen", cin, cout], env={"PATH": path_env, "HOME": os.environ.get("HOME", "/root"), **extra_env},
                               stdout=subprocess.PIPE, stderr=subprocess.STDOUT, timeout=120)
            results = [json.loads(l) for l in open(cout)] if p.returncode == 0 else None
        except subprocess.TimeoutExpired:
            results = "timeout"
        for i, (name, w) in enumerate(shs):
            evals += 1
            dist[fault] = dist.get(fault, 0) + 1
            payload = {"what": None, "fault": fault, "shader": name, "wgsl": w if len(w) < 20000 else w[:2000] + "...",
                       "stub": script, "kf": None}
            if results == "timeout":
                payload["what"] = "generation hangs with this formatter behaviour (120 s timeout)"
                violations.append(payload)
                continue
            if results is None:
                payload["what"] = "driver failed"
                broken.append(payload)
                continue
            r, b = results[i], base[i]
            if fault in ONLY_BIG and len(b.get("text") or "") <= 120000:
                evals -= 1
                continue
            unformatted_len = None
            if r.get("result") != "ok":
                payload["what"] = "call did not return Ok: %s %s" % (r.get("result"), (r.get("panic_msg") or r.get("err")))
                violations.append(payload)
                continue
            if r.get("out") is None or r.get("out") != b.get("out"):
                payload["what"] = "returned text is not the same program as with rustfmt off: %s" % (r.get("extract_err") or "out differs")
                payload["text_head"] = (r.get("text") or "")[:400]
                violations.append(payload)
                continue
            # which text was returned? the fall-back is the single-line token string
            used_formatted = (r.get("text") or "").count("\n") > 5
            big = len(b.get("text") or "") > 70000
            term = MODEL[fault][1 if big else 0]
            coq_items.append((len(coq_items), "", "[Bool.eqb (use_formatted (%s)) %s]" % (term, "true" if used_formatted else "false")))
            payload["model_outcome"] = term
            payload["used_formatted"] = used_formatted
            payload["text_len"] = len(b.get("text") or "")
            samples.append({k: payload[k] for k in ("fault", "shader", "model_outcome", "used_formatted", "text_len")})
    verdicts, errors = run_coq_cases(coq_items, ["Pipeline"], os.path.join(workdir, "coq"))
    for cid, _, expr in coq_items:
        v = verdicts.get(cid)
        if v != ["true"]:
            broken.append({"what": "model decision table and implementation disagree on whether the formatter's output is used (a)",
                           "detail": samples[cid] if cid < len(samples) else expr, "verdict": v})
    if errors:
        broken.append({"what": "coq evaluation failed", "detail": errors[0][1]})
    nontriv = {(s["fault"], s["shader"]) for s in samples if s["fault"] != "real"}
    cov = {"evaluations": evals, "distinct_nontrivial": len(nontriv), "samples": samples[:4] or [{"note": "none"}],
           "faults": dist, "traces_validated_against_impl": len(samples),
           "sizes": sorted({s["text_len"] for s in samples}), "real_rustfmt": REAL_RUSTFMT}
    return {"violations": violations, "broken": broken, "coverage": cov}
