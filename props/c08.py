"""C08 - struct property (see DESIGN.md §5 C08); cases shared with the other struct properties."""
from common import coq_options
import structcases
import obs

ID = "C08"
ENV_RERUN = 40          # cases repeated from a cargo build-script environment (lib/runner.py with_build_env)
REQUIRES = ["Agree", "StructSpec", "Truth"]
THEOREM_REQUIRES = ["C08"]
THEOREMS = ["C08_holds_bool", "C08_host_shareable_spec"]
PROOF_FILES = ["Proofs/GenInv.v", "Proofs/TypeDfs.v", "Proofs/StructProof.v", "Properties/C08.v"]
RULE = ("random type DAGs: host structs (scalars, vec2-4 of f32/i32/u32, all 9 matrix shapes, atomics, fixed arrays incl. "
        "arrays of structs, nesting <= 3, shared members, optional trailing runtime-sized array) used by globals in "
        "uniform / storage / private / workgroup space directly or through arrays, unused and function-local structs, "
        "vertex input structs, an inter-stage struct (vertex result = fragment parameter), fragment output structs, a "
        "struct that is both host-shareable and a vertex input; x option sets (3 per program in the quick tier, all 48 "
        "in the thorough tier); ground truth from the generator's description (emitted set, roles, WGSL layout by an "
        "independent Python implementation of the WGSL rules) compared with the real output; non-trivial = >= 2 "
        "emitted structs; distinct = distinct (IR dump, options)")
ASSUMPTIONS = ["naga's member offsets / spans / strides are the WGSL layout: checked per case against the independent "
               "Python implementation of the WGSL alignment rules through the ground-truth comparison"]
TRUSTED_EXTRA = ["Python implementation of the WGSL layout rules (lib/structgen.py) used as ground truth"]


def cases(rng, tier):
    return structcases.cases(rng, tier, result_as_vertex_input=True)


ELIGIBLE = lambda c: not (c["opts"].get("mv") == "Nalgebra" and c["opts"].get("encase"))


def run_cases(plain, cases_, workdir, tag):
    # behavioural level: 40 modules are compiled (all derive crates present) and the struct items counted
    return obs.attach(plain, cases_, workdir, tag, ELIGIBLE, 40 if "search" not in tag else 0)


def _obs(c, r):
    if "obs" not in r or r.get("result") != "ok":
        return "true"
    if obs.not_compiled(r):
        c["note"] = "module rejected at compile time: " + str((r.get("obs") or {}).get("why"))[:300]
        return "true"       # compile failures are C01's / C05's subject
    if not obs.usable(r):
        c["note"] = "no observations: %s" % str(r.get("obs"))[:300]
        return "false"
    ok, why = obs.check_c08(c["truth"], r)
    c["note"] = why
    return "true" if ok else "false"


def verdict_expr_noout(c, r, ir):
    if "obs" not in r:
        return None
    return "[true; false; %s]" % _obs(c, r)


def verdict_expr(c, r, ir, real):
    t = structcases.truth_term(c["truth"], c["opts"])
    return _verdict(c, r, ir, real, t).replace("OBS", _obs(c, r))


def _verdict(c, r, ir, real, t):
    return ('[wf %s; agree_res agree_C08 (gen %s ""%%string None %s) %s; '
            'match %s with Ok o => C08_ok %s o && truth_structs_ok o %s | Panic _ => %s | _ => false end && OBS]'
            % (ir, ir, coq_options(c["opts"]), real, real, ir, t,
               "true" if structcases.panic_expected(c) else "false"))


def nontrivial(c, r):
    return structcases.nontrivial(c, r)
