"""C17 - parse and validation failures come back as errors; validation only gates."""
import random

from common import REPO, coq_options, coq_string, run_driver
import sink
import structgen
import wgslgen as W

ID = "C17"
REQUIRES = ["Agree"]
THEOREM_REQUIRES = ["C17"]
THEOREMS = ["C17_parse_error", "C17_validation_error", "C17_validation_only_gates", "C17_error_origin",
            "C17_no_panic_before_generation"]
PROOF_FILES = ["Proofs/NoErr.v", "Properties/C17.v"]
RULE = ("valid shaders (kitchen-sink, call graphs, struct programs, repository fixtures) corrupted at the character level "
        "(truncation, span deletion, span duplication, swaps of adjacent tokens, injected Unicode incl. NUL / RTL / "
        "combining / non-BMP, injected stray tokens) plus hand-written modules that parse but fail validation (binding "
        "collision, uniform layout, stage restrictions, recursion-free call of fragment-only builtins from compute, "
        "missing bindings, wrong address space), each run with validation off and on; compared with naga's front end "
        "and validator called directly on the same text; non-trivial = corrupted or semantically invalid text; "
        "distinct = distinct texts")
ASSUMPTIONS = ["parse / validate are abstract functions in the model (naga is not modelled); a panic inside naga or "
               "codespan-reporting is searched for by this check, not excluded by the theorem"]
VERDICT_FIELDS = ["wf(true)", "a_model_pipeline_agrees", "b_errors_no_panic_diagnostics_and_gate"]

INVALID = [
    # parse fine, fail validation
    "@group(0) @binding(0) var<uniform> a: vec4<f32>;\n@group(0) @binding(0) var<uniform> b: vec4<f32>;\n@fragment fn main() { _ = a.x + b.x; }\n",
    "struct S { a: array<f32, 4> }\n@group(0) @binding(0) var<uniform> u: S;\n@compute @workgroup_size(1) fn main() { _ = u.a[0]; }\n",
    "@group(0) @binding(0) var t: texture_2d<f32>;\n@group(0) @binding(1) var s: sampler;\n@compute @workgroup_size(1) fn main() { _ = textureSample(t, s, vec2<f32>(0.0)); }\n",
    "@vertex fn main() -> vec4<f32> { return vec4<f32>(0.0); }\n",
    "@fragment fn main(x: f32) { }\n",
    "var<storage> a: f32;\n@compute @workgroup_size(1) fn main() { _ = a; }\n",
    "@group(0) @binding(0) var<storage, read> a: array<f32>;\n@compute @workgroup_size(1) fn main() { a[0] = 1.0; }\n",
    "@compute @workgroup_size(0) fn main() { }\n",
    "struct V { @location(0) a: vec4<f32>, @location(0) b: vec4<f32> }\n@vertex fn main(v: V) -> @builtin(position) vec4<f32> { return v.a; }\n",
    "@group(0) @binding(0) var<uniform> u: array<f32>;\n@compute @workgroup_size(1) fn main() { }\n",
    "var<push_constant> a: f32;\nvar<push_constant> b: f32;\n@compute @workgroup_size(1) fn main() { _ = a + b; }\n",
    # rejected by the validator AND containing something the generator itself has no output for (it would panic):
    # with validation on the answer must be the validation error, whatever the generator would have done
    "struct T { t: texture_2d<f32>, k: f32 }\n@group(0) @binding(0) var<uniform> u: T;\n@fragment fn main() { _ = u.k; }\n",
    "struct R { items: array<f32>, last: f32 }\n@group(0) @binding(0) var<storage, read> r: R;\n@compute @workgroup_size(1) fn main() { _ = r.last; }\n",
    "struct VM { @location(0) m: mat4x4<f32> }\n@vertex fn main(v: VM) -> @builtin(position) vec4<f32> { return v.m[0]; }\n",
    "struct VB { @location(0) flag: bool }\n@vertex fn main(v: VB) -> @builtin(position) vec4<f32> { return vec4<f32>(0.0); }\n",
    "@group(0) @binding(0) var<storage, read_write> counter: atomic<u32>;\n@group(0) @binding(0) var<uniform> dup: f32;\n@compute @workgroup_size(1) fn main() { _ = atomicAdd(&counter, 1u) + u32(dup); }\n",
]
# the validator's first complaint is about a function NO entry point calls (or the module has no entry point at all): the
# module is rejected all the same
DEAD_INVALID = [
    "@group(0) @binding(0) var<storage, read> a: array<f32>;\nfn dead_helper() { a[0] = 1.0; }\n@compute @workgroup_size(1) fn main() { }\n",
    "@group(0) @binding(0) var<storage, read> a: array<f32>;\nfn dead_helper() { a[0] = 1.0; }\nfn dead_caller() { dead_helper(); }\n",
    "var<push_constant> pc: f32;\nfn dead_store() { pc = 1.0; }\n@fragment fn fs() -> @location(0) vec4<f32> { return vec4<f32>(pc); }\n",
    "var<push_constant> pc: f32;\nfn dead_store() { pc = 1.0; }\n@vertex fn main() -> vec4<f32> { return vec4<f32>(0.0); }\n",
    "@group(0) @binding(0) var<uniform> u: vec4<f32>;\nfn dead_write() { u.x = 2.0; }\nfn live() -> f32 { return u.y; }\n@fragment fn fs() -> @location(0) vec4<f32> { return vec4<f32>(live()); }\n",
    "@group(0) @binding(0) var t: texture_storage_2d<rgba8unorm, read>;\nfn dead_tex() { textureStore(t, vec2<i32>(0), vec4<f32>(0.0)); }\n@compute @workgroup_size(1) fn main() { }\n",
]
# accepted by front end and validator: workgroup sizes given by overrides; enabling validation changes nothing
OVERRIDE_WG = [
    "override block: u32 = 64u;\n@compute @workgroup_size(block) fn main() { }\n",
    "override n = 8;\n@compute @workgroup_size(n, n) fn main() { }\n@compute @workgroup_size(4) fn other() { }\n",
    "@id(3) override rows: i32 = 2;\noverride scale: f32 = 1.0;\n@group(0) @binding(0) var<storage, read_write> d: array<f32>;\n"
    "@compute @workgroup_size(rows, 2, rows * 2) fn main() { d[0] = scale; }\n",
    "override wx: u32;\n@compute @workgroup_size(wx) fn main() { }\n",
]
UNI = ["\u0000", "‏", "́", "\U0001F600", "é", " ", "﻿", "‮", "\t", "\r", "\\", "\"", "'", "\x7f", "\u0085"]
TOKENS = ["{", "}", "(", ")", ";", "@", "->", "<", ">", "var", "fn", "struct", "123", "1.5e", "0x", "/*", "*/", "//", "::", "&", "*"]


def corrupt(rng, src):
    chars = list(src)
    k = rng.randrange(13)
    if k == 12:
        # a byte order mark (or another invisible character) at the very start of an otherwise valid text
        return rng.choice(["\ufeff", "\ufeff", "\u200b", "\u00a0"]) + src
    if k >= 7:
        # gentle, mostly still parsable corruptions (aimed at the validator and at the generator's own errors)
        import re
        lines = src.split("\n")
        if k == 7:      # collide two bindings
            return re.sub(r"@binding\(\d+\)", "@binding(0)", src, count=rng.randint(1, 3))
        if k == 8:      # move a variable to another group (gaps / non-consecutive groups)
            return re.sub(r"@group\(\d+\)", "@group(%d)" % rng.choice([1, 2, 5]), src, count=1)
        if k == 9:      # change an address space
            return src.replace("var<uniform>", rng.choice(["var<storage>", "var<storage, read_write>", "var<workgroup>"]), 1)
        if k == 10:     # duplicate a declaration line
            i = rng.randrange(len(lines))
            return "\n".join(lines[: i + 1] + [lines[i]] + lines[i + 1:])
        i = rng.randrange(len(lines))     # drop a line
        return "\n".join(lines[:i] + lines[i + 1:])
    n = len(chars)
    if n < 4:
        return src + "{"
    if k == 0:
        return "".join(chars[: rng.randrange(n)])
    if k == 1:
        i = rng.randrange(n)
        return "".join(chars[:i] + chars[i + rng.randint(1, 12):])
    if k == 2:
        i = rng.randrange(n)
        j = min(n, i + rng.randint(1, 20))
        return "".join(chars[:j] + chars[i:j] + chars[j:])
    if k == 3:
        i = rng.randrange(n)
        return "".join(chars[:i]) + rng.choice(UNI) * rng.randint(1, 3) + "".join(chars[i:])
    if k == 4:
        i = rng.randrange(n)
        return "".join(chars[:i]) + " " + rng.choice(TOKENS) + " " + "".join(chars[i:])
    if k == 5:
        toks = src.split(" ")
        if len(toks) > 3:
            i = rng.randrange(len(toks) - 1)
            toks[i], toks[i + 1] = toks[i + 1], toks[i]
        return " ".join(toks)
    i = rng.randrange(n)
    chars[i] = rng.choice(UNI + TOKENS)
    return "".join(chars)


# valid shaders in which a resource is only MENTIONED (address taken / value discarded), in an entry point or a helper:
# the validator's own use analysis and the generator's walk may differ on these, the output must not
_HDR = ("@group(0) @binding(0) var<storage, read_write> buf: array<f32, 4>;\n@group(0) @binding(1) var tex: texture_2d<f32>;\n"
        "@group(0) @binding(2) var samp: sampler;\n@group(1) @binding(0) var<uniform> u: vec4<f32>;\n"
        "var<push_constant> pc: vec4<f32>;\n")
MENTION_ONLY = [
    _HDR + "@fragment fn fs() -> @location(0) vec4<f32> { let p = &buf; return vec4<f32>(0.0); }\n@vertex fn vs() -> @builtin(position) vec4<f32> { return u; }\n",
    _HDR + "@fragment fn fs() -> @location(0) vec4<f32> { _ = tex; _ = samp; return u; }\n@compute @workgroup_size(1) fn cs() { buf[0] = 1.0; }\n",
    _HDR + "fn helper() { let q = &pc; }\n@vertex fn vs() -> @builtin(position) vec4<f32> { helper(); return u; }\n@fragment fn fs() -> @location(0) vec4<f32> { return pc; }\n",
    _HDR + "fn helper() -> f32 { let q = &buf[1]; return 1.0; }\n@vertex fn vs() -> @builtin(position) vec4<f32> { return vec4<f32>(helper()); }\n@fragment fn fs() -> @location(0) vec4<f32> { return u; }\n",
    _HDR + "@compute @workgroup_size(1) fn cs() { let a = &u; let b = &pc; _ = tex; }\n@fragment fn fs() -> @location(0) vec4<f32> { return textureSample(tex, samp, vec2<f32>(0.0)); }\n",
    _HDR + "@vertex fn vs() -> @builtin(position) vec4<f32> { if false { let p = &buf; } return vec4<f32>(0.0); }\n@fragment fn fs() -> @location(0) vec4<f32> { loop { _ = samp; break; } return u; }\n",
]


def cases(rng, tier):
    n = {"quick": 700, "search": 1500, "thorough": 6000}[tier]
    seeds = []
    for i in range(40):
        seeds.append(sink.sink(rng)["wgsl"])
        seeds.append(W.random_program(rng, pc=(i % 2 == 0)).render())
        seeds.append(structgen.program(rng)["wgsl"])
    seeds.append(open(REPO + "/wgsl_to_wgpu/src/data/bindgroup/vertex_fragment.wgsl").read())
    texts = [(s, "valid") for s in rng.sample(seeds, 25)] + [(t, "semantically_invalid") for t in INVALID]
    texts += [(t, "mention_only") for t in MENTION_ONLY]
    texts += [(t, "semantically_invalid") for t in DEAD_INVALID] + [(t, "mention_only") for t in OVERRIDE_WG]
    for i in range(n):
        t = corrupt(rng, rng.choice(seeds))
        if rng.random() < 0.2:
            t = corrupt(rng, t)
        if rng.random() < 0.15:
            t = t.replace("\n", "\r\n")      # diagnostics must refer to the text as given (line / column under CRLF)
        if rng.random() < 0.12:
            # lines that look like directives of WGSL preprocessors (in a comment, or bare): a rejected text is still a PARSE
            # error carrying the front end's own diagnostic
            ls_ = t.split("\n")
            ls_.insert(rng.randrange(len(ls_) + 1), rng.choice(["// #import common::lights", "#import utils", "// #define MAX_LIGHTS 4", "#ifdef SHADOWS",
                                                                 "/* #include \"a.wgsl\" */", "// #endif", "#define N 4"]))
            t = "\n".join(ls_)
        texts.append((t, "corrupted"))
    out = []
    for t, fam in texts:
        inc = None if rng.random() < 0.7 else "dir/shader.wgsl"
        derive = rng.choice([{"encase": True}, {}, {"bm_host": True}, {"serde": True}, {"bm_vertex": True, "mv": "Glam"}])
        for v in (False, True):
            out.append({"wgsl": t, "family": fam, "opts": dict(derive, validate=v), "include": inc})
    # the validator's verdict depends on the capability set: the same text validated under alternating sets, in one process
    # (every call must be judged by ITS capabilities, whatever earlier calls on the same text returned)
    for t in CAPS_SOURCES:
        for caps in ("empty", "all", "empty", "no_push_constant", "all", "no_float64", "empty"):
            inc = None if rng.random() < 0.7 else "dir/shader.wgsl"
            for v in (False, True):
                out.append({"wgsl": t, "family": "capability_sets", "opts": {"validate": v, "caps": caps}, "include": inc})
    # many calls with DIFFERENT capability sets at the same time (the worker threads of the driver take chunks of four
    # consecutive cases): each call is judged by its own set, also while other threads validate
    t = CAPS_SOURCES[3]
    for k in range(160 if tier != "thorough" else 600):
        out.append({"wgsl": t + "// concurrent %d\n" % (k // 2), "family": "capability_sets_concurrent",
                    "opts": {"validate": k % 2 == 1, "caps": ["empty", "all", "all", "empty", "no_push_constant", "all"][(k // 2) % 6]}, "include": None})
    return out


CAPS_SOURCES = [
    # features of naga's DEFAULT capability set: a caller-supplied set without them must still reject
    "@group(0) @binding(0) var cube_arr: texture_cube_array<f32>;\n@group(0) @binding(1) var smp: sampler;\n"
    "@fragment fn fs() -> @location(0) vec4<f32> { return textureSample(cube_arr, smp, vec3<f32>(0.0), 0); }\n",
    "@fragment fn fs(@builtin(sample_index) si: u32) -> @location(0) vec4<f32> { return vec4<f32>(f32(si)); }\n",
    "struct VO { @builtin(position) p: vec4<f32>, @location(0) @interpolate(perspective, sample) c: vec4<f32> }\n"
    "@vertex fn vs() -> VO { var o: VO; return o; }\n",
    "var<push_constant> pc: vec4<f32>;\n@fragment fn fs() -> @location(0) vec4<f32> { return pc; }\n",
    "@group(0) @binding(0) var<storage, read> data: array<f64>;\n@compute @workgroup_size(1) fn cs() { _ = data[0]; }\n",
    "struct P { a: f32, b: f32 }\nvar<push_constant> p: P;\n@group(0) @binding(0) var<storage, read> d: array<f64, 4>;\n"
    "@vertex fn vs() -> @builtin(position) vec4<f32> { return vec4<f32>(p.a + f32(d[1])); }\n",
]


def run_cases(plain, cases_, workdir, tag):
    for p in plain:
        p["want_text"] = True
    res = run_driver(plain, workdir, tag)
    for i in range(0, len(res) - 1, 2):
        a, b = res[i], res[i + 1]           # validate off / on for the same text
        same = (a.get("result"), a.get("text"), (a.get("err") or {}).get("variant")) == \
               (b.get("result"), b.get("text"), (b.get("err") or {}).get("variant"))
        a["twin_same"] = b["twin_same"] = same
    # the same calls in a process whose environment looks like a documentation / CI build: the answers must be the same
    idx = [i for i, c in enumerate(cases_) if c["family"] in ("semantically_invalid", "capability_sets", "mention_only")]
    if idx and "search" not in tag:
        env = {"DOCS_RS": "1", "CI": "true", "PROFILE": "release", "DEBUG": "false", "RUST_LOG": "trace", "CARGO_CFG_TARGET_OS": "windows",
               "WGSL_TO_WGPU_SKIP_VALIDATION": "1", "NO_COLOR": "1"}
        eres = run_driver([plain[i] for i in idx], workdir, tag + "_env", env=env)
        for i, er in zip(idx, eres):
            a = res[i]
            if (a.get("result"), (a.get("err") or {}).get("variant"), a.get("text")) != (er.get("result"), (er.get("err") or {}).get("variant"), er.get("text")):
                a["env_differs"] = "with DOCS_RS / CI / ... set the call returned %s %s instead of %s %s" % (
                    er.get("result"), (er.get("err") or {}).get("variant"), a.get("result"), (a.get("err") or {}).get("variant"))
    for r in res:
        r.pop("text", None) if r.get("out") else None
    return res


def b_holds(c, r):
    """the property on the real outcome, against naga called directly"""
    if r.get("env_differs"):
        c["note"] = r["env_differs"]
        return False
    v = c["opts"]["validate"]
    err = r.get("err") or {}
    if r.get("result") == "panic" and (not r.get("parse_ok") or (v and r.get("valid") is False)):
        return False                                     # a rejected text must come back as an error
    if not r.get("parse_ok"):
        return (r.get("result") == "err" and err.get("variant") == "ParseError"
                and err.get("emit") is not None and err.get("emit_path") is not None
                and err.get("emit") == r.get("parse_err"))
    if v and r.get("valid") is False:
        return (r.get("result") == "err" and err.get("variant") == "ValidationError"
                and err.get("emit") is not None and err.get("emit_path") is not None
                and err.get("emit") == r.get("valid_err"))
    if err.get("variant") in ("ParseError", "ValidationError"):
        return False
    if r.get("result") == "err" and (err.get("emit") is None or err.get("emit_path") is None):
        return False
    if v and r.get("valid") is True and not r.get("twin_same"):
        return False                                     # validation must only gate
    return True


def verdict_expr_parse_error(c, r):
    real = {"err": "(Err %s)" % (r.get("err") or {}).get("variant", "ParseError") if (r.get("err") or {}).get("variant") in ("ParseError", "ValidationError", "NonConsecutiveBindGroups") else '(Err ParseError)',
            "ok": '(Panic "unexpected ok"%string)', "panic": '(Panic ""%string)'}[r.get("result", "panic")]
    if r.get("result") == "ok":
        real = '(Ok (mkOut [] [] None None [] [] [] false [] false [] (SrcInclude ""%string) None [] []))'
    return ('[true; agree_res (fun _ _ => true) (run (fun _ => None) (fun _ => true) ""%%string None %s %s) %s; %s]'
            % (coq_options(c["opts"]), "true" if c["opts"]["validate"] else "false", real, "true" if b_holds(c, r) else "false"))


def verdict_expr(c, r, ir, real):
    inc = "None" if c.get("include") is None else "(Some %s)" % coq_string(c["include"])
    return ('[true; agree_res out_eqb (run (fun _ => Some %s) (fun _ => %s) %s %s %s %s) %s; %s]'
            % (ir, "false" if r.get("valid") is False else "true", coq_string(c["wgsl"]), inc, coq_options(c["opts"]),
               "true" if c["opts"]["validate"] else "false", real, "true" if b_holds(c, r) else "false"))


def verdict_expr_noout(c, r, ir):
    return '[true; true; %s]' % ("true" if b_holds(c, r) else "false")


def distinct_key(c, r):
    return (c["wgsl"], c["opts"]["validate"])


def nontrivial(c, r):
    return c["family"] != "valid"


def extra_coverage(recs):
    k = {"parse_error": 0, "validation_error_when_on": 0, "passes": 0, "generator_panics": 0}
    for r in recs:
        res = r["res"]
        if not res.get("parse_ok"):
            k["parse_error"] += 1
        elif res.get("valid") is False:
            k["validation_error_when_on"] += 1
        else:
            k["passes"] += 1
        if res.get("result") == "panic":
            k["generator_panics"] += 1
    return {"naga_outcomes": k}
