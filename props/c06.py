"""C06 - struct fields keep WGSL order, names and element types."""
import re

from common import coq_options, coq_string
import obs
import structcases
import structgen

ID = "C06"
ENV_RERUN = 40          # cases repeated from a cargo build-script environment (lib/runner.py with_build_env)
TABLES = ["scalar", "rust_type"]      # leaf tables compared exhaustively through the hooks (coq/Check/Tables.v)
REQUIRES = ["Agree", "StructSpec", "C06Spec", "C06Repr", "Truth"]
THEOREM_REQUIRES = ["C06"]
THEOREMS = ["C06_holds", "C06_holds_fields", "C06_holds_fields_kf", "C06_holds_named", "C06_holds_repr", "C06_refuted", "C06_leaf_table"]
PROOF_FILES = ["Proofs/GenInv.v", "Proofs/TypeDfs.v", "Proofs/StructProof.v", "Proofs/C06Proof.v", "Proofs/C06Named.v", "Proofs/C06ReprProof.v", "Properties/C06.v"]
RULE = ("the struct programs of C05/C08/C09 (incl. f64 scalars/vectors/matrices, all 9 matrix shapes, arrays of arrays, "
        "arrays of structs, nested structs, atomics, trailing runtime arrays) x Rust / Glam / Nalgebra; plus the leaf "
        "table enumerated exhaustively (every scalar kind x vec2-4, every matCxR in f32/f64) as single-member structs; "
        "ground truth: member names and shapes (kind, width, element counts in WGSL memory order) from the generator's "
        "description; non-trivial = >= 2 emitted structs or a leaf-table case; distinct = distinct (IR, options)")
ASSUMPTIONS = ["denote (what a Rust type means: arrays outer-first, glam::MatN = N columns of N, nalgebra SMatrix<T,R,C> "
               "column-major) is the specification's reading of the Rust types; type_name / byte placement of the "
               "compiled structs is observed in the compiled batch",
               "premise wf_io_structs (a struct emitted only as an entry-point parameter has no struct-typed member: a "
               "WGSL rule naga's validator enforces) is evaluated on every case as part of the wf flag"]


def leaf_cases():
    out = []
    leafs = []
    for s in ("f32", "i32", "u32", "f64"):
        leafs.append(structgen.Ty("scalar", s=s))
        for n in (2, 3, 4):
            leafs.append(structgen.Ty("vec", n=n, s=s))
    for s in ("f32", "f64"):
        for c in (2, 3, 4):
            for r in (2, 3, 4):
                leafs.append(structgen.Ty("mat", c=c, r=r, s=s))
    leafs.append(structgen.Ty("atomic", s="u32"))
    leafs.append(structgen.Ty("atomic", s="i32"))
    for i, t in enumerate(leafs):
        for wrap in (0, 1):
            ty = t if not wrap else structgen.Ty("array", elem=t, n=3)
            wgsl = "struct L { v: %s }\n@group(0) @binding(0) var<storage, read_write> g: L;\n@compute @workgroup_size(1) fn main() {}\n" % ty.wgsl()
            truth = [{"name": "L", "members": [("v", ty.shape())], "kinds": [ty.kind]}]
            for mv in ("Rust", "Glam", "Nalgebra"):
                out.append({"wgsl": wgsl, "family": "leaf_table", "opts": {"mv": mv}, "truth": truth, "needs_encase": False,
                            "leaf": True})
    return out


def cases(rng, tier):
    out = leaf_cases()
    out += structcases.cases(rng, tier, nbase={"quick": 120, "search": 300, "thorough": 800}[tier], allow_f64=True, allow_bool=True, huge_arrays=True)
    return out


ELIGIBLE = lambda c: not c.get("leaf") and not (c["opts"].get("mv") == "Nalgebra" and c["opts"].get("encase"))


def run_cases(plain, cases_, workdir, tag):
    # behavioural level: 30 struct programs are compiled and rustc reports every field's name and type
    return obs.attach(plain, cases_, workdir, tag, ELIGIBLE, 30 if "search" not in tag else 0)


PRIMS = {"f32": "PF32", "f64": "PF64", "i32": "PI32", "u32": "PU32", "bool": "PBool", "i8": "PI8", "u8": "PU8",
         "i16": "PI16", "u16": "PU16", "i64": "PI64", "u64": "PU64"}
GLAM = {"Vec2": (2, "PF32"), "Vec3": (3, "PF32"), "Vec4": (4, "PF32"), "DVec2": (2, "PF64"), "DVec3": (3, "PF64"), "DVec4": (4, "PF64"),
        "UVec2": (2, "PU32"), "UVec3": (3, "PU32"), "UVec4": (4, "PU32"), "IVec2": (2, "PI32"), "IVec3": (3, "PI32"), "IVec4": (4, "PI32")}
GLAM_M = {"Mat2": (2, "PF32"), "Mat3": (3, "PF32"), "Mat4": (4, "PF32"), "DMat2": (2, "PF64"), "DMat3": (3, "PF64"), "DMat4": (4, "PF64")}


def shape_of_type_name(t):
    """rustc's std::any::type_name of a field -> the shape term of Spec/C06Spec.v ([denote] read by rustc itself)"""
    t = t.strip()
    if t.startswith("[") and t.endswith("]"):
        depth, cut = 0, None
        for i, ch in enumerate(t):
            if ch in "[<(":
                depth += 1
            elif ch in "]>)":
                depth -= 1
            elif ch == ";" and depth == 1:
                cut = i
        return "(SArr %d%%N %s)" % (int(t[cut + 1:-1].strip()), shape_of_type_name(t[1:cut]))
    mm = re.match(r"^(?:alloc::vec::)?Vec<(.*)>$", t)
    if mm:
        return "(SVecOf %s)" % shape_of_type_name(mm.group(1))
    if t in PRIMS:
        return "(SScalar %s)" % PRIMS[t]
    mm = re.match(r"^nalgebra::.*?SVector<(\w+), (\d+)>$", t) or re.match(r"^nalgebra::SVector<(\w+), (\d+)>$", t)
    if mm:
        return "(SArr %s%%N (SScalar %s))" % (mm.group(2), PRIMS[mm.group(1)])
    mm = re.match(r"^nalgebra::.*?SMatrix<(\w+), (\d+), (\d+)>$", t)
    if mm:
        if mm.group(3) == "1":          # the stub's SVector<T, N> is SMatrix<T, N, 1>
            return "(SArr %s%%N (SScalar %s))" % (mm.group(2), PRIMS[mm.group(1)])
        return "(SArr %s%%N (SArr %s%%N (SScalar %s)))" % (mm.group(3), mm.group(2), PRIMS[mm.group(1)])
    last = t.split("::")[-1]
    if t.startswith("glam::") and last in GLAM:
        return "(SArr %d%%N (SScalar %s))" % GLAM[last]
    if t.startswith("glam::") and last in GLAM_M:
        n, p_ = GLAM_M[last]
        return "(SArr %d%%N (SArr %d%%N (SScalar %s)))" % (n, n, p_)
    return '(SNamed "%s"%%string)' % last


def behavioural(c, r):
    """(b) from the compiled module alone: every emitted struct lists the WGSL members in order under their names, with
    field types that denote the member's shape (non-square matrices under arrays / glam are the listed known finding)"""
    o = r.get("obs")
    if not isinstance(o, dict) or not isinstance(o.get("structs"), dict):
        return None, "no observations"
    for s_ in c["truth"]:
        st = o["structs"].get(s_["name"])
        if st is None:
            return False, "struct %s missing from the compiled module" % s_["name"]
        got = [(f["name"], f.get("type_name", "")) for f in st["fields"]]
        if [g[0] for g in got] != [m[0] for m in s_["members"]]:
            return False, "%s: fields %s, WGSL members %s" % (s_["name"], [g[0] for g in got], [m[0] for m in s_["members"]])
        kinds = s_.get("kinds") or [None] * len(s_["members"])
        for (fn, tn), (mn, shape), kind in zip(got, s_["members"], kinds):
            try:
                sh = shape_of_type_name(tn)
            except Exception:
                continue
            mm = re.search(r"SArr (\d)%N \(SArr (\d)%N \(SScalar", shape)
            kf_nonsq = bool(mm) and mm.group(1) != mm.group(2) and c["opts"].get("mv") != "Nalgebra"
            if sh != shape and not kf_nonsq:
                return False, "%s.%s has Rust type %s (%s), the WGSL member has shape %s" % (s_["name"], fn, tn, sh, shape)
            why = _repr_violation(c["opts"].get("mv", "Rust"), shape, tn, kind)
            if why:
                return False, "%s.%s: %s" % (s_["name"], fn, why)
    return True, ""


GLAM_VEC = re.compile(r"^\(SArr [234]%N \(SScalar (PF32|PF64|PU32|PI32)\)\)$")
GLAM_MAT = re.compile(r"^\(SArr ([234])%N \(SArr \1%N \(SScalar (PF32|PF64)\)\)\)$")
ANY_VEC = re.compile(r"^\(SArr [234]%N \(SScalar \w+\)\)$")


def _repr_violation(mv, shape, tn, kind=None):
    """the leaf of a member's Rust type is written in the selected representation (coq/Spec/C06Repr.v, read off type_name);
    only decidable here for members that ARE a vector / square matrix (arrays of them are covered by the extracted output)"""
    if mv == "Rust" and ("glam::" in tn or "nalgebra::" in tn):
        return "plain arrays selected, the field is %s" % tn
    if mv == "Glam":
        if "nalgebra::" in tn:
            return "glam selected, the field is %s" % tn
        # a shape does not tell `array<i32, 4>` from `vec4<i32>`: the rule is about members that ARE vectors / matrices
        if kind in ("vec", "mat") and (GLAM_VEC.match(shape) or GLAM_MAT.match(shape)) and not tn.startswith("glam::"):
            return "glam selected and glam has a type of this shape, the field is %s" % tn
    if mv == "Nalgebra":
        if "glam::" in tn:
            return "nalgebra selected, the field is %s" % tn
    return None


def verdict_expr_noout(c, r, ir):
    if "obs" not in r or r.get("result") != "ok":
        return None
    if obs.not_compiled(r):
        return None
    ok, why = behavioural(c, r)
    if ok is None:
        return None
    c["note"] = "output not recognised by the extractor (%s); %s" % (r.get("extract_err"), why)
    return "[true; false; %s; false]" % ("true" if ok else "false")


def _obs_clause(c, r):
    if "obs" not in r or r.get("result") != "ok" or obs.not_compiled(r):
        return "true"
    ok, why = behavioural(c, r)
    if ok is False:
        c["note"] = why
        return "false"
    return "true"


def verdict_expr(c, r, ir, real):
    t = "[" + "; ".join("(%s, [%s])" % (coq_string(s["name"]), "; ".join("(%s, %s)" % (coq_string(n), sh) for n, sh in s["members"]))
                        for s in c["truth"]) + "]"
    o = coq_options(c["opts"])
    return ('[wf %s && wf_io_structs %s; agree_res agree_C06 (gen %s ""%%string None %s) %s; '
            'match %s with Ok o => C06_ok %s %s o && C06_repr_ok %s %s o && truth_shapes_ok o %s && OBSC | Panic _ => %s | _ => false end; '
            'match %s with Ok o => C06_ok_kf %s %s o && C06_repr_ok %s %s o && kf_nonsquare %s %s | _ => false end]'
            % (ir, ir, ir, o, real, real, ir, o, ir, o, t, "true" if structcases.panic_expected(c) else "false", real, ir, o, ir, o, ir, o)).replace("OBSC", _obs_clause(c, r))


def nontrivial(c, r):
    return (c.get("leaf") or len(c["truth"]) >= 2) and r.get("result") == "ok"


def witness_case(k):
    return {"truth": [{"name": "S", "members": [("m", "(SArr 2%N (SArr 4%N (SScalar PF32)))")]}], "needs_encase": False}
