"""C06 - struct fields keep WGSL order, names and element types."""
from common import coq_options, coq_string
import structcases
import structgen

ID = "C06"
TABLES = ["scalar", "rust_type"]      # leaf tables compared exhaustively through the hooks (coq/Check/Tables.v)
REQUIRES = ["Agree", "StructSpec", "C06Spec", "Truth"]
THEOREM_REQUIRES = ["C06"]
THEOREMS = ["C06_holds", "C06_holds_fields", "C06_holds_fields_kf", "C06_holds_named", "C06_refuted", "C06_leaf_table"]
PROOF_FILES = ["Proofs/GenInv.v", "Proofs/TypeDfs.v", "Proofs/StructProof.v", "Proofs/C06Proof.v", "Proofs/C06Named.v", "Properties/C06.v"]
RULE = ("the struct programs of C05/C08/C09 (incl. f64 scalars/vectors/matrices, all 9 matrix shapes, arrays of arrays, "
        "arrays of structs, nested structs, atomics, trailing runtime arrays) x Rust / Glam / Nalgebra; plus the leaf "
        "table enumerated exhaustively (every scalar kind x vec2-4, every matCxR in f32/f64) as single-member structs; "
        "ground truth: member names and shapes (kind, width, element counts in WGSL memory order) from the generator's "
        "description; non-trivial = >= 2 emitted structs or a leaf-table case; distinct = distinct (IR, options)")
ASSUMPTIONS = ["denote (what a Rust type means: arrays outer-first, glam::MatN = N columns of N, nalgebra SMatrix<T,R,C> "
               "column-major) is the specification's reading of the Rust types; type_name / byte placement of the "
               "compiled structs is observed in the compiled batch",
               "premise wf_io_structs (a struct emitted only as an entry-point parameter has no struct-typed member: a "
               "WGSL rule naga's validator enforces) is evaluated on every case as part of the wf flag"]


def leaf_cases():
    out = []
    leafs = []
    for s in ("f32", "i32", "u32", "f64"):
        leafs.append(structgen.Ty("scalar", s=s))
        for n in (2, 3, 4):
            leafs.append(structgen.Ty("vec", n=n, s=s))
    for s in ("f32", "f64"):
        for c in (2, 3, 4):
            for r in (2, 3, 4):
                leafs.append(structgen.Ty("mat", c=c, r=r, s=s))
    leafs.append(structgen.Ty("atomic", s="u32"))
    leafs.append(structgen.Ty("atomic", s="i32"))
    for i, t in enumerate(leafs):
        for wrap in (0, 1):
            ty = t if not wrap else structgen.Ty("array", elem=t, n=3)
            wgsl = "struct L { v: %s }\n@group(0) @binding(0) var<storage, read_write> g: L;\n@compute @workgroup_size(1) fn main() {}\n" % ty.wgsl()
            truth = [{"name": "L", "members": [("v", ty.shape())]}]
            for mv in ("Rust", "Glam", "Nalgebra"):
                out.append({"wgsl": wgsl, "family": "leaf_table", "opts": {"mv": mv}, "truth": truth, "needs_encase": False,
                            "leaf": True})
    return out


def cases(rng, tier):
    out = leaf_cases()
    out += structcases.cases(rng, tier, nbase={"quick": 120, "search": 300, "thorough": 800}[tier], allow_f64=True, allow_bool=True)
    return out


def verdict_expr(c, r, ir, real):
    t = "[" + "; ".join("(%s, [%s])" % (coq_string(s["name"]), "; ".join("(%s, %s)" % (coq_string(n), sh) for n, sh in s["members"]))
                        for s in c["truth"]) + "]"
    o = coq_options(c["opts"])
    return ('[wf %s && wf_io_structs %s; agree_res agree_C06 (gen %s ""%%string None %s) %s; '
            'match %s with Ok o => C06_ok %s %s o && truth_shapes_ok o %s | Panic _ => %s | _ => false end; '
            'match %s with Ok o => C06_ok_kf %s %s o && kf_nonsquare %s %s | _ => false end]'
            % (ir, ir, ir, o, real, real, ir, o, t, "true" if structcases.panic_expected(c) else "false", real, ir, o, ir, o))


def nontrivial(c, r):
    return (c.get("leaf") or len(c["truth"]) >= 2) and r.get("result") == "ok"


def witness_case(k):
    return {"truth": [{"name": "S", "members": [("m", "(SArr 2%N (SArr 4%N (SScalar PF32)))")]}], "needs_encase": False}
