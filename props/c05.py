"""C05 - struct property (see DESIGN.md §5 C05); cases shared with the other struct properties."""
from common import coq_options
import structcases
import obs

ID = "C05"
VALIDATE_MIX = True      # every third case also goes through naga's validator: it only gates, the assertions are the same
ENV_RERUN = 40          # cases repeated from a cargo build-script environment (lib/runner.py with_build_env)
REQUIRES = ["Agree", "StructSpec", "Truth"]
THEOREM_REQUIRES = ["C05"]
THEOREMS = ["C05_holds", "C05_holds_bool", "C05_check_sound"]
PROOF_FILES = ["Proofs/GenInv.v", "Proofs/TypeDfs.v", "Proofs/StructProof.v", "Proofs/C05Proof.v", "Properties/C05.v"]
RULE = ("random type DAGs: host structs (scalars, vec2-4 of f32/i32/u32, all 9 matrix shapes, atomics, fixed arrays incl. "
        "arrays of structs, nesting <= 3, shared members, optional trailing runtime-sized array) used by globals in "
        "uniform / storage / private / workgroup space directly or through arrays, unused and function-local structs, "
        "vertex input structs, an inter-stage struct (vertex result = fragment parameter), fragment output structs, a "
        "struct that is both host-shareable and a vertex input; x option sets (3 per program in the quick tier, all 48 "
        "in the thorough tier); ground truth from the generator's description (emitted set, roles, WGSL layout by an "
        "independent Python implementation of the WGSL rules) compared with the real output; non-trivial = >= 2 "
        "emitted structs; distinct = distinct (IR dump, options)")
ASSUMPTIONS = ["naga's member offsets / spans / strides are the WGSL layout: checked per case against the independent "
               "Python implementation of the WGSL alignment rules through the ground-truth comparison"]
TRUSTED_EXTRA = ["Python implementation of the WGSL layout rules (lib/structgen.py) used as ground truth"]


def cases(rng, tier):
    out = structcases.cases(rng, tier, huge_arrays=True)
    # structs whose Rust layout equals the WGSL layout (16-byte-multiple leafs): these modules COMPILE with the
    # assertions in them, so the end-to-end clause (compiled => rustc's offsets / sizes = WGSL's) is exercised
    extra = structcases.cases(rng, "quick", nbase={"quick": 14, "search": 20, "thorough": 60}[tier], compat16=True, allow_rts=False)
    for c in extra:
        c["family"] = "layout_compatible"
        c["opts"]["bm_host"] = True
    # one struct name, one member list, different explicit layout attributes - generated one after the other on one worker
    # thread with identical options: the asserted numbers are those of THIS module's declaration
    variants = [("a: f32, b: f32", [("a", 0), ("b", 4)], 8), ("@size(16) a: f32, b: f32", [("a", 0), ("b", 16)], 20),
                ("a: f32, @align(16) b: f32", [("a", 0), ("b", 16)], 32), ("@size(8) a: f32, b: f32", [("a", 0), ("b", 8)], 12)]
    pairs = []
    for o in ({"bm_vertex": False, "bm_host": True, "encase": False, "serde": False, "mv": "Rust"},
              {"bm_vertex": False, "bm_host": True, "encase": False, "serde": True, "mv": "Glam"}):
        for nm in ("Light", "LightX_naga_oil_mod_XMFRGGX", "Light"):
            for decl, offs, size in variants:
                w = ("struct %s { %s }\n@group(0) @binding(0) var<storage, read> l: %s;\n@compute @workgroup_size(1) fn main() { _ = l.a; }\n"
                     % (nm, decl, nm))
                pairs.append({"wgsl": w, "family": "same_name_different_layout", "opts": dict(o), "needs_encase": False,
                              "truth": [{"name": nm, "host": True, "rts": False, "size": size, "offsets": offs,
                                         "members": [("a", "(SScalar PF32)"), ("b", "(SScalar PF32)")]}]})
    return pairs + extra + out


ELIGIBLE = lambda c: c["opts"].get("bm_host") and not (c["opts"].get("mv") == "Nalgebra" and c["opts"].get("encase"))


def run_cases(plain, cases_, workdir, tag):
    # behavioural level: the first 40 eligible modules are compiled (all real derive crates present) and probed
    return obs.attach(plain, cases_, workdir, tag, ELIGIBLE, 40 if "search" not in tag else 0)


def _obs(c, r):
    if "obs" not in r or r.get("result") != "ok":
        return "true"
    if obs.not_compiled(r):
        why = str((r.get("obs") or {}).get("why"))
        c["note"] = "module rejected at compile time: " + why[:300]
        return "true"       # rejection is the permitted outcome for this property (C01 decides which rejections are permitted)
    if not obs.usable(r):
        c["note"] = "no observations: %s" % str(r.get("obs"))[:300]
        return "false"
    ok, why = obs.check_c05(c["truth"], c["opts"], r)
    c["note"] = why
    return "true" if ok else "false"


def verdict_expr_noout(c, r, ir):
    if "obs" not in r:
        return None
    return "[true; false; %s]" % _obs(c, r)


def verdict_expr(c, r, ir, real):
    t = structcases.truth_term(c["truth"], c["opts"])
    if c["opts"].get("validate") and r.get("valid") is False:
        # rejected by the validator that was asked for: not an accepted shader (the model must agree on the error)
        return '[wf %s; agree_res agree_C05 (gen %s ""%%string None %s) %s; true]' % (ir, ir, coq_options(c["opts"]), real)
    return _verdict(c, r, ir, real, t).replace("OBS", _obs(c, r))


def _verdict(c, r, ir, real, t):
    return ('[wf %s; agree_res agree_C05 (gen %s ""%%string None %s) %s; '
            'match %s with Ok o => C05_ok %s %s o && truth_structs_ok o %s | Panic _ => %s | _ => false end && OBS]'
            % (ir, ir, coq_options(c["opts"]), real, real, ir, coq_options(c["opts"]), t,
               "true" if structcases.panic_expected(c) else "false"))


def nontrivial(c, r):
    return structcases.nontrivial(c, r)
