"""C10 - encase + glam structs serialise every field at its WGSL offset."""
import struct as pystruct

from common import coq_options, run_batch
import structgen
from structgen import Ty, round_up

ID = "C10"
ENV_COMPARE = 30         # cases generated once more from a cargo build-script environment: same result (lib/runner.py)
REQUIRES = ["Agree", "StructSpec", "C10Spec"]
THEOREM_REQUIRES = ["C10"]
THEOREMS = ["C10_holds", "C10_equal_layout_numbers", "C10_member_types", "C10_refuted_nonsquare"]
PROOF_FILES = ["Spec/Layout.v", "Proofs/StructProof.v", "Proofs/C06Named.v", "Proofs/C10Proof.v", "Proofs/C10Comp.v", "Properties/C10.v"]
RULE = ("host-shareable struct programs restricted to glam-representable members (f32/i32/u32 scalars, vec2-4, atomics, "
        "matrices, fixed arrays incl. arrays of vec3 / matrices / structs, nested structs, trailing runtime-sized arrays, structs that are also vertex inputs), "
        "generated with encase + glam; every module is compiled against the real encase 0.10 / glam 0.29 and a probe "
        "value whose scalar components are 1,2,3,... is written through encase::StorageBuffer (and UniformBuffer where "
        "applicable) for runtime array lengths 0, 1, 3; the byte image is compared component by component with the "
        "placement the WGSL layout rules prescribe (independent Python implementation), and its length with the WGSL "
        "size; in Coq: encase's layout type of every emitted struct = WGSL layout type (C10_ok) and naga's numbers = "
        "Layout.v's (layout_agrees); non-trivial = struct with >= 3 members or nesting; distinct = distinct IR dumps")
ASSUMPTIONS = ["Layout.v applied to encase_lty is a model of encase 0.10's ShaderType metadata, validated per compiled "
               "struct against the bytes the real encase writes", "padding bytes are not compared (only component placement "
               "and total length)"]
VERDICT_FIELDS = ["wf", "a_model_agrees_on_struct_fields", "b_layout_types_equal_and_real_encase_bytes_at_wgsl_offsets",
                  "kf1_nonsquare_matrix_as_nested_arrays", "kf2_explicit_size_or_align_attribute"]


def components(t, base, rts_len, out):
    """append (offset, scalar type) for every scalar component of a value of type t placed at base (WGSL layout)"""
    k = t.kind
    if k in ("scalar", "atomic"):
        out.append((base, t.s))
    elif k == "vec":
        for i in range(t.n):
            out.append((base + 4 * i, t.s))
    elif k == "mat":
        cs = 8 if t.r == 2 else 16
        for c in range(t.c):
            for r in range(t.r):
                out.append((base + c * cs + 4 * r, t.s))
    elif k == "array":
        st = round_up(t.elem.align(), t.elem.size())
        for i in range(t.n):
            components(t.elem, base + i * st, rts_len, out)
    elif k == "rtarray":
        st = round_up(t.elem.align(), t.elem.size())
        for i in range(rts_len or 0):
            components(t.elem, base + i * st, rts_len, out)
    elif k == "struct":
        for (n, mt), (_, off) in zip(t.members, t.offsets()):
            components(mt, base + off, rts_len, out)


def expected_size(t, rts_len):
    if t.kind == "struct" and t.members and t.members[-1][1].kind == "rtarray":
        tail = t.members[-1][1]
        st = round_up(tail.elem.align(), tail.elem.size())
        off = t.offsets()[-1][1]
        return round_up(t.align(), off + max(1, rts_len or 0) * st)
    return t.size()


def bytes_ok(struct_ty, run):
    comps = []
    components(struct_ty, 0, run.get("rts_len"), comps)
    raw = bytes.fromhex(run["storage_bytes"]) if run.get("storage_bytes") else None
    if raw is None:
        return False, "no storage bytes (%s)" % (run.get("storage_error") or run.get("storage_panic"))
    if len(raw) != expected_size(struct_ty, run.get("rts_len")):
        return False, "length %d, WGSL size %d" % (len(raw), expected_size(struct_ty, run.get("rts_len")))
    vals = run["value_components"]
    if len(vals) != len(comps):
        return False, "component count %d vs %d" % (len(vals), len(comps))
    for v, (off, s) in zip(vals, comps):
        want = pystruct.pack("<f", float(v)) if s == "f32" else pystruct.pack("<I", v)
        if raw[off:off + 4] != want:
            return False, "component %d expected at offset %d" % (v, off)
    ub = run.get("uniform_bytes")
    if ub and bytes.fromhex(ub) != raw:
        return False, "uniform image differs from storage image"
    return True, ""


def cases(rng, tier):
    n = {"quick": 70, "search": 200, "thorough": 600}[tier]
    out = []
    for i in range(n):
        g = structgen.Gen(rng, allow_f64=False, allow_rts=True, allow_atomic=True, square_mats_only=(i % 6 != 0))
        if i % 3 == 1:
            g.aliases = {}          # some member types are spelled through WGSL `alias` declarations
        structs = []
        for k in range(rng.randint(1, 4)):
            structs.append(g.new_struct("E%d" % k, depth=rng.randint(0, 2)))
        top = structs[-1]
        rts = None
        if rng.random() < 0.4:
            rts = g.new_struct("WithTail", depth=1, rts=True)
        lines = [g.render_struct(s) for s in structs] + ([g.render_struct(rts)] if rts else [])
        b = 0
        reach = {}
        for k, s in enumerate(structs):
            # the last struct is always bound; the others only sometimes, so that some structs are reachable ONLY as
            # members / array elements of another struct (declared before repeated member types or after them)
            if k == len(structs) - 1 or rng.random() < 0.5:
                lines.append("@group(0) @binding(%d) var<storage, read_write> g%d: %s;" % (b, b, s.name))
                s.structs_below(reach)
                b += 1
        if rts:
            rts.structs_below(reach)
        structs = [s for s in structs if s.name in reach]      # the others are not host-visible: not emitted
        if rts:
            lines.append("@group(0) @binding(%d) var<storage, read_write> g%d: WithTail;" % (b, b))
        lines.append("@compute @workgroup_size(1) fn main() {}")
        extra = []
        if i % 4 == 1:
            # the compute-then-draw pattern: a struct that is the element of a storage array AND a vertex input
            pool = [("pos", Ty("vec", n=4, s="f32")), ("vel", Ty("vec", n=2, s="f32")), ("id", Ty("scalar", s="u32")),
                    ("life", Ty("scalar", s="f32")), ("cell", Ty("vec", n=3, s="i32"))]
            ms = rng.sample(pool, rng.randint(2, 4))
            part = Ty("struct", name="Particle", members=ms, has_rts=False)
            b += 1
            locs_ = list(range(len(ms)))
            if rng.random() < 0.6:
                rng.shuffle(locs_)       # location numbers unrelated to the member order (the memory layout follows the members)
            lines.insert(0, g.render_struct(part, locations=locs_))
            lines.append("@group(0) @binding(%d) var<storage, read_write> particles: array<Particle, 4>;" % (b + 1))
            lines.append("@vertex fn vs_main(p: Particle) -> @builtin(position) vec4<f32> { return vec4<f32>(0.0); }")
            extra.append(part)
        if i % 5 == 2:
            # arrays whose element is smaller than its stride (vec3): element type and padding both matter
            v3 = Ty("struct", name="V3Arr", members=[("a", Ty("array", elem=Ty("vec", n=3, s="f32"), n=rng.choice([2, 3]))),
                                                     ("b", Ty("scalar", s="f32")),
                                                     ("c", Ty("array", elem=Ty("vec", n=3, s=rng.choice(["u32", "i32"])), n=2)),
                                                     ("m", Ty("array", elem=Ty("mat", c=3, r=3, s="f32"), n=2))], has_rts=False)
            lines.insert(0, g.render_struct(v3))
            lines.append("@group(1) @binding(0) var<storage, read_write> v3arr: V3Arr;")
            extra.append(v3)
        if g.aliases:
            lines = ["alias %s = %s;" % (nm, txt) for txt, nm in g.aliases.items()] + lines
        out.append({"wgsl": "\n".join(lines) + "\n", "family": "encase_glam", "opts": {"encase": True, "mv": "Glam"},
                    "tys": structs + ([rts] if rts else []) + extra, "rts_lengths": [0, 1, 3]})
    # large fixed arrays (lengths with zero digit groups, sizes around and above 64 KiB), in the middle of a struct and as its
    # last member: the element count is part of the type, the members behind it sit where WGSL puts them
    big = [(Ty("scalar", s="f32"), 10000), (Ty("vec", n=4, s="f32"), 4097), (Ty("scalar", s="u32"), 16000), (Ty("vec", n=2, s="f32"), 10010),
           (Ty("scalar", s="f32"), 100000), (Ty("vec", n=4, s="u32"), 4096), (Ty("scalar", s="i32"), 131072), (Ty("vec", n=3, s="f32"), 10001)]
    for i, (el, cnt) in enumerate(big if tier != "quick" else rng.sample(big, 4)):
        g = structgen.Gen(rng)
        mid = Ty("struct", name="Table", members=[("scale", Ty("scalar", s="f32")), ("weights", Ty("array", elem=el, n=cnt)), ("bias", Ty("vec", n=4, s="f32"))], has_rts=False)
        last = Ty("struct", name="Tail", members=[("head", Ty("vec", n=2, s="u32")), ("data", Ty("array", elem=el, n=cnt))], has_rts=False)
        w = "\n".join([g.render_struct(mid), g.render_struct(last), "@group(0) @binding(0) var<storage, read_write> table: Table;",
                       "@group(0) @binding(1) var<storage, read_write> tail: Tail;", "@compute @workgroup_size(1) fn main() {}"]) + "\n"
        out.append({"wgsl": w, "family": "large_arrays", "opts": {"encase": True, "mv": "Glam"}, "tys": [mid, last], "rts_lengths": [0]})
    # small structs of scalars / vec2 whose size is NOT a multiple of 16, bound directly as var<uniform> and nested in a second
    # struct (the member behind the nested one sits right after it): no padding the WGSL rules do not ask for
    for i in range({"quick": 6, "search": 10, "thorough": 20}[tier]):
        g = structgen.Gen(rng)
        pool = [("a", Ty("scalar", s="f32")), ("b", Ty("scalar", s="f32")), ("c", Ty("scalar", s="u32")), ("d", Ty("vec", n=2, s="f32")), ("e", Ty("scalar", s="i32"))]
        ms = [pool[0]] + rng.sample(pool[1:], rng.choice([0, 2, 2, 3]))
        if sum(4 if t.kind == "scalar" else 8 for _, t in ms) % 16 == 0:
            ms = ms[:-1] or ms
        params = Ty("struct", name="Params", members=ms, has_rts=False)
        outer = Ty("struct", name="Outer", members=[("p", params), ("k", Ty("scalar", s="f32")), ("tint", Ty("vec", n=4, s="f32"))], has_rts=False)
        w = "\n".join([g.render_struct(params), g.render_struct(outer), "@group(0) @binding(0) var<uniform> params: Params;",
                       "@group(0) @binding(1) var<storage, read_write> outer: Outer;",
                       "@compute @workgroup_size(1) fn main() { outer.k = params.a; }"]) + "\n"
        out.append({"wgsl": w, "family": "small_uniform_struct", "opts": {"encase": True, "mv": "Glam"}, "tys": [params, outer], "rts_lengths": [0]})
    # a host-shareable struct that is ALSO an entry point result (a fragment output kept in a debug buffer), nested as an
    # array element / member of another host struct: it is host-visible, so it is emitted and serialisable like any other
    for i in range({"quick": 4, "search": 8, "thorough": 16}[tier]):
        g = structgen.Gen(rng)
        smp = Ty("struct", name="Sample", members=[("color", Ty("vec", n=4, s="f32")), ("weight", Ty("vec", n=rng.choice([2, 4]), s="f32"))], has_rts=False)
        dbg = Ty("struct", name="DebugSamples", members=[("count", Ty("scalar", s="u32")), ("samples", Ty("array", elem=smp, n=4))] if i % 2 == 0
                 else [("last", smp), ("count", Ty("scalar", s="u32"))], has_rts=False)
        w = "\n".join([g.render_struct(smp, locations=[0, 1]), g.render_struct(dbg),
                       "@group(0) @binding(0) var<storage, read_write> debug_samples: DebugSamples;",
                       "@fragment fn fs_main() -> Sample { var o: Sample; return o; }"]) + "\n"
        out.append({"wgsl": w, "family": "host_struct_is_entry_result", "opts": {"encase": True, "mv": "Glam"},
                    "tys": [smp, dbg], "rts_lengths": [0]})
    # the same struct type used by a var<private> / var<workgroup> declared BEFORE the buffer variable: every struct below
    # the buffer variable's type is host-shareable whichever variable reached it first
    for i in range({"quick": 6, "search": 12, "thorough": 24}[tier]):
        g = structgen.Gen(rng)
        light = Ty("struct", name="Light", members=[("position", Ty("vec", n=3, s="f32")), ("range", Ty("scalar", s="f32")), ("color", Ty("vec", n=4, s="f32"))], has_rts=False)
        lights = Ty("struct", name="Lights", members=[("count", Ty("scalar", s="u32")), ("lights", Ty("array", elem=light, n=rng.choice([2, 8])))], has_rts=False)
        scene = Ty("struct", name="SceneLights", members=[("ambient", Ty("vec", n=4, s="f32")), ("light_set", lights)], has_rts=False)
        first = rng.choice(["var<private> cached: Lights;", "var<workgroup> shared_lights: Lights;", "var<private> one: Light;", "var<private> cached_scene: SceneLights;"])
        top = rng.choice([lights, scene])
        decls = [first, "@group(0) @binding(0) var<storage, read_write> scene_lights: %s;" % top.name]
        if i % 3 == 2:
            decls.reverse()
        w = "\n".join([g.render_struct(light), g.render_struct(lights), g.render_struct(scene)] + decls + ["@compute @workgroup_size(1) fn main() {}"]) + "\n"
        out.append({"wgsl": w, "family": "private_variable_declared_first", "opts": {"encase": True, "mv": "Glam"},
                    "tys": [light, lights] + ([scene] if top is scene else []), "rts_lengths": [0]})
    # two structs whose names are equal up to the case style, one nested in a third: every field refers to ITS struct
    for i in range({"quick": 4, "search": 8, "thorough": 16}[tier]):
        sa = Ty("struct", name="light_data", members=[("color", Ty("vec", n=4, s="f32")), ("range", Ty("scalar", s="f32"))], has_rts=False)
        sb = Ty("struct", name="LightData", members=[("m", Ty("mat", c=4, r=4, s="f32")), ("flags", Ty("scalar", s="u32")), ("dir", Ty("vec", n=3, s="f32"))], has_rts=False)
        first, second = (sa, sb) if i % 2 == 0 else (sb, sa)
        scene = Ty("struct", name="Scene", members=[("key", second), ("exposure", Ty("scalar", s="f32")), ("fill", first)], has_rts=False)
        g = structgen.Gen(rng)
        w = "\n".join([g.render_struct(first), g.render_struct(second), g.render_struct(scene),
                       "@group(0) @binding(0) var<storage, read_write> scene: Scene;", "@compute @workgroup_size(1) fn main() {}"]) + "\n"
        out.append({"wgsl": w, "family": "names_equal_up_to_case_style", "opts": {"encase": True, "mv": "Glam"},
                    "tys": [first, second, scene], "rts_lengths": [0]})
    # the other derive switches on top of encase + glam must not change how encase sees the fields: small structs around
    # mat2x2 / vec2 / scalars, with bytemuck host-shareable (and serde) on as well
    for i in range({"quick": 8, "search": 16, "thorough": 40}[tier]):
        pool = [("scale", Ty("scalar", s="f32")), ("uv_transform", Ty("mat", c=2, r=2, s="f32")), ("offset", Ty("vec", n=2, s="f32")),
                ("id", Ty("scalar", s="u32")), ("rot", Ty("mat", c=2, r=2, s="f32")), ("k", Ty("scalar", s="f32"))]
        ms = rng.sample(pool, rng.randint(2, 4))
        st = Ty("struct", name="Sprite", members=ms, has_rts=False)
        g = structgen.Gen(rng)
        w = g.render_struct(st) + "\n@group(0) @binding(0) var<storage, read_write> sprites: array<Sprite, 3>;\n@compute @workgroup_size(1) fn main() {}\n"
        out.append({"wgsl": w, "family": "encase_glam_with_bytemuck", "opts": {"encase": True, "mv": "Glam", "bm_host": True, "serde": i % 2 == 0},
                    "tys": [st], "rts_lengths": [0], "may_not_compile": True})
    return out


def witness_case(k):
    if "nonsquare" in k["id"]:
        t = Ty("struct", name="S", members=[("m", Ty("mat", c=4, r=3, s="f32"))], has_rts=False)
    else:
        t = Ty("struct", name="S", members=[("a", Ty("scalar", s="f32")), ("b", Ty("scalar", s="f32"))], has_rts=False)
        t.offsets = lambda: [("a", 0), ("b", 32)]
        t.size = lambda: 48
    return {"tys": [t], "rts_lengths": [0]}


def run_cases(plain, cases_, workdir, tag):
    res, _ = run_batch(plain, workdir, tag, real=False, shim=True,
                       extra_fields=[{"rts_lengths": c.get("rts_lengths", [0])} for c in cases_])
    return res


def b_python(c, r):
    if r.get("result") != "ok":
        return True, ""
    obs = r.get("obs") or {}
    if c.get("may_not_compile") and obs.get("obs", 1) is None:
        return True, "rejected at compile time by the bytemuck layout assertions (permitted)"
    enc = obs.get("encase")
    if not isinstance(enc, dict):
        return False, "no encase observations: %s" % (obs.get("why") or obs.get("probe_compile_errors") or obs.get("probe_panic"))
    for t in c["tys"]:
        runs = enc.get(t.name)
        if not runs:
            return False, "no runs for %s" % t.name
        if not isinstance(runs, list) or not all(isinstance(x, dict) for x in runs):
            return False, "no byte image of %s could be produced: %s" % (t.name, str(runs)[:300])
        for run in runs:
            ok, why = bytes_ok(t, run)
            if not ok:
                return False, "%s: %s" % (t.name, why)
    return True, ""


def verdict_expr(c, r, ir, real):
    ok, why = b_python(c, r)
    c["note"] = why
    o = coq_options(c["opts"])
    return ('[wf %s && host_no_builtins %s; agree_res agree_C06 (gen %s ""%%string None %s) %s; '
            'on_out %s (fun o => C10_ok %s o) && layout_agrees %s && %s; kf_nonsquare_encase %s; negb (layout_agrees %s)]'
            % (ir, ir, ir, o, real, real, ir, ir, "true" if ok else "false", ir, ir))


def verdict_expr_noout(c, r, ir):
    ok, why = b_python(c, r)
    c["note"] = "output not recognised by the extractor (%s); %s" % (r.get("extract_err"), why)
    return '[wf %s; false; %s; kf_nonsquare_encase %s; negb (layout_agrees %s)]' % (ir, "true" if ok else "false", ir, ir)


def nontrivial(c, r):
    return r.get("result") == "ok" and any(len(t.members) >= 3 for t in c["tys"])
