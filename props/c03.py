"""C03 - binding visibility equals exactly the statically using stages."""
import itertools

from common import coq_options
import wgslgen as W
import obs

ID = "C03"
ENV_RERUN = 40          # cases repeated from a cargo build-script environment (lib/runner.py with_build_env)
TABLES = ["stages"]      # leaf tables compared exhaustively through the hooks (coq/Check/Tables.v)
VALIDATE_MIX = True
REQUIRES = ["Agree", "C03Spec", "Truth"]
THEOREM_REQUIRES = ["C03"]
THEOREMS = ["C03_traversal", "C03_holds_bool", "C03_holds", "C03_static_access_b_spec"]
PROOF_FILES = ["Proofs/GenInv.v", "Proofs/Traversal.v", "Proofs/StageMap.v", "Proofs/C11Proof.v",
               "Proofs/C11Link.v", "Proofs/C03Link.v", "Properties/C03.v"]
RULE = ("abstract programs (globals x helper DAG x entry points, each body a list of accesses / calls placed at a "
        "control-flow position) rendered to WGSL with an independently computed ground truth (Python closure): "
        "bounded-exhaustive single placements (10 positions x access/5 call forms x stage subsets, helper chains "
        "of depth 0..3) plus random DAGs; non-trivial = at least one global reached through a call; distinct = "
        "distinct IR dumps")
ASSUMPTIONS = ["naga lowers every call (statement or inside an expression) to Statement::Call (+ CallResult); "
               "the ground-truth comparison checks that the IR-level static_access equals the WGSL-level closure"]

STAGE_BITS = {"vertex": 0, "fragment": 1, "compute": 2}


def stages_term(ss):
    return "(mkStages %s %s %s)" % tuple("true" if s in ss else "false" for s in ("vertex", "fragment", "compute"))


def mk_case(p, family):
    truth = p.truth()
    # ground truth as list of (group, binding, stages) for bound globals, and pc stages
    tl = []
    for i, (name, kind, grp, b) in enumerate(p.globals):
        tl.append((grp, b, sorted(truth.get(i, set()))))
    reached = any(it[0] == "call" for _, _, its in p.entries for it in its)
    return {"wgsl": p.render(), "family": family, "opts": {}, "truth_vis": tl,
            "truth_pc": sorted(truth.get("pc", set())) if p.push_constant else None, "has_calls": reached}


def cases(rng, tier):
    out = []
    # bounded-exhaustive single placements
    stage_sets = [["vertex"], ["fragment"], ["compute"], ["vertex", "fragment"], ["fragment", "compute"],
                  ["vertex", "fragment", "compute"], ["fragment", "fragment"]]
    combos = []
    for where in W.PLACEMENTS:
        for depth in (0, 1, 2, 3):
            forms = ["-"] if depth == 0 else W.CALL_FORMS
            for form in forms:
                for where2 in (["top"] if depth == 0 else ["top", "continuing", "if_reject", "switch_case"]):
                    combos.append((where, depth, form, where2))
    if tier == "quick":
        combos = rng.sample(combos, 220)
    elif tier == "search":
        combos = rng.sample(combos, 400)
    for (where, depth, form, where2) in combos:
        for ss in (stage_sets if tier == "thorough" else rng.sample(stage_sets, 2)):
            p = W.Program()
            p.globals = [("g0", rng.choice(list(W.RES)), 0, 0), ("g1", "uniform", 0, 1)]
            # chain: h0 accesses g0 at `where`; h_{i} calls h_{i-1} with `form` at `where2`
            if depth == 0:
                first = [("acc", 0, rng.randrange(3), where)]
            else:
                p.helpers.append([("acc", 0, rng.randrange(3), where)])
                for d in range(1, depth):
                    p.helpers.append([("call", d - 1, form, where2)])
                first = [("call", depth - 1, form, where)]
            for k, st in enumerate(ss):
                # only the first entry reaches g0; the others must not get the stage
                p.entries.append(("e%d" % k, st, first if k == 0 else []))
            out.append(mk_case(p, "placement"))
    nrand = {"quick": 500, "search": 1200, "thorough": 5000}[tier]
    for i in range(nrand):
        p = W.random_program(rng, depth_bias=(i % 3 == 0), pc=(i % 5 == 0),
                             n_helpers=(rng.randint(6, 12) if i % 7 == 0 else None))
        out.append(mk_case(p, "random_dag"))
    for i in range(nrand // 5):
        out.append(mk_case(W.diamond_program(rng, "pc" if i % 3 == 0 else "global"), "diamond_across_stages"))
    # single-stage modules with variables that have no binding (workgroup / private): a resource first used by a LATER
    # entry point has the stage like any other; modules without any binding whose push constant some stages use
    for i in range(nrand // 25):
        out.append(mk_case(W.single_stage_late_user_program(rng, rng.choice(["compute", "compute", "fragment"])), "single_stage_late_user"))
        out.append(mk_case(W.pc_only_program(rng), "pc_without_bindings"))
        out.append(mk_case(W.late_pc_user_program(rng), "late_user_after_all_stages"))
    # many functions: handles above 255 / 63 must be tracked like any other
    for nh in ((70, 300) if tier != "thorough" else (70, 130, 300, 600)):
        p = W.Program()
        p.globals = [("g0", "storage_rw", 0, 0), ("g1", "uniform", 0, 1)]
        for j in range(nh):
            p.helpers.append([("acc", 0, 0, "top")] if j == nh - 2 else [])
        # the entry calls an early helper with the same index modulo 64 / 256 first, then the one that touches g0
        tgt = nh - 2
        p.entries = [("e0", "compute", [("call", tgt % 64, "stmt", "top"), ("call", tgt % 256 if tgt >= 256 else tgt % 64, "let", "top"),
                                        ("call", tgt, "stmt", "top")]),
                     ("e1", "fragment", [("acc", 1, 0, "top")])]
        out.append(mk_case(p, "many_functions"))
    # deep call chains (the chain's bottom is used by the stage at its top, at any depth, and by no other stage)
    for d, form, tgt in ((66, "let", 0), (70, "cond", "pc"), (130, "let", 0), (40, "stmt", "pc")) + (((260, "let", 0), (33, "fwd", 0)) if tier == "thorough" else ()):
        out.append(mk_case(W.deep_chain_program(d, form, tgt), "deep_chain"))
    return out


def run_cases(plain, cases_, workdir, tag):
    # behavioural level: 40 modules (every 20th case) are compiled against the recording shim
    pick = {id(c) for c in cases_[::max(1, len(cases_) // 40)][:40]}
    return obs.attach(plain, cases_, workdir, tag, lambda c: id(c) in pick, 40 if "search" not in tag else 0)


def _obs(c, r):
    if "obs" not in r or r.get("result") != "ok":
        return "true"
    if not obs.usable(r):
        c["note"] = "module did not build / run on the shim: %s" % str(r.get("obs"))[:300]
        return "false"
    ok, why = obs.check_c03(c["truth_vis"], c.get("truth_pc"), r)
    c["note"] = why
    return "true" if ok else "false"


def verdict_expr_noout(c, r, ir):
    # the output is not recognised by the extractor any more: decide (b) by what the compiled module hands to the device
    if "obs" not in r:
        return None
    return "[true; false; %s]" % _obs(c, r)


def verdict_expr(c, r, ir, real):
    tv = "[" + "; ".join("(%d%%N, %d%%N, %s)" % (g, b, stages_term(ss)) for g, b, ss in c["truth_vis"]) + "]"
    gt = "truth_vis_ok %s %s" % (ir, tv)
    if c.get("truth_pc") is not None:
        gt += " && truth_pc_ok %s %s" % (ir, stages_term(c["truth_pc"]))
    return ('[wf %s && %s; agree_res agree_C03 (gen %s ""%%string None %s) %s; '
            'match %s with Ok o => C03_ok %s o | _ => true end && %s]'
            % (ir, gt, ir, coq_options(c["opts"]), real, real, ir, _obs(c, r)))


def nontrivial(c, r):
    return r.get("result") == "ok" and c.get("has_calls")
