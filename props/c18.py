"""C18 - output is a pure function of source and options."""
import json
import os
import random
import subprocess

from common import *  # noqa
import sink
import structcases
import structgen
import wgslgen as W

ID = "C18"
THEOREM_REQUIRES = ["C18"]
THEOREMS = ["C18_set_by_membership_only", "C18_marks_by_membership_only"]
PROOF_FILES = ["Properties/C18.v"]
RULE = ("the same list of (shader, options) pairs is generated in N fresh processes (fresh HashSet seeds) with different "
        "working directories, environments (LANG, TZ, HOME, extra variables), case orders (shuffled / reversed: different "
        "histories of previous calls) and with 16 worker threads generating different shaders concurrently; every "
        "returned text / error is compared byte for byte with the first run; shaders: struct programs with many "
        "host-shareable types (the HashSet), call graphs, kitchen-sink, x option sets incl. rustfmt; the thorough tier "
        "adds an strace run asserting that generation opens no file and spawns nothing unless rustfmt is requested; "
        "non-trivial = shader with >= 3 host-shareable types; distinct = distinct (shader, options)")
ASSUMPTIONS = ["schedules and hash seeds are sampled, not enumerated; the theorem covers the model (the only unordered "
               "collection reaches the output through membership alone)"]


def make_cases(rng, tier):
    n = {"quick": 60, "thorough": 300}.get(tier, 60)
    out = []
    for i in range(n):
        k = i % 3
        if k == 0:
            p = structgen.program(rng)
            w = p["wgsl"]
            o = dict(rng.choice(structcases.ALL_OPTS))
            if p["needs_encase"]:
                o.update(encase=True, bm_host=False, bm_vertex=False)
            nt = len(p["truth"]) >= 3
        elif k == 1:
            w = W.random_program(rng, pc=(i % 2 == 0)).render()
            o, nt = {}, True
        else:
            w = sink.sink(rng)["wgsl"]
            o, nt = dict(rng.choice(structcases.ALL_OPTS)), True
        if i % 10 == 9:
            # a large module: more than 64 types, many host-shareable structs (size-dependent code paths)
            nst = rng.randint(70, 90)
            w = "\n".join("struct B%d { a: vec4<f32>, b: array<f32, %d> }\n@group(0) @binding(%d) var<storage, read> b%d: B%d;"
                          % (k, 1 + k % 5, k, k, k) for k in range(nst)) + "\n@compute @workgroup_size(1) fn main() { _ = b0.a; }\n"
            o, nt = dict(rng.choice(structcases.ALL_OPTS)), True
        o["rustfmt"] = (i % 7 == 3)
        inc = None if i % 5 else "a/b.wgsl"
        if i % 10 == 5:
            inc = EXISTING_REL       # a path that exists relative to ONE of the working directories only
        out.append({"id": i, "wgsl": w, "include": inc, "opts": o, "want_text": True, "nt": nt})
    # calls the generator answers with its documented panic (a struct ending in a runtime-sized array without the encase
    # derive), spread over the list: whatever such a call leaves behind, every other call returns what it returns alone
    for j in range(5):
        w = ("struct Tail%d { n: u32, items: array<vec4<f32>> }\n@group(0) @binding(0) var<storage, read> t%d: Tail%d;\n"
             "@compute @workgroup_size(1) fn main() { _ = t%d.n; }\n" % (j, j, j, j))
        out.insert((j * len(out)) // 5, {"id": -1, "wgsl": w, "include": None, "opts": {"encase": False, "bm_host": j % 2 == 0, "rustfmt": j == 3},
                                         "want_text": True, "nt": True})
    for i_, c_ in enumerate(out):
        c_["id"] = i_
    # several formatted outputs well above the 64 KiB pipe buffer, generated concurrently by the worker threads
    for j in range(4):
        nst = 280 + 10 * j
        w = "\n".join("struct H%d_%d { a: vec4<f32>, b: array<f32, %d>, c: mat4x4<f32> }\n@group(0) @binding(%d) var<storage, read> h%d: H%d_%d;"
                      % (j, k, 1 + k % 5, k, k, j, k) for k in range(nst)) + "\n@compute @workgroup_size(1) fn main() { _ = h0.a; }\n"
        out.append({"id": len(out), "wgsl": w, "include": None, "opts": {"rustfmt": True, "bm_host": True, "encase": True, "mv": "Glam"},
                    "want_text": True, "nt": True})
    # several vertex entry points, each with its own input struct starting at the same location (ties in any ordering by
    # location must be broken deterministically)
    for rep in range(3):
        names_ = ["Mesh", "Skinned", "Shadow", "Picking", "Debug", "Terrain", "Water"][: 4 + rep]
        w = "".join("struct %sIn { @location(0) pos: vec3<f32>, @location(1) extra%d: vec4<f32> }\n" % (n_, k) for k, n_ in enumerate(names_))
        w += "".join("@vertex fn vs_%s(v: %sIn) -> @builtin(position) vec4<f32> { return vec4<f32>(v.pos, 1.0); }\n" % (n_.lower(), n_) for n_ in names_)
        out.append({"id": len(out), "wgsl": w, "include": None, "opts": {"rustfmt": rep == 1}, "want_text": True, "nt": True})
    # long entry point names (labels, constant and function names derived from them are reproduced whole, identically every time)
    for rep, ln in enumerate((40, 48, 49, 64, 65, 120, 300)):
        nm = ("accumulate_prefix_sums_over_tiles_" * 12)[:ln]
        w = ("@group(0) @binding(0) var<storage, read_write> d: array<f32>;\n@compute @workgroup_size(64) fn %s() { d[0] = 1.0; }\n"
             "@vertex fn vs_%s() -> @builtin(position) vec4<f32> { return vec4<f32>(0.0); }\n"
             "@fragment fn fs_%s() -> @location(0) vec4<f32> { return vec4<f32>(0.0); }\n" % (nm, nm, nm))
        out.append({"id": len(out), "wgsl": w, "include": None, "opts": {"rustfmt": rep % 2 == 1}, "want_text": True, "nt": True})
    # regenerating one include path after an edit that keeps the file's length (a result must depend on the source given,
    # not on what an earlier call with the same path was given)
    head_ = W.random_program(rng).render()
    for kk in range(6):
        out.append({"id": len(out), "wgsl": head_ + "const MODE: u32 = %du;\noverride gain%d: f32 = 1.0;\n// tail\n" % (kk + 1, kk % 2),
                    "include": "gen/variant.wgsl", "opts": {}, "want_text": True, "nt": True})
    # the validator's verdict depends on the capability set given with THIS call: the same text under restrictive /
    # permissive / restrictive sets (a result must not depend on what earlier calls in the process were given)
    for t in ("var<push_constant> pc: vec4<f32>;\n@fragment fn fs() -> @location(0) vec4<f32> { return pc; }\n",
              "@group(0) @binding(0) var<storage, read> data: array<f64>;\n@compute @workgroup_size(1) fn cs() { _ = data[0]; }\n"):
        for caps in ("empty", "all", "empty", "all"):
            out.append({"id": len(out), "wgsl": t, "include": None, "opts": {"validate": True, "caps": caps}, "want_text": True, "nt": True})
    return out


EXISTING_REL = "c18_exists_here.wgsl"


def run(tier, seed, replay):
    rng = random.Random(seed)
    workdir = os.path.join(WORK, ID)
    os.makedirs(workdir, exist_ok=True)
    cases = make_cases(rng, tier)
    with open(os.path.join(workdir, EXISTING_REL), "w") as f:      # exists relative to cwd = workdir only
        f.write("// present\n")
    os.makedirs(os.path.join(workdir, "tmp_with_config"), exist_ok=True)
    with open(os.path.join(workdir, "tmp_with_config", "rustfmt.toml"), "w") as f:
        f.write("max_width = 60\nhard_tabs = true\n")
    nruns = 8 if tier != "thorough" else 24
    variants = []
    for k in range(nruns):
        order = list(range(len(cases)))
        if k % 3 == 1:
            order.reverse()
        elif k % 3 == 2:
            random.Random(seed + k).shuffle(order)
        env = {"PATH": os.environ.get("PATH", ""), "HOME": os.environ.get("HOME", "/root"),   # the rustup proxy of rustfmt needs HOME; the formatter must stay available
               "XDG_CONFIG_HOME": ["/tmp", "/nonexistent", ""][k % 3],
               "LANG": ["C", "en_US.UTF-8", "tr_TR.UTF-8"][k % 3], "TZ": ["UTC", "Asia/Tokio", ""][k % 3],
               "RUST_BACKTRACE": str(k % 2), "W2W_NOISE_%d" % k: "x" * k}
        # variables build tools set: none of them is an input of the generator
        if k % 3 == 1:
            env.update({"DOCS_RS": "1", "CI": "true", "PROFILE": "release", "DEBUG": "false", "OUT_DIR": "/tmp", "CARGO_CFG_TARGET_OS": "windows"})
        elif k % 3 == 2:
            env.update({"RUST_LOG": "trace", "NO_COLOR": "1", "TERM": "dumb", "CARGO_FEATURE_SERDE": "1", "WGSL_TO_WGPU_CACHE": "1", "SOURCE_DATE_EPOCH": "0"})
        if k % 4 == 1:
            env["RUSTFMT"] = "/nonexistent/rustfmt"       # tool-selection variables other programs honour must not matter
        elif k % 4 == 2:
            env["RUSTFMT"] = "/bin/cat"
        # scratch-directory variables: not an input either (a directory that does not exist, one with a rustfmt.toml in it)
        if k % 4 == 3:
            env["TMPDIR"] = "/nonexistent-tmpdir"
        elif k % 4 == 2:
            env["TMPDIR"] = os.path.join(workdir, "tmp_with_config")
            env["TEMP"] = env["TMP"] = env["TMPDIR"]
        cwd = ["/verif", "/", "/tmp", workdir][k % 4]
        variants.append((order, env, cwd))
    first, violations, broken, evals = None, [], [], 0
    for k, (order, env, cwd) in enumerate(variants):
        cin = os.path.join(workdir, "run%d.jsonl" % k)
        cout = os.path.join(workdir, "run%d.results.jsonl" % k)
        with open(cin, "w") as f:
            for i in order:
                c = {x: cases[i][x] for x in ("id", "wgsl", "include", "opts", "want_text")}
                f.write(json.dumps(c, ensure_ascii=False) + "\n")
        p = subprocess.run([DRIVER, "gen", cin, cout], env=env, cwd=cwd, stdout=subprocess.PIPE, stderr=subprocess.STDOUT, timeout=600)
        if p.returncode != 0:
            broken.append({"what": "driver failed in variant %d" % k, "detail": p.stdout.decode(errors="replace")[-1000:]})
            continue
        try:
            if json.load(open(cout + ".meta")).get("panic_hook_intact") is False:
                violations.append({"what": "after the calls of this run the process-wide panic hook is no longer the one the application installed: generation modified global state",
                                   "variant": {"index": k, "cwd": cwd}, "kf": None})
        except (OSError, ValueError):
            pass
        res = {}
        for l in open(cout):
            r = json.loads(l)
            res[r["id"]] = (r.get("result"), r.get("text"), json.dumps(r.get("err"), sort_keys=True), r.get("panic_msg"))
        evals += len(res)
        if first is None:
            first = res
            continue
        for i, v in res.items():
            if v != first[i]:
                violations.append({"what": "two calls with equal source / include path / options returned different results",
                                   "wgsl": cases[i]["wgsl"], "opts": cases[i]["opts"], "include": cases[i]["include"],
                                   "variant": {"index": k, "cwd": cwd, "env": env, "order_head": order[:5]},
                                   "first": first[i][1][:1500] if first[i][1] else first[i], "other": v[1][:1500] if v[1] else v, "kf": None})
                break
    # more simultaneous formatter calls than cores: 64 distinct small shaders with rustfmt on, generated by one worker
    # (sequential baseline) and by 64 workers at once; every text must be the same
    storm = []
    for j in range(64):
        p_ = W.random_program(rng, pc=(j % 4 == 0))
        storm.append({"id": j, "wgsl": p_.render() + "// storm %d\n" % j, "include": None if j % 3 else "s/%d.wgsl" % j,
                      "opts": {"rustfmt": True}, "want_text": True})
    storm_res = []
    for label, threads in (("sequential", "1"), ("64 workers", "64")):
        cin = os.path.join(workdir, "storm_%s.jsonl" % threads)
        cout = os.path.join(workdir, "storm_%s.results.jsonl" % threads)
        with open(cin, "w") as f:
            for c in storm:
                f.write(json.dumps(c, ensure_ascii=False) + "\n")
        env = dict(os.environ, DRIVER_THREADS=threads, DRIVER_CHUNK="1")
        p = subprocess.run([DRIVER, "gen", cin, cout], env=env, stdout=subprocess.PIPE, stderr=subprocess.STDOUT, timeout=600)
        if p.returncode != 0:
            broken.append({"what": "driver failed in the formatter storm (%s)" % label, "detail": p.stdout.decode(errors="replace")[-1000:]})
            break
        storm_res.append({json.loads(l)["id"]: (json.loads(l).get("result"), json.loads(l).get("text")) for l in open(cout)})
        evals += len(storm)
    if len(storm_res) == 2:
        for j in range(len(storm)):
            if storm_res[0][j] != storm_res[1][j]:
                violations.append({"what": "a call made while many other threads were generating (64 concurrent calls, rustfmt on) returned a different text than the same call made alone",
                                   "wgsl": storm[j]["wgsl"], "opts": storm[j]["opts"], "include": storm[j]["include"],
                                   "variant": {"workers": 64}, "first": (storm_res[0][j][1] or "")[:1500], "other": (storm_res[1][j][1] or "")[:1500], "kf": None})
                break
    # a transient fault in the middle of a history: during ONE call the formatter cannot be found (that call falls back to the
    # unformatted text); the calls before and after it, with equal arguments, return equal texts
    hist = []
    for j, (src_i, fault) in enumerate([(0, None), (1, None), (2, "/nonexistent-dir"), (0, None), (1, None), (2, None), (3, "/nonexistent-dir"), (0, None)]):
        c_ = dict(storm[src_i])
        c_["id"] = j
        if fault:
            c_["path_env"] = fault
        hist.append((src_i, fault, c_))
    cin = os.path.join(workdir, "history.jsonl")
    cout = os.path.join(workdir, "history.results.jsonl")
    with open(cin, "w") as f:
        for _, _, c_ in hist:
            f.write(json.dumps(c_, ensure_ascii=False) + "\n")
    p = subprocess.run([DRIVER, "gen", cin, cout], env=dict(os.environ, DRIVER_THREADS="1", DRIVER_CHUNK="1"), stdout=subprocess.PIPE, stderr=subprocess.STDOUT, timeout=600)
    if p.returncode != 0:
        broken.append({"what": "driver failed in the transient-fault history", "detail": p.stdout.decode(errors="replace")[-1000:]})
    else:
        hres = [json.loads(l) for l in open(cout)]
        evals += len(hres)
        seen = {}
        for (src_i, fault, c_), r_ in zip(hist, hres):
            if fault:
                continue
            key = src_i
            val = (r_.get("result"), r_.get("text"))
            if key in seen and seen[key] != val:
                violations.append({"what": "a call returned a different text after an earlier call in the same process had failed to find the formatter (calls with equal arguments before and after a transient fault differ)",
                                   "wgsl": c_["wgsl"], "opts": c_["opts"], "include": c_["include"], "variant": {"history": [(a, b) for a, b, _ in hist]},
                                   "first": (seen[key][1] or "")[:1500], "other": (val[1] or "")[:1500], "kf": None})
                break
            seen.setdefault(key, val)
    # a formatter that needs several seconds (and then formats normally): the text must not depend on how long it took
    rc_, out_ = sh("command -v rustfmt")
    real_fmt = out_.strip().split("\n")[-1] if rc_ == 0 else None
    if real_fmt:
        slowdir = os.path.join(workdir, "slow_fmt")
        os.makedirs(slowdir, exist_ok=True)
        sp = os.path.join(slowdir, "rustfmt")
        open(sp, "w").write("#!/bin/sh\nsleep 6\nexec %s \"$@\"\n" % real_fmt)
        os.chmod(sp, 0o755)
        two = [dict(c) for c in storm[:2]]
        texts = []
        for label, path_env in (("normal", os.environ.get("PATH", "")), ("slow", slowdir + ":" + os.environ.get("PATH", ""))):
            cin = os.path.join(workdir, "slow_%s.jsonl" % label)
            cout = os.path.join(workdir, "slow_%s.results.jsonl" % label)
            with open(cin, "w") as f:
                for c in two:
                    f.write(json.dumps(c, ensure_ascii=False) + "\n")
            p = subprocess.run([DRIVER, "gen", cin, cout], env=dict(os.environ, PATH=path_env), stdout=subprocess.PIPE, stderr=subprocess.STDOUT, timeout=600)
            if p.returncode != 0:
                broken.append({"what": "driver failed with the %s formatter" % label, "detail": p.stdout.decode(errors="replace")[-1000:]})
                break
            texts.append([json.loads(l).get("text") for l in open(cout)])
            evals += len(two)
        if len(texts) == 2 and texts[0] != texts[1]:
            violations.append({"what": "the returned text depends on how long the formatter took (a 6 s formatter run gave a different text)",
                               "wgsl": two[0]["wgsl"], "opts": two[0]["opts"], "include": two[0]["include"],
                               "first": (texts[0][0] or "")[:1500], "other": (texts[1][0] or "")[:1500], "kf": None})
    strace_note = "not run (quick tier)"
    if tier == "thorough":
        rc, _ = sh("command -v strace")
        if rc == 0:
            cin = os.path.join(workdir, "strace.jsonl")
            with open(cin, "w") as f:
                for c in cases[:20]:
                    d = {x: c[x] for x in ("id", "wgsl", "include", "opts", "want_text")}
                    d["opts"] = dict(d["opts"], rustfmt=False)
                    f.write(json.dumps(d, ensure_ascii=False) + "\n")
            log_ = os.path.join(workdir, "strace.log")
            sh("strace -f -e trace=execve,openat,open,creat,unlink,rename,connect -o %s %s gen %s %s" % (log_, DRIVER, cin, cin + ".out"), timeout=600)
            bad = []
            for l in open(log_):
                if "execve(" in l and "driver" not in l and "= 0" in l:
                    bad.append(l.strip())
                if ("openat(" in l or "open(" in l) and ("O_WRONLY" in l or "O_RDWR" in l or "O_CREAT" in l) and ".jsonl" not in l and "/dev/" not in l:
                    bad.append(l.strip())
            strace_note = "%d suspicious syscalls" % len(bad)
            if bad:
                violations.append({"what": "generation touches state outside its arguments", "syscalls": bad[:20], "kf": None})
    nontriv = {(c["wgsl"], json.dumps(c["opts"], sort_keys=True)) for c in cases if c["nt"]}
    cov = {"evaluations": evals, "distinct_nontrivial": len(nontriv), "process_runs": nruns, "cases_per_run": len(cases),
           "samples": [{"wgsl": cases[0]["wgsl"][:500], "opts": cases[0]["opts"], "variants": [{"cwd": v[2], "env_keys": sorted(v[1])} for v in variants[:3]]}],
           "traces_validated_against_impl": evals, "strace": strace_note, "worker_threads": 16, "formatter_storm_workers": 64}
    return {"violations": violations, "broken": broken, "coverage": cov}
