"""C18 - output is a pure function of source and options."""
import json
import os
import random
import subprocess

from common import *  # noqa
import sink
import structcases
import structgen
import wgslgen as W

ID = "C18"
THEOREM_REQUIRES = ["C18"]
THEOREMS = ["C18_set_by_membership_only", "C18_marks_by_membership_only"]
PROOF_FILES = ["Properties/C18.v"]
RULE = ("the same list of (shader, options) pairs is generated in N fresh processes (fresh HashSet seeds) with different "
        "working directories, environments (LANG, TZ, HOME, extra variables), case orders (shuffled / reversed: different "
        "histories of previous calls) and with 16 worker threads generating different shaders concurrently; every "
        "returned text / error is compared byte for byte with the first run; shaders: struct programs with many "
        "host-shareable types (the HashSet), call graphs, kitchen-sink, x option sets incl. rustfmt; the thorough tier "
        "adds an strace run asserting that generation opens no file and spawns nothing unless rustfmt is requested; "
        "non-trivial = shader with >= 3 host-shareable types; distinct = distinct (shader, options)")
ASSUMPTIONS = ["schedules and hash seeds are sampled, not enumerated; the theorem covers the model (the only unordered "
               "collection reaches the output through membership alone)"]


def make_cases(rng, tier):
    n = {"quick": 60, "thorough": 300}.get(tier, 60)
    out = []
    for i in range(n):
        k = i % 3
        if k == 0:
            p = structgen.program(rng)
            w = p["wgsl"]
            o = dict(rng.choice(structcases.ALL_OPTS))
            if p["needs_encase"]:
                o.update(encase=True, bm_host=False, bm_vertex=False)
            nt = len(p["truth"]) >= 3
        elif k == 1:
            w = W.random_program(rng, pc=(i % 2 == 0)).render()
            o, nt = {}, True
        else:
            w = sink.sink(rng)["wgsl"]
            o, nt = dict(rng.choice(structcases.ALL_OPTS)), True
        if i % 10 == 9:
            # a large module: more than 64 types, many host-shareable structs (size-dependent code paths)
            nst = rng.randint(70, 90)
            w = "\n".join("struct B%d { a: vec4<f32>, b: array<f32, %d> }\n@group(0) @binding(%d) var<storage, read> b%d: B%d;"
                          % (k, 1 + k % 5, k, k, k) for k in range(nst)) + "\n@compute @workgroup_size(1) fn main() { _ = b0.a; }\n"
            o, nt = dict(rng.choice(structcases.ALL_OPTS)), True
        o["rustfmt"] = (i % 7 == 3)
        inc = None if i % 5 else "a/b.wgsl"
        if i % 10 == 5:
            inc = EXISTING_REL       # a path that exists relative to ONE of the working directories only
        out.append({"id": i, "wgsl": w, "include": inc, "opts": o, "want_text": True, "nt": nt})
    # several formatted outputs well above the 64 KiB pipe buffer, generated concurrently by the worker threads
    for j in range(4):
        nst = 280 + 10 * j
        w = "\n".join("struct H%d_%d { a: vec4<f32>, b: array<f32, %d>, c: mat4x4<f32> }\n@group(0) @binding(%d) var<storage, read> h%d: H%d_%d;"
                      % (j, k, 1 + k % 5, k, k, j, k) for k in range(nst)) + "\n@compute @workgroup_size(1) fn main() { _ = h0.a; }\n"
        out.append({"id": len(out), "wgsl": w, "include": None, "opts": {"rustfmt": True, "bm_host": True, "encase": True, "mv": "Glam"},
                    "want_text": True, "nt": True})
    return out


EXISTING_REL = "c18_exists_here.wgsl"


def run(tier, seed, replay):
    rng = random.Random(seed)
    workdir = os.path.join(WORK, ID)
    os.makedirs(workdir, exist_ok=True)
    cases = make_cases(rng, tier)
    with open(os.path.join(workdir, EXISTING_REL), "w") as f:      # exists relative to cwd = workdir only
        f.write("// present\n")
    nruns = 8 if tier != "thorough" else 24
    variants = []
    for k in range(nruns):
        order = list(range(len(cases)))
        if k % 3 == 1:
            order.reverse()
        elif k % 3 == 2:
            random.Random(seed + k).shuffle(order)
        env = {"PATH": os.environ.get("PATH", ""), "HOME": os.environ.get("HOME", "/root"),   # the rustup proxy of rustfmt needs HOME; the formatter must stay available
               "XDG_CONFIG_HOME": ["/tmp", "/nonexistent", ""][k % 3],
               "LANG": ["C", "en_US.UTF-8", "tr_TR.UTF-8"][k % 3], "TZ": ["UTC", "Asia/Tokio", ""][k % 3],
               "RUST_BACKTRACE": str(k % 2), "W2W_NOISE_%d" % k: "x" * k}
        if k % 4 == 1:
            env["RUSTFMT"] = "/nonexistent/rustfmt"       # tool-selection variables other programs honour must not matter
        elif k % 4 == 2:
            env["RUSTFMT"] = "/bin/cat"
        cwd = ["/verif", "/", "/tmp", workdir][k % 4]
        variants.append((order, env, cwd))
    first, violations, broken, evals = None, [], [], 0
    for k, (order, env, cwd) in enumerate(variants):
        cin = os.path.join(workdir, "run%d.jsonl" % k)
        cout = os.path.join(workdir, "run%d.results.jsonl" % k)
        with open(cin, "w") as f:
            for i in order:
                c = {x: cases[i][x] for x in ("id", "wgsl", "include", "opts", "want_text")}
                f.write(json.dumps(c, ensure_ascii=False) + "\n")
        p = subprocess.run([DRIVER, "gen", cin, cout], env=env, cwd=cwd, stdout=subprocess.PIPE, stderr=subprocess.STDOUT, timeout=600)
        if p.returncode != 0:
            broken.append({"what": "driver failed in variant %d" % k, "detail": p.stdout.decode(errors="replace")[-1000:]})
            continue
        res = {}
        for l in open(cout):
            r = json.loads(l)
            res[r["id"]] = (r.get("result"), r.get("text"), json.dumps(r.get("err"), sort_keys=True), r.get("panic_msg"))
        evals += len(res)
        if first is None:
            first = res
            continue
        for i, v in res.items():
            if v != first[i]:
                violations.append({"what": "two calls with equal source / include path / options returned different results",
                                   "wgsl": cases[i]["wgsl"], "opts": cases[i]["opts"], "include": cases[i]["include"],
                                   "variant": {"index": k, "cwd": cwd, "env": env, "order_head": order[:5]},
                                   "first": first[i][1][:1500] if first[i][1] else first[i], "other": v[1][:1500] if v[1] else v, "kf": None})
                break
    strace_note = "not run (quick tier)"
    if tier == "thorough":
        rc, _ = sh("command -v strace")
        if rc == 0:
            cin = os.path.join(workdir, "strace.jsonl")
            with open(cin, "w") as f:
                for c in cases[:20]:
                    d = {x: c[x] for x in ("id", "wgsl", "include", "opts", "want_text")}
                    d["opts"] = dict(d["opts"], rustfmt=False)
                    f.write(json.dumps(d, ensure_ascii=False) + "\n")
            log_ = os.path.join(workdir, "strace.log")
            sh("strace -f -e trace=execve,openat,open,creat,unlink,rename,connect -o %s %s gen %s %s" % (log_, DRIVER, cin, cin + ".out"), timeout=600)
            bad = []
            for l in open(log_):
                if "execve(" in l and "driver" not in l and "= 0" in l:
                    bad.append(l.strip())
                if ("openat(" in l or "open(" in l) and ("O_WRONLY" in l or "O_RDWR" in l or "O_CREAT" in l) and ".jsonl" not in l and "/dev/" not in l:
                    bad.append(l.strip())
            strace_note = "%d suspicious syscalls" % len(bad)
            if bad:
                violations.append({"what": "generation touches state outside its arguments", "syscalls": bad[:20], "kf": None})
    nontriv = {(c["wgsl"], json.dumps(c["opts"], sort_keys=True)) for c in cases if c["nt"]}
    cov = {"evaluations": evals, "distinct_nontrivial": len(nontriv), "process_runs": nruns, "cases_per_run": len(cases),
           "samples": [{"wgsl": cases[0]["wgsl"][:500], "opts": cases[0]["opts"], "variants": [{"cwd": v[2], "env_keys": sorted(v[1])} for v in variants[:3]]}],
           "traces_validated_against_impl": evals, "strace": strace_note, "worker_threads": 16}
    return {"violations": violations, "broken": broken, "coverage": cov}
